import Mochi.Lemmas.BrokerSurvive
/-!
# C08 — the PUBREC record of an open inbound QoS 2 exchange through every handler (the walk)

The survival walk of `Mochi/Lemmas/BrokerSurviveDefs.lean` / `BrokerSurviveDeliv.lean` / `BrokerSurvive.lean` (C09: the
record of an OUTBOUND exchange) redone for the record of an INBOUND exchange: only the record predicate and the list of
packets that end the exchange differ.  Everything here lives in the namespace `Mochi.Broker.Q08`, so no name of the C09
walk is redefined; generic lemmas of the C09 files (`flGet_flSet_ne`, `nextPacketID_fresh`, …) are used as they are.

* `Q08.Rec c k p`       — client object `c` has, under packet identifier `k`, exactly the record `p`, `p` is of type 5
                           (PUBREC: filed by `processPublish` for an accepted QoS 2 PUBLISH) and is not a record deferred
                           by flow control (`0 ≤ expiry`: `nextImmediate` deletes a deferred record once written, F09 —
                           a PUBREC record never is one: `processPublish` files it with `expiry = NOW + maximum`);
* `Q08.Holds s cid k p` — the object REGISTERED under `cid` has that record;
* `Q08.Ends s cid k op` — decidable: `op` may end the exchange in state `s`.

What differs from C09's `Ends`: a PUBLISH of the client under the SAME identifier does NOT end the exchange
(`processPublish` answers PUBREC 0x91 and returns: server.go:920-925) — unless the connection ends by it and the session
with the connection, which `connEnds ∧ endsWithConn` covers; a PUBREC `k` from the client ends it whatever its reason
code (one in-flight map for both directions, F10: `processPubrec` deletes the record or REPLACES it by a PUBREL record,
server.go:1214-1231).
-/
namespace Mochi.Broker.Q08
open Mochi.Topics

/-! ### the record -/

/-- `m` is the PUBREC record `p` of an inbound QoS 2 exchange -/
def recOk (m p : Msg) : Bool := decide (m = p) && decide (0 ≤ m.expiry) && m.type == 5

def Rec (c : Client) (k : Nat) (p : Msg) : Prop := ∃ m, flGet c k = some m ∧ recOk m p = true

instance (c : Client) (k : Nat) (p : Msg) : Decidable (Rec c k p) :=
  match h : flGet c k with
  | some m =>
    if h' : recOk m p = true then isTrue ⟨m, h, h'⟩
    else isFalse (by rintro ⟨m', hm, hr⟩; rw [h] at hm; cases hm; exact h' hr)
  | none => isFalse (by rintro ⟨m', hm, _⟩; rw [h] at hm; cases hm)

/-- the session registered under `cid` holds the PUBREC record `p` of the inbound exchange `k` -/
def Holds (s : Server) (cid : Str) (k : Nat) (p : Msg) : Prop :=
  ∃ i, assocGet s.clients cid = some i ∧ Rec (getObj s i) k p

instance (s : Server) (cid : Str) (k : Nat) (p : Msg) : Decidable (Holds s cid k p) :=
  match h : assocGet s.clients cid with
  | some i =>
    if h' : Rec (getObj s i) k p then isTrue ⟨i, h, h'⟩
    else isFalse (by rintro ⟨i', hi, hr⟩; rw [h] at hi; cases hi; exact h' hr)
  | none => isFalse (by rintro ⟨i', hi, _⟩; rw [h] at hi; cases hi)

/-! ### what may end the exchange -/

/-- the packets of client object `c` that end (or overwrite — F10: ONE in-flight map serves both directions) the PUBREC
    record under `k`: the client's PUBREL `k` (the legitimate end), and PUBACK `k`, PUBCOMP `k`, PUBREC `k` (answers to a
    message the BROKER would have sent under that identifier); a PUBLISH with identifier `k` does not — except for the
    inline client, whose PUBLISH is not analysed here (model artefact: the inline client never files a PUBREC record) -/
def pkEnds (c : Client) (k : Nat) : InPk → Bool
  | .puback id _ => id == k
  | .pubcomp id _ => id == k
  | .pubrec id _ => id == k
  | .pubrel id _ => id == k
  | .publish _ _ _ id _ _ _ _ => id == k && c.inline
  | _ => false

/-- one inbound packet on connection `conn`, for client id `cid` -/
def EndsRecv (s : Server) (cid : Str) (k : Nat) (conn : Nat) (pk : InPk) (barrier : Bool) : Prop :=
  match assocGet s.connOf conn with
  | some j => (getObj s j).id = cid ∧ (getObj s j).isOpen = true ∧
      (pkEnds (getObj s j) k pk = true ∨ (connEnds s j pk barrier = true ∧ endsWithConn (getObj s j) pk = true))
  | none => False

instance (s : Server) (cid : Str) (k conn : Nat) (pk : InPk) (b : Bool) : Decidable (EndsRecv s cid k conn pk b) := by
  unfold EndsRecv; split <;> infer_instance

/-- the peer sends one packet and vanishes: the connection ends in any case -/
def EndsRecvCut (s : Server) (cid : Str) (k : Nat) (conn : Nat) (pk : InPk) : Prop :=
  match assocGet s.connOf conn with
  | some j => (getObj s j).id = cid ∧ (getObj s j).isOpen = true ∧ (getObj s j).stopped = false ∧
      (pkEnds (getObj s j) k pk = true ∨ endsWithConn (getObj s j) pk = true)
  | none => False

instance (s : Server) (cid : Str) (k conn : Nat) (pk : InPk) : Decidable (EndsRecvCut s cid k conn pk) := by
  unfold EndsRecvCut; split <;> infer_instance

/-- a parked handler runs on: a parked CONNECT as `connect` (stage 1) / with only its barrier left (stage 2); a
    handler parked by `dropHold` / `dropHoldEarly` runs its clean-up -/
def EndsRelease (s : Server) (cid : Str) (k : Nat) (conn : Nat) : Prop :=
  match s.pending.find? (·.conn == conn) with
  | some p =>
    (p.stage = 1 ∧ p.refuse = none ∧ EndsTakeover s cid p.k) ∨
    ((getObj (connectRelease { s with pending := s.pending.filter (·.conn != conn) } p).1 p.obj).isOpen = true ∧
      EndsRecv (connectRelease { s with pending := s.pending.filter (·.conn != conn) } p).1 cid k conn .pingreq false)
  | none => EndsParked s cid conn

instance (s : Server) (cid : Str) (k conn : Nat) : Decidable (EndsRelease s cid k conn) := by
  unfold EndsRelease; split <;> infer_instance

/-- **the ops that may end the inbound exchange `k` of client `cid` in state `s`** (`EndsDrop`, `EndsParked`,
    `EndsTakeover`, `EndsDue`, `EndsExpired` are those of `Mochi/Lemmas/BrokerSurviveDefs.lean`: they do not depend on
    the kind of record) -/
def Ends (s : Server) (cid : Str) (k : Nat) : Op → Prop
  | .recv conn pk => EndsRecv s cid k conn pk true
  | .recvCut conn pk => EndsRecvCut s cid k conn pk
  | .drop conn => EndsDrop s cid conn
  | .dropHold _ => False            -- parked BEFORE the session clean-up: the `release` ends it
  | .dropHoldEarly _ => False
  | .release conn => EndsRelease s cid k conn
  | .connect conn k' =>
    (refuseCode s k' (parseConnect s conn k') = none ∧ EndsTakeover s cid k') ∨
    -- the barrier PINGREQ of the op is an inbound packet on the new connection like any other
    EndsRecv (connect s conn k').1 cid k conn .pingreq false
  | .connectHold conn k' stage =>
    -- parked in the authentication hook (stage 1): nothing is registered yet
    stage ≠ 1 ∧ refuseCode s k' (parseConnect s conn k') = none ∧ EndsTakeover s cid k'
  | .tick kind t => (kind = "clients" ∧ EndsDue s cid t) ∨ (kind = "inflight" ∧ EndsExpired s cid k t)
  | .inlinePublish _ _ _ qos =>
    -- the inline client (object 0) "receives" a PUBLISH whose packet identifier is its QoS
    (getObj s 0).id = cid ∧ qos = k
  | .inlineSubscribe _ _ => False
  | .inlineUnsubscribe _ _ => False

instance (s : Server) (cid : Str) (k : Nat) (op : Op) : Decidable (Ends s cid k op) := by
  cases op <;> unfold Ends <;> infer_instance

/-! ### client level: what keeps the record -/

theorem Rec.of_infl {a b : Client} {k : Nat} {p : Msg} (h : b.inflight = a.inflight) (r : Rec a k p) : Rec b k p := by
  obtain ⟨m, hm, ho⟩ := r
  exact ⟨m, by unfold flGet at hm ⊢; rw [h]; exact hm, ho⟩

theorem Rec.ne_of_none {c : Client} {k id : Nat} {p : Msg} (r : Rec c k p) (h : flGet c id = none) : id ≠ k := by
  rintro rfl
  obtain ⟨m, hm, _⟩ := r
  rw [h] at hm; cases hm

/-- a member of the in-flight list that is not a record of the exchange has another identifier -/
theorem Rec.ne_of_mem {c : Client} {k : Nat} {p : Msg} (r : Rec c k p) (hn : (c.inflight.map (·.id)).Nodup)
    {m : Msg} (hm : m ∈ c.inflight) (hb : recOk m p = false) : m.id ≠ k := by
  intro e
  obtain ⟨m0, hm0, ho⟩ := r
  have := flGet_of_mem c m hn hm
  rw [e, hm0] at this
  cases this
  rw [ho] at hb; cases hb

/-- `b` keeps the record of exchange `k` of `a`, and the parameters that decide whether the session ends with its
    connection -/
structure RK (k : Nat) (a b : Client) : Prop where
  keep : ∀ p, Rec a k p → Rec b k p
  ver : b.ver = a.ver
  clean : b.clean = a.clean
  sei : b.sei = a.sei
  takenOver : b.takenOver = a.takenOver


theorem RK.refl (k : Nat) (a : Client) : RK k a a := by rk_rfl
theorem RK.trans {k : Nat} {a b c : Client} (h : RK k a b) (g : RK k b c) : RK k a c :=
  ⟨fun p r => g.keep p (h.keep p r), g.ver.trans h.ver, g.clean.trans h.clean, g.sei.trans h.sei,
   g.takenOver.trans h.takenOver⟩
theorem RK.of_eq {k : Nat} {a b : Client} (h : a = b) : RK k a b := h ▸ RK.refl k a

/-- the same except in fields other than the in-flight list, which is kept -/
theorem RK.of_sess {k : Nat} {a b : Client} (h : SessEq a b) (hi : b.inflight = a.inflight) : RK k a b :=
  ⟨fun _ r => r.of_infl hi, h.ver.symm, h.clean.symm, h.sei.symm, h.takenOver.symm⟩

theorem RK.flSet_ne' (k : Nat) (c : Client) (m : Msg) (h : m.id ≠ k) : RK k c (flSet c m).1 := by
  refine ⟨fun p r => ?_, ?_, ?_, ?_, ?_⟩
  · obtain ⟨m0, hm0, ho⟩ := r
    exact ⟨m0, by rw [flGet_flSet_ne c m k h]; exact hm0, ho⟩
  all_goals (unfold Mochi.Broker.flSet; split <;> rfl)

theorem RK.flDelete_ne' (k : Nat) (c : Client) (id : Nat) (h : id ≠ k) : RK k c (flDelete c id).1 := by
  refine ⟨fun p r => ?_, rfl, rfl, rfl, rfl⟩
  obtain ⟨m0, hm0, ho⟩ := r
  exact ⟨m0, by rw [flGet_flDelete_ne c id k h]; exact hm0, ho⟩

/-- rewriting the record under `m.id` keeps exchange `k` if `m` is itself a record of the exchange (PUBREC → PUBREL) -/
theorem RK.flSet_ok' (k : Nat) (c : Client) (m : Msg) (h : m.id = k → ∀ p, recOk m p = true) : RK k c (flSet c m).1 := by
  by_cases hk : m.id = k
  · refine ⟨fun p _ => ⟨m, by rw [← hk]; exact flGet_flSet_self_sv c m, h hk p⟩, ?_, ?_, ?_, ?_⟩
    all_goals (unfold Mochi.Broker.flSet; split <;> rfl)
  · exact RK.flSet_ne' k c m hk

theorem RK.decSend' (k : Nat) (c : Client) : RK k c (decSend c) := by
  unfold Mochi.Broker.decSend; split <;> rk_rfl
theorem RK.incSend' (k : Nat) (c : Client) : RK k c (incSend c) := by
  unfold Mochi.Broker.incSend; split <;> rk_rfl
theorem RK.decRecv' (k : Nat) (c : Client) : RK k c (decRecv c) := by
  unfold Mochi.Broker.decRecv; split <;> rk_rfl
theorem RK.incRecv' (k : Nat) (c : Client) : RK k c (incRecv c) := by
  unfold Mochi.Broker.incRecv; split <;> rk_rfl
theorem RK.aliasOutSet' (k : Nat) (c : Client) (t : Str) : RK k c (aliasOutSet c t).1 := by
  unfold Mochi.Broker.aliasOutSet
  split
  · rk_rfl
  · split
    · rk_rfl
    · split <;> rk_rfl

theorem RK.decSend {k : Nat} {a b : Client} (h : RK k a b) : RK k a (decSend b) := h.trans (RK.decSend' k b)
theorem RK.incSend {k : Nat} {a b : Client} (h : RK k a b) : RK k a (incSend b) := h.trans (RK.incSend' k b)
theorem RK.decRecv {k : Nat} {a b : Client} (h : RK k a b) : RK k a (decRecv b) := h.trans (RK.decRecv' k b)
theorem RK.incRecv {k : Nat} {a b : Client} (h : RK k a b) : RK k a (incRecv b) := h.trans (RK.incRecv' k b)
theorem RK.flSet_ne {k : Nat} {a b : Client} (h : RK k a b) (m : Msg) (hm : m.id ≠ k) : RK k a (flSet b m).1 :=
  h.trans (RK.flSet_ne' k b m hm)
theorem RK.flDelete_ne {k : Nat} {a b : Client} (h : RK k a b) (id : Nat) (hm : id ≠ k) : RK k a (flDelete b id).1 :=
  h.trans (RK.flDelete_ne' k b id hm)

/-- a condition on the identifier that only has to hold when `a` holds the record at all -/
theorem RK.flSet_if {k : Nat} {a b : Client} (h : RK k a b) (m : Msg) (hm : ∀ p, Rec a k p → m.id ≠ k) :
    RK k a (flSet b m).1 := by
  refine ⟨fun p r => ((h.flSet_ne m (hm p r)).keep p r), ?_, ?_, ?_, ?_⟩
  all_goals (unfold Mochi.Broker.flSet; split)
  all_goals first | exact h.ver | exact h.clean | exact h.sei | exact h.takenOver

theorem RK.flDelete_if {k : Nat} {a b : Client} (h : RK k a b) (id : Nat) (hm : ∀ p, Rec a k p → id ≠ k) :
    RK k a (flDelete b id).1 :=
  ⟨fun p r => ((h.flDelete_ne id (hm p r)).keep p r), h.ver, h.clean, h.sei, h.takenOver⟩

theorem RK.get_set {k : Nat} {s : Server} {i : Nat} {c d : Client} (h1 : RK k (getObj s i) c) (h2 : RK k c d) :
    RK k (getObj (setObj s i c) i) d := by
  rcases getObj_setObj_self_cases s i c with e | e
  · rw [e]; exact h2
  · rw [e]; exact h1.trans h2

/-! ### server level -/

/-- every object keeps the record of exchange `k` and its session parameters -/
def Surv (k : Nat) (s s' : Server) : Prop := ∀ x, RK k (getObj s x) (getObj s' x)

/-- work done for object `j`: every OTHER object keeps the record of exchange `k`; object `j` itself does if `own` -/
def SurvW (j k : Nat) (own : Prop) (s s' : Server) : Prop := ∀ x, (x ≠ j ∨ own) → RK k (getObj s x) (getObj s' x)

theorem Surv.refl (k : Nat) (s : Server) : Surv k s s := fun _ => RK.refl k _
theorem Surv.trans {k : Nat} {s s1 s2 : Server} (h : Surv k s s1) (g : Surv k s1 s2) : Surv k s s2 :=
  fun x => (h x).trans (g x)
theorem Surv.upd {k : Nat} {s0 s s' : Server} (h : Surv k s0 s) (ho : s'.objs = s.objs) : Surv k s0 s' :=
  fun x => by rw [getObj_of_objs_eq ho x]; exact h x
/-- writing an object related to what was there at the START -/
theorem Surv.set {k : Nat} {s0 s : Server} (h : Surv k s0 s) (i : Nat) (c : Client) (hc : RK k (getObj s0 i) c) :
    Surv k s0 (setObj s i c) := by
  intro x
  by_cases hx : x = i
  · subst hx
    rcases getObj_setObj_self_cases s x c with e | e <;> rw [e]
    · exact hc
    · exact h x
  · rw [getObj_setObj_ne s i x c hx]; exact h x

theorem SurvW.refl (j k : Nat) (own : Prop) (s : Server) : SurvW j k own s s := fun _ _ => RK.refl k _
theorem SurvW.trans {j k : Nat} {own : Prop} {s s1 s2 : Server} (h : SurvW j k own s s1) (g : SurvW j k own s1 s2) :
    SurvW j k own s s2 := fun x hx => (h x hx).trans (g x hx)
theorem Surv.w {k : Nat} {s s' : Server} (h : Surv k s s') (j : Nat) (own : Prop) : SurvW j k own s s' :=
  fun x _ => h x
theorem SurvW.surv {j k : Nat} {own : Prop} {s0 s s' : Server} (h : SurvW j k own s0 s) (g : Surv k s s') :
    SurvW j k own s0 s' := h.trans (g.w j own)
theorem SurvW.weaken {j k : Nat} {own own' : Prop} {s s' : Server} (h : SurvW j k own s s') (hw : own' → own) :
    SurvW j k own' s s' := fun x hx => h x (hx.imp (fun a => a) hw)
theorem SurvW.upd {j k : Nat} {own : Prop} {s0 s s' : Server} (h : SurvW j k own s0 s) (ho : s'.objs = s.objs) :
    SurvW j k own s0 s' := fun x hx => by rw [getObj_of_objs_eq ho x]; exact h x hx
/-- the acting object is rewritten: related to what is there NOW, if `own` -/
theorem SurvW.set {j k : Nat} {own : Prop} {s0 s : Server} (h : SurvW j k own s0 s) (c : Client)
    (hc : own → RK k (getObj s j) c) : SurvW j k own s0 (setObj s j c) := by
  intro x hx
  by_cases hxj : x = j
  · subst hxj
    have ho : own := hx.resolve_left (fun n => n rfl)
    rcases getObj_setObj_self_cases s x c with e | e <;> rw [e]
    · exact (h x hx).trans (hc ho)
    · exact h x hx
  · rw [getObj_setObj_ne s j x c hxj]; exact h x hx
theorem SurvW.mod {j k : Nat} {own : Prop} {s0 s : Server} (h : SurvW j k own s0 s) (f : Client → Client)
    (hf : own → RK k (getObj s j) (f (getObj s j))) : SurvW j k own s0 (modObj s j f) := h.set _ hf
theorem SurvW.fst_mk {α} {j k : Nat} {own : Prop} {s0 x : Server} {y : α} (h : SurvW j k own s0 x) :
    SurvW j k own s0 (x, y).1 := h
/-- the acting object, read back: for the absolute style -/
theorem SurvW.own {j k : Nat} {own : Prop} {s s' : Server} (h : SurvW j k own s s') (ho : own) : Surv k s s' :=
  fun x => h x (Or.inr ho)

theorem SurvW.ite_res {j k : Nat} {own : Prop} {s : Server} {p : Prop} [Decidable p] {a b : HRes}
    (ha : p → SurvW j k own s a.1) (hb : ¬ p → SurvW j k own s b.1) : SurvW j k own s (if p then a else b).1 := by
  by_cases h : p
  · rw [if_pos h]; exact ha h
  · rw [if_neg h]; exact hb h


/-! ### the delivery family -/

theorem publishToClientCore_surv (k : Nat) (s : Server) (i : Nat) (sub : Sub) (f : Bool) (pk : Msg) :
    Surv k s (publishToClientCore s i sub f pk).1 := by
  unfold publishToClientCore
  extract_lets c out
  split
  rename_i c1 out1 heq
  have hc1 : RK k c c1 := by
    split at heq
    · split at heq
      rename_i c' a ex h2
      have h3 := RK.aliasOutSet' k c pk.topic
      rw [h2] at h3
      split at heq <;> (cases heq; exact h3)
    · cases heq; exact RK.refl k _
  clear heq
  extract_lets s1
  have hs1 : Surv k s s1 := (Surv.refl k s).set i c1 hc1
  split
  · split
    · exact hs1.upd rfl
    · split
      · exact hs1.upd rfl
      · rename_i pid hpid
        have hfresh : flGet c1 pid = none := nextPacketID_fresh c1 _ pid hpid
        have hm : ∀ p, Rec c k p → pid ≠ k := fun p r => (hc1.keep p r).ne_of_none hfresh
        extract_lets c2 out2 sentQuota
        have hc2 : RK k c c2 := hc1.trans (by rk_rfl)
        split
        rename_i c3 isNew hfl
        have hc3 : RK k c c3 := by
          have := hc2.flSet_if out2 hm
          rw [hfl] at this
          exact this
        extract_lets c4 s2 src s3
        have hc4 : RK k c c4 := by
          show RK k c (if isNew = true then decSend c3 else c3)
          split
          · exact hc3.decSend
          · exact hc3
        have hs2 : Surv k s s2 := hs1.set i c4 hc4
        have hs3 : Surv k s s3 := by
          show Surv k s (if isNew = true then _ else _)
          split
          · exact hs2.upd rfl
          · exact hs2
        split
        · exact hs3.set i _ (hc4.flSet_if _ hm)
        · split <;> exact hs3
  · split <;> exact hs1

theorem publishToClient_surv (k : Nat) (s : Server) (i : Nat) (sub : Sub) (f : Bool) (pk : Msg) :
    Surv k s (publishToClient s i sub f pk).1 := by
  unfold publishToClient
  split
  · exact Surv.refl k s
  · split
    · exact Surv.refl k s
    · exact publishToClientCore_surv k s i sub f pk

theorem publishToSubscribers_surv (k : Nat) (s : Server) (pk : Msg) : Surv k s (publishToSubscribers s pk).1 := by
  unfold publishToSubscribers
  split
  · exact Surv.refl k s
  · extract_lets e pk' r subsMap inl
    refine foldl_inv (fun (acc : Server × List Out) => Surv k s acc.1) _ _ _ (Surv.refl k s) ?_
    intro acc cs h
    split
    · exact h
    · rename_i j _
      split
      rename_i s' o heq
      have := publishToClient_surv k acc.1 j cs.2 false pk'
      rw [heq] at this
      exact h.trans this

theorem publishRetainedToClient_surv (k : Nat) (s : Server) (i : Nat) (sub : Sub) (ex : Bool) (n : Nat) :
    Surv k s (publishRetainedToClient s i sub ex n).1 := by
  unfold publishRetainedToClient
  split
  · exact Surv.refl k s
  · split
    · exact Surv.refl k s
    · extract_lets sub'
      refine foldl_inv (fun (acc : Server × List Out) => Surv k s acc.1) _ _ _ (Surv.refl k s) ?_
      intro acc r h
      split
      · exact h
      · rename_i m _
        split
        rename_i s' o heq
        have := publishToClient_surv k acc.1 i sub' true m
        rw [heq] at this
        exact h.trans this

theorem retainMsg_surv (k : Nat) (s : Server) (pk : Msg) : Surv k s (retainMsg s pk) := by
  unfold retainMsg
  split
  · exact Surv.refl k s
  · exact (Surv.refl k s).upd rfl

/-! ### closing the acting object's connection -/

theorem stopClient_surv (k : Nat) (s : Server) (i : Nat) : Surv k s (stopClient s i).1 := by
  unfold stopClient
  extract_lets +onlyGivenNames c
  split
  · exact Surv.refl k s
  · exact (Surv.refl k s).set i _ (by rk_rfl)

theorem disconnectClient_surv (k : Nat) (s : Server) (i code : Nat) : Surv k s (disconnectClient s i code).1 := by
  unfold disconnectClient
  extract_lets +onlyGivenNames c w
  split
  rename_i s' o heq
  have := stopClient_surv k s i
  rw [heq] at this
  exact this

/-! ### SUBSCRIBE / UNSUBSCRIBE: the acting object's in-flight list is never touched -/

theorem processUnsubscribe_surv (k : Nat) (s : Server) (i id : Nat) (filters : List Str) :
    SurvW i k True s (processUnsubscribe s i id filters).1 := by
  unfold processUnsubscribe
  extract_lets +onlyGivenNames c inUse r
  have hr : SurvW i k True s r.1 := by
    refine foldl_inv (fun (acc : Server × List Nat) => SurvW i k True s acc.1) _ _ _ (SurvW.refl i k True s) ?_
    intro acc f h
    split
    rename_i s' rcs
    split
    · exact h
    · extract_lets rr src s1 s2
      show SurvW i k True s s2
      refine (h.upd (s' := s1) rfl).mod _ (fun _ => ?_)
      rk_rfl
  generalize r = r' at hr
  split
  rename_i s' rcs
  extract_lets c'
  split <;> exact hr

theorem processSubscribe_surv (k : Nat) (s : Server) (i id subId : Nat) (filters : List Sub) :
    SurvW i k True s (processSubscribe s i id subId filters).1 := by
  unfold processSubscribe
  extract_lets +onlyGivenNames c inUse fin r
  have hr : SurvW i k True s r.1 := by
    refine foldl_inv (fun (acc : Server × List Nat × List Bool) => SurvW i k True s acc.1) _ _ _
      (SurvW.refl i k True s) ?_
    intro acc sub h
    split
    rename_i s' rcs exs
    extract_lets +onlyGivenNames sub'
    split
    · exact h
    · split
      · exact h
      · split
        · exact h
        · split
          · exact h
          · extract_lets +onlyGivenNames rr src s1 s2
            show SurvW i k True s s2
            refine (h.upd (s' := s1) rfl).mod _ (fun _ => ?_)
            rk_rfl
  generalize r = r' at hr
  split
  rename_i s' rcs exs
  extract_lets +onlyGivenNames c'
  split
  · exact hr
  · extract_lets +onlyGivenNames o1 z
    show SurvW i k True s z.1
    refine foldl_inv (fun (acc : Server × List Out) => SurvW i k True s acc.1) _ _ _ hr ?_
    intro acc xk h
    extract_lets +onlyGivenNames x
    split
    · exact h
    · extract_lets +onlyGivenNames src sub'
      split
      rename_i s2 o heq
      have := publishRetainedToClient_surv k acc.1 i sub' x.2.2 xk.2
      rw [heq] at this
      exact h.surv this

/-! ### PUBLISH: the acting object's record under the packet's OWN identifier may go (F10) — no other -/

theorem processPublish_surv (k : Nat) (s : Server) (i : Nat) (qos : Nat) (dup retain : Bool) (id : Nat)
    (topic payload : Str) (msgExpiry : Nat) (alias : Option Nat) :
    SurvW i k (id ≠ k) s (processPublish s i qos dup retain id topic payload msgExpiry alias).1 := by
  unfold processPublish
  extract_lets +onlyGivenNames c
  -- the three early exits share one shape
  have early : ∀ code, SurvW i k (id ≠ k) s
      (if (qos == 0) = true then ((s, [], none) : HRes)
        else if (c.ver != 5) = true then
          match disconnectClient s i code with
          | (s, o) => (s, o, some code)
        else ackRes s i (if (qos == 2) = true then 5 else 4) id code).1 := by
    intro code
    split
    · exact SurvW.refl i k _ s
    · split
      · split
        rename_i s' o heq
        have := disconnectClient_surv k s i code
        rw [heq] at this
        exact this.w i _
      · rw [ackRes_fst]; exact SurvW.refl i k _ s
  refine SurvW.ite_res (fun _ => early _) (fun _ => ?_)
  · refine SurvW.ite_res (fun _ => ?_) (fun _ => ?_)
    · split
      rename_i s' o heq
      have := disconnectClient_surv k s i 0x93
      rw [heq] at this
      exact this.w i _
    · refine SurvW.ite_res (fun _ => early _) (fun _ => ?_)
      · extract_lets +onlyGivenNames e pk pre
        have hpre : ∀ r, pre = some r → r.1 = s := by
          intro r h
          simp only [pre] at h
          split at h
          · cases h
          · split at h
            · split at h
              · cases h; exact ackRes_fst s i 5 id 0x91
              · cases h
            · cases h
        generalize pre = pre' at hpre
        split
        · rename_i r
          rw [hpre r rfl]
          exact SurvW.refl i k _ s
        · clear hpre
          split
          rename_i s1 c1 heq
          have h1 : SurvW i k (id ≠ k) s s1 ∧ (id ≠ k → RK k (getObj s1 i) c1) := by
            split at heq
            · cases heq
              exact ⟨((SurvW.refl i k _ s).set _ (fun hne => RK.flDelete_ne' k c id hne)).upd rfl,
                     fun hne => RK.get_set (RK.flDelete_ne' k c id hne) (RK.refl k _)⟩
            · cases heq
              exact ⟨SurvW.refl i k _ s, fun _ => RK.refl k _⟩
          clear heq
          obtain ⟨hs1, ho1⟩ := h1
          split
          rename_i c2 pk2 heq
          have hc2 : RK k c1 c2 := by
            split at heq
            · split at heq
              · split at heq
                · cases heq; exact RK.refl k _
                · split at heq
                  · split at heq
                    · cases heq; exact RK.refl k _
                    · cases heq; rk_rfl
                  · cases heq; rk_rfl
              · cases heq; exact RK.refl k _
            · cases heq; exact RK.refl k _
          clear heq
          extract_lets +onlyGivenNames s2
          have hs2 : SurvW i k (id ≠ k) s s2 := hs1.set c2 (fun hne => (ho1 hne).trans hc2)
          split
          · split
            rename_i s' o heq
            have := disconnectClient_surv k s2 i 0x82
            rw [heq] at this
            exact hs2.surv this
          extract_lets +onlyGivenNames pk3 mode
          split
          · exact hs2
          · split
            · rw [ackRes_fst]; exact hs2
            · extract_lets +onlyGivenNames pk4 s3
              have hs3 : SurvW i k (id ≠ k) s s3 := by
                show SurvW i k (id ≠ k) s (if pk4.retain = true then retainMsg s2 pk4 else s2)
                split
                · exact hs2.surv (retainMsg_surv k s2 pk4)
                · exact hs2
              split
              · split
                rename_i s4 o heq
                have := publishToSubscribers_surv k s3 pk4
                rw [heq] at this
                exact hs3.surv this
              · extract_lets +onlyGivenNames s4 ackT ackRC ack
                have hs4 : SurvW i k (id ≠ k) s s4 := hs3.mod decRecv (fun _ => RK.decRecv' k _)
                split
                rename_i c5 isNew heq
                have hc5 : id ≠ k → RK k (getObj s4 i) c5 := by
                  intro hne
                  have := RK.flSet_ne' k (getObj s4 i) ack hne
                  rw [heq] at this
                  exact this
                clear heq
                extract_lets +onlyGivenNames s5 src s6
                have hs5 : SurvW i k (id ≠ k) s s5 := hs4.set c5 hc5
                have hs6 : SurvW i k (id ≠ k) s s6 := by
                  show SurvW i k (id ≠ k) s (if isNew = true then _ else s5)
                  split
                  · exact hs5.upd rfl
                  · exact hs5
                split
                · exact hs6
                · extract_lets +onlyGivenNames o1 s7
                  have hs7 : SurvW i k (id ≠ k) s s7 := by
                    show SurvW i k (id ≠ k) s (if (pk4.qos == 1) = true then _ else s6)
                    split
                    · split
                      rename_i c6 ok heq
                      have hc6 : id ≠ k → RK k (getObj s6 i) c6 := by
                        intro hne
                        have := RK.flDelete_ne' k (getObj s6 i) id hne
                        rw [heq] at this
                        exact this
                      extract_lets +onlyGivenNames s8
                      have hs8 : SurvW i k (id ≠ k) s s8 := hs6.set _ (fun hne => (hc6 hne).incRecv)
                      split
                      · exact hs8.upd rfl
                      · exact hs8
                    · exact hs6
                  split
                  rename_i s9 o2 heq
                  have := publishToSubscribers_surv k s7 pk4
                  rw [heq] at this
                  exact hs7.surv this


/-! ### PUBLISH under the identifier of the open exchange: answered (PUBREC 0x91), the record kept -/

theorem ite_res_P {P : Server → Prop} {p : Prop} [Decidable p] {a b : HRes}
    (ha : p → P a.1) (hb : ¬ p → P b.1) : P (if p then a else b).1 := by
  by_cases h : p
  · rw [if_pos h]; exact ha h
  · rw [if_neg h]; exact hb h

/-- a PUBLISH of a network client under the packet identifier of an open inbound QoS 2 exchange (a PUBREC record is
    filed under it) changes nothing in the broker but, possibly, closes the publisher's connection: the state after
    `processPublish` is the state before, or the state after `DisconnectClient` -/
theorem processPublish_dup_state (s : Server) (i qos : Nat) (dup retain : Bool) (id : Nat) (topic payload : Str)
    (me : Nat) (al : Option Nat) (pki : Msg) (hin : (getObj s i).inline = false)
    (hrec : flGet (getObj s i) id = some pki) (ht : pki.type = 5) :
    (processPublish s i qos dup retain id topic payload me al).1 = s ∨
    ∃ code, (processPublish s i qos dup retain id topic payload me al).1 = (disconnectClient s i code).1 := by
  unfold processPublish
  extract_lets +onlyGivenNames c
  have early : ∀ code, (fun x => x = s ∨ ∃ code, x = (disconnectClient s i code).1)
      (if (qos == 0) = true then ((s, [], none) : HRes)
        else if (c.ver != 5) = true then
          match disconnectClient s i code with
          | (s, o) => (s, o, some code)
        else ackRes s i (if (qos == 2) = true then 5 else 4) id code).1 := by
    intro code
    split
    · exact Or.inl rfl
    · split
      · split
        rename_i s' o heq
        exact Or.inr ⟨code, by rw [heq]⟩
      · rw [ackRes_fst]; exact Or.inl rfl
  refine ite_res_P (P := fun x => x = s ∨ ∃ code, x = (disconnectClient s i code).1) (fun _ => early _) (fun _ => ?_)
  refine ite_res_P (P := fun x => x = s ∨ ∃ code, x = (disconnectClient s i code).1) (fun _ => ?_) (fun _ => ?_)
  · split
    rename_i s' o heq
    exact Or.inr ⟨0x93, by rw [heq]⟩
  refine ite_res_P (P := fun x => x = s ∨ ∃ code, x = (disconnectClient s i code).1) (fun _ => early _) (fun _ => ?_)
  extract_lets +onlyGivenNames e pk pre
  have hin' : c.inline = false := hin
  have hrec' : flGet c id = some pki := hrec
  have ht' : (pki.type == 5) = true := by rw [ht]; rfl
  have hpre : pre = some (ackRes s i 5 id 0x91) := by
    simp only [pre, hin', hrec', ht', Bool.false_eq_true, if_false, if_true]
  generalize pre = pre' at hpre
  subst hpre
  left
  exact ackRes_fst s i 5 id 0x91

/-- `processPublish` for object `i`: every other object keeps the record; object `i` itself does too when the packet's
    identifier is another one, or it IS the exchange's and `i` is a network client -/
theorem processPublish_sv (k : Nat) (s : Server) (i : Nat) (qos : Nat) (dup retain : Bool) (id : Nat)
    (topic payload : Str) (msgExpiry : Nat) (alias : Option Nat) :
    SurvW i k (id = k → (getObj s i).inline = false) s
      (processPublish s i qos dup retain id topic payload msgExpiry alias).1 := by
  intro x hx
  by_cases hid : id = k
  · by_cases hxi : x = i
    · subst hxi
      have hin := hx.resolve_left (fun n => n rfl) hid
      -- the session parameters: from the C09 walk, for another identifier
      have hc := _root_.Mochi.Broker.processPublish_surv (id + 1) s x qos dup retain id topic payload msgExpiry alias x
        (Or.inr (Nat.ne_of_lt (Nat.lt_succ_self id)))
      refine ⟨fun p r => ?_, hc.ver, hc.clean, hc.sei, hc.takenOver⟩
      obtain ⟨m, hm, hok⟩ := r
      have ht : m.type = 5 := by
        have : (m.type == 5) = true := (Bool.and_eq_true_iff.mp hok).2
        simpa using this
      rcases processPublish_dup_state s x qos dup retain id topic payload msgExpiry alias m hin
        (by rw [hid]; exact hm) ht with e | ⟨code, e⟩
      · rw [e]; exact ⟨m, hm, hok⟩
      · rw [e]; exact (disconnectClient_surv k s x code x).keep p ⟨m, hm, hok⟩
    · exact processPublish_surv k s i qos dup retain id topic payload msgExpiry alias x (Or.inl hxi)
  · exact processPublish_surv k s i qos dup retain id topic payload msgExpiry alias x (Or.inr hid)

/-! ### acknowledgements -/

theorem processPuback_sv (k : Nat) (s : Server) (i id : Nat) : SurvW i k (id ≠ k) s (processPuback s i id).1 := by
  unfold processPuback
  extract_lets +onlyGivenNames c
  split
  · exact SurvW.refl _ _ _ _
  · extract_lets +onlyGivenNames c'
    exact ((SurvW.refl i k _ s).set c' (fun hne => (RK.flDelete_ne' k c id hne).incSend)).upd rfl



theorem processPubrec_sv (k : Nat) (s : Server) (i id rc : Nat) : SurvW i k (id ≠ k) s (processPubrec s i id rc).1 := by
  unfold processPubrec
  extract_lets +onlyGivenNames c
  split
  · rw [ackRes_fst]; exact SurvW.refl _ _ _ _
  · split
    · extract_lets +onlyGivenNames c'
      exact ((SurvW.refl i k _ s).set c' (fun hne => RK.flDelete_ne' k c id hne)).upd rfl
    · extract_lets +onlyGivenNames ack c' s1
      have hs1 : SurvW i k (id ≠ k) s s1 :=
        (SurvW.refl i k _ s).set c' (fun hne => (RK.decRecv' k c).trans (RK.flSet_ne' k _ ack hne))
      split <;> exact hs1

theorem processPubrel_sv (k : Nat) (s : Server) (i id rc : Nat) : SurvW i k (id ≠ k) s (processPubrel s i id rc).1 := by
  unfold processPubrel
  extract_lets +onlyGivenNames c
  split
  · rw [ackRes_fst]; exact SurvW.refl _ _ _ _
  · split
    · extract_lets +onlyGivenNames c'
      exact ((SurvW.refl i k _ s).set c' (fun hne => RK.flDelete_ne' k c id hne)).upd rfl
    · extract_lets +onlyGivenNames ack c1 s1
      have hc1 : id ≠ k → RK k c c1 := fun hne => RK.flSet_ne' k c ack hne
      have hs1 : SurvW i k (id ≠ k) s s1 := (SurvW.refl i k _ s).set c1 hc1
      split
      · exact hs1
      · extract_lets +onlyGivenNames o c2
        split
        rename_i c3 ok heq
        extract_lets +onlyGivenNames s2
        have hc3 : id ≠ k → RK k c1 c3 := by
          intro hne
          have := RK.flDelete_ne' k c2 id hne
          rw [heq] at this
          exact ((RK.incRecv' k c1).incSend).trans this
        have hs2 : SurvW i k (id ≠ k) s s2 :=
          hs1.set c3 (fun hne => RK.get_set (hc1 hne) (hc3 hne))
        split
        · exact hs2.upd rfl
        · exact hs2

theorem processPubcomp_sv (k : Nat) (s : Server) (i id : Nat) : SurvW i k (id ≠ k) s (processPubcomp s i id).1 := by
  unfold processPubcomp
  extract_lets +onlyGivenNames c
  split
  rename_i c1 ok heq
  extract_lets +onlyGivenNames s1
  have hc1 : id ≠ k → RK k (getObj s i) c1 := by
    intro hne
    have := RK.flDelete_ne' k c id hne
    rw [heq] at this
    exact ((RK.incRecv' k (getObj s i)).incSend).trans this
  have hs1 : SurvW i k (id ≠ k) s s1 := (SurvW.refl i k _ s).set c1 hc1
  split
  · exact hs1.upd rfl
  · exact hs1

/-! ### the release of a deferred message (finding F09: its record is deleted once written) -/

theorem nextImmediate_sv (k : Nat) (s : Server) (i : Nat) :
    SurvW i k (ObjWF (getObj s i)) s (nextImmediate s i).1 := by
  unfold nextImmediate
  extract_lets +onlyGivenNames c
  split
  · split
    · rename_i m hm
      extract_lets +onlyGivenNames o
      split
      rename_i c1 ok heq
      extract_lets +onlyGivenNames s1
      have hmem : m ∈ c.inflight ∧ m.expiry < 0 := by
        have h1 := List.mem_of_mem_head? hm
        have h2 := mem_permuteBy _ _ _ h1
        have h3 := List.mem_filter.mp h2
        exact ⟨h3.1, by simpa using h3.2⟩
      have hc1 : ObjWF (getObj s i) → RK k c c1 := by
        intro hw
        have := RK.flDelete_if (RK.refl k c) m.id (fun p r => r.ne_of_mem hw.ids_nodup hmem.1 (by
          have : ¬ (0 ≤ m.expiry) := by omega
          simp [recOk, this]))
        rw [heq] at this
        exact this
      have hs0 : SurvW i k (ObjWF (getObj s i)) s { s with nextSeed := s.nextSeed / 64 } :=
        (SurvW.refl i k _ s).upd rfl
      have hs1 : SurvW i k (ObjWF (getObj s i)) s s1 := hs0.set _ (fun hw => (hc1 hw).decSend)
      split
      · exact hs1.upd rfl
      · exact hs1
    · exact SurvW.refl _ _ _ _
  · exact SurvW.refl _ _ _ _

/-! ### closing -/

theorem stopClient_sv (k : Nat) (s : Server) (i : Nat) : Surv k s (stopClient s i).1 := by
  unfold stopClient
  extract_lets +onlyGivenNames c
  split
  · exact Surv.refl k s
  · exact (Surv.refl k s).set i _ (by rk_rfl)

theorem disconnectClient_sv (k : Nat) (s : Server) (i code : Nat) : Surv k s (disconnectClient s i code).1 := by
  unfold disconnectClient
  extract_lets +onlyGivenNames c w
  split
  rename_i s' o heq
  have := stopClient_sv k s i
  rw [heq] at this
  exact this


theorem setObj_congr_sv (k : Nat) (s : Server) (i : Nat) (a b : Client) (h : RK k a b) :
    Surv k (setObj s i a) (setObj s i b) := by
  intro x
  by_cases hx : x = i
  · subst hx
    by_cases hl : x < s.objs.length
    · rw [getObj_setObj_eq s x a hl, getObj_setObj_eq s x b hl]; exact h
    · rw [getObj_setObj_ge s x a hl, getObj_setObj_ge s x b hl]; exact RK.refl k _
  · rw [getObj_setObj_ne s i x a hx, getObj_setObj_ne s i x b hx]; exact RK.refl k _

theorem setObj_same_sv (k : Nat) (s : Server) (i : Nat) (a : Client) (h : RK k a (getObj s i)) :
    Surv k (setObj s i a) s := by
  intro x
  by_cases hx : x = i
  · subst hx
    rcases getObj_setObj_self_cases s x a with e | e <;> rw [e]
    · exact h
    · exact RK.refl k _
  · rw [getObj_setObj_ne s i x a hx]; exact RK.refl k _

theorem same_setObj_sv (k : Nat) (s : Server) (i : Nat) (a : Client) (h : RK k (getObj s i) a) :
    Surv k s (setObj s i a) := (Surv.refl k s).set i a h

/-- a packet that is not a DISCONNECT with a session expiry interval: nothing to prepare -/
theorem preState_same (k : Nat) (s : Server) (j : Nat) (pk : InPk) (h : seiAfter (getObj s j) pk = (getObj s j).sei) :
    Surv k (preState s j pk) s :=
  setObj_same_sv k s j _ ⟨fun _ r => r, rfl, rfl, h.symm, rfl⟩

theorem processDisconnect_sv (k : Nat) (s : Server) (i rc : Nat) (sei : Option Nat) :
    SurvW i k True (preState s i (.disconnect rc sei)) (processDisconnect s i rc sei).1 := by
  unfold processDisconnect
  extract_lets +onlyGivenNames c r
  have hr : (r = none ∧ seiAfter c (.disconnect rc sei) = c.sei) ∨
      ∃ c', r = some (s, c') ∧ RK k { c with sei := seiAfter c (.disconnect rc sei) } c' := by
    simp only [r]
    cases sei with
    | none => exact Or.inr ⟨c, rfl, by rk_rfl⟩
    | some v =>
      by_cases hv : (decide (v > 0) && c.sei == 0) = true
      · left
        refine ⟨by dsimp only; rw [if_pos hv], ?_⟩
        show (if (decide (v > 0) && c.sei == 0) = true then c.sei else v) = c.sei
        rw [if_pos hv]
      · right
        refine ⟨_, by dsimp only; rw [if_neg hv], ?_⟩
        have : seiAfter c (.disconnect rc (some v)) = v := by
          show (if (decide (v > 0) && c.sei == 0) = true then c.sei else v) = v
          rw [if_neg hv]
        rw [this]
        rk_rfl
  generalize r = r' at hr
  rcases hr with ⟨rfl, hs⟩ | ⟨c', rfl, hc'⟩
  · exact (preState_same k s i _ hs).w _ _
  · show SurvW i k True _ (match (some (s, c') : Option (Server × Client)) with
      | none => ((s, [], some 0x82) : HRes)
      | some (s, c) => _).1
    simp only []
    have hs1 : SurvW i k True (preState s i (.disconnect rc sei)) (setObj s i c') :=
      (setObj_congr_sv k s i _ _ hc').w _ _
    split
    · exact hs1
    · refine SurvW.fst_mk ?_
      have h2 := stopClient_sv k { setObj s i c' with willDelayed := assocDel (setObj s i c').willDelayed c'.id } i
      exact (SurvW.upd (s' := { setObj s i c' with willDelayed := assocDel (setObj s i c').willDelayed c'.id })
        hs1 rfl).surv h2

/-! ### the session clean-up -/

theorem unsubscribeClient_sv (k : Nat) (s : Server) (i : Nat) : Surv k s (unsubscribeClient s i) := by
  unfold unsubscribeClient
  extract_lets +onlyGivenNames c s1
  have h1 : Surv k s s1 := (Surv.refl k s).set i _ (by rk_rfl)
  split
  · exact h1
  · refine foldl_inv (fun (x : Server) => Surv k s x) _ _ _ h1 ?_
    intro b a h
    exact h.upd rfl

theorem clearInflights_sv (k : Nat) (s : Server) (i : Nat) : SurvW i k False s (clearInflights s i) := by
  unfold clearInflights
  extract_lets +onlyGivenNames c n
  exact ((SurvW.refl i k False s).set _ (fun h => h.elim)).upd rfl

theorem RK.endsWithConn0 {k : Nat} {a b : Client} (h : RK k a b) : endsWithConn0 b = endsWithConn0 a := by
  unfold Mochi.Broker.endsWithConn0 sessionClean
  rw [h.ver, h.clean, h.sei, h.takenOver]

/-- `detachB`: the session of object `i` is discarded exactly if it is a clean one that was not taken over -/
theorem detachB_sv (k : Nat) (s : Server) (i : Nat) :
    SurvW i k (endsWithConn0 (getObj s i) = false) s (detachB s i) := by
  unfold detachB
  extract_lets +onlyGivenNames c expire s3 s4 s2
  refine SurvW.upd (s := s2) ?_ rfl
  show SurvW i k _ s (if (expire && !c.takenOver) = true then _ else s)
  split
  · rename_i hexp
    refine SurvW.weaken (own := False) ?_ (fun h => ?_)
    · have h3 : SurvW i k False s s3 := clearInflights_sv k s i
      exact (h3.surv (unsubscribeClient_sv k s3 i)).upd rfl
    · have : endsWithConn0 (getObj s i) = true := hexp
      rw [this] at h; cases h
  · exact SurvW.refl _ _ _ _


/-! ### leaving the read loop -/

theorem sendLWT_sv (k : Nat) (s : Server) (i : Nat) : Surv k s (sendLWT s i).1 := by
  unfold sendLWT
  extract_lets +onlyGivenNames c
  split
  · exact Surv.refl k s
  · extract_lets +onlyGivenNames pk
    split
    · exact (Surv.refl k s).upd rfl
    · extract_lets +onlyGivenNames s1
      have hs1 : Surv k s s1 := by
        show Surv k s (if pk.retain = true then retainMsg s pk else s)
        split
        · exact retainMsg_surv k s pk
        · exact Surv.refl k s
      split
      rename_i s2 o heq
      have := publishToSubscribers_surv k s1 pk
      rw [heq] at this
      have h2 : Surv k s s2 := hs1.trans this
      show Surv k s (modObj s2 i _)
      exact h2.trans (same_setObj_sv k s2 i _ (by rk_rfl))

theorem detachA_sv (k : Nat) (s : Server) (i : Nat) (withErr : Bool) : Surv k s (detachA s i withErr).1 := by
  unfold detachA
  split
  · split
    rename_i s2 o2 h2
    split
    rename_i s3 o3 h3
    have a := sendLWT_sv k s i
    rw [h2] at a
    have b := stopClient_sv k s2 i
    rw [h3] at b
    exact a.trans b
  · exact same_setObj_sv k s i _ (by rk_rfl)

theorem detach_sv (k : Nat) (s : Server) (i : Nat) (withErr : Bool) :
    SurvW i k (endsWithConn0 (getObj s i) = false) s (detach s i withErr).1 := by
  unfold detach
  split
  rename_i s1 o1 heq
  have hs1 : Surv k s s1 := by
    have := detachA_sv k s i withErr
    rw [heq] at this
    exact this
  refine (hs1.w _ _).trans ((detachB_sv k s1 i).weaken (fun h => ?_))
  rw [(hs1 i).endsWithConn0]; exact h


/-! ### one inbound packet -/

theorem receivePacket_sv (k : Nat) (s : Server) (i : Nat) (pk : InPk) (hw : WF s) :
    SurvW i k (pkEnds (getObj s i) k pk = false) (preState s i pk) (receivePacket s i pk).1 := by
  unfold receivePacket
  extract_lets +onlyGivenNames c r
  have hr : SurvW i k (pkEnds (getObj s i) k pk = false) (preState s i pk) r.1 ∧ WF r.1 := by
    simp only [r]
    split
    · rename_i q d rt id tp pl me al
      have h0 : SurvW i k (pkEnds (getObj s i) k (.publish q d rt id tp pl me al) = false)
          (preState s i (.publish q d rt id tp pl me al)) s := (preState_same k s i _ rfl).w _ _
      split
      · exact ⟨h0, hw⟩
      · exact ⟨h0.trans ((processPublish_sv k s i q d rt id tp pl me al).weaken
          (fun h e => by
            have h : (id == k && (getObj s i).inline) = false := h
            have e' : (id == k) = true := by simpa using e
            rw [e', Bool.true_and] at h
            exact h)), processPublish_wf _ _ _ _ _ _ _ _ _ _ hw⟩
    · rename_i id si fs
      have h0 : SurvW i k (pkEnds (getObj s i) k (.subscribe id si fs) = false) (preState s i (.subscribe id si fs)) s :=
        (preState_same k s i _ rfl).w _ _
      split
      · exact ⟨h0, hw⟩
      · exact ⟨h0.trans ((processSubscribe_surv k s i id si fs).weaken (fun _ => trivial)),
          processSubscribe_wf _ _ _ _ _ hw⟩
    · rename_i id fs
      have h0 : SurvW i k (pkEnds (getObj s i) k (.unsubscribe id fs) = false) (preState s i (.unsubscribe id fs)) s :=
        (preState_same k s i _ rfl).w _ _
      split
      · exact ⟨h0, hw⟩
      · exact ⟨h0.trans ((processUnsubscribe_surv k s i id fs).weaken (fun _ => trivial)),
          processUnsubscribe_wf _ _ _ _ hw⟩
    · rename_i id rc
      have h0 : SurvW i k (pkEnds (getObj s i) k (.puback id rc) = false) (preState s i (.puback id rc)) s :=
        (preState_same k s i _ rfl).w _ _
      exact ⟨h0.trans ((processPuback_sv k s i id).weaken (fun h => by simpa [pkEnds] using h)),
        processPuback_wf _ _ _ hw⟩
    · rename_i id rc
      have h0 : SurvW i k (pkEnds (getObj s i) k (.pubrec id rc) = false) (preState s i (.pubrec id rc)) s :=
        (preState_same k s i _ rfl).w _ _
      exact ⟨h0.trans ((processPubrec_sv k s i id rc).weaken (fun h => by simpa [pkEnds] using h)),
        processPubrec_wf _ _ _ _ hw⟩
    · rename_i id rc
      have h0 : SurvW i k (pkEnds (getObj s i) k (.pubrel id rc) = false) (preState s i (.pubrel id rc)) s :=
        (preState_same k s i _ rfl).w _ _
      exact ⟨h0.trans ((processPubrel_sv k s i id rc).weaken (fun h => by simpa [pkEnds] using h)),
        processPubrel_wf _ _ _ _ hw⟩
    · rename_i id rc
      have h0 : SurvW i k (pkEnds (getObj s i) k (.pubcomp id rc) = false) (preState s i (.pubcomp id rc)) s :=
        (preState_same k s i _ rfl).w _ _
      exact ⟨h0.trans ((processPubcomp_sv k s i id).weaken (fun h => by simpa [pkEnds] using h)),
        processPubcomp_wf _ _ _ hw⟩
    · have h0 : SurvW i k (pkEnds (getObj s i) k .pingreq = false) (preState s i .pingreq) s :=
        (preState_same k s i _ rfl).w _ _
      split <;> exact ⟨h0, hw⟩
    · rename_i rc sei
      exact ⟨(processDisconnect_sv k s i rc sei).weaken (fun _ => trivial), processDisconnect_wf _ _ _ _ hw⟩
  generalize r = r' at hr
  split
  · rename_i s1 o
    split
    rename_i s2 o2 heq
    have := nextImmediate_sv k s1 i
    rw [heq] at this
    exact hr.1.trans (this.weaken (fun _ => hr.2.allWF i))
  · rename_i s1 o code
    split
    · split
      rename_i s2 o2 heq
      have := disconnectClient_sv k s1 i code
      rw [heq] at this
      exact hr.1.surv this
    · exact hr.1

/-! ### one inbound packet on a connection: `recvOn` -/

theorem preState_same' (k : Nat) (s : Server) (j : Nat) (pk : InPk) (h : seiAfter (getObj s j) pk = (getObj s j).sei) :
    Surv k s (preState s j pk) :=
  same_setObj_sv k s j _ ⟨fun _ r => r, rfl, rfl, h, rfl⟩



/-- the walk through `recvOn` for an open connection of object `j`: every other object keeps the record; object `j`
    itself does (`own`) if the packet does not end the exchange and the session does not end with the connection -/
theorem recvOn_walk (k : Nat) (s : Server) (conn : Nat) (pk : InPk) (b : Bool) (j : Nat) (own : Prop) (hw : WF s)
    (hc : assocGet s.connOf conn = some j) (hopen : (getObj s j).isOpen = true)
    (hown1 : own → pkEnds (getObj s j) k pk = false)
    (hown2 : own → connEnds s j pk b = true → endsWithConn (getObj s j) pk = false) :
    SurvW j k own (preState s j pk) (recvOn s conn pk b).1 ∧ (own → (recvOn s conn pk b).1.clients = s.clients) := by
  have hj : j < s.objs.length := hw.conn_valid conn j (assocGet_mem _ _ _ hc)
  unfold recvOn
  split
  · rename_i h; rw [hc] at h; cases h
  · rename_i j' hc'
    rw [hc] at hc'; cases hc'
    split
    · rename_i hno; rw [hopen] at hno; cases hno
    · split
      rename_i s1 o e heq
      have h1 := receivePacket_sv k s j pk hw
      rw [heq] at h1
      have w1 : WF s1 := by have := receivePacket_wf s j pk hw; rw [heq] at this; exact this
      have sm1 := (receivePacket_own s j hj pk).same
      rw [heq] at sm1
      have c1 : s1.clients = s.clients := sm1.clients
      have hj1 : j < s1.objs.length := by rw [sm1.len]; exact hj
      have h1' : SurvW j k own (preState s j pk) s1 := h1.weaken hown1
      have e1 : ∀ sX, SurvW j k own (preState s j pk) sX → own → connEnds s j pk b = true →
          endsWithConn0 (getObj sX j) = false := by
        intro sX hX ho hce
        rw [(hX j (Or.inr ho)).endsWithConn0, getObj_preState _ _ _ hj]; exact hown2 ho hce
      have fin : ∀ sX bb, SurvW j k own (preState s j pk) sX → sX.clients = s.clients → connEnds s j pk b = true →
          SurvW j k own (preState s j pk) (detach sX j bb).1 ∧ (own → (detach sX j bb).1.clients = s.clients) := by
        intro sX bb hX cX hce
        exact ⟨hX.trans ((detach_sv k sX j bb).weaken (fun ho => e1 sX hX ho hce)),
          fun ho => (detach_clients sX j bb (e1 sX hX ho hce)).trans cX⟩
      split
      · split
        rename_i s2 o2 hd
        have hce : connEnds s j pk b = true := by simp [connEnds, heq]
        have := fin s1 true h1' c1 hce
        rw [hd] at this
        exact this
      · split
        · rename_i hclosed
          split
          rename_i s2 o2 hd
          have hce : connEnds s j pk b = true := by simp [connEnds, heq, hclosed]
          have := fin s1 false h1' c1 hce
          rw [hd] at this
          exact this
        · rename_i hstill
          split
          · rename_i hb
            split
            rename_i s2 o2 e2 heq2
            have h2 := receivePacket_sv k s1 j .pingreq w1
            rw [heq2] at h2
            have sm2 := (receivePacket_own s1 j hj1 .pingreq).same
            rw [heq2] at sm2
            have c2 : s2.clients = s.clients := sm2.clients.trans c1
            have h12 : SurvW j k own (preState s j pk) s2 :=
              h1'.trans (((preState_same' k s1 j .pingreq rfl).w _ _).trans (h2.weaken (fun _ => rfl)))
            extract_lets +onlyGivenNames o2f
            split
            · split
              rename_i s3 o3 hd
              have hce : connEnds s j pk b = true := by simp [connEnds, heq, heq2, hb]
              have := fin s2 true h12 c2 hce
              rw [hd] at this
              exact this
            · exact ⟨h12, fun _ => c2⟩
          · exact ⟨h1', fun _ => c1⟩

/-! ### the session and its record, op by op -/

/-- the object registered under `cid` is `i`, and it holds the record -/
def HoldsAt (s : Server) (cid : Str) (k : Nat) (p : Msg) (i : Nat) : Prop :=
  assocGet s.clients cid = some i ∧ Rec (getObj s i) k p

theorem HoldsAt.holds {s : Server} {cid : Str} {k : Nat} {p : Msg} {i : Nat} (h : HoldsAt s cid k p i) :
    Holds s cid k p := ⟨i, h⟩

theorem HoldsAt.id {s : Server} {cid : Str} {k : Nat} {p : Msg} {i : Nat} (h : HoldsAt s cid k p i) (hw : WF s) :
    (getObj s i).id = cid := (hw.clients_valid cid i (assocGet_mem _ _ _ h.1)).2

theorem HoldsAt.lt {s : Server} {cid : Str} {k : Nat} {p : Msg} {i : Nat} (h : HoldsAt s cid k p i) (hw : WF s) :
    i < s.objs.length := (hw.clients_valid cid i (assocGet_mem _ _ _ h.1)).1

theorem preState_keep (k : Nat) (s : Server) (j : Nat) (pk : InPk) (x : Nat) (p : Msg)
    (r : Rec (getObj s x) k p) : Rec (getObj (preState s j pk) x) k p := by
  by_cases hx : x = j
  · subst hx
    rcases getObj_setObj_self_cases s x { getObj s x with sei := seiAfter (getObj s x) pk } with e | e
    · unfold preState; rw [e]; exact r.of_infl rfl
    · unfold preState; rw [e]; exact r
  · rw [getObj_preState_ne s j x pk hx]; exact r

theorem recvOn_holds (k : Nat) (p : Msg) (cid : Str) (s : Server) (conn : Nat) (pk : InPk) (b : Bool) (i : Nat) (hw : WF s)
    (h : HoldsAt s cid k p i) (hne : ¬ EndsRecv s cid k conn pk b) : HoldsAt (recvOn s conn pk b).1 cid k p i := by
  cases hc : assocGet s.connOf conn with
  | none =>
    have : recvOn s conn pk b = (s, []) := by unfold recvOn; rw [hc]
    rw [this]; exact h
  | some j =>
    by_cases hopen : (getObj s j).isOpen = true
    case neg =>
      have : recvOn s conn pk b = (s, []) := by
        unfold recvOn; simp only [hc]
        rw [if_pos (by simpa using hopen)]
      rw [this]; exact h
    case pos =>
      have hidi := h.id hw
      have hE : (getObj s j).id = cid → ¬ (pkEnds (getObj s j) k pk = true ∨
          (connEnds s j pk b = true ∧ endsWithConn (getObj s j) pk = true)) := by
        intro hid x
        apply hne
        unfold EndsRecv
        rw [hc]
        exact ⟨hid, hopen, x⟩
      obtain ⟨hs, hcl⟩ := recvOn_walk k s conn pk b j ((getObj s j).id = cid) hw hc hopen
        (fun hid => Bool.eq_false_iff.mpr (fun e => hE hid (Or.inl e)))
        (fun hid hce => Bool.eq_false_iff.mpr (fun e => hE hid (Or.inr ⟨hce, e⟩)))
      constructor
      · by_cases hid : (getObj s j).id = cid
        · rw [hcl hid]; exact h.1
        · rw [(recvOn_frame s conn pk b j hc).clients cid (fun e => hid e.symm)]; exact h.1
      · refine (hs i ?_).keep p (preState_keep k s j pk i p h.2)
        by_cases hij : i = j
        · right; rw [← hij]; exact hidi
        · left; exact hij

/-- leaving the read loop for object `j`: the session of `cid` is kept unless `j` belongs to `cid` and its session is
    a clean one that was not taken over -/
theorem detach_holds (k : Nat) (p : Msg) (cid : Str) (s : Server) (j : Nat) (b : Bool) (i : Nat)
    (h : HoldsAt s cid k p i) (hidi : (getObj s i).id = cid)
    (hcond : (getObj s j).id = cid → endsWithConn0 (getObj s j) = false) : HoldsAt (detach s j b).1 cid k p i := by
  by_cases hid : (getObj s j).id = cid
  · exact ⟨by rw [detach_clients s j b (hcond hid)]; exact h.1,
      ((detach_sv k s j b) i (Or.inr (hcond hid))).keep p h.2⟩
  · have hij : i ≠ j := fun e => hid (e ▸ hidi)
    exact ⟨by rw [(detach_frame s j b).clients cid (fun e => hid e.symm)]; exact h.1,
      ((detach_sv k s j b) i (Or.inl hij)).keep p h.2⟩

theorem detachB_holds (k : Nat) (p : Msg) (cid : Str) (s : Server) (j : Nat) (i : Nat)
    (h : HoldsAt s cid k p i) (hidi : (getObj s i).id = cid)
    (hcond : (getObj s j).id = cid → endsWithConn0 (getObj s j) = false) : HoldsAt (detachB s j) cid k p i := by
  by_cases hid : (getObj s j).id = cid
  · exact ⟨by rw [detachB_clients s j (hcond hid)]; exact h.1,
      ((detachB_sv k s j) i (Or.inr (hcond hid))).keep p h.2⟩
  · have hij : i ≠ j := fun e => hid (e ▸ hidi)
    exact ⟨by rw [(detachB_frame s j).clients cid (fun e => hid e.symm)]; exact h.1,
      ((detachB_sv k s j) i (Or.inl hij)).keep p h.2⟩

/-- objects rewritten in fields the record does not depend on, the Clients map kept -/
theorem HoldsAt.of_surv {s s' : Server} {cid : Str} {k : Nat} {p : Msg} {i : Nat} (h : HoldsAt s cid k p i)
    (hs : Surv k s s') (hc : s'.clients = s.clients) : HoldsAt s' cid k p i :=
  ⟨by rw [hc]; exact h.1, (hs i).keep p h.2⟩

theorem step_recv_holds (k : Nat) (p : Msg) (cid : Str) (s : Server) (conn : Nat) (pk : InPk) (i : Nat) (hw : WF s)
    (h : HoldsAt s cid k p i) (hne : ¬ Ends s cid k (.recv conn pk)) :
    HoldsAt (step s (.recv conn pk)).1 cid k p i :=
  recvOn_holds k p cid s conn pk true i hw h hne

theorem peerGone_surv (k : Nat) (s : Server) (j : Nat) :
    Surv k s (modObj s j (fun c => { c with peerGone := true })) := same_setObj_sv k s j _ (by rk_rfl)

theorem step_drop_holds (k : Nat) (p : Msg) (cid : Str) (s : Server) (conn : Nat) (i : Nat) (hw : WF s)
    (h : HoldsAt s cid k p i) (hne : ¬ Ends s cid k (.drop conn)) :
    HoldsAt (step s (.drop conn)).1 cid k p i := by
  rw [step]
  split
  · exact h
  · rename_i j hc
    split
    · exact h
    · rename_i hst
      extract_lets +onlyGivenNames s1
      have hs1 : Surv k s s1 := peerGone_surv k s j
      have h1 : HoldsAt s1 cid k p i := h.of_surv hs1 rfl
      split
      rename_i s2 o hd
      have := detach_holds k p cid s1 j true i h1 (by rw [Frame.id_all ((Frame.refl j s []).modOwn _ (by own_rfl)) i]; exact h.id hw) (by
        intro hid
        rw [(hs1 j).endsWithConn0]
        refine Bool.eq_false_iff.mpr (fun e => hne ?_)
        show EndsDrop s cid conn
        unfold EndsDrop
        rw [hc]
        refine ⟨?_, by simpa using hst, e⟩
        rw [← hid]
        exact (Frame.id_all ((Frame.refl j s []).modOwn _ (by own_rfl)) j).symm)
      rw [hd] at this
      exact this

theorem step_dropHold_holds (k : Nat) (p : Msg) (cid : Str) (s : Server) (conn : Nat) (i : Nat)
    (h : HoldsAt s cid k p i) : HoldsAt (step s (.dropHold conn)).1 cid k p i := by
  rw [step]
  split
  · exact h
  · rename_i j hc
    split
    · exact h
    · extract_lets +onlyGivenNames s1
      have h1 : HoldsAt s1 cid k p i := h.of_surv (peerGone_surv k s j) rfl
      split
      rename_i s2 o hd
      have hA := detachA_sv k s1 j true
      have hq := (detachA_quiet s1 j true).clients
      rw [hd] at hA hq
      exact (h1.of_surv hA hq).of_surv ((Surv.refl k s2).upd rfl) rfl

theorem step_dropHoldEarly_holds (k : Nat) (p : Msg) (cid : Str) (s : Server) (conn : Nat) (i : Nat)
    (h : HoldsAt s cid k p i) : HoldsAt (step s (.dropHoldEarly conn)).1 cid k p i := by
  rw [step]
  split
  · exact h
  · rename_i j hc
    split
    · exact h
    · exact (h.of_surv (s' := { s with parkedEarly := s.parkedEarly ++ [j] }) ((Surv.refl k s).upd rfl) rfl).of_surv
        (peerGone_surv k _ j) rfl

theorem step_recvCut_holds (k : Nat) (p : Msg) (cid : Str) (s : Server) (conn : Nat) (pk : InPk) (i : Nat) (hw : WF s)
    (h : HoldsAt s cid k p i) (hne : ¬ Ends s cid k (.recvCut conn pk)) :
    HoldsAt (step s (.recvCut conn pk)).1 cid k p i := by
  rw [step]
  split
  · exact h
  · rename_i j hc
    split
    · exact h
    · rename_i hlive
      have hst : (getObj s j).stopped = false ∧ (getObj s j).isOpen = true := by
        simpa using hlive
      have hj : j < s.objs.length := hw.conn_valid conn j (assocGet_mem _ _ _ hc)
      extract_lets +onlyGivenNames s1
      have hw1 : WF s1 := hw.of_good ((Good.refl s).mod j _ (by cw_rfl))
      have h1 : HoldsAt s1 cid k p i := h.of_surv (peerGone_surv k s j) rfl
      have e1 : getObj s1 j = { getObj s j with peerGone := true } := getObj_setObj_eq s j _ hj
      have hc1 : assocGet s1.connOf conn = some j := hc
      have hopen1 : (getObj s1 j).isOpen = true := by rw [e1]; exact hst.2
      have hid1 : (getObj s1 j).id = (getObj s j).id := by rw [e1]
      have hE : (getObj s j).id = cid → pkEnds (getObj s j) k pk = false ∧ endsWithConn (getObj s j) pk = false := by
        intro hid
        have hn : ¬ (pkEnds (getObj s j) k pk = true ∨ endsWithConn (getObj s j) pk = true) := by
          intro x
          apply hne
          show EndsRecvCut s cid k conn pk
          unfold EndsRecvCut
          rw [hc]
          exact ⟨hid, hst.2, hst.1, x⟩
        exact ⟨Bool.eq_false_iff.mpr (fun e => hn (Or.inl e)), Bool.eq_false_iff.mpr (fun e => hn (Or.inr e))⟩
      have hend1 : endsWithConn (getObj s1 j) pk = endsWithConn (getObj s j) pk := by rw [e1]; rfl
      have hpk1 : pkEnds (getObj s1 j) k pk = pkEnds (getObj s j) k pk := by rw [e1]; cases pk <;> rfl
      have hne1 : ¬ EndsRecv s1 cid k conn pk false := by
        unfold EndsRecv
        rw [hc1]
        rintro ⟨hid, _, x⟩
        have := hE (hid1.symm.trans hid)
        rcases x with x | ⟨_, x⟩
        · rw [hpk1, this.1] at x; cases x
        · rw [hend1, this.2] at x; cases x
      obtain ⟨hs, _⟩ := recvOn_walk k s1 conn pk false j ((getObj s j).id = cid) hw1 hc1 hopen1
        (fun hid => by rw [hpk1]; exact (hE hid).1) (fun hid _ => by rw [hend1]; exact (hE hid).2)
      have h2 := recvOn_holds k p cid s1 conn pk false i hw1 h1 hne1
      have hw2 := recvOn_wf s1 conn pk false hw1
      have hid2 : ∀ x, (getObj (recvOn s1 conn pk false).1 x).id = (getObj s1 x).id := recvOn_id s1 conn pk false
      split
      rename_i s2 o h2eq
      rw [h2eq] at h2 hs hw2 hid2
      split
      rename_i s3 o2 h3eq
      show HoldsAt s3 cid k p i
      split at h3eq
      · cases h3eq; exact h2
      · have := detach_holds k p cid s2 j true i h2 (h2.id hw2) (by
          intro hid
          have hid' : (getObj s j).id = cid := by rw [← hid1, ← hid2 j]; exact hid
          rw [(hs j (Or.inr hid')).endsWithConn0, getObj_preState _ _ _ ((setObj_length s j _).symm ▸ hj)]
          show endsWithConn (getObj s1 j) pk = false
          rw [hend1]; exact (hE hid').2)
        rw [h3eq] at this
        exact this

theorem step_inlinePublish_holds (k : Nat) (p : Msg) (cid : Str) (s : Server) (topic payload : Str) (retain : Bool)
    (qos : Nat) (i : Nat) (hw : WF s) (h : HoldsAt s cid k p i)
    (hne : ¬ Ends s cid k (.inlinePublish topic payload retain qos)) :
    HoldsAt (step s (.inlinePublish topic payload retain qos)).1 cid k p i := by
  rw [step]
  show HoldsAt (receivePacket s 0 (.publish qos false retain qos topic payload 0 none)).1 cid k p i
  have hs := receivePacket_sv k s 0 (.publish qos false retain qos topic payload 0 none) hw
  have hq := (receivePacket_quiet s 0 (.publish qos false retain qos topic payload 0 none) rfl).clients
  refine ⟨by rw [hq]; exact h.1, (hs i ?_).keep p (preState_keep k s 0 _ i p h.2)⟩
  by_cases hi : i = 0
  · right
    show (qos == k && (getObj s 0).inline) = false
    have : qos ≠ k := fun e => hne ⟨by rw [← hi]; exact h.id hw, e⟩
    have : (qos == k) = false := by simpa using this
    rw [this, Bool.false_and]
  · left; exact hi

theorem step_inlineSubscribe_holds (k : Nat) (p : Msg) (cid : Str) (s : Server) (id : Nat) (filter : Str) (i : Nat)
    (h : HoldsAt s cid k p i) : HoldsAt (step s (.inlineSubscribe id filter)).1 cid k p i := by
  rw [step]
  split
  · exact h
  · exact h.of_surv ((Surv.refl k s).upd rfl) rfl

theorem step_inlineUnsubscribe_holds (k : Nat) (p : Msg) (cid : Str) (s : Server) (id : Nat) (filter : Str) (i : Nat)
    (h : HoldsAt s cid k p i) : HoldsAt (step s (.inlineUnsubscribe id filter)).1 cid k p i := by
  rw [step]
  split
  · exact h
  · exact h.of_surv ((Surv.refl k s).upd rfl) rfl

/-! ### housekeeping -/


theorem tickClients_holds (k : Nat) (p : Msg) (cid : Str) (s : Server) (t : Int) (i : Nat) (hw : WF s)
    (h : HoldsAt s cid k p i) (hne : ¬ EndsDue s cid t) : HoldsAt (tickClients s t).1 cid k p i := by
  have hdue : sessionDue s.caps (getObj s i) t = false := by
    refine Bool.eq_false_iff.mpr (fun e => hne ?_)
    unfold EndsDue
    rw [h.1]; exact e
  have hidi := h.id hw
  have key : (fun (acc : Server × List Out) =>
      assocGet acc.1.clients cid = some i ∧ getObj acc.1 i = getObj s i ∧ acc.1.caps = s.caps)
      (tickClients s t) := by
    unfold tickClients
    refine foldl_inv_mem (fun (acc : Server × List Out) =>
      assocGet acc.1.clients cid = some i ∧ getObj acc.1 i = getObj s i ∧ acc.1.caps = s.caps) _ _ _ ⟨h.1, rfl, rfl⟩ ?_
    intro acc e he hP
    obtain ⟨h1, h2, h3⟩ := hP
    extract_lets +onlyGivenNames c
    have hreg : assocGet s.clients e.1 = some e.2 := assocGet_of_mem_nodup _ _ _ hw.clients_nodup he
    have hide : (getObj s e.2).id = e.1 := (hw.clients_valid e.1 e.2 he).2
    by_cases hk : e.1 = cid
    · have hei : e.2 = i := by
        rw [hk, h.1] at hreg; cases hreg; rfl
      have : sessionDue acc.1.caps c t = false := by
        show sessionDue acc.1.caps (getObj acc.1 e.2) t = false
        rw [hei, h2, h3]; exact hdue
      rw [this]
      exact ⟨h1, h2, h3⟩
    · have hei : i ≠ e.2 := by
        intro x
        apply hk
        rw [← hide, ← x]; exact hidi
      split
      · extract_lets +onlyGivenNames s1 s2
        refine ⟨?_, ?_, ?_⟩
        · show assocGet (assocDel s2.clients e.1) cid = some i
          rw [assocGet_assocDel_ne _ _ _ (fun x => hk x.symm)]
          show assocGet (unsubscribeClient (clearInflights acc.1 e.2) e.2).clients cid = some i
          rw [unsubscribeClient_clients_sv]
          exact h1
        · show getObj (unsubscribeClient (clearInflights acc.1 e.2) e.2) i = getObj s i
          rw [cleanup_getObj_ne acc.1 e.2 i hei]; exact h2
        · show (unsubscribeClient (clearInflights acc.1 e.2) e.2).caps = s.caps
          rw [unsubscribeClient_caps]; exact h3
      · exact ⟨h1, h2, h3⟩
  obtain ⟨h1, h2, _⟩ := key
  exact ⟨h1, by rw [h2]; exact h.2⟩


theorem tickWills_sv (k : Nat) (s : Server) (dt : Int) : Surv k s (tickWills s dt).1 := by
  unfold tickWills
  refine foldl_inv (fun (acc : Server × List Out) => Surv k s acc.1) _ _ _ (Surv.refl k s) ?_
  intro acc e h
  split
  · split
    rename_i s1 o h1
    have g1 : Surv k s s1 := by
      have := publishToSubscribers_surv k acc.1 e.2
      rw [h1] at this
      exact h.trans this
    split
    rename_i s2 o2 h2
    have g2 : Surv k s s2 := by
      split at h2
      · rename_i i _
        extract_lets +onlyGivenNames s3 at h2
        rw [← (Prod.mk.inj h2).1]
        have g3 : Surv k s s3 := by
          show Surv k s (if e.2.retain = true then retainMsg s1 e.2 else s1)
          split
          · exact g1.trans (retainMsg_surv k s1 e.2)
          · exact g1
        exact g3.trans (same_setObj_sv k s3 i _ (by rk_rfl))
      · cases h2; exact g1
    exact g2.upd rfl
  · exact h

/-- the `inflight` housekeeping removes the expired records — every other record stays what it is -/
theorem tickInflight_holds (k : Nat) (p : Msg) (cid : Str) (s : Server) (t : Int) (i : Nat) (hw : WF s)
    (h : HoldsAt s cid k p i) (hne : ¬ EndsExpired s cid k t) : HoldsAt (tickInflight s t) cid k p i := by
  have hcl := (tickInflight_quiet s t).clients
  refine ⟨by rw [hcl]; exact h.1, ?_⟩
  obtain ⟨m0, hm0, hok⟩ := h.2
  have hexp : recExpired s.caps m0 t = false := by
    refine Bool.eq_false_iff.mpr (fun e => hne ?_)
    unfold EndsExpired
    rw [h.1]
    show (match flGet (getObj s i) k with | some m => recExpired s.caps m t = true | none => False)
    rw [hm0]; exact e
  have key : (fun (x : Server) => x.caps = s.caps ∧ flGet (getObj x i) k = some m0 ∧ ObjWF (getObj x i))
      (tickInflight s t) := by
    unfold tickInflight
    refine foldl_inv (fun (x : Server) => x.caps = s.caps ∧ flGet (getObj x i) k = some m0 ∧ ObjWF (getObj x i))
      _ _ _ ⟨rfl, hm0, hw.allWF i⟩ ?_
    intro b e hb
    extract_lets +onlyGivenNames c
    refine foldl_inv_mem (fun (x : Server) => x.caps = s.caps ∧ flGet (getObj x i) k = some m0 ∧ ObjWF (getObj x i))
      _ _ _ hb ?_
    intro b2 m hm hb2
    obtain ⟨q1, q2, q3⟩ := hb2
    extract_lets +onlyGivenNames expired enforced
    by_cases hx : (expired || enforced) = true
    · rw [if_pos hx]
      split
      rename_i c' ok heq
      extract_lets +onlyGivenNames s1
      have goal1 : s1.caps = s.caps ∧ flGet (getObj s1 i) k = some m0 ∧ ObjWF (getObj s1 i) := by
        refine ⟨q1, ?_⟩
        by_cases hei : e.2 = i
        · have hmk : m.id ≠ k := by
            intro emk
            have hmem : m ∈ (getObj b i).inflight := by rw [← hei]; exact hm
            have := flGet_of_mem (getObj b i) m hb.2.2.ids_nodup hmem
            rw [emk, hb.2.1] at this
            cases this
            have : recExpired s.caps m0 t = true := by
              have hx' : (expired || enforced) = true := hx
              simp only [expired, enforced, q1] at hx'
              exact hx'
            rw [hexp] at this; cases this
          have hc' : c' = (flDelete (getObj b2 i) m.id).1 := by
            rw [hei] at heq; rw [heq]
          show flGet (getObj (setObj b2 e.2 c') i) k = some m0 ∧ ObjWF (getObj (setObj b2 e.2 c') i)
          rw [hei]
          rcases getObj_setObj_self_cases b2 i c' with e' | e' <;> rw [e']
          · rw [hc', flGet_flDelete_ne _ _ _ hmk]
            exact ⟨q2, flDelete_wf _ _ q3⟩
          · exact ⟨q2, q3⟩
        · show flGet (getObj (setObj b2 e.2 c') i) k = some m0 ∧ ObjWF (getObj (setObj b2 e.2 c') i)
          rw [getObj_setObj_ne b2 e.2 i c' (fun x => hei x.symm)]
          exact ⟨q2, q3⟩
      split
      · exact goal1
      · exact goal1
    · rw [if_neg hx]
      exact ⟨q1, q2, q3⟩
  exact ⟨m0, key.2.1, hok⟩

theorem step_tick_holds (k : Nat) (p : Msg) (cid : Str) (s : Server) (kind : String) (t : Int) (i : Nat) (hw : WF s)
    (h : HoldsAt s cid k p i) (hne : ¬ Ends s cid k (.tick kind t)) :
    HoldsAt (step s (.tick kind t)).1 cid k p i := by
  rw [step]
  split
  · rename_i hk
    exact tickClients_holds k p cid s t i hw h (fun e => hne (Or.inl ⟨by simpa using hk, e⟩))
  · split
    · exact h.of_surv ((Surv.refl k s).upd (tickRetained_objs s t)) (tickRetained_quiet s t).clients
    · split
      · rename_i hk
        exact tickInflight_holds k p cid s t i hw h (fun e => hne (Or.inr ⟨by simpa using hk, e⟩))
      · split
        · exact h.of_surv (tickWills_sv k s t) (tickWills_quiet s t).clients
        · exact h

/-! ### resumption and take-over: `admitA` (`inheritClientSession` + `Clients.Add`) -/

theorem Rec.pos {c : Client} {k : Nat} {p : Msg} (r : Rec c k p) : c.inflight.length > 0 := by
  obtain ⟨m, hm, _⟩ := r
  unfold flGet at hm
  cases hl : c.inflight with
  | nil => rw [hl] at hm; cases hm
  | cons x xs => simp

theorem Rec.of_modObj {s : Server} {n k : Nat} {p : Msg} (f : Client → Client)
    (hf : (f (getObj s n)).inflight = (getObj s n).inflight) (r : Rec (getObj s n) k p) :
    Rec (getObj (modObj s n f) n) k p := by
  unfold modObj
  rcases getObj_setObj_self_cases s n (f (getObj s n)) with e | e <;> rw [e]
  · exact r.of_infl hf
  · exact r

theorem admitA_walk (k : Nat) (s : Server) (n : Nat) (k' : Connect) :
    (admitA s n k').1.clients = assocSet s.clients k'.id n ∧
    (∀ i, i ≠ n → assocGet s.clients k'.id ≠ some i → RK k (getObj s i) (getObj (admitA s n k').1 i)) ∧
    (∀ e, assocGet s.clients k'.id = some e → n ≠ e → n < s.objs.length → k'.clean = false →
        ((getObj s e).clean && (getObj s e).ver < 5) = false →
        ∀ p, Rec (getObj s e) k p → Rec (getObj (admitA s n k').1 n) k p) ∧
    (∀ e, assocGet s.clients k'.id = some e → n ≠ e → e < s.objs.length →
        (getObj (admitA s n k').1 e).takenOver = true) := by
  unfold admitA
  extract_lets +onlyGivenNames src s0 exLive
  split
  rename_i s' o1 present heq
  have key : s'.clients = s.clients ∧
      (∀ i, i ≠ n → assocGet s.clients k'.id ≠ some i → RK k (getObj s i) (getObj s' i)) ∧
      (∀ e, assocGet s.clients k'.id = some e → n ≠ e → n < s.objs.length → k'.clean = false →
        ((getObj s e).clean && (getObj s e).ver < 5) = false →
        ∀ p, Rec (getObj s e) k p → Rec (getObj s' n) k p) ∧
      (∀ e, assocGet s.clients k'.id = some e → n ≠ e → e < s.objs.length → (getObj s' e).takenOver = true) := by
    have hs0 : Surv k s s0 := (Surv.refl k s).upd rfl
    split at heq
    · rename_i e he
      have he : assocGet s.clients k'.id = some e := he
      extract_lets +onlyGivenNames ex at heq
      split at heq
      rename_i s1 o hd
      have hs1 : Surv k s s1 := by
        have := disconnectClient_sv k s0 e 0x8E
        rw [hd] at this
        exact hs0.trans this
      have hc1 : s1.clients = s.clients := by
        have := (disconnectClient_quiet s0 e 0x8E).clients
        rw [hd] at this
        exact this
      have hl1 : s1.objs.length = s.objs.length := by
        have := (disconnectClient_frame s0 e 0x8E).len
        rw [hd] at this
        exact this
      split at heq
      · rename_i hclean
        extract_lets +onlyGivenNames s2 s3 at heq
        cases heq
        refine ⟨?_, ?_, ?_, ?_⟩
        · show (unsubscribeClient s1 e).clients = s.clients
          rw [unsubscribeClient_clients_sv]; exact hc1
        · intro i _ hie
          have hie' : i ≠ e := fun x => hie (x ▸ he)
          show RK k (getObj s i) (getObj (modObj s3 e _) i)
          unfold modObj
          rw [getObj_setObj_ne s3 e i _ hie']
          exact ((hs1 i).trans (unsubscribeClient_sv k s1 e i)).trans (clearInflights_sv k s2 e i (Or.inl hie'))
        · intro e' he' _ _ hcl h3
          rw [he] at he'; cases he'
          have : (k'.clean || (ex.clean && decide (ex.ver < 5))) = true := hclean
          have hex : ex = getObj s e := rfl
          rw [hcl, hex, h3] at this
          cases this
        · intro e' he' _ hel
          rw [he] at he'; cases he'
          show (getObj (modObj s3 e _) e).takenOver = true
          unfold modObj
          rw [getObj_setObj_eq s3 e _ (by
            show e < (clearInflights s2 e).objs.length
            rw [(clearInflights_frame s2 e).len, (unsubscribeClient_frame s1 e).len, hl1]; exact hel)]
      · extract_lets +onlyGivenNames s2 ex2 rmx s2i src2 s3 s4 s5 s6 at heq
        rw [← (Prod.mk.inj heq).1]
        have hl2 : s2.objs.length = s.objs.length := (setObj_length s1 e _).trans hl1
        have hc3 : s3.clients = s.clients := by
          show (if ex2.inflight.length > 0 then _ else s2).clients = s.clients
          split
          · exact hc1
          · exact hc1
        have hc4 : s4.clients = s.clients := by
          refine foldl_inv (fun (x : Server) => x.clients = s.clients) _ _ _ hc3 ?_
          intro b fs hb
          exact hb
        refine ⟨?_, ?_, ?_, ?_⟩
        · show (unsubscribeClient s4 e).clients = s.clients
          rw [unsubscribeClient_clients_sv]; exact hc4
        · intro i hin hie
          have hie' : i ≠ e := fun x => hie (x ▸ he)
          have k2 : RK k (getObj s i) (getObj s2 i) := by
            show RK k (getObj s i) (getObj (modObj s1 e _) i)
            unfold modObj
            rw [getObj_setObj_ne s1 e i _ hie']
            exact hs1 i
          have k3 : RK k (getObj s i) (getObj s3 i) := by
            show RK k (getObj s i) (getObj (if ex2.inflight.length > 0 then _ else s2) i)
            split
            · show RK k (getObj s i) (getObj s2i i)
              rw [show getObj s2i i = getObj s2 i from getObj_setObj_ne s2 n i _ hin]
              exact k2
            · exact k2
          have k4 : RK k (getObj s i) (getObj s4 i) := by
            refine foldl_inv (fun (x : Server) => RK k (getObj s i) (getObj x i)) _ _ _ k3 ?_
            intro b fs hb
            extract_lets +onlyGivenNames rr src3 b1
            show RK k (getObj s i) (getObj (modObj b1 n _) i)
            unfold modObj
            rw [getObj_setObj_ne b1 n i _ hin]
            exact hb
          exact (k4.trans (unsubscribeClient_sv k s4 e i)).trans (clearInflights_sv k s5 e i (Or.inl hie'))
        · intro e' he' hne hn _ _ p r
          rw [he] at he'; cases he'
          have r1 : Rec (getObj s1 e) k p := (hs1 e).keep p r
          have r2 : Rec ex2 k p := Rec.of_modObj _ rfl r1
          have hpos : ex2.inflight.length > 0 := r2.pos
          have r3 : Rec (getObj s3 n) k p := by
            show Rec (getObj (if ex2.inflight.length > 0 then _ else s2) n) k p
            rw [if_pos hpos]
            show Rec (getObj s2i n) k p
            rw [show getObj s2i n = _ from getObj_setObj_eq s2 n _ (by rw [hl2]; exact hn)]
            exact r2.of_infl rfl
          have r4 : Rec (getObj s4 n) k p := by
            refine foldl_inv (fun (x : Server) => Rec (getObj x n) k p) _ _ _ r3 ?_
            intro b fs hb
            extract_lets +onlyGivenNames rr src3 b1
            exact Rec.of_modObj (s := b1) _ rfl hb
          exact (clearInflights_sv k s5 e n (Or.inl hne)).keep p ((unsubscribeClient_sv k s4 e n).keep p r4)
        · intro e' he' hne hel
          rw [he] at he'; cases he'
          have hen : e ≠ n := fun x => hne x.symm
          have t2 : (getObj s2 e).takenOver = true := by
            show (getObj (modObj s1 e _) e).takenOver = true
            unfold modObj
            rw [getObj_setObj_eq s1 e _ (by rw [hl1]; exact hel)]
          have t3 : (getObj s3 e).takenOver = true := by
            show (getObj (if ex2.inflight.length > 0 then _ else s2) e).takenOver = true
            split
            · show (getObj s2i e).takenOver = true
              rw [show getObj s2i e = getObj s2 e from getObj_setObj_ne s2 n e _ hen]
              exact t2
            · exact t2
          have t4 : (getObj s4 e).takenOver = true := by
            refine foldl_inv (fun (x : Server) => (getObj x e).takenOver = true) _ _ _ t3 ?_
            intro b fs hb
            extract_lets +onlyGivenNames rr src3 b1
            show (getObj (modObj b1 n _) e).takenOver = true
            unfold modObj
            rw [getObj_setObj_ne b1 n e _ hen]
            exact hb
          show (getObj (clearInflights s5 e) e).takenOver = true
          rw [((clearInflights_quiet s5 e).obj e).takenOver, (unsubscribeClient_sv 0 s4 e e).takenOver]
          exact t4
    · rename_i hnone
      have hnone : assocGet s.clients k'.id = none := hnone
      cases heq
      exact ⟨rfl, fun i _ _ => hs0 i, fun e he => (by rw [hnone] at he; cases he),
        fun e he => (by rw [hnone] at he; cases he)⟩
  obtain ⟨h1, h2, h3, h4⟩ := key
  refine ⟨?_, h2, h3, h4⟩
  show assocSet s'.clients k'.id n = _
  rw [h1]

theorem admitConnack_keep (k : Nat) (s : Server) (n conn : Nat) (present : Bool) (x : Nat) (p : Msg)
    (r : Rec (getObj s x) k p) : Rec (getObj (admitConnack s n conn present).1 x) k p := by
  unfold admitConnack
  extract_lets +onlyGivenNames cl
  split
  rename_i s' seiOut heq
  show Rec (getObj s' x) k p
  split at heq
  · cases heq
    by_cases hx : x = n
    · subst hx; exact Rec.of_modObj _ rfl r
    · unfold modObj; rw [getObj_setObj_ne s n x _ hx]; exact r
  · cases heq; exact r

/-- `ResendInflightMessages`: only PUBACK / PUBCOMP records are dropped after being resent -/
theorem admitC_keep (k : Nat) (s : Server) (n : Nat) (k' : Connect) (present : Bool) (hw : ObjWF (getObj s n))
    (x : Nat) (p : Msg) (r : Rec (getObj s x) k p) : Rec (getObj (admitC s n k' present).1 x) k p := by
  unfold admitC
  extract_lets +onlyGivenNames s1
  split
  · refine foldl_inv_mem (fun (acc : Server × List Out) => Rec (getObj acc.1 x) k p) _ _ _ r ?_
    intro acc m hm h
    have hm : m ∈ (getObj s n).inflight := mem_permuteBy _ _ _ hm
    extract_lets +onlyGivenNames m' o s'
    show Rec (getObj s' x) k p
    show Rec (getObj (if (m.type == 4 || m.type == 7) = true then _ else acc.1) x) k p
    split
    · rename_i ht
      split
      rename_i c' ok heq
      extract_lets +onlyGivenNames s''
      have goal : Rec (getObj s'' x) k p := by
        show Rec (getObj (setObj acc.1 n c') x) k p
        by_cases hx : x = n
        · subst hx
          rcases getObj_setObj_self_cases acc.1 x c' with e | e <;> rw [e]
          · have hne : m.id ≠ k := r.ne_of_mem hw.ids_nodup hm (by
              have h5 : (m.type == 5) = false := by
                rcases Bool.or_eq_true_iff.mp ht with h4 | h7
                · have : m.type = 4 := by simpa using h4
                  simp [this]
                · have : m.type = 7 := by simpa using h7
                  simp [this]
              simp [recOk, h5])
            have := (RK.flDelete_ne' k (getObj acc.1 x) m.id hne).keep p h
            rw [heq] at this
            exact this
          · exact h
        · rw [getObj_setObj_ne acc.1 n x c' hx]; exact h
      split
      · exact goal
      · exact goal
    · exact h
  · exact r

/-- `attachClient` from the admission to the read loop: the session of `cid` keeps the record — in the object it
    was in, or (resumption / take-over by a CONNECT for `cid` without Clean Start) in the connecting object `n` -/
theorem admitClient_holds (k : Nat) (p : Msg) (cid : Str) (s : Server) (n conn : Nat) (k' : Connect) (i : Nat) (hw : WF s)
    (hn : n < s.objs.length) (hnid : (getObj s n).id = k'.id) (hni : n ≠ i)
    (h : HoldsAt s cid k p i) (hne : ¬ EndsTakeover s cid k') :
    HoldsAt (admitClient s n conn k').1 cid k p (if k'.id = cid then n else i) := by
  obtain ⟨hA1, hA2, hA3, hA4⟩ := admitA_walk k s n k'
  have hil := h.lt hw
  unfold admitClient
  split
  rename_i s1 o1 present exLive h1
  rw [h1] at hA1 hA2 hA3 hA4
  have w1 : WF s1 := by have := admitA_wf s n k' hw hn hnid; rw [h1] at this; exact this
  have k1 : Keep s s1 := by have := admitA_keep s n k'; rw [h1] at this; exact this
  have hex : ∀ e, exLive = some e → assocGet s.clients k'.id = some e := by
    intro e he
    exact admitA_exLive_cnt s n k' e (by rw [h1]; exact he)
  have H1 : HoldsAt s1 cid k p (if k'.id = cid then n else i) ∧ (k'.id = cid → (getObj s1 i).takenOver = true) := by
    by_cases hk : k'.id = cid
    · rw [if_pos hk]
      have hreg : assocGet s.clients k'.id = some i := by rw [hk]; exact h.1
      have hE : ¬ (k'.clean = true ∨ ((getObj s i).clean && decide ((getObj s i).ver < 5)) = true) := by
        intro x
        apply hne
        refine ⟨hk, ?_⟩
        rcases x with x | x
        · exact Or.inl x
        · right
          rw [h.1]
          exact x
      have hclean : k'.clean = false := Bool.eq_false_iff.mpr (fun e => hE (Or.inl e))
      have h3 : ((getObj s i).clean && decide ((getObj s i).ver < 5)) = false :=
        Bool.eq_false_iff.mpr (fun e => hE (Or.inr e))
      refine ⟨⟨by rw [hA1, assocGet_assocSet, if_pos hk.symm], hA3 i hreg hni hn hclean h3 p h.2⟩,
        fun _ => hA4 i hreg hni hil⟩
    · rw [if_neg hk]
      have hnreg : assocGet s.clients k'.id ≠ some i := fun x => hk (hw.reg_unique x h.1)
      exact ⟨⟨by rw [hA1, assocGet_assocSet, if_neg (fun x => hk x.symm)]; exact h.1,
        (hA2 i (Ne.symm hni) hnreg).keep p h.2⟩, fun x => absurd x hk⟩
  generalize (if k'.id = cid then n else i) = j at H1 ⊢
  split
  rename_i s2 o2 h2
  have g2 : Good s1 s2 := by have := admitConnack_good s1 n conn present; rw [h2] at this; exact this
  have q2 := admitConnack_quiet s1 n conn present
  rw [h2] at q2
  have H2 : HoldsAt s2 cid k p j := by
    refine ⟨by rw [q2.clients]; exact H1.1.1, ?_⟩
    have := admitConnack_keep k s1 n conn present j p H1.1.2
    rw [h2] at this; exact this
  have T2 : k'.id = cid → (getObj s2 i).takenOver = true := fun hk => by
    rw [(q2.obj i).takenOver]; exact H1.2 hk
  have w2 : WF s2 := w1.of_good g2
  have ids2 : ∀ x, (getObj s2 x).id = (getObj s x).id := fun x => (g2.ids x).trans (k1.ids x)
  split
  rename_i s3 o4 h3
  have H3 : HoldsAt s3 cid k p j ∧ WF s3 := by
    split at h3
    · rename_i e
      have he := hex e rfl
      have hide : (getObj s e).id = k'.id := (hw.clients_valid _ _ (assocGet_mem _ _ _ he)).2
      have := detach_holds k p cid s2 e true j H2 (H2.id w2) (by
        intro hid
        have hk : k'.id = cid := by rw [← hide, ← ids2 e]; exact hid
        have hei : e = i := by
          rw [hk, h.1] at he; cases he; rfl
        unfold endsWithConn0
        rw [hei, T2 hk]; simp)
      rw [h3] at this
      exact ⟨this, by have := detach_wf s2 e true w2; rw [h3] at this; exact this⟩
    · cases h3; exact ⟨H2, w2⟩
  split
  rename_i s4 o3 h4
  have := admitC_keep k s3 n k' present (H3.2.allWF n) j p H3.1.2
  have q4 := admitC_quiet s3 n k' present
  rw [h4] at this q4
  exact ⟨by rw [q4.clients]; exact H3.1.1, this⟩

/-! ### connecting -/



theorem connect_holds (k : Nat) (p : Msg) (cid : Str) (s : Server) (conn : Nat) (k' : Connect) (i : Nat) (hw : WF s)
    (hf : conn ∉ s.connOf.map (·.1)) (h : HoldsAt s cid k p i)
    (hne : ¬ (refuseCode s k' (parseConnect s conn k') = none ∧ EndsTakeover s cid k')) :
    ∃ i', HoldsAt (connect s conn k').1 cid k p i' := by
  unfold connect
  extract_lets +onlyGivenNames c n s1
  have w1 : WF s1 := hw.addObj c conn (parseConnect_wf s conn k') hf
  have hil := h.lt hw
  have ho : ∀ e, e < s.objs.length → getObj s1 e = getObj s e :=
    fun e he => getObj_append_lt (s := s) (s' := s1) (c := c) rfl e he
  have h1 : HoldsAt s1 cid k p i := ⟨h.1, by rw [ho i hil]; exact h.2⟩
  have hn : n < s1.objs.length := by
    show s.objs.length < (s.objs ++ [c]).length
    simp
  have hnid : (getObj s1 n).id = k'.id := by
    rw [getObj_append_eq (s := s) (s' := s1) (c := c) rfl]; rfl
  have hni : n ≠ i := Nat.ne_of_gt hil
  split
  · split
    rename_i s2 o2 h2
    have hs := stopClient_sv k s1 n
    have q := (stopClient_quiet s1 n).clients
    rw [h2] at hs q
    exact ⟨i, h1.of_surv hs q⟩
  · rename_i hnone
    refine ⟨_, admitClient_holds k p cid s1 n conn k' i w1 hn hnid hni h1 (fun x => hne ⟨?_, ?_⟩)⟩
    · rw [← refuseCode_congr_sv (s := s) (s' := s1) rfl rfl rfl]; exact hnone
    · exact EndsTakeover_congr (s := s) (s' := s1) rfl
        (fun e he => ho e (hw.clients_valid cid e (assocGet_mem _ _ _ he)).1) x

theorem step_connect_holds (k : Nat) (p : Msg) (cid : Str) (s : Server) (conn : Nat) (k' : Connect) (hw : WF s)
    (hf : conn ∉ s.connOf.map (·.1)) (h : Holds s cid k p) (hne : ¬ Ends s cid k (.connect conn k')) :
    Holds (step s (.connect conn k')).1 cid k p := by
  obtain ⟨i, h⟩ := h
  obtain ⟨i', h'⟩ := connect_holds k p cid s conn k' i hw hf h (fun x => hne (Or.inl x))
  have w' := connect_wf s conn k' hw hf
  have hne2 : ¬ EndsRecv (connect s conn k').1 cid k conn .pingreq false := fun x => hne (Or.inr x)
  rw [step]
  split
  rename_i s' o hcon
  rw [hcon] at h' w' hne2
  split
  · split
    · split
      rename_i s2 o2 hr
      have := recvOn_holds k p cid s' conn .pingreq false i' w' h' hne2
      rw [hr] at this
      exact this.holds
    · exact h'.holds
  · exact h'.holds

/-- `admitA` followed by the teardown of the taken-over handler (no CONNACK yet): `connectHold` at stage 2 -/
theorem admitAD_holds (k : Nat) (p : Msg) (cid : Str) (s : Server) (n : Nat) (k' : Connect) (i : Nat) (hw : WF s)
    (hn : n < s.objs.length) (hnid : (getObj s n).id = k'.id) (hni : n ≠ i)
    (h : HoldsAt s cid k p i) (hne : ¬ EndsTakeover s cid k') :
    HoldsAt (match (admitA s n k').2.2.2 with
      | some e => (detach (admitA s n k').1 e true).1
      | none => (admitA s n k').1) cid k p (if k'.id = cid then n else i) := by
  obtain ⟨hA1, hA2, hA3, hA4⟩ := admitA_walk k s n k'
  have hil := h.lt hw
  have w1 : WF (admitA s n k').1 := admitA_wf s n k' hw hn hnid
  have k1 : Keep s (admitA s n k').1 := admitA_keep s n k'
  have H1 : HoldsAt (admitA s n k').1 cid k p (if k'.id = cid then n else i) ∧
      (k'.id = cid → (getObj (admitA s n k').1 i).takenOver = true) := by
    by_cases hk : k'.id = cid
    · rw [if_pos hk]
      have hreg : assocGet s.clients k'.id = some i := by rw [hk]; exact h.1
      have hE : ¬ (k'.clean = true ∨ ((getObj s i).clean && decide ((getObj s i).ver < 5)) = true) := by
        intro x
        apply hne
        refine ⟨hk, ?_⟩
        rcases x with x | x
        · exact Or.inl x
        · right
          rw [h.1]
          exact x
      have hclean : k'.clean = false := Bool.eq_false_iff.mpr (fun e => hE (Or.inl e))
      have h3 : ((getObj s i).clean && decide ((getObj s i).ver < 5)) = false :=
        Bool.eq_false_iff.mpr (fun e => hE (Or.inr e))
      refine ⟨⟨by rw [hA1, assocGet_assocSet, if_pos hk.symm], hA3 i hreg hni hn hclean h3 p h.2⟩,
        fun _ => hA4 i hreg hni hil⟩
    · rw [if_neg hk]
      have hnreg : assocGet s.clients k'.id ≠ some i := fun x => hk (hw.reg_unique x h.1)
      exact ⟨⟨by rw [hA1, assocGet_assocSet, if_neg (fun x => hk x.symm)]; exact h.1,
        (hA2 i (Ne.symm hni) hnreg).keep p h.2⟩, fun x => absurd x hk⟩
  generalize (if k'.id = cid then n else i) = j at H1 ⊢
  cases hex : (admitA s n k').2.2.2 with
  | none => exact H1.1
  | some e =>
    have he := admitA_exLive_cnt s n k' e hex
    have hide : (getObj s e).id = k'.id := (hw.clients_valid _ _ (assocGet_mem _ _ _ he)).2
    exact detach_holds k p cid _ e true j H1.1 (H1.1.id w1) (by
      intro hid
      have hk : k'.id = cid := by rw [← hide, ← k1.ids e]; exact hid
      have hei : e = i := by
        rw [hk, h.1] at he; cases he; rfl
      unfold endsWithConn0
      rw [hei, H1.2 hk]; simp)

theorem step_connectHold_holds (k : Nat) (p : Msg) (cid : Str) (s : Server) (conn : Nat) (k' : Connect) (stage : Nat)
    (hw : WF s) (hf : conn ∉ s.connOf.map (·.1)) (h : Holds s cid k p)
    (hne : ¬ Ends s cid k (.connectHold conn k' stage)) :
    Holds (step s (.connectHold conn k' stage)).1 cid k p := by
  obtain ⟨i, h⟩ := h
  have h : HoldsAt s cid k p i := h
  rw [step]
  unfold connectHold
  extract_lets +onlyGivenNames c n s1 dec
  have w1 : WF s1 := hw.addObj c conn (parseConnect_wf s conn k') hf
  have hil := h.lt hw
  have ho : ∀ e, e < s.objs.length → getObj s1 e = getObj s e :=
    fun e he => getObj_append_lt (s := s) (s' := s1) (c := c) rfl e he
  have h1 : HoldsAt s1 cid k p i := ⟨h.1, by rw [ho i hil]; exact h.2⟩
  have hn : n < s1.objs.length := by
    show s.objs.length < (s.objs ++ [c]).length
    simp
  have hnid : (getObj s1 n).id = k'.id := by
    rw [getObj_append_eq (s := s) (s' := s1) (c := c) rfl]; rfl
  have hni : n ≠ i := Nat.ne_of_gt hil
  have hpend : ∀ (P : List Pending), HoldsAt { s1 with pending := P } cid k p i :=
    fun P => h1.of_surv ((Surv.refl k s1).upd rfl) rfl
  have hdec : dec = refuseCode s1 k' c := rfl
  clear_value dec
  cases dec with
  | some code =>
    dsimp only
    refine ite_fst_prop (P := fun x => Holds x cid k p) _ _ _ ?_ ?_
    · exact (hpend _).holds
    · exact (h1.of_surv (stopClient_sv k s1 n) (stopClient_quiet s1 n).clients).holds
  | none =>
    dsimp only
    by_cases hst : (stage == 1) = true
    · rw [if_pos hst]
      exact (hpend _).holds
    · rw [if_neg hst]
      have hET : ¬ EndsTakeover s1 cid k' := by
        intro x
        apply hne
        refine ⟨by simpa using hst, ?_, ?_⟩
        · rw [← refuseCode_congr_sv (s := s) (s' := s1) rfl rfl rfl]; exact hdec.symm
        · exact EndsTakeover_congr (s := s) (s' := s1) rfl
            (fun e he => ho e (hw.clients_valid cid e (assocGet_mem _ _ _ he)).1) x
      have key := admitAD_holds k p cid s1 n k' i w1 hn hnid hni h1 hET
      split
      · rename_i e hA
        rw [hA] at key
        exact (HoldsAt.of_surv (s' := _) key ((Surv.refl k _).upd rfl) rfl).holds
      · rename_i hA
        rw [hA] at key
        exact (HoldsAt.of_surv (s' := _) key ((Surv.refl k _).upd rfl) rfl).holds

/-! ### a parked handler runs on -/

theorem connectRelease_holds (k : Nat) (p : Msg) (cid : Str) (s : Server) (q : Pending) (i : Nat) (hw : WF s)
    (hobj : q.obj < s.objs.length) (hid : (getObj s q.obj).id = q.k.id)
    (hni : q.stage = 1 → q.obj ≠ i) (h : HoldsAt s cid k p i)
    (hne : ¬ (q.stage = 1 ∧ q.refuse = none ∧ EndsTakeover s cid q.k)) :
    ∃ i', HoldsAt (connectRelease s q).1 cid k p i' := by
  unfold connectRelease
  by_cases h1 : (q.stage == 1) = true
  · rw [if_pos h1]
    have hst : q.stage = 1 := by simpa using h1
    cases hr : q.refuse with
    | some code =>
      dsimp only
      exact ⟨i, h.of_surv (stopClient_sv k s q.obj) (stopClient_quiet s q.obj).clients⟩
    | none =>
      dsimp only
      exact ⟨_, admitClient_holds k p cid s q.obj q.conn q.k i hw hobj hid (hni hst) h
        (fun x => hne ⟨hst, hr, x⟩)⟩
  · rw [if_neg h1]
    by_cases hs : (getObj s q.obj).stopped = true
    · rw [if_pos hs]
      exact ⟨i, h.of_surv ((Surv.refl k s).upd rfl) rfl⟩
    · rw [if_neg hs]
      split
      rename_i s2 o2 h2
      have q2 := admitConnack_quiet s q.obj q.conn q.present
      have w2 := admitConnack_wf s q.obj q.conn q.present hw
      have r2 := admitConnack_keep k s q.obj q.conn q.present i p h.2
      rw [h2] at q2 w2 r2
      split
      rename_i s3 o3 h3
      have q3 := admitC_quiet s2 q.obj q.k q.present
      have r3 := admitC_keep k s2 q.obj q.k q.present (w2.allWF q.obj) i p r2
      rw [h3] at q3 r3
      exact ⟨i, by rw [q3.clients, q2.clients]; exact h.1, r3⟩

theorem step_release_holds (k : Nat) (p : Msg) (cid : Str) (s : Server) (conn : Nat) (hw : WF s) (hsync : SyncInv s)
    (h : Holds s cid k p) (hne : ¬ Ends s cid k (.release conn)) : Holds (step s (.release conn)).1 cid k p := by
  obtain ⟨i, h⟩ := h
  have h : HoldsAt s cid k p i := h
  have hidi := h.id hw
  have hne : ¬ EndsRelease s cid k conn := hne
  unfold EndsRelease at hne
  rw [step]
  split
  · rename_i q hq
    rw [hq] at hne
    have hmem : q ∈ s.pending := List.mem_of_find?_eq_some hq
    have hv := hw.pending_valid q hmem
    have wF : WF { s with pending := s.pending.filter (·.conn != conn) } := hw.filterPending _
    have hF : HoldsAt { s with pending := s.pending.filter (·.conn != conn) } cid k p i :=
      h.of_surv ((Surv.refl k s).upd rfl) rfl
    obtain ⟨i', h'⟩ := connectRelease_holds k p cid _ q i wF hv.1 hv.2
      (fun hst e => (hsync.st1 q hmem hst).1 cid (e ▸ h.1)) hF
      (fun x => hne (Or.inl ⟨x.1, x.2.1, EndsTakeover_congr (s := s) rfl (fun _ _ => rfl) x.2.2⟩))
    have w' := (connectRelease_wf _ q wF hv.1 hv.2).1
    split
    rename_i s1 o hcr
    rw [hcr] at h' w'
    have hne2 : (getObj s1 q.obj).isOpen = true → ¬ EndsRecv s1 cid k conn .pingreq false := by
      intro hop x
      apply hne
      right
      rw [hcr]
      exact ⟨hop, x⟩
    split
    · rename_i hop
      split
      rename_i s2 o2 hr
      have := recvOn_holds k p cid s1 conn .pingreq false i' w' h' (hne2 hop)
      rw [hr] at this
      exact this.holds
    · exact h'.holds
  · rename_i hq
    rw [hq] at hne
    unfold EndsParked at hne
    split
    · exact h.holds
    · rename_i j hc
      rw [hc] at hne
      split
      · rename_i hpk
        have hP : HoldsAt { s with parked := s.parked.filter (· != j) } cid k p i :=
          h.of_surv ((Surv.refl k s).upd rfl) rfl
        exact (detachB_holds k p cid _ j i hP hidi (fun hid =>
          Bool.eq_false_iff.mpr (fun e => hne ⟨hid, Or.inl hpk, e⟩))).holds
      · split
        · rename_i hpe
          have hP : HoldsAt { s with parkedEarly := s.parkedEarly.filter (· != j) } cid k p i :=
            h.of_surv ((Surv.refl k s).upd rfl) rfl
          have := detach_holds k p cid _ j true i hP hidi (fun hid =>
            Bool.eq_false_iff.mpr (fun e => hne ⟨hid, Or.inr hpe, e⟩))
          split
          rename_i s2 o hd
          rw [hd] at this
          exact this.holds
        · exact h.holds


end Mochi.Broker.Q08
