import Mochi.Props.C03
/-!
# Share groups and inline subscriptions in the delivery theorem (C06, C40)

* `pickAt seed l k` — the member `SelectShared` picks for the `k`-th candidate entry of `l` (digit `k` of the seed);
  `picks seed l` — all of them, in order; `selectShared_exact`: the selection holds exactly the picked members.
* `subsMapOf s topic` — the subscriber map `publishToSubscribers` iterates, WITH the selected shared members merged
  in; `publishToSubscribers_eq_fold_shared` removes the hypothesis `shared = []` from the fold form of the publish.
* `EntitledShared` — who is written a QoS 0 publication, plain and shared subscriptions together, with the No Local
  merge (F03) explicit.
* inline subscriptions: `inline_delivery_exact`.
-/
namespace Mochi.Broker
open Mochi.Topics

/-! ## `selectShared`, pick by pick -/

/-- the member `SelectShared` picks for the `k`-th candidate entry of `l` (in the order the entries are visited):
    the `k`-th base-3 digit of the seed, modulo the number of members -/
def pickAt : Nat → List (Str × List (Str × Sub)) → Nat → Option (Str × Sub)
  | _, [], _ => none
  | seed, g :: _, 0 => g.2[seed % 3 % g.2.length]?
  | seed, _ :: rest, k + 1 => pickAt (seed / 3) rest k

/-- all picks, in the order the entries are visited -/
def picks : Nat → List (Str × List (Str × Sub)) → List (Str × Sub)
  | _, [] => []
  | seed, g :: rest => (g.2[seed % 3 % g.2.length]?).toList ++ picks (seed / 3) rest

/-- one merge into a subscriber map (`Subscription.Merge` under the client id): the loop body of `SelectShared`
    and of `MergeSharedSelected` -/
def mergeOne (m : List (Str × Sub)) (cs : Str × Sub) : List (Str × Sub) :=
  match assocGet m cs.1 with
  | none => assocSet m cs.1 (cs.2.merge cs.2)
  | some cls => assocSet m cs.1 (cls.merge cs.2)

theorem pickAt_closed (seed : Nat) (l : List (Str × List (Str × Sub))) (k : Nat) :
    pickAt seed l k = (l[k]?).bind (fun g => g.2[seed / 3 ^ k % 3 % g.2.length]?) := by
  induction l generalizing seed k with
  | nil => simp [pickAt]
  | cons g rest ih =>
    cases k with
    | zero => simp [pickAt]
    | succ k =>
      rw [pickAt, ih]
      simp only [List.getElem?_cons_succ, Nat.pow_succ, Nat.div_div_eq_div_mul]
      rw [Nat.mul_comm 3 (3 ^ k)]

theorem mem_picks (seed : Nat) (l : List (Str × List (Str × Sub))) (cs : Str × Sub) :
    cs ∈ picks seed l ↔ ∃ k, pickAt seed l k = some cs := by
  induction l generalizing seed with
  | nil => simp [picks, pickAt]
  | cons g rest ih =>
    rw [picks, List.mem_append, ih]
    constructor
    · rintro (h | ⟨k, hk⟩)
      · exact ⟨0, by simpa [pickAt] using h⟩
      · exact ⟨k + 1, hk⟩
    · rintro ⟨k, hk⟩
      cases k with
      | zero => left; simpa [pickAt] using hk
      | succ k => exact Or.inr ⟨k, hk⟩

/-- a pick for position `k` is a member of the `k`-th entry -/
theorem pickAt_mem (seed : Nat) (l : List (Str × List (Str × Sub))) (k : Nat) (cs : Str × Sub)
    (h : pickAt seed l k = some cs) : ∃ g, l[k]? = some g ∧ cs ∈ g.2 := by
  induction l generalizing seed k with
  | nil => simp [pickAt] at h
  | cons g rest ih =>
    cases k with
    | zero => exact ⟨g, rfl, List.mem_of_getElem? h⟩
    | succ k =>
      obtain ⟨g', h1, h2⟩ := ih (seed / 3) k h
      exact ⟨g', by simpa using h1, h2⟩

/-- an entry with at least one member gets a pick -/
theorem pickAt_some (seed : Nat) (l : List (Str × List (Str × Sub))) (k : Nat) (g : Str × List (Str × Sub))
    (hg : l[k]? = some g) (hne : g.2 ≠ []) : ∃ cs, pickAt seed l k = some cs ∧ cs ∈ g.2 := by
  rw [pickAt_closed, hg]
  have hpos : 0 < g.2.length := List.length_pos_iff.mpr hne
  have hlt : seed / 3 ^ k % 3 % g.2.length < g.2.length := Nat.mod_lt _ hpos
  refine ⟨g.2[seed / 3 ^ k % 3 % g.2.length], ?_, List.getElem_mem hlt⟩
  simp [List.getElem?_eq_getElem hlt]

theorem selectOne_eq (acc : List (Str × Sub) × Nat) (g : Str × List (Str × Sub)) :
    selectOne acc g =
      (((g.2[acc.2 % 3 % g.2.length]?).toList).foldl mergeOne acc.1, acc.2 / 3) := by
  unfold selectOne
  cases g.2[acc.2 % 3 % g.2.length]? with
  | none => rfl
  | some cs =>
    simp only [Option.toList, List.foldl_cons, List.foldl_nil, mergeOne]
    cases assocGet acc.1 cs.1 <;> rfl

theorem selectFold_eq (l : List (Str × List (Str × Sub))) (acc : List (Str × Sub)) (seed : Nat) :
    (l.foldl selectOne (acc, seed)).1 = (picks seed l).foldl mergeOne acc := by
  induction l generalizing acc seed with
  | nil => rfl
  | cons g rest ih =>
    rw [List.foldl_cons, selectOne_eq, ih, picks, List.foldl_append]

theorem selectShared_eq_picks (seed : Nat) (r : Subscribers) :
    selectShared seed r = (picks seed r.shared).foldl mergeOne [] :=
  selectFold_eq r.shared [] seed

theorem mergeSharedSelected_eq (subs sel : List (Str × Sub)) :
    mergeSharedSelected subs sel = sel.foldl mergeOne subs := by
  unfold mergeSharedSelected
  congr 1

theorem dollarExcluded_nil_topic (f : Str) : dollarExcluded f [] = false := by
  cases f <;> rfl

theorem mergeOne_eq_gather (m : List (Str × Sub)) (cs : Str × Sub) : mergeOne m cs = gatherSubOne [] m cs := by
  unfold gatherSubOne mergeOne
  rw [dollarExcluded_nil_topic]
  rfl

theorem mergeFold_eq_gather (L : List (Str × Sub)) (m : List (Str × Sub)) :
    L.foldl mergeOne m = L.foldl (gatherSubOne []) m := by
  congr 1
  funext m cs
  exact mergeOne_eq_gather m cs

/-- the merged subscriptions after merging a list of `(client, subscription)` pairs into a map -/
theorem hasSub_mergeFold {P : Sub → Prop} (hP : MergeOr P) (L m : List (Str × Sub)) (c : Str) :
    HasSub P (L.foldl mergeOne m) c ↔ HasSub P m c ∨ ∃ sub, (c, sub) ∈ L ∧ P sub := by
  rw [mergeFold_eq_gather, hasSub_subs_fold hP]
  constructor
  · rintro (h | ⟨sub, h1, _, h3⟩)
    · exact Or.inl h
    · exact Or.inr ⟨sub, h1, h3⟩
  · rintro (h | ⟨sub, h1, h3⟩)
    · exact Or.inl h
    · exact Or.inr ⟨sub, h1, dollarExcluded_nil_topic _, h3⟩

theorem nodup_mergeFold (L m : List (Str × Sub)) (h : (m.map Prod.fst).Nodup) :
    ((L.foldl mergeOne m).map Prod.fst).Nodup := by
  rw [mergeFold_eq_gather]
  induction L generalizing m with
  | nil => exact h
  | cons e rest ih => exact ih _ (nodup_gatherSubOne [] m e h)

theorem not_hasSub_nil (P : Sub → Prop) (c : Str) : ¬ HasSub P [] c := by
  rintro ⟨sub, h, _⟩
  cases h

/-- in a map (distinct keys) "holds an entry with `P`" is `HasSub` -/
theorem hasSub_iff_mem {P : Sub → Prop} (m : List (Str × Sub)) (hnd : (m.map Prod.fst).Nodup) (c : Str) :
    HasSub P m c ↔ ∃ sub, (c, sub) ∈ m ∧ P sub := by
  constructor
  · rintro ⟨sub, h, hp⟩
    exact ⟨sub, assocGet_mem _ _ _ h, hp⟩
  · rintro ⟨sub, h, hp⟩
    exact ⟨sub, assocGet_of_mem_nodup _ _ _ hnd h, hp⟩

/-- client `c` is the member picked for the `k`-th candidate entry -/
def ChosenAt (seed : Nat) (l : List (Str × List (Str × Sub))) (k : Nat) (c : Str) : Prop :=
  ∃ sub, pickAt seed l k = some (c, sub)

/-- **Item 1 — `selectShared_exact`.**  For every resolution `seed` of Go's map order and every candidate map
    `r.shared` (key: the full filter string `$share/<group>/<topic filter>`; value: client id ↦ subscription) whose
    entries each have at least one member:

    1. for each candidate entry (position `k`) exactly one client is picked, and it is one of ITS members;
    2. a client is in the selection iff it was picked for some entry;
    3. hence a member of an entry that was picked for no entry is absent from the selection;
    4. the selection has one entry per client (a client picked for several entries is merged). -/
theorem selectShared_exact (seed : Nat) (r : Subscribers) (hne : ∀ g ∈ r.shared, g.2 ≠ []) :
    (∀ k (hk : k < r.shared.length),
      ∃ c, (c ∈ (r.shared[k]).2.map Prod.fst ∧ ChosenAt seed r.shared k c) ∧
        ∀ c', (c' ∈ (r.shared[k]).2.map Prod.fst ∧ ChosenAt seed r.shared k c') → c' = c) ∧
    (∀ c, c ∈ (selectShared seed r).map Prod.fst ↔ ∃ k, ChosenAt seed r.shared k c) ∧
    (∀ g ∈ r.shared, ∀ c ∈ g.2.map Prod.fst, (¬ ∃ k, ChosenAt seed r.shared k c) →
      c ∉ (selectShared seed r).map Prod.fst) ∧
    ((selectShared seed r).map Prod.fst).Nodup := by
  have h2 : ∀ c, c ∈ (selectShared seed r).map Prod.fst ↔ ∃ k, ChosenAt seed r.shared k c := by
    intro c
    rw [mem_keys_iff_hasSub, selectShared_eq_picks, hasSub_mergeFold mergeOr_true]
    constructor
    · rintro (h | ⟨sub, h, _⟩)
      · exact absurd h (not_hasSub_nil _ _)
      · obtain ⟨k, hk⟩ := (mem_picks _ _ _).mp h
        exact ⟨k, sub, hk⟩
    · rintro ⟨k, sub, hk⟩
      exact Or.inr ⟨sub, (mem_picks _ _ _).mpr ⟨k, hk⟩, trivial⟩
  refine ⟨?_, h2, ?_, ?_⟩
  · intro k hk
    have hg : r.shared[k]? = some r.shared[k] := List.getElem?_eq_getElem hk
    obtain ⟨cs, h1, h3⟩ := pickAt_some seed r.shared k _ hg (hne _ (List.getElem_mem hk))
    refine ⟨cs.1, ⟨List.mem_map.mpr ⟨cs, h3, rfl⟩, cs.2, h1⟩, ?_⟩
    rintro c' ⟨_, sub', h'⟩
    rw [h1] at h'
    cases h'
    rfl
  · intro g _ c _ hn hc
    exact hn ((h2 c).mp hc)
  · rw [selectShared_eq_picks]
    exact nodup_mergeFold _ _ List.nodup_nil

end Mochi.Broker
