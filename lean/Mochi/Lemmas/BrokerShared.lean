import Mochi.Props.C03
/-!
# Share groups and inline subscriptions in the delivery theorem (C06, C40)

* `pickAt seed l k` — the member `SelectShared` picks for the `k`-th candidate entry of `l` (digit `k` of the seed);
  `picks seed l` — all of them, in order; `selectShared_exact`: the selection holds exactly the picked members.
* `subsMapOf s topic` — the subscriber map `publishToSubscribers` iterates, WITH the selected shared members merged
  in; `publishToSubscribers_eq_fold_shared` removes the hypothesis `shared = []` from the fold form of the publish.
* `EntitledShared` — who is written a QoS 0 publication, plain and shared subscriptions together, with the No Local
  merge (F03) explicit.
* inline subscriptions: `inline_delivery_exact`.
-/
namespace Mochi.Broker
open Mochi.Topics

/-! ## `selectShared`, pick by pick -/

/-- the member `SelectShared` picks for the `k`-th candidate entry of `l` (in the order the entries are visited):
    the `k`-th base-3 digit of the seed, modulo the number of members -/
def pickAt : Nat → List (Str × List (Str × Sub)) → Nat → Option (Str × Sub)
  | _, [], _ => none
  | seed, g :: _, 0 => g.2[seed % 3 % g.2.length]?
  | seed, _ :: rest, k + 1 => pickAt (seed / 3) rest k

/-- all picks, in the order the entries are visited -/
def picks : Nat → List (Str × List (Str × Sub)) → List (Str × Sub)
  | _, [] => []
  | seed, g :: rest => (g.2[seed % 3 % g.2.length]?).toList ++ picks (seed / 3) rest

/-- one merge into a subscriber map (`Subscription.Merge` under the client id): the loop body of `SelectShared`
    and of `MergeSharedSelected` -/
def mergeOne (m : List (Str × Sub)) (cs : Str × Sub) : List (Str × Sub) :=
  match assocGet m cs.1 with
  | none => assocSet m cs.1 (cs.2.merge cs.2)
  | some cls => assocSet m cs.1 (cls.merge cs.2)

theorem pickAt_closed (seed : Nat) (l : List (Str × List (Str × Sub))) (k : Nat) :
    pickAt seed l k = (l[k]?).bind (fun g => g.2[seed / 3 ^ k % 3 % g.2.length]?) := by
  induction l generalizing seed k with
  | nil => simp [pickAt]
  | cons g rest ih =>
    cases k with
    | zero => simp [pickAt]
    | succ k =>
      rw [pickAt, ih]
      simp only [List.getElem?_cons_succ, Nat.pow_succ, Nat.div_div_eq_div_mul]
      rw [Nat.mul_comm 3 (3 ^ k)]

theorem mem_picks (seed : Nat) (l : List (Str × List (Str × Sub))) (cs : Str × Sub) :
    cs ∈ picks seed l ↔ ∃ k, pickAt seed l k = some cs := by
  induction l generalizing seed with
  | nil => simp [picks, pickAt]
  | cons g rest ih =>
    rw [picks, List.mem_append, ih]
    constructor
    · rintro (h | ⟨k, hk⟩)
      · exact ⟨0, by simpa [pickAt] using h⟩
      · exact ⟨k + 1, hk⟩
    · rintro ⟨k, hk⟩
      cases k with
      | zero => left; simpa [pickAt] using hk
      | succ k => exact Or.inr ⟨k, hk⟩

/-- a pick for position `k` is a member of the `k`-th entry -/
theorem pickAt_mem (seed : Nat) (l : List (Str × List (Str × Sub))) (k : Nat) (cs : Str × Sub)
    (h : pickAt seed l k = some cs) : ∃ g, l[k]? = some g ∧ cs ∈ g.2 := by
  induction l generalizing seed k with
  | nil => simp [pickAt] at h
  | cons g rest ih =>
    cases k with
    | zero => exact ⟨g, rfl, List.mem_of_getElem? h⟩
    | succ k =>
      obtain ⟨g', h1, h2⟩ := ih (seed / 3) k h
      exact ⟨g', by simpa using h1, h2⟩

/-- an entry with at least one member gets a pick -/
theorem pickAt_some (seed : Nat) (l : List (Str × List (Str × Sub))) (k : Nat) (g : Str × List (Str × Sub))
    (hg : l[k]? = some g) (hne : g.2 ≠ []) : ∃ cs, pickAt seed l k = some cs ∧ cs ∈ g.2 := by
  rw [pickAt_closed, hg]
  have hpos : 0 < g.2.length := List.length_pos_iff.mpr hne
  have hlt : seed / 3 ^ k % 3 % g.2.length < g.2.length := Nat.mod_lt _ hpos
  refine ⟨g.2[seed / 3 ^ k % 3 % g.2.length], ?_, List.getElem_mem hlt⟩
  simp [List.getElem?_eq_getElem hlt]

theorem selectOne_eq (acc : List (Str × Sub) × Nat) (g : Str × List (Str × Sub)) :
    selectOne acc g =
      (((g.2[acc.2 % 3 % g.2.length]?).toList).foldl mergeOne acc.1, acc.2 / 3) := by
  unfold selectOne
  cases g.2[acc.2 % 3 % g.2.length]? with
  | none => rfl
  | some cs =>
    simp only [Option.toList, List.foldl_cons, List.foldl_nil, mergeOne]
    cases assocGet acc.1 cs.1 <;> rfl

theorem selectFold_eq (l : List (Str × List (Str × Sub))) (acc : List (Str × Sub)) (seed : Nat) :
    (l.foldl selectOne (acc, seed)).1 = (picks seed l).foldl mergeOne acc := by
  induction l generalizing acc seed with
  | nil => rfl
  | cons g rest ih =>
    rw [List.foldl_cons, selectOne_eq, ih, picks, List.foldl_append]

theorem selectShared_eq_picks (seed : Nat) (r : Subscribers) :
    selectShared seed r = (picks seed r.shared).foldl mergeOne [] :=
  selectFold_eq r.shared [] seed

theorem mergeSharedSelected_eq (subs sel : List (Str × Sub)) :
    mergeSharedSelected subs sel = sel.foldl mergeOne subs := by
  unfold mergeSharedSelected
  congr 1

theorem dollarExcluded_nil_topic (f : Str) : dollarExcluded f [] = false := by
  cases f <;> rfl

theorem mergeOne_eq_gather (m : List (Str × Sub)) (cs : Str × Sub) : mergeOne m cs = gatherSubOne [] m cs := by
  unfold gatherSubOne mergeOne
  rw [dollarExcluded_nil_topic]
  rfl

theorem mergeFold_eq_gather (L : List (Str × Sub)) (m : List (Str × Sub)) :
    L.foldl mergeOne m = L.foldl (gatherSubOne []) m := by
  congr 1
  funext m cs
  exact mergeOne_eq_gather m cs

/-- the merged subscriptions after merging a list of `(client, subscription)` pairs into a map -/
theorem hasSub_mergeFold {P : Sub → Prop} (hP : MergeOr P) (L m : List (Str × Sub)) (c : Str) :
    HasSub P (L.foldl mergeOne m) c ↔ HasSub P m c ∨ ∃ sub, (c, sub) ∈ L ∧ P sub := by
  rw [mergeFold_eq_gather, hasSub_subs_fold hP]
  constructor
  · rintro (h | ⟨sub, h1, _, h3⟩)
    · exact Or.inl h
    · exact Or.inr ⟨sub, h1, h3⟩
  · rintro (h | ⟨sub, h1, h3⟩)
    · exact Or.inl h
    · exact Or.inr ⟨sub, h1, dollarExcluded_nil_topic _, h3⟩

theorem nodup_mergeFold (L m : List (Str × Sub)) (h : (m.map Prod.fst).Nodup) :
    ((L.foldl mergeOne m).map Prod.fst).Nodup := by
  rw [mergeFold_eq_gather]
  induction L generalizing m with
  | nil => exact h
  | cons e rest ih => exact ih _ (nodup_gatherSubOne [] m e h)

theorem not_hasSub_nil (P : Sub → Prop) (c : Str) : ¬ HasSub P [] c := by
  rintro ⟨sub, h, _⟩
  cases h

/-- in a map (distinct keys) "holds an entry with `P`" is `HasSub` -/
theorem hasSub_iff_mem {P : Sub → Prop} (m : List (Str × Sub)) (hnd : (m.map Prod.fst).Nodup) (c : Str) :
    HasSub P m c ↔ ∃ sub, (c, sub) ∈ m ∧ P sub := by
  constructor
  · rintro ⟨sub, h, hp⟩
    exact ⟨sub, assocGet_mem _ _ _ h, hp⟩
  · rintro ⟨sub, h, hp⟩
    exact ⟨sub, assocGet_of_mem_nodup _ _ _ hnd h, hp⟩

/-- exactly one `x` has `p` (core Lean has no `∃!`) -/
def ExactlyOne {α : Type} (p : α → Prop) : Prop := ∃ x, p x ∧ ∀ y, p y → y = x

/-- client `c` is the member picked for the `k`-th candidate entry -/
def ChosenAt (seed : Nat) (l : List (Str × List (Str × Sub))) (k : Nat) (c : Str) : Prop :=
  ∃ sub, pickAt seed l k = some (c, sub)

/-- **Item 1 — `selectShared_exact`.**  For every resolution `seed` of Go's map order and every candidate map
    `r.shared` (key: the full filter string `$share/<group>/<topic filter>`; value: client id ↦ subscription) whose
    entries each have at least one member:

    1. for each candidate entry (position `k`) exactly one client is picked, and it is one of ITS members;
    2. a client is in the selection iff it was picked for some entry;
    3. hence a member of an entry that was picked for no entry is absent from the selection;
    4. the selection has one entry per client (a client picked for several entries is merged). -/
theorem selectShared_exact (seed : Nat) (r : Subscribers) (hne : ∀ g ∈ r.shared, g.2 ≠ []) :
    (∀ k (hk : k < r.shared.length),
      ExactlyOne fun c => c ∈ (r.shared[k]).2.map Prod.fst ∧ ChosenAt seed r.shared k c) ∧
    (∀ c, c ∈ (selectShared seed r).map Prod.fst ↔ ∃ k, ChosenAt seed r.shared k c) ∧
    (∀ g ∈ r.shared, ∀ c ∈ g.2.map Prod.fst, (¬ ∃ k, ChosenAt seed r.shared k c) →
      c ∉ (selectShared seed r).map Prod.fst) ∧
    ((selectShared seed r).map Prod.fst).Nodup := by
  have h2 : ∀ c, c ∈ (selectShared seed r).map Prod.fst ↔ ∃ k, ChosenAt seed r.shared k c := by
    intro c
    rw [mem_keys_iff_hasSub, selectShared_eq_picks, hasSub_mergeFold mergeOr_true]
    constructor
    · rintro (h | ⟨sub, h, _⟩)
      · exact absurd h (not_hasSub_nil _ _)
      · obtain ⟨k, hk⟩ := (mem_picks _ _ _).mp h
        exact ⟨k, sub, hk⟩
    · rintro ⟨k, sub, hk⟩
      exact Or.inr ⟨sub, (mem_picks _ _ _).mpr ⟨k, hk⟩, trivial⟩
  refine ⟨?_, h2, ?_, ?_⟩
  · intro k hk
    have hg : r.shared[k]? = some r.shared[k] := List.getElem?_eq_getElem hk
    obtain ⟨cs, h1, h3⟩ := pickAt_some seed r.shared k _ hg (hne _ (List.getElem_mem hk))
    refine ⟨cs.1, ⟨List.mem_map.mpr ⟨cs, h3, rfl⟩, cs.2, h1⟩, ?_⟩
    rintro c' ⟨_, sub', h'⟩
    rw [h1] at h'
    cases h'
    rfl
  · intro g _ c _ hn hc
    exact hn ((h2 c).mp hc)
  · rw [selectShared_eq_picks]
    exact nodup_mergeFold _ _ List.nodup_nil

/-! ## The subscriber map with the selected shared members, and the publish as a fold over it -/

/-- the subscriber map `publishToSubscribers` iterates: the plain entries, and — if any shared subscription
    matches — the selected members merged in -/
def subsMapOf (s : Server) (topic : Str) : List (Str × Sub) :=
  if (subscribers s.topics topic).shared.length > 0 then
    mergeSharedSelected (subscribers s.topics topic).subs
      (selectShared s.pickSeed
        { subscribers s.topics topic with shared := permuteBy s.orderSeed (subscribers s.topics topic).shared })
  else (subscribers s.topics topic).subs

/-- the candidate entries in the order they are visited (`orderSeed` resolves Go's map order) -/
def visitOrder (s : Server) (topic : Str) : List (Str × List (Str × Sub)) :=
  permuteBy s.orderSeed (subscribers s.topics topic).shared

/-- the members picked (`pickSeed`), one per candidate entry with members, in visiting order -/
def sharedPicks (s : Server) (topic : Str) : List (Str × Sub) := picks s.pickSeed (visitOrder s topic)

theorem subsMapOf_eq (s : Server) (topic : Str) :
    subsMapOf s topic =
      ((sharedPicks s topic).foldl mergeOne []).foldl mergeOne (subscribers s.topics topic).subs := by
  unfold subsMapOf sharedPicks visitOrder
  split
  · rw [mergeSharedSelected_eq, selectShared_eq_picks]
  · rename_i h
    have : (subscribers s.topics topic).shared = [] := List.eq_nil_of_length_eq_zero (by omega)
    rw [this]
    rfl

theorem subsMapOf_nodup (s : Server) (topic : Str) : ((subsMapOf s topic).map Prod.fst).Nodup := by
  rw [subsMapOf_eq]
  exact nodup_mergeFold _ _ (C03_one_entry_per_client s.topics topic)

/-- the merged subscription of client `c` in the subscriber map has the disjunctive property `P` iff its plain
    entry has, or a subscription it was picked with has -/
theorem hasSub_subsMapOf {P : Sub → Prop} (hP : MergeOr P) (s : Server) (topic c : Str) :
    HasSub P (subsMapOf s topic) c ↔
      HasSub P (subscribers s.topics topic).subs c ∨ ∃ sub, (c, sub) ∈ sharedPicks s topic ∧ P sub := by
  have hnd : (((sharedPicks s topic).foldl mergeOne []).map Prod.fst).Nodup :=
    nodup_mergeFold (sharedPicks s topic) [] List.nodup_nil
  rw [subsMapOf_eq, hasSub_mergeFold hP, ← hasSub_iff_mem _ hnd, hasSub_mergeFold hP]
  constructor
  · rintro (h | h | h)
    · exact Or.inl h
    · exact absurd h (not_hasSub_nil _ _)
    · exact Or.inr h
  · rintro (h | h)
    · exact Or.inl h
    · exact Or.inr (Or.inr h)

theorem publishToSubscribers_eq_fold_shared (s : Server) (pk : Msg) (hig : pk.ignore = false) :
    publishToSubscribers s pk =
      (subsMapOf s pk.topic).foldl (deliverStep (stamped s pk))
        (s, (subscribers s.topics pk.topic).inline.map fun x => Out.inline x.1 pk.topic pk.payload) := by
  have htop := (stamped_fields s pk).1
  have hpay := (stamped_fields s pk).2.1
  unfold publishToSubscribers
  rw [if_neg (by rw [hig]; exact Bool.false_ne_true)]
  show (subsMapOf s (stamped s pk).topic).foldl (deliverStep (stamped s pk))
      (s, (subscribers s.topics (stamped s pk).topic).inline.map
        fun x => Out.inline x.1 (stamped s pk).topic (stamped s pk).payload) = _
  rw [htop, hpay]

/-- the connections written a PUBLISH, in order, are the recipients of the entries of the subscriber map (plain
    and selected shared, merged), in order — no hypothesis on shared subscriptions -/
theorem publishToSubscribers_pubConns_shared (s : Server) (pk : Msg)
    (hcv : ∀ id i, (id, i) ∈ s.clients → i < s.objs.length)
    (hig : pk.ignore = false) (ht : pk.type = 3)
    (hq : pk.qos = 0 ∨ ∀ cs ∈ subsMapOf s pk.topic, cs.2.qos = 0) :
    (publishToSubscribers s pk).2.filterMap pubConn = (subsMapOf s pk.topic).filterMap (recipient s pk) ∧
    ∀ x ∈ (publishToSubscribers s pk).2, (∃ id, x = Out.inline id pk.topic pk.payload) ∨ IsCopy pk x := by
  rw [publishToSubscribers_eq_fold_shared s pk hig]
  obtain ⟨_, _, q3, q4⟩ := fold_pubConns s (stamped s pk) hcv
    ((stamped_fields s pk).2.2.2.1.trans ht) (subsMapOf s pk.topic)
    (hq.imp (fun h => (stamped_fields s pk).2.2.1.trans h) id)
    (s, (subscribers s.topics pk.topic).inline.map fun x => Out.inline x.1 pk.topic pk.payload) (Deliv.refl s) rfl
  refine ⟨?_, ?_⟩
  · rw [q3, recipient_stamped]
    have : ((subscribers s.topics pk.topic).inline.map fun x => Out.inline x.1 pk.topic pk.payload).filterMap pubConn
        = [] := by
      rw [List.filterMap_map]
      apply List.filterMap_eq_nil_iff.mpr
      intro a _
      rfl
    show List.filterMap pubConn _ ++ _ = _
    rw [this, List.nil_append]
  · intro x hx
    rcases q4 x hx with h | h
    · obtain ⟨a, _, rfl⟩ := List.mem_map.mp h
      exact Or.inl ⟨a.1, rfl⟩
    · exact Or.inr (IsCopy_stamped h)

/-! ## Who is entitled, with shared subscriptions -/

/-- client `cid` was picked, with subscription `sub`, for some candidate entry matching `topic` (picked by
    `s.pickSeed` among the members of the entry, the entries visited in the order `permuteBy s.orderSeed`) -/
def PickedWith (s : Server) (topic cid : Str) (sub : Sub) : Prop :=
  ∃ k, pickAt s.pickSeed (visitOrder s topic) k = some (cid, sub)

theorem mem_sharedPicks (s : Server) (topic cid : Str) (sub : Sub) :
    (cid, sub) ∈ sharedPicks s topic ↔ PickedWith s topic cid sub := mem_picks _ _ _

/-- **entitlement with shared subscriptions, as the model implements it.**  Connection `n` belongs to a client
    object registered under its id `cid`, open, not inline, peer not gone, `cid` may read the topic, and

    * `cid` has an entry in the map of matching PLAIN subscriptions, **or** `cid` is the member picked for some
      matching candidate entry (F06: a candidate entry is one FILTER of one share name — a share name with two
      matching filters is two candidate entries, each with its own pick);
    * (F03) it is not the case that `cid` is the publisher and No Local is set on its merged plain entry OR on a
      subscription it was picked with: `Subscription.Merge` ORs No Local over everything merged under one id. -/
def EntitledShared (s : Server) (pk : Msg) (n : Nat) : Prop :=
  ∃ cid i, (cid, i) ∈ s.clients ∧ (getObj s i).conn = n ∧ (getObj s i).isOpen = true ∧
    (getObj s i).inline = false ∧ (getObj s i).peerGone = false ∧ aclOk s cid pk.topic false = true ∧
    ((∃ sub, (cid, sub) ∈ (subscribers s.topics pk.topic).subs) ∨ (∃ sub, PickedWith s pk.topic cid sub)) ∧
    ¬ (pk.origin = cid ∧
        ((∃ sub, (cid, sub) ∈ (subscribers s.topics pk.topic).subs ∧ sub.noLocal = true) ∨
         (∃ sub, PickedWith s pk.topic cid sub ∧ sub.noLocal = true)))

theorem entitledVia_subsMapOf_iff (s : Server) (pk : Msg) (n : Nat) :
    EntitledVia s pk (subsMapOf s pk.topic) n ↔ EntitledShared s pk n := by
  have hnd := subsMapOf_nodup s pk.topic
  have hnds := C03_one_entry_per_client s.topics pk.topic
  have hkey := fun c => hasSub_subsMapOf mergeOr_true s pk.topic c
  have hnl := fun c => hasSub_subsMapOf mergeOr_noLocal s pk.topic c
  constructor
  · rintro ⟨cid, i, sub, h1, h2, h3, h4, h5, hs, h7, h8⟩
    have hg := assocGet_of_mem_nodup _ _ _ hnd hs
    refine ⟨cid, i, h1, h2, h3, h4, h5, h7, ?_, ?_⟩
    · rcases (hkey cid).mp ⟨sub, hg, trivial⟩ with h | ⟨sub', h, _⟩
      · obtain ⟨sub', h, _⟩ := (hasSub_iff_mem _ hnds cid).mp h
        exact Or.inl ⟨sub', h⟩
      · exact Or.inr ⟨sub', (mem_sharedPicks _ _ _ _).mp h⟩
    · rintro ⟨ho, hex⟩
      have : HasSub (fun sub => sub.noLocal = true) (subsMapOf s pk.topic) cid := by
        apply (hnl cid).mpr
        rcases hex with ⟨sub', h, hn⟩ | ⟨sub', h, hn⟩
        · exact Or.inl ((hasSub_iff_mem _ hnds cid).mpr ⟨sub', h, hn⟩)
        · exact Or.inr ⟨sub', (mem_sharedPicks _ _ _ _).mpr h, hn⟩
      obtain ⟨sub', hg', hn'⟩ := this
      rw [hg] at hg'
      cases hg'
      rw [hn', ho] at h8
      simp at h8
  · rintro ⟨cid, i, h1, h2, h3, h4, h5, h7, h6, h8⟩
    have : HasSub (fun _ => True) (subsMapOf s pk.topic) cid := by
      apply (hkey cid).mpr
      rcases h6 with ⟨sub', h⟩ | ⟨sub', h⟩
      · exact Or.inl ((hasSub_iff_mem _ hnds cid).mpr ⟨sub', h, trivial⟩)
      · exact Or.inr ⟨sub', (mem_sharedPicks _ _ _ _).mpr h, trivial⟩
    obtain ⟨sub, hg, _⟩ := this
    refine ⟨cid, i, sub, h1, h2, h3, h4, h5, assocGet_mem _ _ _ hg, h7, ?_⟩
    cases hs : sub.noLocal with
    | false => rfl
    | true =>
      by_cases ho : pk.origin = cid
      · exfalso
        apply h8
        refine ⟨ho, ?_⟩
        rcases (hnl cid).mp ⟨sub, hg, hs⟩ with h | ⟨sub', h, hn⟩
        · obtain ⟨sub', h, hn⟩ := (hasSub_iff_mem _ hnds cid).mp h
          exact Or.inl ⟨sub', h, hn⟩
        · exact Or.inr ⟨sub', (mem_sharedPicks _ _ _ _).mp h, hn⟩
      · simp [ho]

/-- entitled through a subscription it was picked with: `EntitledVia` over the list of picks -/
abbrev EntitledPicked (s : Server) (pk : Msg) (n : Nat) : Prop := EntitledVia s pk (sharedPicks s pk.topic) n

/-- the publisher holds `sub` for this topic: as its merged plain entry, or as a subscription it was picked with -/
def HeldByPublisher (s : Server) (pk : Msg) (sub : Sub) : Prop :=
  (pk.origin, sub) ∈ (subscribers s.topics pk.topic).subs ∨ PickedWith s pk.topic pk.origin sub

/-- the F03 situation across plain and shared subscriptions: the publisher holds, for this topic, one subscription
    (merged plain entry or pick) with No Local and one without -/
def NoLocalMixedShared (s : Server) (pk : Msg) : Prop :=
  ∃ sub sub', HeldByPublisher s pk sub ∧ sub.noLocal = true ∧ HeldByPublisher s pk sub' ∧ sub'.noLocal = false

/-- whoever is entitled is entitled through the plain entry or through a pick … -/
theorem EntitledShared.or {s : Server} {pk : Msg} {n : Nat} (h : EntitledShared s pk n) :
    EntitledVia s pk (subscribers s.topics pk.topic).subs n ∨ EntitledPicked s pk n := by
  obtain ⟨cid, i, h1, h2, h3, h4, h5, h7, h6, h8⟩ := h
  rcases h6 with ⟨sub, hs⟩ | ⟨sub, hs⟩
  · refine Or.inl ⟨cid, i, sub, h1, h2, h3, h4, h5, hs, h7, ?_⟩
    cases hn : sub.noLocal with
    | false => rfl
    | true =>
      by_cases ho : pk.origin = cid
      · exact absurd ⟨ho, Or.inl ⟨sub, hs, hn⟩⟩ h8
      · simp [ho]
  · refine Or.inr ⟨cid, i, sub, h1, h2, h3, h4, h5, (mem_sharedPicks _ _ _ _).mpr hs, h7, ?_⟩
    cases hn : sub.noLocal with
    | false => rfl
    | true =>
      by_cases ho : pk.origin = cid
      · exact absurd ⟨ho, Or.inr ⟨sub, hs, hn⟩⟩ h8
      · simp [ho]

/-- … and outside the F03 situation the converse holds: "entitled through a plain subscription OR the picked member
    of a candidate entry" -/
theorem entitledShared_iff_or {s : Server} {pk : Msg} (hmix : ¬ NoLocalMixedShared s pk) (n : Nat) :
    EntitledShared s pk n ↔
      EntitledVia s pk (subscribers s.topics pk.topic).subs n ∨ EntitledPicked s pk n := by
  constructor
  · exact EntitledShared.or
  · have key : ∀ cid sub, HeldByPublisher s pk sub ∨ pk.origin ≠ cid → (sub.noLocal && pk.origin == cid) = false →
        ¬ (pk.origin = cid ∧
          ((∃ sub, (cid, sub) ∈ (subscribers s.topics pk.topic).subs ∧ sub.noLocal = true) ∨
           (∃ sub, PickedWith s pk.topic cid sub ∧ sub.noLocal = true))) := by
      rintro cid sub hh h8 ⟨ho, hex⟩
      subst ho
      rcases hh with hh | hh
      · have hf : sub.noLocal = false := by
          cases hn : sub.noLocal with
          | false => rfl
          | true => rw [hn] at h8; simp at h8
        rcases hex with ⟨sub', h, hn⟩ | ⟨sub', h, hn⟩
        · exact hmix ⟨sub', sub, Or.inl h, hn, hh, hf⟩
        · exact hmix ⟨sub', sub, Or.inr h, hn, hh, hf⟩
      · exact hh rfl
    rintro (⟨cid, i, sub, h1, h2, h3, h4, h5, hs, h7, h8⟩ | ⟨cid, i, sub, h1, h2, h3, h4, h5, hs, h7, h8⟩)
    · refine ⟨cid, i, h1, h2, h3, h4, h5, h7, Or.inl ⟨sub, hs⟩, key cid sub ?_ h8⟩
      by_cases ho : pk.origin = cid
      · subst ho; exact Or.inl (Or.inl hs)
      · exact Or.inr ho
    · have hp := (mem_sharedPicks _ _ _ _).mp hs
      refine ⟨cid, i, h1, h2, h3, h4, h5, h7, Or.inr ⟨sub, hp⟩, key cid sub ?_ h8⟩
      by_cases ho : pk.origin = cid
      · subst ho; exact Or.inl (Or.inr hp)
      · exact Or.inr ho

/-! ## The candidate map: distinct keys, no empty entry, every member filed under its own filter -/

structure SharedOK (m : List (Str × List (Str × Sub))) : Prop where
  keys : (m.map Prod.fst).Nodup
  ne : ∀ g ∈ m, g.2 ≠ []
  filed : ∀ g ∈ m, ∀ cs ∈ g.2, cs.2.filter = g.1
  members : ∀ g ∈ m, (g.2.map Prod.fst).Nodup

theorem sharedOK_gatherSharedOne (m : List (Str × List (Str × Sub))) (cs : Str × Sub) (h : SharedOK m) :
    SharedOK (gatherSharedOne m cs) := by
  unfold gatherSharedOne
  cases hg : assocGet m cs.2.filter with
  | none =>
    simp only
    have hnm := assocGet_none_not_mem m _ hg
    refine ⟨?_, ?_, ?_, ?_⟩
    · rw [List.map_append, List.nodup_append]
      refine ⟨h.keys, by simp, ?_⟩
      intro a ha b hb
      simp only [List.map_cons, List.map_nil, List.mem_singleton] at hb
      subst hb
      intro e
      subst e
      exact hnm ha
    · intro g hgm
      rcases List.mem_append.mp hgm with hgm | hgm
      · exact h.ne g hgm
      · simp only [List.mem_singleton] at hgm; subst hgm; simp
    · intro g hgm c hc
      rcases List.mem_append.mp hgm with hgm | hgm
      · exact h.filed g hgm c hc
      · simp only [List.mem_singleton] at hgm; subst hgm
        simp only [List.mem_singleton] at hc; subst hc; rfl
    · intro g hgm
      rcases List.mem_append.mp hgm with hgm | hgm
      · exact h.members g hgm
      · simp only [List.mem_singleton] at hgm; subst hgm; simp
  | some mm =>
    simp only
    have hmm := assocGet_mem _ _ _ hg
    refine ⟨nodup_assocSet _ _ _ h.keys, ?_, ?_, ?_⟩
    · intro g hgm
      rcases assocSet_mem_cases _ _ _ _ hgm with hgm | hgm
      · exact h.ne g hgm
      · subst hgm; exact assocSet_ne_nil _ _ _
    · intro g hgm c hc
      rcases assocSet_mem_cases _ _ _ _ hgm with hgm | hgm
      · exact h.filed g hgm c hc
      · subst hgm
        rcases assocSet_mem_cases _ _ _ _ hc with hc | hc
        · exact h.filed _ hmm c hc
        · subst hc; rfl
    · intro g hgm
      rcases assocSet_mem_cases _ _ _ _ hgm with hgm | hgm
      · exact h.members g hgm
      · subst hgm; exact assocSet_nodup_keys _ _ _ (h.members _ hmm)

theorem sharedOK_gatherStep (ns : List Node) (topic : Str) (acc : Subscribers) (g : Gather)
    (h : SharedOK acc.shared) : SharedOK (gatherStep ns topic acc g).shared := by
  cases g with
  | subs p => simp only [gatherStep]; split <;> exact h
  | inline p => simp only [gatherStep]; (repeat' split) <;> exact h
  | shared p =>
    simp only [gatherStep]
    split
    · exact h
    · split
      · exact h
      · rename_i n _ _
        show SharedOK (n.shared.foldl (fun m g => g.2.foldl gatherSharedOne m) acc.shared)
        refine foldl_inv SharedOK _ _ _ h ?_
        intro m g hm
        exact foldl_inv SharedOK _ _ _ hm (fun m cs hm => sharedOK_gatherSharedOne m cs hm)

/-- the candidate map of every index and topic is a map of non-empty maps, each member filed under its filter -/
theorem subscribers_sharedOK (x : Index) (topic : Str) : SharedOK (subscribers x topic).shared := by
  have h0 : SharedOK [] := ⟨List.nodup_nil, fun _ h => (by cases h), fun _ h => (by cases h), fun _ h => (by cases h)⟩
  unfold subscribers
  split
  · exact h0
  · exact foldl_inv (fun acc : Subscribers => SharedOK acc.shared) _ _ _ h0
      (fun acc g h => sharedOK_gatherStep x.nodes topic acc g h)

/-! ## `permuteBy` is a permutation -/

theorem permuteFuel_perm {α} : ∀ (fuel seed : Nat) (l : List α), l.length ≤ fuel → (permuteFuel fuel seed l).Perm l := by
  intro fuel
  induction fuel with
  | zero => intro seed l _; cases l <;> exact List.Perm.refl _
  | succ fuel ih =>
    intro seed l hl
    cases l with
    | nil => exact List.Perm.refl _
    | cons x xs =>
      have hk : seed % (x :: xs).length < (x :: xs).length := Nat.mod_lt _ (by simp)
      have hget : (x :: xs)[seed % (x :: xs).length]? = some (x :: xs)[seed % (x :: xs).length] :=
        List.getElem?_eq_getElem hk
      unfold permuteFuel
      simp only [hget]
      have hlen : ((x :: xs).eraseIdx (seed % (x :: xs).length)).length ≤ fuel := by
        rw [List.length_eraseIdx_of_lt hk]
        simp only [List.length_cons] at hl ⊢
        omega
      refine (List.Perm.cons _ (ih _ _ hlen)).trans ?_
      rw [List.eraseIdx_eq_take_drop_succ]
      have := List.perm_middle (a := (x :: xs)[seed % (x :: xs).length])
        (l₁ := (x :: xs).take (seed % (x :: xs).length)) (l₂ := (x :: xs).drop (seed % (x :: xs).length + 1))
      refine this.symm.trans ?_
      rw [List.getElem_cons_drop hk, List.take_append_drop]

theorem permuteBy_perm {α} (seed : Nat) (l : List α) : (permuteBy seed l).Perm l :=
  permuteFuel_perm l.length seed l (Nat.le_refl _)

theorem visitOrder_perm (s : Server) (topic : Str) :
    (visitOrder s topic).Perm (subscribers s.topics topic).shared := permuteBy_perm _ _

theorem visitOrder_nodup (s : Server) (topic : Str) : (visitOrder s topic).Nodup := by
  rw [(visitOrder_perm s topic).nodup_iff]
  have hp : (subscribers s.topics topic).shared.Pairwise (fun a b => a.1 ≠ b.1) :=
    List.pairwise_map.mp (subscribers_sharedOK s.topics topic).keys
  exact hp.imp (fun h e => h (congrArg Prod.fst e))

/-- a member picked is a member of a candidate entry -/
theorem pickedWith_member {s : Server} {topic cid : Str} {sub : Sub} (h : PickedWith s topic cid sub) :
    ∃ g ∈ (subscribers s.topics topic).shared, (cid, sub) ∈ g.2 := by
  obtain ⟨k, hk⟩ := h
  obtain ⟨g, hg, hm⟩ := pickAt_mem _ _ _ _ hk
  exact ⟨g, (visitOrder_perm s topic).mem_iff.mp (List.mem_of_getElem? hg), hm⟩

/-! ## Inline subscriptions: which `Out.inline` a publish produces -/

def isInlineOut : Out → Bool
  | .inline .. => true
  | _ => false

theorem writeMsg_noInline (s : Server) (i : Nat) (m : Msg) : ∀ x ∈ writeMsg s i m, isInlineOut x = false := by
  unfold writeMsg
  extract_lets c
  split
  · intro x hx; cases hx
  · split
    · intro x hx
      rw [List.mem_singleton] at hx
      subst hx; rfl
    · intro x hx
      rw [List.mem_singleton] at hx
      subst hx; rfl

theorem publishToClientCore_noInline (s : Server) (i : Nat) (sub : Sub) (f : Bool) (pk : Msg) :
    ∀ x ∈ (publishToClientCore s i sub f pk).2, isInlineOut x = false := by
  unfold publishToClientCore
  extract_lets c out
  split
  rename_i c1 out1 heq
  clear heq
  extract_lets s1
  split
  · split
    · intro x hx; cases hx
    · split
      · intro x hx
        rw [List.mem_singleton] at hx
        subst hx; rfl
      · extract_lets c2 out2 sentQuota
        split
        rename_i c3 isNew hfl
        extract_lets c4 s2 src s3
        split
        · intro x hx; cases hx
        · split
          · intro x hx; cases hx
          · exact writeMsg_noInline _ _ _
  · split
    · intro x hx; cases hx
    · exact writeMsg_noInline _ _ _

theorem publishToClient_noInline (s : Server) (i : Nat) (sub : Sub) (f : Bool) (pk : Msg) :
    ∀ x ∈ (publishToClient s i sub f pk).2, isInlineOut x = false := by
  unfold publishToClient
  split
  · intro x hx; cases hx
  · split
    · intro x hx; cases hx
    · exact publishToClientCore_noInline s i sub f pk

/-- the deliveries to clients only append outputs that are not inline deliveries -/
theorem deliverFold_outs (pk : Msg) (L : List (Str × Sub)) (acc : Server × List Out) :
    ∃ rest, (L.foldl (deliverStep pk) acc).2 = acc.2 ++ rest ∧ ∀ x ∈ rest, isInlineOut x = false := by
  induction L generalizing acc with
  | nil => exact ⟨[], by simp, fun x hx => by cases hx⟩
  | cons cs rest ih =>
    rw [List.foldl_cons]
    obtain ⟨r, h1, h2⟩ := ih (deliverStep pk acc cs)
    cases hc : assocGet acc.1.clients cs.1 with
    | none =>
      have e : deliverStep pk acc cs = acc := by unfold deliverStep; rw [hc]
      rw [e] at h1 ⊢
      exact ⟨r, h1, h2⟩
    | some i =>
      have e : (deliverStep pk acc cs).2 = acc.2 ++ (publishToClient acc.1 i cs.2 false pk).2 := by
        unfold deliverStep; rw [hc]
      rw [e, List.append_assoc] at h1
      refine ⟨_, h1, ?_⟩
      intro x hx
      rcases List.mem_append.mp hx with hx | hx
      · exact publishToClient_noInline _ _ _ _ _ x hx
      · exact h2 x hx

/-- the outputs of a publish: one inline delivery per entry of the map of matching inline subscriptions, then
    outputs that are not inline deliveries — for every message (any QoS) the publish hook does not mark "ignore" -/
theorem publishToSubscribers_outs (s : Server) (pk : Msg) (hig : pk.ignore = false) :
    ∃ rest, (publishToSubscribers s pk).2 =
        ((subscribers s.topics pk.topic).inline.map fun x => Out.inline x.1 pk.topic pk.payload) ++ rest ∧
      ∀ x ∈ rest, isInlineOut x = false := by
  rw [publishToSubscribers_eq_fold_shared s pk hig]
  exact deliverFold_outs _ _ _

theorem mem_inline_outs (m : List (Nat × Sub)) (topic payload : Str) (id : Nat) (t p : Str) :
    Out.inline id t p ∈ (m.map fun x => Out.inline x.1 topic payload) ↔
      t = topic ∧ p = payload ∧ id ∈ m.map Prod.fst := by
  simp only [List.mem_map, Out.inline.injEq]
  constructor
  · rintro ⟨a, ha, h1, h2, h3⟩
    exact ⟨h2.symm, h3.symm, a, ha, h1⟩
  · rintro ⟨h1, h2, a, ha, h3⟩
    exact ⟨a, ha, h3, h1.symm, h2.symm⟩

theorem count_inline_outs (m : List (Nat × Sub)) (hnd : (m.map Prod.fst).Nodup) (topic payload : Str) (o : Out) :
    (m.map fun x => Out.inline x.1 topic payload).count o ≤ 1 := by
  apply List.nodup_iff_count.mp
  have : (m.map fun x => Out.inline x.1 topic payload) = (m.map Prod.fst).map (fun i => Out.inline i topic payload) := by
    rw [List.map_map]; rfl
  rw [this]
  exact List.pairwise_map.mpr (List.Pairwise.imp (fun h e => h (by injection e)) hnd)

theorem count_noInline (rest : List Out) (h : ∀ x ∈ rest, isInlineOut x = false) (id : Nat) (t p : Str) :
    rest.count (Out.inline id t p) = 0 := by
  apply List.count_eq_zero.mpr
  intro hm
  have := h _ hm
  cases this

end Mochi.Broker

namespace Mochi.Topics

/-- the inline subscription held for identifier `id` by the particle at address `q` (= the levels of the filter it
    was subscribed under) -/
def inlineAt (x : Index) (q : Path) (id : Nat) : Option Sub :=
  (getNode x.nodes q).bind (fun n => assocGet n.inline id)

theorem mem_keys_iff_assocGet {α β} [DecidableEq α] (m : List (α × β)) (k : α) :
    k ∈ m.map Prod.fst ↔ ∃ v, assocGet m k = some v := by
  constructor
  · intro h
    cases hg : assocGet m k with
    | none => exact absurd h (assocGet_none_not_mem m k hg)
    | some v => exact ⟨v, rfl⟩
  · rintro ⟨v, h⟩
    exact List.mem_map.mpr ⟨(k, v), assocGet_mem _ _ _ h, rfl⟩

/-- **the map of matching inline subscriptions of a prefix-closed index** (C01's `C01_inline_exact`, for every
    structurally sound index and with the declarative matcher): identifier `id` is selected for `topic` iff a
    particle whose address `specMatch`es the topic holds an inline subscription of `id` -/
theorem inline_keys_iff (x : Index) (hpc : PrefixClosed x.nodes) (topic : Str) (hne : topic ≠ [])
    (hnh : ∀ t ∈ splitLevels topic, t ≠ [hash]) (id : Nat) :
    id ∈ (subscribers x topic).inline.map Prod.fst ↔
      ∃ q sub, inlineAt x q id = some sub ∧ specMatch q topic = true := by
  unfold subscribers
  have : topic.isEmpty = false := by cases topic <;> simp_all
  simp only [this, Bool.false_eq_true, if_false]
  rw [fold_inline_keys]
  have hscan : ∀ q, Gather.inline q ∈ scanVisits x.nodes [] (splitLevels topic) ↔
      hasNode x.nodes q = true ∧ matchLv q (splitLevels topic) = true := by
    intro q
    rw [scan_iff Gather.inline mem_gatherAll_inline _ hpc _ (splitLevels_ne_nil topic) hnh]
    simp
  have hdr : ∀ q, dollarRule q topic = (topicDollar topic && wildStart q) := by
    intro q
    unfold dollarRule topicDollar wildStart
    cases topic <;> simp
  constructor
  · rintro (h | ⟨q, hq, n, hn, hx, hi⟩)
    · simp at h
    · obtain ⟨sub, hsub⟩ := (mem_keys_iff_assocGet _ _).mp hi
      refine ⟨q, sub, by unfold inlineAt; rw [hn]; exact hsub, ?_⟩
      unfold specMatch
      rw [((hscan q).mp hq).2, hdr, hx]
      rfl
  · rintro ⟨q, sub, hat, hsm⟩
    unfold inlineAt at hat
    cases hn : getNode x.nodes q with
    | none => rw [hn] at hat; cases hat
    | some n =>
      rw [hn] at hat
      unfold specMatch at hsm
      rw [hdr] at hsm
      have hm : matchLv q (splitLevels topic) = true := by
        cases h : matchLv q (splitLevels topic)
        · rw [h] at hsm; cases hsm
        · rfl
      have hx : (topicDollar topic && wildStart q) = false := by
        rw [hm] at hsm
        cases h1 : topicDollar topic <;> cases h2 : wildStart q <;> simp [h1, h2] at hsm ⊢
      right
      refine ⟨q, (hscan q).mpr ⟨?_, hm⟩, n, hn, hx, (mem_keys_iff_assocGet _ _).mpr ⟨sub, hat⟩⟩
      rw [hasNode_iff]
      exact ⟨n, getNode_mem hn, getNode_path hn⟩

theorem nodup_inline_fold (entries m : List (Nat × Sub)) (h : (m.map Prod.fst).Nodup) :
    ((entries.foldl gatherInlineOne m).map Prod.fst).Nodup := by
  induction entries generalizing m with
  | nil => exact h
  | cons e rest ih => exact ih _ (assocSet_nodup_keys _ _ _ h)

/-- the map of matching inline subscriptions has one entry per identifier -/
theorem subscribers_inline_nodup (x : Index) (topic : Str) : ((subscribers x topic).inline.map Prod.fst).Nodup := by
  unfold subscribers
  split
  · exact List.nodup_nil
  · refine Mochi.Broker.foldl_inv (fun acc : Subscribers => (acc.inline.map Prod.fst).Nodup) _ _ _ List.nodup_nil ?_
    intro acc g h
    cases g with
    | subs p => simp only [gatherStep]; split <;> exact h
    | shared p => simp only [gatherStep]; (repeat' split) <;> exact h
    | inline p =>
      simp only [gatherStep]
      split
      · exact h
      · split
        · exact h
        · exact nodup_inline_fold _ _ h

/-- `InlineUnsubscribe(id, f)` removes the entry of `id` at the address of `f`, and nothing else -/
theorem inlineAt_inlineUnsubscribe (x : Index) (hpc : PrefixClosed x.nodes) (id : Nat) (f : Str) (q : Path) (id' : Nat) :
    inlineAt (inlineUnsubscribe x id f).1 q id' =
      if q = plainPath f ∧ id' = id then none else inlineAt x q id' := by
  unfold inlineAt inlineUnsubscribe plainPath
  simp only [seek_eq_getNode _ hpc]
  cases hg : getNode x.nodes (pathFrom (splitLevels f) 0) with
  | none =>
    simp only
    split
    · rename_i h
      rw [h.1, hg]; rfl
    · rfl
  | some n =>
    have hu0 := pointUpd_put x.nodes _ n { n with inline := assocDel n.inline id } hg (getNode_path hg : n.path = _)
    have key : ∀ ns', PointUpd x.nodes ns' (pathFrom (splitLevels f) 0) { n with inline := assocDel n.inline id } →
        (getNode ns' q).bind (fun n => assocGet n.inline id') =
          if q = pathFrom (splitLevels f) 0 ∧ id' = id then none
          else (getNode x.nodes q).bind (fun n => assocGet n.inline id') := by
      intro ns' hu
      rw [hu _ _ (deadNone_inline id') q]
      by_cases hq : q = pathFrom (splitLevels f) 0
      · subst hq
        simp only [if_true, true_and, assocGet_assocDel, hg, Option.bind_some]
      · simp [hq]
    simp only
    split
    · exact key _ (pointUpd_trim _ _ _ _ hu0 _ _)
    · exact key _ hu0

end Mochi.Topics

namespace Mochi.Broker
open Mochi.Topics

/-- inline subscription `id` holds an index entry whose filter — the address `q` of the particle it is stored at is
    the list of levels of the filter it was subscribed under — `specMatch`es the topic -/
def InlineMatching (x : Index) (topic : Str) (id : Nat) : Prop :=
  ∃ q sub, inlineAt x q id = some sub ∧ specMatch q topic = true

/-- **Item 4 — `inline_delivery_exact`.**  For every structurally sound index (`IdxOK`: every reachable state), every
    message the publish hook does not mark "ignore" (ANY QoS, shared subscriptions or not) with a non-empty topic
    without a `#` level: `publishToSubscribers s pk` produces `Out.inline id t p` **iff** `t`, `p` are the topic and
    payload of the message and inline subscription `id` holds an index entry whose filter `specMatch`es the topic —
    and at most once per identifier. -/
theorem inline_delivery_exact (s : Server) (hx : IdxOK s.topics) (pk : Msg) (hig : pk.ignore = false)
    (hne : pk.topic ≠ []) (hnh : ∀ t ∈ splitLevels pk.topic, t ≠ [hash]) (id : Nat) :
    (∀ t p, Out.inline id t p ∈ (publishToSubscribers s pk).2 ↔
      t = pk.topic ∧ p = pk.payload ∧ InlineMatching s.topics pk.topic id) ∧
    (publishToSubscribers s pk).2.count (Out.inline id pk.topic pk.payload) ≤ 1 := by
  obtain ⟨rest, ho, hr⟩ := publishToSubscribers_outs s pk hig
  refine ⟨?_, ?_⟩
  · intro t p
    rw [ho, List.mem_append, mem_inline_outs, inline_keys_iff s.topics hx.pc pk.topic hne hnh id]
    constructor
    · rintro (h | h)
      · exact h
      · have := hr _ h
        cases this
    · exact Or.inl
  · rw [ho, List.count_append, count_noInline rest hr, Nat.add_zero]
    exact count_inline_outs _ (subscribers_inline_nodup s.topics pk.topic) _ _ _

theorem inlineAt_retainMessage (x : Index) (t p : Str) (fl : Bool) (q : Path) (id : Nat) :
    inlineAt (retainMessage x t p fl).1 q id = inlineAt x q id :=
  retainMessage_look x t p fl _ (deadNone_inline id) (fun _ _ => rfl) q

theorem inlineAt_retainedState (s : Server) (pk : Msg) (q : Path) (id : Nat) :
    inlineAt (retainedState s pk).topics q id = inlineAt s.topics q id := by
  unfold retainedState
  split
  · unfold retainMsg
    split
    · rfl
    · exact inlineAt_retainMessage _ _ _ _ _ _
  · rfl

theorem inlineMatching_retainedState (s : Server) (pk : Msg) (topic : Str) (id : Nat) :
    InlineMatching (retainedState s pk).topics topic id ↔ InlineMatching s.topics topic id := by
  unfold InlineMatching
  simp only [inlineAt_retainedState]

/-! ### the publish ops, with shared subscriptions -/

/-- a QoS 0 message (or every entry of the subscriber map, selected shared members included, is QoS 0):
    `publishToSubscribers` leaves the in-flight records and the send quota of every client object alone -/
theorem publishToSubscribers_q0_keep_shared (s : Server) (pk : Msg) (hig : pk.ignore = false)
    (hq : pk.qos = 0 ∨ ∀ cs ∈ subsMapOf s pk.topic, cs.2.qos = 0) (k : Nat) :
    (getObj (publishToSubscribers s pk).1 k).inflight = (getObj s k).inflight ∧
    (getObj (publishToSubscribers s pk).1 k).sendQuota = (getObj s k).sendQuota := by
  rw [publishToSubscribers_eq_fold_shared s pk hig]
  exact fold_q0_keep (stamped s pk) _ (hq.imp (fun h => (stamped_fields s pk).2.2.1.trans h) id) k _

/-- `step_inlinePublish_accepted` without the hypothesis on shared subscriptions -/
theorem step_inlinePublish_accepted_shared (s : Server) (topic payload : Str) (retain : Bool) (qos : Nat)
    (h : AcceptedInline s topic)
    (hq : (inlineMsg s topic payload retain qos).qos = 0 ∨
      ∀ cs ∈ subsMapOf (retainedState s (inlineMsg s topic payload retain qos)) topic, cs.2.qos = 0) :
    step s (.inlinePublish topic payload retain qos) =
      publishToSubscribers (retainedState s (inlineMsg s topic payload retain qos))
        (inlineMsg s topic payload retain qos) := by
  have hk := publishToSubscribers_q0_keep_shared (retainedState s (inlineMsg s topic payload retain qos))
    (inlineMsg s topic payload retain qos) rfl hq 0
  have hn := nextImmediate_none (publishToSubscribers (retainedState s (inlineMsg s topic payload retain qos))
    (inlineMsg s topic payload retain qos)).1 0 (by
      rw [hk.1, getObj_retainedState]; exact h.noDeferred)
  rw [step]
  unfold receivePacket
  simp only [publishValidate_inline s topic qos h.noWild h.nonempty,
    processPublish_inline_shape s topic payload retain qos h, hn, List.append_nil]

/-- `step_recv_publish_accepted` without the hypothesis on shared subscriptions -/
theorem step_recv_publish_accepted_shared (s : Server) (conn i : Nat) (dup retain : Bool) (topic payload : Str)
    (me : Nat) (hc : assocGet s.connOf conn = some i) (h : AcceptedQ0 s i topic) :
    step s (.recv conn (.publish 0 dup retain 0 topic payload me none)) =
      publishToSubscribers (retainedState s (inboundMsg s i 0 dup retain 0 topic payload me))
        (inboundMsg s i 0 dup retain 0 topic payload me) := by
  have hk := publishToSubscribers_q0_keep_shared (retainedState s (inboundMsg s i 0 dup retain 0 topic payload me))
    (inboundMsg s i 0 dup retain 0 topic payload me) rfl (Or.inl rfl) i
  have hd := (publishToSubscribers_deliv (retainedState s (inboundMsg s i 0 dup retain 0 topic payload me))
    (inboundMsg s i 0 dup retain 0 topic payload me)).all i
  rw [getObj_retainedState] at hd
  have ho := hd.isOpen.symm.trans h.isOpen
  have hp := hd.peerGone.symm.trans h.peer
  have hn := nextImmediate_none (publishToSubscribers (retainedState s (inboundMsg s i 0 dup retain 0 topic payload me))
    (inboundMsg s i 0 dup retain 0 topic payload me)).1 i (by
      rw [hk.1, getObj_retainedState]; exact h.noDeferred)
  have hrp : receivePacket s i (.publish 0 dup retain 0 topic payload me none) =
      ((publishToSubscribers (retainedState s (inboundMsg s i 0 dup retain 0 topic payload me))
          (inboundMsg s i 0 dup retain 0 topic payload me)).1,
       (publishToSubscribers (retainedState s (inboundMsg s i 0 dup retain 0 topic payload me))
          (inboundMsg s i 0 dup retain 0 topic payload me)).2, none) := by
    unfold receivePacket
    simp only [publishValidate_accepted s topic h.valid h.nonempty,
      processPublish_accepted_shape s i dup retain 0 topic payload me h.notInline h.valid h.quota h.acl h.noRecord
        h.nonempty h.hook, hn, List.append_nil]
  have hping := receivePacket_pingreq_quiet _ i ho hp (by
    rw [hk.1, getObj_retainedState]; exact h.noDeferred)
  rw [step]
  unfold recvOn
  simp only [hc, h.isOpen, hrp, ho, hping,
    Bool.not_true, Bool.false_eq_true, if_false, if_true, List.filter_cons, List.filter_nil, List.append_nil]

end Mochi.Broker

/-! ## The candidate map, declaratively: its members in terms of the shared entries of the index -/
namespace Mochi.Topics

theorem sharedGet_gatherSharedOne (m : List (Str × List (Str × Sub))) (cs : Str × Sub) (f c : Str) :
    sharedGet (gatherSharedOne m cs) f c =
      if f = cs.2.filter ∧ c = cs.1 then some cs.2 else sharedGet m f c := by
  unfold gatherSharedOne
  cases hg : assocGet m cs.2.filter with
  | none =>
    simp only
    unfold sharedGet
    rw [assocGet_append]
    by_cases hf : f = cs.2.filter
    · subst hf
      rw [hg]
      simp only [Option.none_or, assocGet, if_true, true_and]
      by_cases hc : cs.1 = c
      · simp [hc]
      · have : ¬ c = cs.1 := fun e => hc e.symm
        simp [hc, this]
    · have hf' : ¬ cs.2.filter = f := fun e => hf e.symm
      cases hm : assocGet m f with
      | none => simp [assocGet, hf, hf']
      | some mm => simp [hf]
  | some mm =>
    simp only
    unfold sharedGet
    rw [assocGet_assocSet]
    by_cases hf : f = cs.2.filter
    · subst hf
      simp only [if_true, true_and, hg, assocGet_assocSet]
    · simp [hf]

/-- what the candidate map holds came from the initial map or from a writer filed under its own filter -/
theorem sharedGet_fold_sound (L : List (Str × Sub)) (m : List (Str × List (Str × Sub))) (f c : Str) (sub : Sub)
    (h : sharedGet (L.foldl gatherSharedOne m) f c = some sub) :
    sharedGet m f c = some sub ∨ ((c, sub) ∈ L ∧ sub.filter = f) := by
  induction L generalizing m with
  | nil => exact Or.inl h
  | cons e rest ih =>
    rcases ih _ h with h' | ⟨h1, h2⟩
    · rw [sharedGet_gatherSharedOne] at h'
      split at h'
      · rename_i hk
        cases h'
        exact Or.inr ⟨by rw [hk.2]; exact List.mem_cons_self, hk.1.symm⟩
      · exact Or.inl h'
    · exact Or.inr ⟨List.mem_cons_of_mem _ h1, h2⟩

theorem sharedGet_fold_persist (L : List (Str × Sub)) (m : List (Str × List (Str × Sub))) (f c : Str)
    (h : (sharedGet m f c).isSome = true) : (sharedGet (L.foldl gatherSharedOne m) f c).isSome = true := by
  induction L generalizing m with
  | nil => exact h
  | cons e rest ih =>
    apply ih
    rw [sharedGet_gatherSharedOne]
    split
    · rfl
    · exact h

theorem sharedGet_fold_complete (L : List (Str × Sub)) (m : List (Str × List (Str × Sub))) (c : Str) (sub : Sub)
    (h : (c, sub) ∈ L) : (sharedGet (L.foldl gatherSharedOne m) sub.filter c).isSome = true := by
  induction L generalizing m with
  | nil => cases h
  | cons e rest ih =>
    rcases List.mem_cons.mp h with h | h
    · subst h
      rw [List.foldl_cons]
      apply sharedGet_fold_persist rest (gatherSharedOne m (c, sub))
      rw [sharedGet_gatherSharedOne, if_pos ⟨rfl, rfl⟩]
      rfl
    · exact ih _ h

theorem foldl_flatMap_eq {α β γ} (l : List α) (h : α → List β) (f : γ → β → γ) (acc : γ) :
    l.foldl (fun m a => (h a).foldl f m) acc = (l.flatMap h).foldl f acc := by
  induction l generalizing acc with
  | nil => rfl
  | cons a rest ih => rw [List.foldl_cons, ih, List.flatMap_cons, List.foldl_append]

/-- the `(client, subscription)` pairs `gatherSharedSubscriptions` files, over a list of visits, in order -/
def sharedWriters (ns : List Node) (topic : Str) (L : List Gather) : List (Str × Sub) :=
  L.flatMap fun g =>
    match g with
    | .shared p =>
      match getNode ns p with
      | none => []
      | some n => if topicDollar topic && wildStart p then [] else n.shared.flatMap (·.2)
    | _ => []

theorem shared_fold_eq_writers (ns : List Node) (topic : Str) (L : List Gather) (acc : Subscribers) :
    (L.foldl (gatherStep ns topic) acc).shared = (sharedWriters ns topic L).foldl gatherSharedOne acc.shared := by
  induction L generalizing acc with
  | nil => rfl
  | cons g rest ih =>
    rw [List.foldl_cons, ih]
    unfold sharedWriters
    rw [List.flatMap_cons, List.foldl_append]
    congr 1
    cases g with
    | subs p => simp only [gatherStep]; split <;> rfl
    | inline p => simp only [gatherStep]; (repeat' split) <;> rfl
    | shared p =>
      simp only [gatherStep]
      cases getNode ns p with
      | none => rfl
      | some n =>
        simp only
        split
        · rfl
        · exact foldl_flatMap_eq n.shared (·.2) gatherSharedOne acc.shared

theorem mem_sharedWriters (ns : List Node) (topic : Str) (L : List Gather) (c : Str) (sub : Sub) :
    (c, sub) ∈ sharedWriters ns topic L ↔
      ∃ p, Gather.shared p ∈ L ∧ ∃ n, getNode ns p = some n ∧ (topicDollar topic && wildStart p) = false ∧
        ∃ gm ∈ n.shared, (c, sub) ∈ gm.2 := by
  unfold sharedWriters
  rw [List.mem_flatMap]
  constructor
  · rintro ⟨g, hg, hm⟩
    cases g with
    | subs p => simp at hm
    | inline p => simp at hm
    | shared p =>
      simp only at hm
      cases hn : getNode ns p with
      | none => rw [hn] at hm; simp at hm
      | some n =>
        rw [hn] at hm
        simp only at hm
        split at hm
        · simp at hm
        · rename_i hd
          obtain ⟨gm, hgm, hc⟩ := List.mem_flatMap.mp hm
          exact ⟨p, hg, n, hn, by simpa using hd, gm, hgm, hc⟩
  · rintro ⟨p, hp, n, hn, hd, gm, hgm, hc⟩
    refine ⟨Gather.shared p, hp, ?_⟩
    simp only [hn, hd, Bool.false_eq_true, if_false]
    exact List.mem_flatMap.mpr ⟨gm, hgm, hc⟩

/-- a shared subscription of the index whose topic part matches: `sub`, held for client `c`, is stored at the
    address and under the group its own filter determines (`$share/<group>/<topic filter>`), and the topic filter
    `specMatch`es the topic -/
def MatchingShared (x : Index) (topic c : Str) (sub : Sub) : Prop :=
  sharedAt x (sharePath sub.filter) (shareGroup sub.filter) c = some sub ∧
    specMatch (sharePath sub.filter) topic = true

/-- **the candidate map, declaratively** (C01's scan exactness for shared subscriptions, for every structurally sound
    index): the candidate entry keyed `f` holds `sub` for client `c` iff `sub` is a shared subscription of `c` in the
    index with filter `f` whose topic part `specMatch`es the topic -/
theorem shared_candidates_iff (x : Index) (hx : IdxOK x) (topic : Str) (hne : topic ≠ [])
    (hnh : ∀ t ∈ splitLevels topic, t ≠ [hash]) (f c : Str) (sub : Sub) :
    sharedGet (subscribers x topic).shared f c = some sub ↔ sub.filter = f ∧ MatchingShared x topic c sub := by
  have hempty : topic.isEmpty = false := by cases topic <;> simp_all
  have hsh : (subscribers x topic).shared =
      (sharedWriters x.nodes topic (scanVisits x.nodes [] (splitLevels topic))).foldl gatherSharedOne [] := by
    unfold subscribers
    simp only [hempty, Bool.false_eq_true, if_false]
    exact shared_fold_eq_writers _ _ _ _
  have hscan : ∀ q, Gather.shared q ∈ scanVisits x.nodes [] (splitLevels topic) ↔
      hasNode x.nodes q = true ∧ matchLv q (splitLevels topic) = true := by
    intro q
    rw [scan_iff Gather.shared mem_gatherAll_shared _ hx.pc _ (splitLevels_ne_nil topic) hnh]
    simp
  have hdr : ∀ q, dollarRule q topic = (topicDollar topic && wildStart q) := by
    intro q
    unfold dollarRule topicDollar wildStart
    cases topic <;> simp
  -- a writer is a matching shared entry of the index
  have hwriter : ∀ c sub, (c, sub) ∈ sharedWriters x.nodes topic (scanVisits x.nodes [] (splitLevels topic)) ↔
      MatchingShared x topic c sub := by
    intro c sub
    rw [mem_sharedWriters]
    constructor
    · rintro ⟨p, hp, n, hn, hd, gm, hgm, hc⟩
      have hok := hx.keys n (getNode_mem hn)
      have hat : sharedAt x p gm.1 c = some sub := by
        unfold sharedAt sharedGet
        rw [hn]
        simp only [Option.bind_some]
        rw [assocGet_of_mem _ _ _ hok.shared hgm]
        exact assocGet_of_mem _ _ _ (hok.members gm hgm) hc
      obtain ⟨_, h2, h3⟩ := hx.pos.shared p gm.1 c sub hat
      refine ⟨by rw [h2, h3]; exact hat, ?_⟩
      unfold specMatch
      rw [h2, ((hscan p).mp hp).2, hdr, hd]
      rfl
    · rintro ⟨hat, hsm⟩
      unfold sharedAt at hat
      cases hn : getNode x.nodes (sharePath sub.filter) with
      | none => rw [hn] at hat; cases hat
      | some n =>
        rw [hn] at hat
        simp only [Option.bind_some] at hat
        unfold sharedGet at hat
        cases hg : assocGet n.shared (shareGroup sub.filter) with
        | none => rw [hg] at hat; cases hat
        | some mm =>
          rw [hg] at hat
          unfold specMatch at hsm
          rw [hdr] at hsm
          have hm : matchLv (sharePath sub.filter) (splitLevels topic) = true := by
            cases h : matchLv (sharePath sub.filter) (splitLevels topic)
            · rw [h] at hsm; cases hsm
            · rfl
          have hd : (topicDollar topic && wildStart (sharePath sub.filter)) = false := by
            rw [hm] at hsm
            cases h1 : topicDollar topic <;> cases h2 : wildStart (sharePath sub.filter) <;> simp [h1, h2] at hsm ⊢
          refine ⟨_, (hscan _).mpr ⟨?_, hm⟩, n, hn, hd, (shareGroup sub.filter, mm), assocGet_mem _ _ _ hg,
            assocGet_mem _ _ _ hat⟩
          rw [hasNode_iff]
          exact ⟨n, getNode_mem hn, getNode_path hn⟩
  rw [hsh]
  constructor
  · intro h
    rcases sharedGet_fold_sound _ _ _ _ _ h with h' | ⟨h1, h2⟩
    · simp [sharedGet, assocGet] at h'
    · exact ⟨h2, (hwriter c sub).mp h1⟩
  · rintro ⟨hf, hms⟩
    have hc := sharedGet_fold_complete _ [] c sub ((hwriter c sub).mpr hms)
    rw [hf] at hc
    cases hg : sharedGet (List.foldl gatherSharedOne []
        (sharedWriters x.nodes topic (scanVisits x.nodes [] (splitLevels topic)))) f c with
    | none => rw [hg] at hc; cases hc
    | some sub' =>
      rcases sharedGet_fold_sound _ _ _ _ _ hg with h' | ⟨h1, h2⟩
      · simp [sharedGet, assocGet] at h'
      · have hms' := (hwriter c sub').mp h1
        -- same filter: same address and group, hence the same entry
        have e : sub'.filter = sub.filter := h2.trans hf.symm
        have a := hms'.1
        rw [e, hms.1] at a
        exact a.symm ▸ rfl

/-- membership form: `(c, sub)` is a member of the candidate entry `g` -/
theorem mem_candidate_iff (x : Index) (hx : IdxOK x) (topic : Str) (hne : topic ≠ [])
    (hnh : ∀ t ∈ splitLevels topic, t ≠ [hash]) (c : Str) (sub : Sub) :
    (∃ g ∈ (subscribers x topic).shared, (c, sub) ∈ g.2) ↔ MatchingShared x topic c sub := by
  have hok := Mochi.Broker.subscribers_sharedOK x topic
  constructor
  · rintro ⟨g, hg, hc⟩
    have : sharedGet (subscribers x topic).shared g.1 c = some sub := by
      unfold sharedGet
      rw [assocGet_of_mem _ _ _ hok.keys hg]
      exact assocGet_of_mem _ _ _ (hok.members g hg) hc
    exact ((shared_candidates_iff x hx topic hne hnh g.1 c sub).mp this).2
  · intro h
    have := (shared_candidates_iff x hx topic hne hnh sub.filter c sub).mpr ⟨rfl, h⟩
    unfold sharedGet at this
    cases hg : assocGet (subscribers x topic).shared sub.filter with
    | none => rw [hg] at this; cases this
    | some mm =>
      rw [hg] at this
      exact ⟨(sub.filter, mm), assocGet_mem _ _ _ hg, assocGet_mem _ _ _ this⟩

end Mochi.Topics
