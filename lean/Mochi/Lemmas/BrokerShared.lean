import Mochi.Props.C03
/-!
# Share groups and inline subscriptions in the delivery theorem (C06, C40)

* `pickAt seed l k` — the member `SelectShared` picks for the `k`-th candidate entry of `l` (digit `k` of the seed);
  `picks seed l` — all of them, in order; `selectShared_exact`: the selection holds exactly the picked members.
* `subsMapOf s topic` — the subscriber map `publishToSubscribers` iterates, WITH the selected shared members merged
  in; `publishToSubscribers_eq_fold_shared` removes the hypothesis `shared = []` from the fold form of the publish.
* `EntitledShared` — who is written a QoS 0 publication, plain and shared subscriptions together, with the No Local
  merge (F03) explicit.
* inline subscriptions: `inline_delivery_exact`.
-/
namespace Mochi.Broker
open Mochi.Topics

/-! ## `selectShared`, pick by pick -/

/-- the member `SelectShared` picks for the `k`-th candidate entry of `l` (in the order the entries are visited):
    the `k`-th base-3 digit of the seed, modulo the number of members -/
def pickAt : Nat → List (Str × List (Str × Sub)) → Nat → Option (Str × Sub)
  | _, [], _ => none
  | seed, g :: _, 0 => g.2[seed % 3 % g.2.length]?
  | seed, _ :: rest, k + 1 => pickAt (seed / 3) rest k

/-- all picks, in the order the entries are visited -/
def picks : Nat → List (Str × List (Str × Sub)) → List (Str × Sub)
  | _, [] => []
  | seed, g :: rest => (g.2[seed % 3 % g.2.length]?).toList ++ picks (seed / 3) rest

/-- one merge into a subscriber map (`Subscription.Merge` under the client id): the loop body of `SelectShared`
    and of `MergeSharedSelected` -/
def mergeOne (m : List (Str × Sub)) (cs : Str × Sub) : List (Str × Sub) :=
  match assocGet m cs.1 with
  | none => assocSet m cs.1 (cs.2.merge cs.2)
  | some cls => assocSet m cs.1 (cls.merge cs.2)

theorem pickAt_closed (seed : Nat) (l : List (Str × List (Str × Sub))) (k : Nat) :
    pickAt seed l k = (l[k]?).bind (fun g => g.2[seed / 3 ^ k % 3 % g.2.length]?) := by
  induction l generalizing seed k with
  | nil => simp [pickAt]
  | cons g rest ih =>
    cases k with
    | zero => simp [pickAt]
    | succ k =>
      rw [pickAt, ih]
      simp only [List.getElem?_cons_succ, Nat.pow_succ, Nat.div_div_eq_div_mul]
      rw [Nat.mul_comm 3 (3 ^ k)]

theorem mem_picks (seed : Nat) (l : List (Str × List (Str × Sub))) (cs : Str × Sub) :
    cs ∈ picks seed l ↔ ∃ k, pickAt seed l k = some cs := by
  induction l generalizing seed with
  | nil => simp [picks, pickAt]
  | cons g rest ih =>
    rw [picks, List.mem_append, ih]
    constructor
    · rintro (h | ⟨k, hk⟩)
      · exact ⟨0, by simpa [pickAt] using h⟩
      · exact ⟨k + 1, hk⟩
    · rintro ⟨k, hk⟩
      cases k with
      | zero => left; simpa [pickAt] using hk
      | succ k => exact Or.inr ⟨k, hk⟩

/-- a pick for position `k` is a member of the `k`-th entry -/
theorem pickAt_mem (seed : Nat) (l : List (Str × List (Str × Sub))) (k : Nat) (cs : Str × Sub)
    (h : pickAt seed l k = some cs) : ∃ g, l[k]? = some g ∧ cs ∈ g.2 := by
  induction l generalizing seed k with
  | nil => simp [pickAt] at h
  | cons g rest ih =>
    cases k with
    | zero => exact ⟨g, rfl, List.mem_of_getElem? h⟩
    | succ k =>
      obtain ⟨g', h1, h2⟩ := ih (seed / 3) k h
      exact ⟨g', by simpa using h1, h2⟩

/-- an entry with at least one member gets a pick -/
theorem pickAt_some (seed : Nat) (l : List (Str × List (Str × Sub))) (k : Nat) (g : Str × List (Str × Sub))
    (hg : l[k]? = some g) (hne : g.2 ≠ []) : ∃ cs, pickAt seed l k = some cs ∧ cs ∈ g.2 := by
  rw [pickAt_closed, hg]
  have hpos : 0 < g.2.length := List.length_pos_iff.mpr hne
  have hlt : seed / 3 ^ k % 3 % g.2.length < g.2.length := Nat.mod_lt _ hpos
  refine ⟨g.2[seed / 3 ^ k % 3 % g.2.length], ?_, List.getElem_mem hlt⟩
  simp [List.getElem?_eq_getElem hlt]

theorem selectOne_eq (acc : List (Str × Sub) × Nat) (g : Str × List (Str × Sub)) :
    selectOne acc g =
      (((g.2[acc.2 % 3 % g.2.length]?).toList).foldl mergeOne acc.1, acc.2 / 3) := by
  unfold selectOne
  cases g.2[acc.2 % 3 % g.2.length]? with
  | none => rfl
  | some cs =>
    simp only [Option.toList, List.foldl_cons, List.foldl_nil, mergeOne]
    cases assocGet acc.1 cs.1 <;> rfl

theorem selectFold_eq (l : List (Str × List (Str × Sub))) (acc : List (Str × Sub)) (seed : Nat) :
    (l.foldl selectOne (acc, seed)).1 = (picks seed l).foldl mergeOne acc := by
  induction l generalizing acc seed with
  | nil => rfl
  | cons g rest ih =>
    rw [List.foldl_cons, selectOne_eq, ih, picks, List.foldl_append]

theorem selectShared_eq_picks (seed : Nat) (r : Subscribers) :
    selectShared seed r = (picks seed r.shared).foldl mergeOne [] :=
  selectFold_eq r.shared [] seed

theorem mergeSharedSelected_eq (subs sel : List (Str × Sub)) :
    mergeSharedSelected subs sel = sel.foldl mergeOne subs := by
  unfold mergeSharedSelected
  congr 1

theorem dollarExcluded_nil_topic (f : Str) : dollarExcluded f [] = false := by
  cases f <;> rfl

theorem mergeOne_eq_gather (m : List (Str × Sub)) (cs : Str × Sub) : mergeOne m cs = gatherSubOne [] m cs := by
  unfold gatherSubOne mergeOne
  rw [dollarExcluded_nil_topic]
  rfl

theorem mergeFold_eq_gather (L : List (Str × Sub)) (m : List (Str × Sub)) :
    L.foldl mergeOne m = L.foldl (gatherSubOne []) m := by
  congr 1
  funext m cs
  exact mergeOne_eq_gather m cs

/-- the merged subscriptions after merging a list of `(client, subscription)` pairs into a map -/
theorem hasSub_mergeFold {P : Sub → Prop} (hP : MergeOr P) (L m : List (Str × Sub)) (c : Str) :
    HasSub P (L.foldl mergeOne m) c ↔ HasSub P m c ∨ ∃ sub, (c, sub) ∈ L ∧ P sub := by
  rw [mergeFold_eq_gather, hasSub_subs_fold hP]
  constructor
  · rintro (h | ⟨sub, h1, _, h3⟩)
    · exact Or.inl h
    · exact Or.inr ⟨sub, h1, h3⟩
  · rintro (h | ⟨sub, h1, h3⟩)
    · exact Or.inl h
    · exact Or.inr ⟨sub, h1, dollarExcluded_nil_topic _, h3⟩

theorem nodup_mergeFold (L m : List (Str × Sub)) (h : (m.map Prod.fst).Nodup) :
    ((L.foldl mergeOne m).map Prod.fst).Nodup := by
  rw [mergeFold_eq_gather]
  induction L generalizing m with
  | nil => exact h
  | cons e rest ih => exact ih _ (nodup_gatherSubOne [] m e h)

theorem not_hasSub_nil (P : Sub → Prop) (c : Str) : ¬ HasSub P [] c := by
  rintro ⟨sub, h, _⟩
  cases h

/-- in a map (distinct keys) "holds an entry with `P`" is `HasSub` -/
theorem hasSub_iff_mem {P : Sub → Prop} (m : List (Str × Sub)) (hnd : (m.map Prod.fst).Nodup) (c : Str) :
    HasSub P m c ↔ ∃ sub, (c, sub) ∈ m ∧ P sub := by
  constructor
  · rintro ⟨sub, h, hp⟩
    exact ⟨sub, assocGet_mem _ _ _ h, hp⟩
  · rintro ⟨sub, h, hp⟩
    exact ⟨sub, assocGet_of_mem_nodup _ _ _ hnd h, hp⟩

/-- exactly one `x` has `p` (core Lean has no `∃!`) -/
def ExactlyOne {α : Type} (p : α → Prop) : Prop := ∃ x, p x ∧ ∀ y, p y → y = x

/-- client `c` is the member picked for the `k`-th candidate entry -/
def ChosenAt (seed : Nat) (l : List (Str × List (Str × Sub))) (k : Nat) (c : Str) : Prop :=
  ∃ sub, pickAt seed l k = some (c, sub)

/-- **Item 1 — `selectShared_exact`.**  For every resolution `seed` of Go's map order and every candidate map
    `r.shared` (key: the full filter string `$share/<group>/<topic filter>`; value: client id ↦ subscription) whose
    entries each have at least one member:

    1. for each candidate entry (position `k`) exactly one client is picked, and it is one of ITS members;
    2. a client is in the selection iff it was picked for some entry;
    3. hence a member of an entry that was picked for no entry is absent from the selection;
    4. the selection has one entry per client (a client picked for several entries is merged). -/
theorem selectShared_exact (seed : Nat) (r : Subscribers) (hne : ∀ g ∈ r.shared, g.2 ≠ []) :
    (∀ k (hk : k < r.shared.length),
      ExactlyOne fun c => c ∈ (r.shared[k]).2.map Prod.fst ∧ ChosenAt seed r.shared k c) ∧
    (∀ c, c ∈ (selectShared seed r).map Prod.fst ↔ ∃ k, ChosenAt seed r.shared k c) ∧
    (∀ g ∈ r.shared, ∀ c ∈ g.2.map Prod.fst, (¬ ∃ k, ChosenAt seed r.shared k c) →
      c ∉ (selectShared seed r).map Prod.fst) ∧
    ((selectShared seed r).map Prod.fst).Nodup := by
  have h2 : ∀ c, c ∈ (selectShared seed r).map Prod.fst ↔ ∃ k, ChosenAt seed r.shared k c := by
    intro c
    rw [mem_keys_iff_hasSub, selectShared_eq_picks, hasSub_mergeFold mergeOr_true]
    constructor
    · rintro (h | ⟨sub, h, _⟩)
      · exact absurd h (not_hasSub_nil _ _)
      · obtain ⟨k, hk⟩ := (mem_picks _ _ _).mp h
        exact ⟨k, sub, hk⟩
    · rintro ⟨k, sub, hk⟩
      exact Or.inr ⟨sub, (mem_picks _ _ _).mpr ⟨k, hk⟩, trivial⟩
  refine ⟨?_, h2, ?_, ?_⟩
  · intro k hk
    have hg : r.shared[k]? = some r.shared[k] := List.getElem?_eq_getElem hk
    obtain ⟨cs, h1, h3⟩ := pickAt_some seed r.shared k _ hg (hne _ (List.getElem_mem hk))
    refine ⟨cs.1, ⟨List.mem_map.mpr ⟨cs, h3, rfl⟩, cs.2, h1⟩, ?_⟩
    rintro c' ⟨_, sub', h'⟩
    rw [h1] at h'
    cases h'
    rfl
  · intro g _ c _ hn hc
    exact hn ((h2 c).mp hc)
  · rw [selectShared_eq_picks]
    exact nodup_mergeFold _ _ List.nodup_nil

/-! ## The subscriber map with the selected shared members, and the publish as a fold over it -/

/-- the subscriber map `publishToSubscribers` iterates: the plain entries, and — if any shared subscription
    matches — the selected members merged in -/
def subsMapOf (s : Server) (topic : Str) : List (Str × Sub) :=
  if (subscribers s.topics topic).shared.length > 0 then
    mergeSharedSelected (subscribers s.topics topic).subs
      (selectShared s.pickSeed
        { subscribers s.topics topic with shared := permuteBy s.orderSeed (subscribers s.topics topic).shared })
  else (subscribers s.topics topic).subs

/-- the candidate entries in the order they are visited (`orderSeed` resolves Go's map order) -/
def visitOrder (s : Server) (topic : Str) : List (Str × List (Str × Sub)) :=
  permuteBy s.orderSeed (subscribers s.topics topic).shared

/-- the members picked (`pickSeed`), one per candidate entry with members, in visiting order -/
def sharedPicks (s : Server) (topic : Str) : List (Str × Sub) := picks s.pickSeed (visitOrder s topic)

theorem subsMapOf_eq (s : Server) (topic : Str) :
    subsMapOf s topic =
      ((sharedPicks s topic).foldl mergeOne []).foldl mergeOne (subscribers s.topics topic).subs := by
  unfold subsMapOf sharedPicks visitOrder
  split
  · rw [mergeSharedSelected_eq, selectShared_eq_picks]
  · rename_i h
    have : (subscribers s.topics topic).shared = [] := List.eq_nil_of_length_eq_zero (by omega)
    rw [this]
    rfl

theorem subsMapOf_nodup (s : Server) (topic : Str) : ((subsMapOf s topic).map Prod.fst).Nodup := by
  rw [subsMapOf_eq]
  exact nodup_mergeFold _ _ (C03_one_entry_per_client s.topics topic)

/-- the merged subscription of client `c` in the subscriber map has the disjunctive property `P` iff its plain
    entry has, or a subscription it was picked with has -/
theorem hasSub_subsMapOf {P : Sub → Prop} (hP : MergeOr P) (s : Server) (topic c : Str) :
    HasSub P (subsMapOf s topic) c ↔
      HasSub P (subscribers s.topics topic).subs c ∨ ∃ sub, (c, sub) ∈ sharedPicks s topic ∧ P sub := by
  have hnd : (((sharedPicks s topic).foldl mergeOne []).map Prod.fst).Nodup :=
    nodup_mergeFold (sharedPicks s topic) [] List.nodup_nil
  rw [subsMapOf_eq, hasSub_mergeFold hP, ← hasSub_iff_mem _ hnd, hasSub_mergeFold hP]
  constructor
  · rintro (h | h | h)
    · exact Or.inl h
    · exact absurd h (not_hasSub_nil _ _)
    · exact Or.inr h
  · rintro (h | h)
    · exact Or.inl h
    · exact Or.inr (Or.inr h)

theorem publishToSubscribers_eq_fold_shared (s : Server) (pk : Msg) (hig : pk.ignore = false) :
    publishToSubscribers s pk =
      (subsMapOf s pk.topic).foldl (deliverStep (stamped s pk))
        (s, (subscribers s.topics pk.topic).inline.map fun x => Out.inline x.1 pk.topic pk.payload) := by
  have htop := (stamped_fields s pk).1
  have hpay := (stamped_fields s pk).2.1
  unfold publishToSubscribers
  rw [if_neg (by rw [hig]; exact Bool.false_ne_true)]
  show (subsMapOf s (stamped s pk).topic).foldl (deliverStep (stamped s pk))
      (s, (subscribers s.topics (stamped s pk).topic).inline.map
        fun x => Out.inline x.1 (stamped s pk).topic (stamped s pk).payload) = _
  rw [htop, hpay]

/-- the connections written a PUBLISH, in order, are the recipients of the entries of the subscriber map (plain
    and selected shared, merged), in order — no hypothesis on shared subscriptions -/
theorem publishToSubscribers_pubConns_shared (s : Server) (pk : Msg)
    (hcv : ∀ id i, (id, i) ∈ s.clients → i < s.objs.length)
    (hig : pk.ignore = false) (ht : pk.type = 3)
    (hq : pk.qos = 0 ∨ ∀ cs ∈ subsMapOf s pk.topic, cs.2.qos = 0) :
    (publishToSubscribers s pk).2.filterMap pubConn = (subsMapOf s pk.topic).filterMap (recipient s pk) ∧
    ∀ x ∈ (publishToSubscribers s pk).2, (∃ id, x = Out.inline id pk.topic pk.payload) ∨ IsCopy pk x := by
  rw [publishToSubscribers_eq_fold_shared s pk hig]
  obtain ⟨_, _, q3, q4⟩ := fold_pubConns s (stamped s pk) hcv
    ((stamped_fields s pk).2.2.2.1.trans ht) (subsMapOf s pk.topic)
    (hq.imp (fun h => (stamped_fields s pk).2.2.1.trans h) id)
    (s, (subscribers s.topics pk.topic).inline.map fun x => Out.inline x.1 pk.topic pk.payload) (Deliv.refl s) rfl
  refine ⟨?_, ?_⟩
  · rw [q3, recipient_stamped]
    have : ((subscribers s.topics pk.topic).inline.map fun x => Out.inline x.1 pk.topic pk.payload).filterMap pubConn
        = [] := by
      rw [List.filterMap_map]
      apply List.filterMap_eq_nil_iff.mpr
      intro a _
      rfl
    show List.filterMap pubConn _ ++ _ = _
    rw [this, List.nil_append]
  · intro x hx
    rcases q4 x hx with h | h
    · obtain ⟨a, _, rfl⟩ := List.mem_map.mp h
      exact Or.inl ⟨a.1, rfl⟩
    · exact Or.inr (IsCopy_stamped h)

/-! ## Who is entitled, with shared subscriptions -/

/-- client `cid` was picked, with subscription `sub`, for some candidate entry matching `topic` (picked by
    `s.pickSeed` among the members of the entry, the entries visited in the order `permuteBy s.orderSeed`) -/
def PickedWith (s : Server) (topic cid : Str) (sub : Sub) : Prop :=
  ∃ k, pickAt s.pickSeed (visitOrder s topic) k = some (cid, sub)

theorem mem_sharedPicks (s : Server) (topic cid : Str) (sub : Sub) :
    (cid, sub) ∈ sharedPicks s topic ↔ PickedWith s topic cid sub := mem_picks _ _ _

/-- **entitlement with shared subscriptions, as the model implements it.**  Connection `n` belongs to a client
    object registered under its id `cid`, open, not inline, peer not gone, `cid` may read the topic, and

    * `cid` has an entry in the map of matching PLAIN subscriptions, **or** `cid` is the member picked for some
      matching candidate entry (F06: a candidate entry is one FILTER of one share name — a share name with two
      matching filters is two candidate entries, each with its own pick);
    * (F03) it is not the case that `cid` is the publisher and No Local is set on its merged plain entry OR on a
      subscription it was picked with: `Subscription.Merge` ORs No Local over everything merged under one id. -/
def EntitledShared (s : Server) (pk : Msg) (n : Nat) : Prop :=
  ∃ cid i, (cid, i) ∈ s.clients ∧ (getObj s i).conn = n ∧ (getObj s i).isOpen = true ∧
    (getObj s i).inline = false ∧ (getObj s i).peerGone = false ∧ aclOk s cid pk.topic false = true ∧
    ((∃ sub, (cid, sub) ∈ (subscribers s.topics pk.topic).subs) ∨ (∃ sub, PickedWith s pk.topic cid sub)) ∧
    ¬ (pk.origin = cid ∧
        ((∃ sub, (cid, sub) ∈ (subscribers s.topics pk.topic).subs ∧ sub.noLocal = true) ∨
         (∃ sub, PickedWith s pk.topic cid sub ∧ sub.noLocal = true)))

theorem entitledVia_subsMapOf_iff (s : Server) (pk : Msg) (n : Nat) :
    EntitledVia s pk (subsMapOf s pk.topic) n ↔ EntitledShared s pk n := by
  have hnd := subsMapOf_nodup s pk.topic
  have hnds := C03_one_entry_per_client s.topics pk.topic
  have hkey := fun c => hasSub_subsMapOf mergeOr_true s pk.topic c
  have hnl := fun c => hasSub_subsMapOf mergeOr_noLocal s pk.topic c
  constructor
  · rintro ⟨cid, i, sub, h1, h2, h3, h4, h5, hs, h7, h8⟩
    have hg := assocGet_of_mem_nodup _ _ _ hnd hs
    refine ⟨cid, i, h1, h2, h3, h4, h5, h7, ?_, ?_⟩
    · rcases (hkey cid).mp ⟨sub, hg, trivial⟩ with h | ⟨sub', h, _⟩
      · obtain ⟨sub', h, _⟩ := (hasSub_iff_mem _ hnds cid).mp h
        exact Or.inl ⟨sub', h⟩
      · exact Or.inr ⟨sub', (mem_sharedPicks _ _ _ _).mp h⟩
    · rintro ⟨ho, hex⟩
      have : HasSub (fun sub => sub.noLocal = true) (subsMapOf s pk.topic) cid := by
        apply (hnl cid).mpr
        rcases hex with ⟨sub', h, hn⟩ | ⟨sub', h, hn⟩
        · exact Or.inl ((hasSub_iff_mem _ hnds cid).mpr ⟨sub', h, hn⟩)
        · exact Or.inr ⟨sub', (mem_sharedPicks _ _ _ _).mpr h, hn⟩
      obtain ⟨sub', hg', hn'⟩ := this
      rw [hg] at hg'
      cases hg'
      rw [hn', ho] at h8
      simp at h8
  · rintro ⟨cid, i, h1, h2, h3, h4, h5, h7, h6, h8⟩
    have : HasSub (fun _ => True) (subsMapOf s pk.topic) cid := by
      apply (hkey cid).mpr
      rcases h6 with ⟨sub', h⟩ | ⟨sub', h⟩
      · exact Or.inl ((hasSub_iff_mem _ hnds cid).mpr ⟨sub', h, trivial⟩)
      · exact Or.inr ⟨sub', (mem_sharedPicks _ _ _ _).mpr h, trivial⟩
    obtain ⟨sub, hg, _⟩ := this
    refine ⟨cid, i, sub, h1, h2, h3, h4, h5, assocGet_mem _ _ _ hg, h7, ?_⟩
    cases hs : sub.noLocal with
    | false => rfl
    | true =>
      by_cases ho : pk.origin = cid
      · exfalso
        apply h8
        refine ⟨ho, ?_⟩
        rcases (hnl cid).mp ⟨sub, hg, hs⟩ with h | ⟨sub', h, hn⟩
        · obtain ⟨sub', h, hn⟩ := (hasSub_iff_mem _ hnds cid).mp h
          exact Or.inl ⟨sub', h, hn⟩
        · exact Or.inr ⟨sub', (mem_sharedPicks _ _ _ _).mp h, hn⟩
      · simp [ho]

/-- entitled through a subscription it was picked with: `EntitledVia` over the list of picks -/
abbrev EntitledPicked (s : Server) (pk : Msg) (n : Nat) : Prop := EntitledVia s pk (sharedPicks s pk.topic) n

/-- the publisher holds `sub` for this topic: as its merged plain entry, or as a subscription it was picked with -/
def HeldByPublisher (s : Server) (pk : Msg) (sub : Sub) : Prop :=
  (pk.origin, sub) ∈ (subscribers s.topics pk.topic).subs ∨ PickedWith s pk.topic pk.origin sub

/-- the F03 situation across plain and shared subscriptions: the publisher holds, for this topic, one subscription
    (merged plain entry or pick) with No Local and one without -/
def NoLocalMixedShared (s : Server) (pk : Msg) : Prop :=
  ∃ sub sub', HeldByPublisher s pk sub ∧ sub.noLocal = true ∧ HeldByPublisher s pk sub' ∧ sub'.noLocal = false

/-- whoever is entitled is entitled through the plain entry or through a pick … -/
theorem EntitledShared.or {s : Server} {pk : Msg} {n : Nat} (h : EntitledShared s pk n) :
    EntitledVia s pk (subscribers s.topics pk.topic).subs n ∨ EntitledPicked s pk n := by
  obtain ⟨cid, i, h1, h2, h3, h4, h5, h7, h6, h8⟩ := h
  rcases h6 with ⟨sub, hs⟩ | ⟨sub, hs⟩
  · refine Or.inl ⟨cid, i, sub, h1, h2, h3, h4, h5, hs, h7, ?_⟩
    cases hn : sub.noLocal with
    | false => rfl
    | true =>
      by_cases ho : pk.origin = cid
      · exact absurd ⟨ho, Or.inl ⟨sub, hs, hn⟩⟩ h8
      · simp [ho]
  · refine Or.inr ⟨cid, i, sub, h1, h2, h3, h4, h5, (mem_sharedPicks _ _ _ _).mpr hs, h7, ?_⟩
    cases hn : sub.noLocal with
    | false => rfl
    | true =>
      by_cases ho : pk.origin = cid
      · exact absurd ⟨ho, Or.inr ⟨sub, hs, hn⟩⟩ h8
      · simp [ho]

/-- … and outside the F03 situation the converse holds: "entitled through a plain subscription OR the picked member
    of a candidate entry" -/
theorem entitledShared_iff_or {s : Server} {pk : Msg} (hmix : ¬ NoLocalMixedShared s pk) (n : Nat) :
    EntitledShared s pk n ↔
      EntitledVia s pk (subscribers s.topics pk.topic).subs n ∨ EntitledPicked s pk n := by
  constructor
  · exact EntitledShared.or
  · have key : ∀ cid sub, HeldByPublisher s pk sub ∨ pk.origin ≠ cid → (sub.noLocal && pk.origin == cid) = false →
        ¬ (pk.origin = cid ∧
          ((∃ sub, (cid, sub) ∈ (subscribers s.topics pk.topic).subs ∧ sub.noLocal = true) ∨
           (∃ sub, PickedWith s pk.topic cid sub ∧ sub.noLocal = true))) := by
      rintro cid sub hh h8 ⟨ho, hex⟩
      subst ho
      rcases hh with hh | hh
      · have hf : sub.noLocal = false := by
          cases hn : sub.noLocal with
          | false => rfl
          | true => rw [hn] at h8; simp at h8
        rcases hex with ⟨sub', h, hn⟩ | ⟨sub', h, hn⟩
        · exact hmix ⟨sub', sub, Or.inl h, hn, hh, hf⟩
        · exact hmix ⟨sub', sub, Or.inr h, hn, hh, hf⟩
      · exact hh rfl
    rintro (⟨cid, i, sub, h1, h2, h3, h4, h5, hs, h7, h8⟩ | ⟨cid, i, sub, h1, h2, h3, h4, h5, hs, h7, h8⟩)
    · refine ⟨cid, i, h1, h2, h3, h4, h5, h7, Or.inl ⟨sub, hs⟩, key cid sub ?_ h8⟩
      by_cases ho : pk.origin = cid
      · subst ho; exact Or.inl (Or.inl hs)
      · exact Or.inr ho
    · have hp := (mem_sharedPicks _ _ _ _).mp hs
      refine ⟨cid, i, h1, h2, h3, h4, h5, h7, Or.inr ⟨sub, hp⟩, key cid sub ?_ h8⟩
      by_cases ho : pk.origin = cid
      · subst ho; exact Or.inl (Or.inr hp)
      · exact Or.inr ho

/-! ## The candidate map: distinct keys, no empty entry, every member filed under its own filter -/

structure SharedOK (m : List (Str × List (Str × Sub))) : Prop where
  keys : (m.map Prod.fst).Nodup
  ne : ∀ g ∈ m, g.2 ≠ []
  filed : ∀ g ∈ m, ∀ cs ∈ g.2, cs.2.filter = g.1
  members : ∀ g ∈ m, (g.2.map Prod.fst).Nodup

theorem sharedOK_gatherSharedOne (m : List (Str × List (Str × Sub))) (cs : Str × Sub) (h : SharedOK m) :
    SharedOK (gatherSharedOne m cs) := by
  unfold gatherSharedOne
  cases hg : assocGet m cs.2.filter with
  | none =>
    simp only
    have hnm := assocGet_none_not_mem m _ hg
    refine ⟨?_, ?_, ?_, ?_⟩
    · rw [List.map_append, List.nodup_append]
      refine ⟨h.keys, by simp, ?_⟩
      intro a ha b hb
      simp only [List.map_cons, List.map_nil, List.mem_singleton] at hb
      subst hb
      intro e
      subst e
      exact hnm ha
    · intro g hgm
      rcases List.mem_append.mp hgm with hgm | hgm
      · exact h.ne g hgm
      · simp only [List.mem_singleton] at hgm; subst hgm; simp
    · intro g hgm c hc
      rcases List.mem_append.mp hgm with hgm | hgm
      · exact h.filed g hgm c hc
      · simp only [List.mem_singleton] at hgm; subst hgm
        simp only [List.mem_singleton] at hc; subst hc; rfl
    · intro g hgm
      rcases List.mem_append.mp hgm with hgm | hgm
      · exact h.members g hgm
      · simp only [List.mem_singleton] at hgm; subst hgm; simp
  | some mm =>
    simp only
    have hmm := assocGet_mem _ _ _ hg
    refine ⟨nodup_assocSet _ _ _ h.keys, ?_, ?_, ?_⟩
    · intro g hgm
      rcases assocSet_mem_cases _ _ _ _ hgm with hgm | hgm
      · exact h.ne g hgm
      · subst hgm; exact assocSet_ne_nil _ _ _
    · intro g hgm c hc
      rcases assocSet_mem_cases _ _ _ _ hgm with hgm | hgm
      · exact h.filed g hgm c hc
      · subst hgm
        rcases assocSet_mem_cases _ _ _ _ hc with hc | hc
        · exact h.filed _ hmm c hc
        · subst hc; rfl
    · intro g hgm
      rcases assocSet_mem_cases _ _ _ _ hgm with hgm | hgm
      · exact h.members g hgm
      · subst hgm; exact assocSet_nodup_keys _ _ _ (h.members _ hmm)

theorem sharedOK_gatherStep (ns : List Node) (topic : Str) (acc : Subscribers) (g : Gather)
    (h : SharedOK acc.shared) : SharedOK (gatherStep ns topic acc g).shared := by
  cases g with
  | subs p => simp only [gatherStep]; split <;> exact h
  | inline p => simp only [gatherStep]; (repeat' split) <;> exact h
  | shared p =>
    simp only [gatherStep]
    split
    · exact h
    · split
      · exact h
      · rename_i n _ _
        show SharedOK (n.shared.foldl (fun m g => g.2.foldl gatherSharedOne m) acc.shared)
        refine foldl_inv SharedOK _ _ _ h ?_
        intro m g hm
        exact foldl_inv SharedOK _ _ _ hm (fun m cs hm => sharedOK_gatherSharedOne m cs hm)

/-- the candidate map of every index and topic is a map of non-empty maps, each member filed under its filter -/
theorem subscribers_sharedOK (x : Index) (topic : Str) : SharedOK (subscribers x topic).shared := by
  have h0 : SharedOK [] := ⟨List.nodup_nil, fun _ h => (by cases h), fun _ h => (by cases h), fun _ h => (by cases h)⟩
  unfold subscribers
  split
  · exact h0
  · exact foldl_inv (fun acc : Subscribers => SharedOK acc.shared) _ _ _ h0
      (fun acc g h => sharedOK_gatherStep x.nodes topic acc g h)

/-! ## `permuteBy` is a permutation -/

theorem permuteFuel_perm {α} : ∀ (fuel seed : Nat) (l : List α), l.length ≤ fuel → (permuteFuel fuel seed l).Perm l := by
  intro fuel
  induction fuel with
  | zero => intro seed l _; cases l <;> exact List.Perm.refl _
  | succ fuel ih =>
    intro seed l hl
    cases l with
    | nil => exact List.Perm.refl _
    | cons x xs =>
      have hk : seed % (x :: xs).length < (x :: xs).length := Nat.mod_lt _ (by simp)
      have hget : (x :: xs)[seed % (x :: xs).length]? = some (x :: xs)[seed % (x :: xs).length] :=
        List.getElem?_eq_getElem hk
      unfold permuteFuel
      simp only [hget]
      have hlen : ((x :: xs).eraseIdx (seed % (x :: xs).length)).length ≤ fuel := by
        rw [List.length_eraseIdx_of_lt hk]
        simp only [List.length_cons] at hl ⊢
        omega
      refine (List.Perm.cons _ (ih _ _ hlen)).trans ?_
      rw [List.eraseIdx_eq_take_drop_succ]
      have := List.perm_middle (a := (x :: xs)[seed % (x :: xs).length])
        (l₁ := (x :: xs).take (seed % (x :: xs).length)) (l₂ := (x :: xs).drop (seed % (x :: xs).length + 1))
      refine this.symm.trans ?_
      rw [List.getElem_cons_drop hk, List.take_append_drop]

theorem permuteBy_perm {α} (seed : Nat) (l : List α) : (permuteBy seed l).Perm l :=
  permuteFuel_perm l.length seed l (Nat.le_refl _)

theorem visitOrder_perm (s : Server) (topic : Str) :
    (visitOrder s topic).Perm (subscribers s.topics topic).shared := permuteBy_perm _ _

theorem visitOrder_nodup (s : Server) (topic : Str) : (visitOrder s topic).Nodup := by
  rw [(visitOrder_perm s topic).nodup_iff]
  have hp : (subscribers s.topics topic).shared.Pairwise (fun a b => a.1 ≠ b.1) :=
    List.pairwise_map.mp (subscribers_sharedOK s.topics topic).keys
  exact hp.imp (fun h e => h (congrArg Prod.fst e))

/-- a member picked is a member of a candidate entry -/
theorem pickedWith_member {s : Server} {topic cid : Str} {sub : Sub} (h : PickedWith s topic cid sub) :
    ∃ g ∈ (subscribers s.topics topic).shared, (cid, sub) ∈ g.2 := by
  obtain ⟨k, hk⟩ := h
  obtain ⟨g, hg, hm⟩ := pickAt_mem _ _ _ _ hk
  exact ⟨g, (visitOrder_perm s topic).mem_iff.mp (List.mem_of_getElem? hg), hm⟩

end Mochi.Broker
