import Mochi.Lemmas.BrokerOrder
/-!
# C12, history level, publishes of QoS 1 and QoS 2: the op decomposed, and the order of first transmissions

`Lemmas/BrokerOrder.lean` (namespace `O12`) proves the history-level order for publishes of QoS 0 and, for any QoS,
the routing call.  This file supplies the missing piece: the decomposition of the op
`step s (.recv p (.publish q …))` for an ACCEPTED publish of QoS 1 (and QoS 2) into

  acknowledgement to the publisher ++ the ONE routing call `publishToSubscribers` ++ the publisher's own release tail

(`step_recv_publish_q1`, `step_recv_publish_q1_outputs`; for QoS 2: `step_recv_publish_q2`), so that for a receiving
connection `c` other than the publisher's

  `pubsTo c (step s op).2 = pubsTo c (routing call).2`            (`pubsTo_step_q1`, `pubsTo_step_q2`)

and the first transmission of an IMMEDIATE delivery is written by the publishing op itself, exactly once, with
`dup = false` and the QoS the subscription yields (`publish_q1_first_tx`, `publish_q2_first_tx`); the order on histories
follows from `O12.order_of_first_tx` (`history_order_q1`, `history_order_q2`).

Deferred deliveries and resends are NOT covered: the property is false there (F12, `Props/C12.lean`).
All declarations live in `Mochi.Broker.O12q`.
-/
namespace Mochi.Broker.O12q
open Mochi.Topics Mochi.Broker Mochi.Broker.O12

/-! ### the accepted QoS 1 PUBLISH op -/

/-- the gates an inbound QoS 1 PUBLISH with packet identifier `id` of client object `i` has to pass to be accepted
    (all decidable, all on the state before the op): `PublishGates` for an arbitrary non-zero identifier, and the
    broker grants QoS 1 — the hypotheses of `processPublish_accepted_qos1` (the bound `recvQuota ≤ maxRecv` of that
    theorem is part of `WF`) -/
structure AcceptedQ1 (s : Server) (i id : Nat) (topic : Str) : Prop where
  /-- the client is a network client whose connection is alive -/
  isOpen : (getObj s i).isOpen = true
  peer : (getObj s i).peerGone = false
  notInline : (getObj s i).inline = false
  /-- `IsValidFilter(topic, true)`: no wildcard, not `$SYS/…`; the topic is not empty (no alias) -/
  valid : isValidFilter topic true = true
  nonempty : topic ≠ []
  /-- a QoS 1 PUBLISH carries a packet identifier (else: protocol error 0x82) -/
  idpos : id ≠ 0
  /-- receive quota left (else: DISCONNECT 0x93) -/
  quota : (getObj s i).recvQuota ≠ 0
  /-- write permission on the topic (else: PUBACK 0x87 / DISCONNECT) -/
  acl : aclOk s (getObj s i).id topic true = true
  /-- no in-flight record under the packet identifier -/
  noRecord : flGet (getObj s i) id = none
  /-- `OnPublish` hook mode of the topic: none -/
  hook : assocGet s.pubHook topic = none
  /-- the broker grants QoS 1 (else the message is downgraded to QoS 0 and not acknowledged) -/
  maxQos : 1 ≤ s.caps.maximumQos

theorem recv_le_of_wf {s : Server} (hw : WF s) (i : Nat) (hq : (getObj s i).recvQuota ≠ 0) :
    (getObj s i).recvQuota ≤ (getObj s i).maxRecv := by
  have hi := lt_of_recvQuota_ne_zero s i hq
  have hm : getObj s i ∈ s.objs := by
    unfold getObj
    rw [List.getD_eq_getElem?_getD, List.getElem?_eq_getElem hi]
    exact List.getElem_mem hi
  exact (hw.objs _ hm).recv_le

theorem publishValidate_q1 (s : Server) (id : Nat) (topic : Str) (hid : id ≠ 0) (hv : isValidFilter topic true = true)
    (hne : topic ≠ []) : publishValidate s 1 id topic none = none := by
  have hw := isValidFilter_pub_no_wild topic hv
  have hne' : topic.isEmpty = false := by cases topic <;> simp_all
  simp at hw
  unfold publishValidate
  simp [hw, hne', hid]

/-- the routing call of an accepted QoS 1 publish of client object `i`: in the state with the retained store updated
    (`retainedState`; it IS `s` when the retain flag is off) — filing and removing the PUBACK record and taking and
    returning the receive quota cancel (`pubackDone_pubackFiled`) -/
def q1Routed (s : Server) (i : Nat) (dup retain : Bool) (id : Nat) (topic payload : Str) (me : Nat) : Server × List Out :=
  publishToSubscribers (retainedState s (inboundMsg s i 1 dup retain id topic payload me))
    (inboundMsg s i 1 dup retain id topic payload me)

theorem receivePacket_publish_q1 (s : Server) (hw : WF s) (i : Nat) (dup retain : Bool) (id : Nat) (topic payload : Str)
    (me : Nat) (h : AcceptedQ1 s i id topic) :
    receivePacket s i (.publish 1 dup retain id topic payload me none) =
      ((nextImmediate (q1Routed s i dup retain id topic payload me).1 i).1,
       [Out.wrote (getObj s i).conn (.ack (getObj s i).ver 4 id 1)] ++ (q1Routed s i dup retain id topic payload me).2 ++
       (nextImmediate (q1Routed s i dup retain id topic payload me).1 i).2, none) := by
  unfold receivePacket q1Routed
  simp only [publishValidate_q1 s id topic h.idpos h.valid h.nonempty,
    processPublish_accepted_qos1 s i dup retain id topic payload me h.isOpen h.peer h.notInline h.valid h.quota
      (recv_le_of_wf hw i h.quota) h.acl h.noRecord h.nonempty h.hook h.maxQos]

/-- what the publisher's object looks like to a write after the routing: liveness and connection as before the op -/
theorem q1Routed_obj (s : Server) (i : Nat) (dup retain : Bool) (id : Nat) (topic payload : Str) (me : Nat) :
    (getObj (q1Routed s i dup retain id topic payload me).1 i).isOpen = (getObj s i).isOpen ∧
    (getObj (q1Routed s i dup retain id topic payload me).1 i).peerGone = (getObj s i).peerGone ∧
    (getObj (q1Routed s i dup retain id topic payload me).1 i).conn = (getObj s i).conn := by
  have hd := (publishToSubscribers_deliv (retainedState s (inboundMsg s i 1 dup retain id topic payload me))
    (inboundMsg s i 1 dup retain id topic payload me)).all i
  rw [getObj_retainedState] at hd
  exact ⟨hd.isOpen.symm, hd.peerGone.symm, hd.conn.symm⟩

/-- **the op, QoS 1.**  `step s (.recv conn (PUBLISH QoS 1 id …))` for an accepted publish on the connection of client
    object `i`: the PUBACK (reason code `QosCodes[1]`) to the publisher FIRST, then what the ONE call of
    `publishToSubscribers` writes, then what two releases for the publisher write (`nextImmediate` after the PUBLISH and
    after the harness's barrier PINGREQ: deferred messages of the publisher itself) -/
theorem step_recv_publish_q1 (s : Server) (hw : WF s) (conn i : Nat) (dup retain : Bool) (id : Nat) (topic payload : Str)
    (me : Nat) (hc : assocGet s.connOf conn = some i) (h : AcceptedQ1 s i id topic) :
    step s (.recv conn (.publish 1 dup retain id topic payload me none)) =
      ((nextImmediate (nextImmediate (q1Routed s i dup retain id topic payload me).1 i).1 i).1,
       [Out.wrote (getObj s i).conn (.ack (getObj s i).ver 4 id 1)] ++ (q1Routed s i dup retain id topic payload me).2 ++
       (nextImmediate (q1Routed s i dup retain id topic payload me).1 i).2 ++
       (nextImmediate (nextImmediate (q1Routed s i dup retain id topic payload me).1 i).1 i).2) := by
  obtain ⟨r1, r2, _⟩ := q1Routed_obj s i dup retain id topic payload me
  have ha := nextImmediate_after (q1Routed s i dup retain id topic payload me).1 i
  have ho := (ha.isOpen.trans r1).trans h.isOpen
  have hp := (ha.peerGone.trans r2).trans h.peer
  have hping := receivePacket_pingreq_live _ i ho hp
  rw [step]
  unfold recvOn
  simp only [hc, h.isOpen, receivePacket_publish_q1 s hw i dup retain id topic payload me h, ho, hping,
    Bool.not_true, Bool.false_eq_true, if_false, if_true, List.filter_cons, List.filter_append,
    List.filter_nil, List.nil_append, List.append_assoc]
  rw [List.filter_eq_self.mpr]
  intro x hx
  rcases nextImmediate_out_shape _ i x hx with ⟨_, _, _, _, e⟩ | ⟨_, _, _, _, _, e⟩ <;> rw [e]

/-- **item 1: the outputs of the op, decomposed.**  `[PUBACK to the publisher] ++ (the routing call).2 ++ tail`, where
    `tail` — at most two outputs — writes only to the PUBLISHER's own connection (releases of its own deferred
    messages) -/
theorem step_recv_publish_q1_outputs (s : Server) (hw : WF s) (conn i : Nat) (dup retain : Bool) (id : Nat)
    (topic payload : Str) (me : Nat) (hc : assocGet s.connOf conn = some i) (h : AcceptedQ1 s i id topic) :
    ∃ tail, (step s (.recv conn (.publish 1 dup retain id topic payload me none))).2 =
        [Out.wrote (getObj s i).conn (.ack (getObj s i).ver 4 id 1)] ++
          (publishToSubscribers (retainedState s (inboundMsg s i 1 dup retain id topic payload me))
            (inboundMsg s i 1 dup retain id topic payload me)).2 ++ tail ∧
      tail.length ≤ 2 ∧ ∀ x ∈ tail, ∃ pk, x = Out.wrote (getObj s i).conn pk := by
  have ht := nextImmediate_twice_out (q1Routed s i dup retain id topic payload me).1 i
  rw [(q1Routed_obj s i dup retain id topic payload me).2.2] at ht
  refine ⟨_, ?_, ht.1, ht.2⟩
  rw [step_recv_publish_q1 s hw conn i dup retain id topic payload me hc h]
  simp only [q1Routed, List.append_assoc]

/-- the client object cannot release a deferred message: it holds none, or it has no send quota -/
def Calm (c : Client) : Prop := (∀ m ∈ c.inflight, 0 ≤ m.expiry) ∨ c.sendQuota = 0

theorem nextImmediate_calm (t : Server) (i : Nat) (h : Calm (getObj t i)) : nextImmediate t i = (t, []) := by
  rcases h with h | h
  · exact nextImmediate_none t i h
  · unfold nextImmediate
    simp only [h, Nat.lt_irrefl, gt_iff_lt, decide_false, Bool.and_false, Bool.false_eq_true, if_false]

/-- … and the tail is EMPTY when the publisher's own object cannot release after the routing call (`Calm`: it holds no
    deferred message, or has no send quota) -/
theorem step_recv_publish_q1_outputs_quiet (s : Server) (hw : WF s) (conn i : Nat) (dup retain : Bool) (id : Nat)
    (topic payload : Str) (me : Nat) (hc : assocGet s.connOf conn = some i) (h : AcceptedQ1 s i id topic)
    (hd : Calm (getObj (q1Routed s i dup retain id topic payload me).1 i)) :
    step s (.recv conn (.publish 1 dup retain id topic payload me none)) =
      ((q1Routed s i dup retain id topic payload me).1,
       [Out.wrote (getObj s i).conn (.ack (getObj s i).ver 4 id 1)] ++ (q1Routed s i dup retain id topic payload me).2) := by
  rw [step_recv_publish_q1 s hw conn i dup retain id topic payload me hc h, nextImmediate_calm _ i hd]
  simp only [nextImmediate_calm _ i hd, List.append_nil]

/-- an acknowledgement is not a PUBLISH -/
theorem pubsTo_ack (c n ver t id rc : Nat) : pubsTo c [Out.wrote n (.ack ver t id rc)] = [] := rfl

/-- **item 1, seen from a connection other than the publisher's**: the PUBLISH packets the op writes to `c` are those
    of the routing call -/
theorem pubsTo_step_q1 (s : Server) (hw : WF s) (conn i : Nat) (dup retain : Bool) (id : Nat)
    (topic payload : Str) (me : Nat) (hc : assocGet s.connOf conn = some i) (h : AcceptedQ1 s i id topic)
    (c : Nat) (hne : (getObj s i).conn ≠ c) :
    pubsTo c (step s (.recv conn (.publish 1 dup retain id topic payload me none))).2 =
      pubsTo c (publishToSubscribers (retainedState s (inboundMsg s i 1 dup retain id topic payload me))
        (inboundMsg s i 1 dup retain id topic payload me)).2 := by
  obtain ⟨tail, e, _, ht⟩ := step_recv_publish_q1_outputs s hw conn i dup retain id topic payload me hc h
  rw [e, pubsTo_append, pubsTo_append, pubsTo_ack, pubsTo_nil_of_other c _ tail hne ht, List.nil_append, List.append_nil]

/-! ### the routing call writes the first transmission of an immediate delivery, with its QoS -/

/-- the RECEIVER of the message `pk` on connection `c`, all on the state `s`: the client object `k` registered under the
    id `cid` is on connection `c`, live (open, not inline, peer not gone); the index holds a plain subscription of `cid`
    of QoS ≥ 1 whose filter matches the topic (the subscription "yields a delivered QoS ≥ 1"); `cid` may read the topic;
    No Local does not exclude it (with the OR-merge of the model, F03); and the delivery is IMMEDIATE: the client is
    `notDeferred` (no Receive Maximum, or send quota left), below the in-flight limit, and the packet identifier `pid`
    is available — the hypothesis of `C12_routing_immediate_any_qos` -/
structure RecvImm (s : Server) (pk : Msg) (c : Nat) (cid : Str) (k pid : Nat) : Prop where
  reg : (cid, k) ∈ s.clients
  conn : (getObj s k).conn = c
  isOpen : (getObj s k).isOpen = true
  notInline : (getObj s k).inline = false
  peer : (getObj s k).peerGone = false
  sub : ∃ sub, MatchingSub s.topics pk.topic cid sub ∧ sub.qos > 0
  acl : aclOk s cid pk.topic false = true
  noLocal : ¬ (pk.origin = cid ∧ ∃ sub, MatchingSub s.topics pk.topic cid sub ∧ sub.noLocal = true)
  /-- `notDeferred (getObj s k)` of `Props/C12.lean` -/
  notDef : (getObj s k).maxSend = 0 ∨ (getObj s k).sendQuota > 0
  limit : (getObj s k).inflight.length < s.caps.maximumInflight
  pid : nextPacketID (getObj s k) s.caps.maximumPacketID = some pid

/-- a first transmission of the message (`payload`, `topic`, publisher `origin`) published at QoS `q`: `dup = 0`, and a
    QoS between 1 and `q` (for `q = 1`: exactly 1) -/
def FirstTx (m : Msg) (payload topic origin : Str) (q : Nat) : Prop :=
  m.payload = payload ∧ m.topic = topic ∧ m.origin = origin ∧ m.dup = false ∧ 1 ≤ m.qos ∧ m.qos ≤ q

theorem shapeQos_bounds (caps : Caps) (sub : Sub) (q : Nat) (hq : 1 ≤ q) (hs : sub.qos > 0) (hm : 1 ≤ caps.maximumQos) :
    1 ≤ shapeQos caps sub q ∧ shapeQos caps sub q ≤ q := by
  unfold shapeQos
  simp only []
  split <;> split <;> omega

theorem entryOut_conn (s : Server) (i : Nat) (sub : Sub) (pk : Msg) (n ver : Nat) (m : Msg) (me : Bool)
    (h : Out.wrote n (.publish ver m me) ∈ Q1.entryOut s i sub pk) :
    (getObj s i).conn = n ∧ (getObj s i).inline = false := by
  have hm : n ∈ (Q1.entryOut s i sub pk).filterMap pubConn := List.mem_filterMap.mpr ⟨_, h, rfl⟩
  rw [Q1.entryOut_pubConns] at hm
  split at hm
  · rename_i hs
    have hg := ((Q1.served_true_iff s i sub pk).mp hs).1
    exact ⟨(List.mem_singleton.mp hm).symm, ((gate_true_iff s i sub pk).mp hg).2.2.2.1⟩
  · cases hm

/-- **one routing call, seen from the receiver `c`, with the QoS of the copy** (state level: `IdxOK`, `WF`, one
    connection per object, no outbound aliases, no matching shared subscription; a message of QoS ≥ 1, the broker
    grants QoS 1).  The receiver `RecvImm` is written EXACTLY ONE PUBLISH by `publishToSubscribers t pk`: the copy of
    `pk` (payload, topic, origin), `dup = 0`, QoS between 1 and the QoS of `pk`. -/
theorem routing_first_tx_qos (t : Server) (hx : IdxOK t.topics) (hw : WF t) (hcd : ConnDistinct t) (hna : Q1.NoAliases t)
    (pk : Msg) (hig : pk.ignore = false) (ht : pk.type = 3) (hne : pk.topic ≠ [])
    (hnh : ∀ l ∈ splitLevels pk.topic, l ≠ [hash]) (hsh : (subscribers t.topics pk.topic).shared = [])
    (hq : 1 ≤ pk.qos) (hmq : 1 ≤ t.caps.maximumQos)
    (c : Nat) (cid : Str) (k pid : Nat) (h : RecvImm t pk c cid k pid) :
    ∃ m, pubsTo c (publishToSubscribers t pk).2 = [m] ∧ FirstTx m pk.payload pk.topic pk.origin pk.qos := by
  have hnd := C03_one_entry_per_client t.topics pk.topic
  obtain ⟨sub', hg, hq'⟩ := (hasSub_subscribers_idx mergeOr_qosPos t.topics hx pk.topic hne hnh cid).mpr h.sub
  have hgate : (sub'.noLocal && pk.origin == cid) = false := by
    cases hs : sub'.noLocal with
    | false => rfl
    | true =>
      by_cases ho : pk.origin = cid
      · exact absurd ⟨ho, (hasSub_subscribers_idx mergeOr_noLocal t.topics hx pk.topic hne hnh cid).mp ⟨sub', hg, hs⟩⟩
          h.noLocal
      · simp [ho]
  have hserved : Q1.ServedVia t pk (subscribers t.topics pk.topic).subs c :=
    ⟨cid, k, sub', h.reg, h.conn, h.isOpen, h.notInline, h.peer, Mochi.Topics.assocGet_mem _ _ _ hg, h.acl, hgate,
      Or.inr ⟨pid, sent_of_notDeferred t k pid h.limit h.pid h.notDef⟩⟩
  obtain ⟨d1, d2, _, _, d5⟩ := publishToSubscribers_writes_exact_qos t hw hcd hna pk hig ht hsh c
  obtain ⟨ver, m, mes, hxm⟩ := d1.mpr hserved
  have hm : m ∈ pubsTo c (publishToSubscribers t pk).2 := (mem_pubsTo c _ m).mpr ⟨ver, mes, hxm⟩
  refine ⟨m, eq_singleton_of_mem _ m (by rw [pubsTo_length]; exact d2) hm, ?_⟩
  rcases d5 _ hxm with ⟨id, hid⟩ | ⟨cid', i', sub'', hm', hs', hxe⟩
  · cases hid
  · obtain ⟨e1, e2, e3, e4, e5⟩ := entryOut_msg t i' sub'' (stamped t pk) c ver m mes hxe
    obtain ⟨f1, f2, f3, _, f5⟩ := stamped_fields t pk
    obtain ⟨hc', hi'⟩ := entryOut_conn t i' sub'' (stamped t pk) c ver m mes hxe
    have v' := hw.clients_valid _ _ hm'
    have v := hw.clients_valid _ _ h.reg
    have hik : i' = k := hcd i' k v'.1 v.1 hi' h.notInline (hc'.trans h.conn.symm)
    subst hik
    have hcid : cid' = cid := v'.2.symm.trans v.2
    subst hcid
    have hg'' := assocGet_of_mem_nodup _ _ _ hnd hs'
    rw [hg] at hg''
    cases hg''
    have hb := shapeQos_bounds t.caps sub' pk.qos hq hq' hmq
    rw [f3] at e5
    exact ⟨e1.trans f2, e2.trans f1, e3.trans f5, e4, by rw [e5]; exact hb.1, by rw [e5]; exact hb.2⟩

/-! ### the routing call does not enable a release: `Calm` is kept -/

theorem verdict_deferred_quota (s : Server) (i pid : Nat) (h : Q1.verdict s i = .deferred pid) :
    (getObj s i).sendQuota = 0 := by
  unfold Q1.verdict at h
  split at h
  · cases h
  · split at h
    · cases h
    · split at h
      · rename_i hq; exact hq.1
      · cases h

theorem entryObj_calm (s : Server) (i : Nat) (sub : Sub) (pk : Msg) (he : 0 ≤ pk.expiry) (h : Calm (getObj s i)) :
    Calm (Q1.entryObj s i sub pk) := by
  unfold Q1.entryObj
  split
  · split
    · cases hv : Q1.verdict s i with
      | limit => exact h
      | exhausted => exact h
      | deferred pid => exact Or.inr (verdict_deferred_quota s i pid hv)
      | sent pid =>
        rcases h with h | h
        · refine Or.inl fun m hm => ?_
          rcases List.mem_append.mp hm with hm | hm
          · exact h m hm
          · rw [List.mem_singleton.mp hm]; exact he
        · exact Or.inr (by show (getObj s i).sendQuota - 1 = 0; omega)
    · exact h
  · exact h

/-- `publishToSubscribers` (state level: `WF`, one connection per object, no outbound aliases, no matching shared
    subscription; a message whose stamped expiry is not negative) keeps `Calm` of every object: a copy it files is sent
    (not deferred), or deferred because the send quota is 0 — and then nothing can be released -/
theorem routing_calm (t : Server) (hw : WF t) (hcd : ConnDistinct t) (hna : Q1.NoAliases t)
    (pk : Msg) (hig : pk.ignore = false) (ht : pk.type = 3)
    (hsh : (subscribers t.topics pk.topic).shared = []) (he : 0 ≤ (stamped t pk).expiry) (i : Nat)
    (h : Calm (getObj t i)) : Calm (getObj (publishToSubscribers t pk).1 i) := by
  obtain ⟨_, _, d3, d4, _⟩ := publishToSubscribers_writes_exact_qos t hw hcd hna pk hig ht hsh 0
  by_cases hex : ∃ cs ∈ (subscribers t.topics pk.topic).subs, assocGet t.clients cs.1 = some i
  · obtain ⟨cs, hcs, hg⟩ := hex
    rw [(d3 cs.1 i cs.2 (Mochi.Topics.assocGet_mem _ _ _ hg) hcs).1]
    exact entryObj_calm t i cs.2 _ he h
  · rw [d4 i (fun cs hcs hg => hex ⟨cs, hcs, hg⟩)]
    exact h

theorem stamped_inbound_expiry (t s : Server) (i q : Nat) (dup retain : Bool) (id : Nat) (topic payload : Str) (me : Nat) :
    0 ≤ (stamped t (inboundMsg s i q dup retain id topic payload me)).expiry := by
  have h0 : 0 ≤ (inboundMsg s i q dup retain id topic payload me).expiry := by
    show (0 : Int) ≤ if minimumNZ s.caps.maxMessageExpiry me > 0 then NOW + ↑(minimumNZ s.caps.maxMessageExpiry me) else 0
    unfold NOW
    split <;> omega
  unfold stamped
  split
  · extract_lets e
    split
    · show (0 : Int) ≤ (inboundMsg s i q dup retain id topic payload me).created + ↑e
      show (0 : Int) ≤ NOW + ↑e
      unfold NOW; omega
    · exact h0
  · exact h0

/-! ### the publishing op writes the first transmission: inbound PUBLISH of QoS 1 -/

/-- what the theorems ask of the op `recv p (PUBLISH QoS 1, identifier id, topic t, no alias)` in state `s` (all on the
    state BEFORE the op), for the receiving connection `c`: `p` is the connection of client object `i`; the publish
    passes the gates (`AcceptedQ1`); no shared subscription matches the topic; and the op's release tail
    (`nextImmediate` for the PUBLISHER) cannot write to `c`: the publisher cannot release (`Calm`: it holds no deferred
    message, or has no send quota), or its connection is not `c` -/
structure PubQ1 (s : Server) (p i c id : Nat) (t : Str) : Prop where
  reg : assocGet s.connOf p = some i
  gates : AcceptedQ1 s i id t
  noShared : (subscribers s.topics t).shared = []
  own : Calm (getObj s i) ∨ (getObj s i).conn ≠ c

/-- the receiver in the state in which the accepted publish is routed (the retained store updated) -/
theorem RecvImm.retained {s : Server} {pk : Msg} {c : Nat} {cid : Str} {k pid : Nat} (h : RecvImm s pk c cid k pid)
    (pk0 : Msg) : RecvImm (retainedState s pk0) pk c cid k pid := by
  have hq := retainedState_quiet s pk0
  have hm : ∀ sub, MatchingSub (retainedState s pk0).topics pk.topic cid sub ↔ MatchingSub s.topics pk.topic cid sub :=
    fun sub => matchingSub_congr hq.plain pk.topic cid sub
  refine ⟨by rw [hq.clients]; exact h.reg, by rw [getObj_retainedState]; exact h.conn,
    by rw [getObj_retainedState]; exact h.isOpen, by rw [getObj_retainedState]; exact h.notInline,
    by rw [getObj_retainedState]; exact h.peer, ?_, by rw [aclOk_congr (retainedState_aclDeny s pk0)]; exact h.acl, ?_,
    by rw [getObj_retainedState]; exact h.notDef, by rw [getObj_retainedState, hq.caps]; exact h.limit,
    by rw [getObj_retainedState, hq.caps]; exact h.pid⟩
  · obtain ⟨sub, a, b⟩ := h.sub
    exact ⟨sub, (hm sub).mpr a, b⟩
  · rintro ⟨ho, sub, a, b⟩
    exact h.noLocal ⟨ho, sub, (hm sub).mp a, b⟩

/-- **the op, seen from the receiver `c`.**  An accepted QoS 1 PUBLISH op writes the receiver `c` (`RecvImm`: entitled
    through a subscription of QoS ≥ 1, its delivery immediate in the state before the op) EXACTLY ONE PUBLISH: the copy
    of the message — payload, topic, the publisher's id as origin —, a first transmission (`dup = 0`) of QoS 1. -/
theorem publish_q1_first_tx (s : Server) (hs : SyncInv s) (hw : WF s) (hcm : ConnMap s) (hna : Q1.NoAliases s)
    (p i c id : Nat) (t : Str) (h : PubQ1 s p i c id t) (dup retain : Bool) (payload : Str) (me : Nat)
    (cid : Str) (k pid : Nat) (hr : RecvImm s (inboundMsg s i 1 dup retain id t payload me) c cid k pid) :
    ∃ m, pubsTo c (step s (.recv p (.publish 1 dup retain id t payload me none))).2 = [m] ∧
      FirstTx m payload t (getObj s i).id 1 ∧ m.qos = 1 := by
  have hnh := no_hash_level t h.gates.valid
  have hsh' := (retainedState_shared s (inboundMsg s i 1 dup retain id t payload me) hs.idx t h.gates.nonempty hnh).mpr
    h.noShared
  obtain ⟨is, iw, ic⟩ := retainedState_inv (inboundMsg s i 1 dup retain id t payload me) hs hw hcm
  have hstep : pubsTo c (step s (.recv p (.publish 1 dup retain id t payload me none))).2 =
      pubsTo c (publishToSubscribers (retainedState s (inboundMsg s i 1 dup retain id t payload me))
        (inboundMsg s i 1 dup retain id t payload me)).2 := by
    rcases h.own with hcalm | hne
    · have hc' : Calm (getObj (q1Routed s i dup retain id t payload me).1 i) :=
        routing_calm _ iw ic.distinct (q1_noAliases_retainedState _ hna) _ rfl rfl hsh'
          (stamped_inbound_expiry _ s i 1 dup retain id t payload me) i (by rw [getObj_retainedState]; exact hcalm)
      rw [step_recv_publish_q1_outputs_quiet s hw p i dup retain id t payload me h.reg h.gates hc', pubsTo_append,
        pubsTo_ack, List.nil_append]
      rfl
    · exact pubsTo_step_q1 s hw p i dup retain id t payload me h.reg h.gates c hne
  rw [hstep]
  obtain ⟨m, e, f⟩ := routing_first_tx_qos _ is.idx iw ic.distinct (q1_noAliases_retainedState _ hna)
    (inboundMsg s i 1 dup retain id t payload me) rfl rfl h.gates.nonempty hnh hsh' (Nat.le_refl 1)
    (by rw [(retainedState_quiet s _).caps]; exact h.gates.maxQos) c cid k pid (hr.retained _)
  have hq1 : m.qos = 1 := Nat.le_antisymm f.2.2.2.2.2 f.2.2.2.2.1
  exact ⟨m, e, f, hq1⟩

/-- **C12 on histories, publishes of QoS 1** (see `C12_history_order_qos1_partial` in `Props/C12.lean`). -/
theorem history_order_q1 (caps : Caps) (s : Server) (hr : ReachSeq caps s) (ops : List Op) (hseq : SeqOps ops)
    (hf : OpsFresh s ops) (p c i j k₁ k₂ id₁ id₂ : Nat) (t : Str) (d₁ r₁ d₂ r₂ : Bool) (pay₁ pay₂ : Str) (me₁ me₂ : Nat)
    (hi : ops[i]? = some (.recv p (.publish 1 d₁ r₁ id₁ t pay₁ me₁ none)))
    (hj : ops[j]? = some (.recv p (.publish 1 d₂ r₂ id₂ t pay₂ me₂ none))) (hij : i < j)
    (n₁ : Q1.NoAliases (run s (ops.take i))) (n₂ : Q1.NoAliases (run s (ops.take j)))
    (g₁ : PubQ1 (run s (ops.take i)) p k₁ c id₁ t) (g₂ : PubQ1 (run s (ops.take j)) p k₂ c id₂ t)
    (cid₁ cid₂ : Str) (o₁ o₂ pid₁ pid₂ : Nat)
    (e₁ : RecvImm (run s (ops.take i)) (inboundMsg (run s (ops.take i)) k₁ 1 d₁ r₁ id₁ t pay₁ me₁) c cid₁ o₁ pid₁)
    (e₂ : RecvImm (run s (ops.take j)) (inboundMsg (run s (ops.take j)) k₂ 1 d₂ r₂ id₂ t pay₂ me₂) c cid₂ o₂ pid₂) :
    ∃ m₁ m₂ A B C,
      pubsTo c (step (run s (ops.take i)) (.recv p (.publish 1 d₁ r₁ id₁ t pay₁ me₁ none))).2 = [m₁] ∧
      pubsTo c (step (run s (ops.take j)) (.recv p (.publish 1 d₂ r₂ id₂ t pay₂ me₂ none))).2 = [m₂] ∧
      (FirstTx m₁ pay₁ t (getObj (run s (ops.take i)) k₁).id 1 ∧ m₁.qos = 1) ∧
      (FirstTx m₂ pay₂ t (getObj (run s (ops.take j)) k₂).id 1 ∧ m₂.qos = 1) ∧
      pubsTo c (flat s ops) = A ++ m₁ :: B ++ m₂ :: C := by
  obtain ⟨a1, a2, a3, _⟩ := (reach_take hr ops hseq hf i).inv
  obtain ⟨b1, b2, b3, _⟩ := (reach_take hr ops hseq hf j).inv
  obtain ⟨m₁, x1, y1, z1⟩ := publish_q1_first_tx _ a1 a2 a3 n₁ p k₁ c id₁ t g₁ d₁ r₁ pay₁ me₁ cid₁ o₁ pid₁ e₁
  obtain ⟨m₂, x2, y2, z2⟩ := publish_q1_first_tx _ b1 b2 b3 n₂ p k₂ c id₂ t g₂ d₂ r₂ pay₂ me₂ cid₂ o₂ pid₂ e₂
  obtain ⟨A, B, C, e⟩ := order_of_first_tx s ops i j _ _ c m₁ m₂ hi hj hij x1 x2
  exact ⟨m₁, m₂, A, B, C, x1, x2, ⟨y1, z1⟩, ⟨y2, z2⟩, e⟩

/-! ### the publishing op writes the first transmission: inbound PUBLISH of QoS 2

The routing happens at the PUBLISH op (not at PUBREL): `step_recv_publish_q2` / `C08_accepted_qos2_shape` —
`[PUBREC 0x00 to the publisher] ++ (q2Routed …).2 ++ two releases of the publisher`, the routing state being
`pubrecFiled (retainedState s m) i id`: the retained store updated, one unit of the publisher's receive quota taken,
the PUBREC record filed in the PUBLISHER's in-flight list.  Every other object, the index, the Clients map, `caps` and
the ACL are those of `s`. -/

/-- filing the PUBREC record touches object `i` only, and server fields other than `objs` and `info` not at all -/
theorem pubrecFiled_frame (s0 : Server) (i id : Nat) :
    (pubrecFiled s0 i id).topics = s0.topics ∧ (pubrecFiled s0 i id).caps = s0.caps ∧
    (pubrecFiled s0 i id).aclDeny = s0.aclDeny ∧ (pubrecFiled s0 i id).objs.length = s0.objs.length ∧
    ∀ k, k ≠ i → getObj (pubrecFiled s0 i id) k = getObj s0 k := by
  unfold pubrecFiled
  extract_lets s2 r s3
  have h3 : s3.topics = s0.topics ∧ s3.caps = s0.caps ∧ s3.aclDeny = s0.aclDeny ∧ s3.objs.length = s0.objs.length ∧
      ∀ k, k ≠ i → getObj s3 k = getObj s0 k := by
    refine ⟨rfl, rfl, rfl, ?_, fun k hk => ?_⟩
    · exact (setObj_length s2 i r.1).trans (setObj_length s0 i _)
    · exact (getObj_setObj_ne s2 i k r.1 hk).trans (getObj_setObj_ne s0 i k _ hk)
  split
  · exact h3
  · exact h3

theorem pubrecFiled_tam (s0 : Server) (i id : Nat) (hi : i < s0.objs.length) :
    (getObj (pubrecFiled s0 i id) i).tam = (getObj s0 i).tam := by
  have h1 : ∀ c : Client, (decRecv c).tam = c.tam := by
    intro c; unfold decRecv; split <;> rfl
  have h2 : ∀ (c : Client) (m : Msg), (flSet c m).1.tam = c.tam := by
    intro c m; unfold flSet; split <;> rfl
  unfold pubrecFiled
  extract_lets s2 r s3
  have hi2 : i < s2.objs.length := by
    rw [show s2.objs.length = s0.objs.length from setObj_length s0 i _]; exact hi
  have h3 : (getObj s3 i).tam = (getObj s0 i).tam := by
    show (getObj (setObj s2 i r.1) i).tam = _
    rw [getObj_setObj_eq s2 i r.1 hi2]
    show (flSet (getObj s2 i) (pubrecMsg s2 id)).1.tam = _
    rw [h2]
    show (getObj (setObj s0 i (decRecv (getObj s0 i))) i).tam = _
    rw [getObj_setObj_eq s0 i _ hi, h1]
  split
  · exact h3
  · exact h3

theorem connDistinct_pubrecFiled {s0 : Server} (i id : Nat) (h : ConnDistinct s0) : ConnDistinct (pubrecFiled s0 i id) := by
  obtain ⟨_, _, _, hl, ho⟩ := pubrecFiled_frame s0 i id
  obtain ⟨_, _, a3, a4, _⟩ := pubrecFiled_obj s0 i id
  have hc : ∀ k, (getObj (pubrecFiled s0 i id) k).conn = (getObj s0 k).conn ∧
      (getObj (pubrecFiled s0 i id) k).inline = (getObj s0 k).inline := by
    intro k
    by_cases hk : k = i
    · subst hk; exact ⟨a4, a3⟩
    · rw [ho k hk]; exact ⟨rfl, rfl⟩
  intro a b ha hb hia hib e
  rw [hl] at ha hb
  rw [(hc a).2] at hia
  rw [(hc b).2] at hib
  rw [(hc a).1, (hc b).1] at e
  exact h a b ha hb hia hib e

theorem noAliases_pubrecFiled {s0 : Server} (i id : Nat) (hi : i < s0.objs.length) (h : Q1.NoAliases s0) :
    Q1.NoAliases (pubrecFiled s0 i id) := by
  intro cid k hm
  rw [pubrecFiled_clients] at hm
  by_cases hk : k = i
  · subst hk
    rw [pubrecFiled_tam s0 k id hi]; exact h cid k hm
  · rw [(pubrecFiled_frame s0 i id).2.2.2.2 k hk]; exact h cid k hm

/-- the receiver (an object other than the publisher's) in the state in which the QoS 2 publish is routed -/
theorem RecvImm.filed {t : Server} {pk : Msg} {c : Nat} {cid : Str} {k pid : Nat} (h : RecvImm t pk c cid k pid)
    (i id : Nat) (hk : k ≠ i) : RecvImm (pubrecFiled t i id) pk c cid k pid := by
  obtain ⟨ft, fc, fa, _, fo⟩ := pubrecFiled_frame t i id
  have ho := fo k hk
  refine ⟨by rw [pubrecFiled_clients]; exact h.reg, by rw [ho]; exact h.conn, by rw [ho]; exact h.isOpen,
    by rw [ho]; exact h.notInline, by rw [ho]; exact h.peer, by rw [ft]; exact h.sub,
    by rw [aclOk_congr fa]; exact h.acl, by rw [ft]; exact h.noLocal, by rw [ho]; exact h.notDef,
    by rw [ho, fc]; exact h.limit, by rw [ho, fc]; exact h.pid⟩

/-- **the QoS 2 op, decomposed**: `[PUBREC 0x00 to the publisher] ++ (the ONE routing call).2 ++ tail`, `tail` — at
    most two outputs — writing only to the PUBLISHER's own connection -/
theorem step_recv_publish_q2_outputs (s : Server) (conn i : Nat) (dup retain : Bool) (id : Nat)
    (topic payload : Str) (me : Nat) (hc : assocGet s.connOf conn = some i) (h : AcceptedQ2 s i id topic) :
    ∃ tail, (step s (.recv conn (.publish 2 dup retain id topic payload me none))).2 =
        [Out.wrote (getObj s i).conn (.ack (getObj s i).ver 5 id 0)] ++
          (publishToSubscribers (pubrecFiled (retainedState s (inboundMsg s i 2 dup retain id topic payload me)) i id)
            (inboundMsg s i 2 dup retain id topic payload me)).2 ++ tail ∧
      tail.length ≤ 2 ∧ ∀ x ∈ tail, ∃ pk, x = Out.wrote (getObj s i).conn pk := by
  have ht := nextImmediate_twice_out (q2Routed s i dup retain id topic payload me).1 i
  rw [q2Routed_conn] at ht
  refine ⟨_, ?_, ht.1, ht.2⟩
  rw [step_recv_publish_q2 s conn i dup retain id topic payload me hc h]
  simp only [q2Routed, List.append_assoc]

/-- … seen from a connection other than the publisher's: the PUBLISH packets the op writes to `c` are those of the
    routing call -/
theorem pubsTo_step_q2 (s : Server) (conn i : Nat) (dup retain : Bool) (id : Nat)
    (topic payload : Str) (me : Nat) (hc : assocGet s.connOf conn = some i) (h : AcceptedQ2 s i id topic)
    (c : Nat) (hne : (getObj s i).conn ≠ c) :
    pubsTo c (step s (.recv conn (.publish 2 dup retain id topic payload me none))).2 =
      pubsTo c (publishToSubscribers (pubrecFiled (retainedState s (inboundMsg s i 2 dup retain id topic payload me)) i id)
        (inboundMsg s i 2 dup retain id topic payload me)).2 := by
  obtain ⟨tail, e, _, ht⟩ := step_recv_publish_q2_outputs s conn i dup retain id topic payload me hc h
  rw [e, pubsTo_append, pubsTo_append, pubsTo_ack, pubsTo_nil_of_other c _ tail hne ht, List.nil_append, List.append_nil]

/-- what the theorems ask of the op `recv p (PUBLISH QoS 2, identifier id, topic t, no alias)` in state `s`, for the
    receiving connection `c` (as `PubQ1`, with the gates `AcceptedQ2`) -/
structure PubQ2 (s : Server) (p i c id : Nat) (t : Str) : Prop where
  reg : assocGet s.connOf p = some i
  gates : AcceptedQ2 s i id t
  noShared : (subscribers s.topics t).shared = []
  other : (getObj s i).conn ≠ c

/-- **the op, seen from the receiver `c`.**  An accepted QoS 2 PUBLISH op — the PUBLISH, not the PUBREL — writes the
    receiver `c` (`RecvImm`) EXACTLY ONE PUBLISH: the copy of the message, a first transmission (`dup = 0`) of QoS 1 or
    2 (the minimum of 2, the merged subscription's QoS and the broker's maximum). -/
theorem publish_q2_first_tx (s : Server) (hs : SyncInv s) (hw : WF s) (hcm : ConnMap s) (hna : Q1.NoAliases s)
    (p i c id : Nat) (t : Str) (h : PubQ2 s p i c id t) (dup retain : Bool) (payload : Str) (me : Nat)
    (cid : Str) (k pid : Nat) (hr : RecvImm s (inboundMsg s i 2 dup retain id t payload me) c cid k pid) :
    ∃ m, pubsTo c (step s (.recv p (.publish 2 dup retain id t payload me none))).2 = [m] ∧
      FirstTx m payload t (getObj s i).id 2 := by
  have hnh := no_hash_level t h.gates.valid
  have hsh' := (retainedState_shared s (inboundMsg s i 2 dup retain id t payload me) hs.idx t h.gates.nonempty hnh).mpr
    h.noShared
  obtain ⟨is, iw, ic⟩ := retainedState_inv (inboundMsg s i 2 dup retain id t payload me) hs hw hcm
  have hi : i < (retainedState s (inboundMsg s i 2 dup retain id t payload me)).objs.length := by
    rw [(retainedState_quiet s _).len]; exact lt_of_recvQuota_ne_zero s i h.gates.quota
  have hki : k ≠ i := by
    intro e; subst e; exact h.other hr.conn
  obtain ⟨ft, fc, _, _, _⟩ := pubrecFiled_frame (retainedState s (inboundMsg s i 2 dup retain id t payload me)) i id
  rw [pubsTo_step_q2 s p i dup retain id t payload me h.reg h.gates c h.other]
  exact routing_first_tx_qos _ (by rw [ft]; exact is.idx) (iw.of_good (pubrecFiled_good _ i id))
    (connDistinct_pubrecFiled i id ic.distinct) (noAliases_pubrecFiled i id hi (q1_noAliases_retainedState _ hna))
    (inboundMsg s i 2 dup retain id t payload me) rfl rfl h.gates.nonempty hnh (by rw [ft]; exact hsh') (show 1 ≤ 2 by omega)
    (by rw [fc, (retainedState_quiet s _).caps]; have := h.gates.maxQos; omega) c cid k pid
    ((hr.retained _).filed i id hki)

/-- **C12 on histories, publishes of QoS 2** (see `C12_history_order_qos2_partial` in `Props/C12.lean`). -/
theorem history_order_q2 (caps : Caps) (s : Server) (hr : ReachSeq caps s) (ops : List Op) (hseq : SeqOps ops)
    (hf : OpsFresh s ops) (p c i j k₁ k₂ id₁ id₂ : Nat) (t : Str) (d₁ r₁ d₂ r₂ : Bool) (pay₁ pay₂ : Str) (me₁ me₂ : Nat)
    (hi : ops[i]? = some (.recv p (.publish 2 d₁ r₁ id₁ t pay₁ me₁ none)))
    (hj : ops[j]? = some (.recv p (.publish 2 d₂ r₂ id₂ t pay₂ me₂ none))) (hij : i < j)
    (n₁ : Q1.NoAliases (run s (ops.take i))) (n₂ : Q1.NoAliases (run s (ops.take j)))
    (g₁ : PubQ2 (run s (ops.take i)) p k₁ c id₁ t) (g₂ : PubQ2 (run s (ops.take j)) p k₂ c id₂ t)
    (cid₁ cid₂ : Str) (o₁ o₂ pid₁ pid₂ : Nat)
    (e₁ : RecvImm (run s (ops.take i)) (inboundMsg (run s (ops.take i)) k₁ 2 d₁ r₁ id₁ t pay₁ me₁) c cid₁ o₁ pid₁)
    (e₂ : RecvImm (run s (ops.take j)) (inboundMsg (run s (ops.take j)) k₂ 2 d₂ r₂ id₂ t pay₂ me₂) c cid₂ o₂ pid₂) :
    ∃ m₁ m₂ A B C,
      pubsTo c (step (run s (ops.take i)) (.recv p (.publish 2 d₁ r₁ id₁ t pay₁ me₁ none))).2 = [m₁] ∧
      pubsTo c (step (run s (ops.take j)) (.recv p (.publish 2 d₂ r₂ id₂ t pay₂ me₂ none))).2 = [m₂] ∧
      FirstTx m₁ pay₁ t (getObj (run s (ops.take i)) k₁).id 2 ∧
      FirstTx m₂ pay₂ t (getObj (run s (ops.take j)) k₂).id 2 ∧
      pubsTo c (flat s ops) = A ++ m₁ :: B ++ m₂ :: C := by
  obtain ⟨a1, a2, a3, _⟩ := (reach_take hr ops hseq hf i).inv
  obtain ⟨b1, b2, b3, _⟩ := (reach_take hr ops hseq hf j).inv
  obtain ⟨m₁, x1, y1⟩ := publish_q2_first_tx _ a1 a2 a3 n₁ p k₁ c id₁ t g₁ d₁ r₁ pay₁ me₁ cid₁ o₁ pid₁ e₁
  obtain ⟨m₂, x2, y2⟩ := publish_q2_first_tx _ b1 b2 b3 n₂ p k₂ c id₂ t g₂ d₂ r₂ pay₂ me₂ cid₂ o₂ pid₂ e₂
  obtain ⟨A, B, C, e⟩ := order_of_first_tx s ops i j _ _ c m₁ m₂ hi hj hij x1 x2
  exact ⟨m₁, m₂, A, B, C, x1, x2, y1, y2, e⟩

end Mochi.Broker.O12q
