import Mochi.Lemmas.Invariant
import Mochi.Lemmas.Topics
/-!
The retained-message scan (`scanMsgs`, the model of `scanMessages` in topics.go) returns exactly the
retain paths of the particles whose address matches the filter under the MQTT rule, each once; and
the corollaries for `messages` (`TopicsIndex.Messages`).
-/
namespace Mochi.Topics

/-- the MQTT rule for retained lookup: the node's address matches the filter levels and a filter
    whose first level is a wildcard does not match an address whose first level starts with `$` -/
def msgMatch (ls q : Path) : Bool :=
  matchLv ls q && !((ls.head? == some [plus] || ls.head? == some [hash]) && (q.head?.bind List.head?) == some dollar)

/-! ### the filter levels seen at depth `d` -/

/-- `#` occurs only as the last level (the only part of `specLevelsOK` the scan depends on) -/
def hashLast : Path → Bool
  | [] => true
  | [_] => true
  | l :: l2 :: rest => l != [hash] && hashLast (l2 :: rest)

/-- the filter levels still to be matched at depth `d`; past the end, the last level again
    (this mirrors `isolate`) -/
def restOf : Path → Nat → Path
  | [], _ => []
  | [l], _ => [l]
  | l :: l2 :: rest, 0 => l :: l2 :: rest
  | _ :: l2 :: rest, d + 1 => restOf (l2 :: rest) d

theorem restOf_zero (ls : Path) : restOf ls 0 = ls := by
  match ls with
  | [] => rfl
  | [_] => rfl
  | _ :: _ :: _ => rfl

theorem restOf_cases (ls : Path) (hls : ls ≠ []) (hhl : hashLast ls = true) (d : Nat) :
    ∃ r rs, restOf ls d = r :: rs ∧ isolate ls d = (r, !rs.isEmpty) ∧
      (rs ≠ [] → r ≠ [hash] ∧ restOf ls (d + 1) = rs) ∧ (rs = [] → restOf ls (d + 1) = [r]) := by
  induction ls generalizing d with
  | nil => exact absurd rfl hls
  | cons l rest ih =>
    match rest, d with
    | [], d => exact ⟨l, [], by simp [restOf, isolate]⟩
    | l2 :: rest', 0 =>
      refine ⟨l, l2 :: rest', by simp [restOf], by simp [isolate], ?_, by simp⟩
      intro _
      simp only [hashLast, Bool.and_eq_true, bne_iff_ne] at hhl
      refine ⟨hhl.1, ?_⟩
      simp only [restOf]
      exact restOf_zero _
    | l2 :: rest', d + 1 =>
      simp only [hashLast, Bool.and_eq_true] at hhl
      obtain ⟨r, rs, h1, h2, h3, h4⟩ := ih (by simp) hhl.2 d
      exact ⟨r, rs, by simpa [restOf] using h1, by simpa [isolate] using h2,
        by simpa [restOf] using h3, by simpa [restOf] using h4⟩

theorem hashLast_of_spec (ls : Path) (h : specLevelsOK ls = true) : hashLast ls = true := by
  induction ls with
  | nil => rfl
  | cons l rest ih =>
    match rest with
    | [] => rfl
    | l2 :: rest' =>
      simp only [specLevelsOK, List.dropLast, List.all_cons, List.getLast?_cons_cons,
        Bool.and_eq_true] at h
      obtain ⟨⟨⟨h1, h2⟩, h3⟩, h4, h5⟩ := h
      simp only [hashLast, Bool.and_eq_true, bne_iff_ne]
      refine ⟨?_, ih ?_⟩
      · intro e; subst e; simp at h1
      · simp only [specLevelsOK, Bool.and_eq_true]
        exact ⟨⟨h2, h3⟩, by simpa using h5⟩

/-! ### the scan, returning the particles instead of their retain paths -/

/-- `scanMsgs`, collecting the particle where `scanMsgs` collects its `retainPath` (and no emptiness
    test on the retain path) -/
def scanNodes (ns : List Node) (ls : Path) : (cur : Path) → (d : Nat) → (fuel : Nat) → List Node
  | _, _, 0 => []
  | cur, d, fuel + 1 =>
    let kh := isolate ls d
    let key := kh.1
    let hasNext := kh.2
    let own : List Node :=
      if key == [hash] then
        match getNode ns cur with
        | some n => [n]
        | none => []
      else []
    if key == [plus] || key == [hash] then
      own ++ (children ns cur).flatMap (fun adj =>
        match adj.path.getLast? with
        | none => []
        | some k =>
          if d == 0 && k.head? == some dollar then []
          else
            (if !hasNext && key == [plus] then [adj] else []) ++
            (if hasNext || key == [hash] then scanNodes ns ls adj.path (d + 1) fuel else []))
    else
      match getNode ns (cur ++ [key]) with
      | none => []
      | some part =>
        if hasNext then scanNodes ns ls part.path (d + 1) fuel
        else [part]

/-- the retain paths of the particles that carry one -/
def retOf (l : List Node) : List Str := (l.filter (fun n => !n.retainPath.isEmpty)).map (·.retainPath)

theorem retOf_nil : retOf [] = [] := rfl
theorem retOf_append (a b : List Node) : retOf (a ++ b) = retOf a ++ retOf b := by
  simp [retOf]
theorem retOf_single (n : Node) : retOf [n] = if n.retainPath.isEmpty then [] else [n.retainPath] := by
  unfold retOf
  by_cases h : n.retainPath.isEmpty = true <;> simp [h]
theorem retOf_flatMap (l : List Node) (f : Node → List Node) :
    retOf (l.flatMap f) = l.flatMap (fun a => retOf (f a)) := by
  unfold retOf
  rw [List.filter_flatMap, List.map_flatMap]

theorem filter_ne_single (s : Str) : [s].filter (fun t => !t.isEmpty) = if s.isEmpty then [] else [s] := by
  by_cases h : s.isEmpty = true <;> simp [h]

/-- the non-empty retain paths `scanMsgs` returns are those of the particles `scanNodes` returns -/
theorem scanMsgs_eq_retOf (ns : List Node) (ls : Path) (fuel : Nat) : ∀ (cur : Path) (d : Nat),
    (scanMsgs ns ls cur d fuel).filter (fun t => !t.isEmpty) = retOf (scanNodes ns ls cur d fuel) := by
  induction fuel with
  | zero => intro cur d; rfl
  | succ fuel ih =>
    intro cur d
    unfold scanMsgs scanNodes
    simp only []
    generalize isolate ls d = kh
    obtain ⟨key, hasNext⟩ := kh
    simp only []
    by_cases hw : (key == [plus] || key == [hash]) = true
    · simp only [hw, if_true, List.filter_append, retOf_append, List.filter_flatMap, retOf_flatMap]
      congr 1
      · cases hg : getNode ns cur with
        | none => simp [retOf_nil]
        | some n =>
          by_cases hk : (key == [hash]) = true
          · simp only [hk, if_true, retOf_single]
            by_cases he : n.retainPath.isEmpty = true <;> simp [he]
          · simp [hk, retOf_nil]
      · congr 1
        funext adj
        cases hl : adj.path.getLast? with
        | none => simp [retOf_nil]
        | some k =>
          simp only []
          by_cases hd : (d == 0 && k.head? == some dollar) = true
          · simp [hd, retOf_nil]
          · simp only [hd, if_false, List.filter_append, retOf_append, Bool.false_eq_true]
            congr 1
            · by_cases h1 : (!hasNext && key == [plus]) = true
              · simp only [h1, Bool.true_and, if_true, retOf_single]
                by_cases he : adj.retainPath.isEmpty = true <;> simp [he]
              · have h1' : (!hasNext && key == [plus]) = false := by simpa using h1
                simp [h1', retOf_nil]
            · by_cases h2 : (hasNext || key == [hash]) = true
              · simp only [h2, if_true]; exact ih _ _
              · simp [h2, retOf_nil]
    · simp only [hw, if_false, Bool.false_eq_true]
      cases hg : getNode ns (cur ++ [key]) with
      | none => simp [retOf_nil]
      | some part =>
        simp only []
        cases hasNext with
        | true => simp only [if_true]; exact ih _ _
        | false => simp only [Bool.false_eq_true, if_false]; rw [filter_ne_single, retOf_single]

/-! ### particles, children, lookups -/

theorem mem_children (ns : List Node) (cur : Path) (a : Node) :
    a ∈ children ns cur ↔ a ∈ ns ∧ ∃ k, a.path = cur ++ [k] := by
  unfold children
  simp only [List.mem_filter, Bool.and_eq_true, beq_iff_eq]
  constructor
  · rintro ⟨ha, hlen, hdl⟩
    refine ⟨ha, ?_⟩
    have hne : a.path ≠ [] := by intro e; rw [e] at hlen; simp at hlen
    refine ⟨a.path.getLast hne, ?_⟩
    rw [← hdl]
    exact (List.dropLast_concat_getLast hne).symm
  · rintro ⟨ha, k, hk⟩
    exact ⟨ha, by simp [hk], by simp [hk]⟩

theorem getNode_some (ns : List Node) (p : Path) (n : Node) (h : getNode ns p = some n) :
    n ∈ ns ∧ n.path = p := by
  unfold getNode at h
  exact ⟨List.mem_of_find?_eq_some h, by simpa using List.find?_some h⟩

theorem getNode_of_mem (ns : List Node) (hnd : (ns.map (·.path)).Nodup) (n : Node) (h : n ∈ ns) :
    getNode ns n.path = some n := by
  unfold getNode
  induction ns with
  | nil => simp at h
  | cons m rest ih =>
    simp only [List.map_cons, List.nodup_cons, List.mem_map, not_exists, not_and] at hnd
    rw [List.find?_cons]
    rcases List.mem_cons.mp h with rfl | h'
    · simp
    · have : (m.path == n.path) = false := by
        simp only [beq_eq_false_iff_ne, ne_eq]
        intro e
        exact hnd.1 n h' e.symm
      rw [this]
      exact ih hnd.2 h'

theorem getNode_iff (ns : List Node) (hnd : (ns.map (·.path)).Nodup) (p : Path) (n : Node) :
    getNode ns p = some n ↔ n ∈ ns ∧ n.path = p := by
  constructor
  · exact getNode_some ns p n
  · rintro ⟨h, rfl⟩; exact getNode_of_mem ns hnd n h

theorem nodup_nodes (ns : List Node) (hnd : (ns.map (·.path)).Nodup) : ns.Nodup := by
  unfold List.Nodup at hnd ⊢
  rw [List.pairwise_map] at hnd
  exact hnd.imp (fun h e => h (by rw [e]))

/-- a list that contains every non-empty prefix of `p` has at least `p.length` elements -/
theorem length_le_of_prefixes (p : Path) : ∀ (L : List Path),
    (∀ k, 0 < k → k ≤ p.length → p.take k ∈ L) → p.length ≤ L.length := by
  induction h : p.length generalizing p with
  | zero => intro L _; omega
  | succ m ih =>
    intro L hL
    have hp : p ∈ L := by
      have := hL (m + 1) (by omega) (by omega)
      rwa [List.take_of_length_le (by omega)] at this
    have := ih (p.take m) (by rw [List.length_take]; omega) (L.erase p) (by
      intro k hk1 hk2
      have hkm : k ≤ m := hk2
      rw [List.take_take, Nat.min_eq_left hkm]
      have hne : p.take k ≠ p := by
        intro e
        have := congrArg List.length e
        simp at this; omega
      exact (List.mem_erase_of_ne hne).mpr (hL k hk1 (by omega)))
    rw [List.length_erase_of_mem hp] at this
    have : 0 < L.length := List.length_pos_of_mem hp
    omega

/-- in a prefix-closed particle list no address is longer than the number of particles -/
theorem path_length_le (ns : List Node) (hpc : PrefixClosed ns) (n : Node) (h : n ∈ ns) :
    n.path.length ≤ ns.length := by
  have := length_le_of_prefixes n.path (ns.map (·.path)) (by
    intro k hk1 hk2
    have := hpc n.path ((hasNode_iff ns n.path).mpr ⟨n, h, rfl⟩) k hk1 hk2
    obtain ⟨m, hm, hmp⟩ := (hasNode_iff ns _).mp this
    exact List.mem_map.mpr ⟨m, hm, hmp⟩)
  simpa using this

/-! ### `matchLv` by the shape of the first filter level -/

theorem matchLv_hash (q : Path) : matchLv [[hash]] q = true := by
  cases q <;> simp [matchLv]

theorem matchLv_nil (q : Path) : matchLv [] q = true ↔ q = [] := by
  cases q <;> simp [matchLv]

theorem matchLv_plus (rs q : Path) :
    matchLv ([plus] :: rs) q = true ↔ ∃ t ts, q = t :: ts ∧ matchLv rs ts = true := by
  cases q with
  | nil => simp [matchLv]
  | cons t ts =>
    simp only [matchLv, beq_iff_eq, List.cons.injEq]
    constructor
    · intro h; exact ⟨t, ts, ⟨rfl, rfl⟩, h⟩
    · rintro ⟨_, _, ⟨rfl, rfl⟩, h⟩; exact h

theorem matchLv_lit (r : Level) (rs q : Path) (h1 : r ≠ [plus]) (h2 : r ≠ [hash]) :
    matchLv (r :: rs) q = true ↔ ∃ ts, q = r :: ts ∧ matchLv rs ts = true := by
  cases q with
  | nil => simp [matchLv, h2]
  | cons t ts =>
    simp only [matchLv, h1, h2, beq_iff_eq, if_false, Bool.and_eq_true,
      List.cons.injEq, Bool.or_eq_true, false_or]
    constructor
    · rintro ⟨rfl, h⟩; exact ⟨ts, ⟨rfl, rfl⟩, h⟩
    · rintro ⟨_, ⟨rfl, rfl⟩, h⟩; exact ⟨rfl, h⟩

/-! ### membership in the scan -/

/-- some child `adj` of the particle at `cur`, not excluded by the `$` test at depth 0, satisfies `P` -/
def Kids (ns : List Node) (cur : Path) (d : Nat) (P : Node → Prop) : Prop :=
  ∃ adj k, adj ∈ ns ∧ adj.path = cur ++ [k] ∧ ¬(d = 0 ∧ k.head? = some dollar) ∧ P adj

theorem kids_congr (ns : List Node) (cur : Path) (d : Nat) (P Q : Node → Prop)
    (h : ∀ adj k, adj ∈ ns → adj.path = cur ++ [k] → (P adj ↔ Q adj)) :
    Kids ns cur d P ↔ Kids ns cur d Q := by
  constructor
  · rintro ⟨adj, k, h1, h2, h3, h4⟩; exact ⟨adj, k, h1, h2, h3, (h adj k h1 h2).mp h4⟩
  · rintro ⟨adj, k, h1, h2, h3, h4⟩; exact ⟨adj, k, h1, h2, h3, (h adj k h1 h2).mpr h4⟩

/-- one unfolding of the scan, as a membership statement -/
theorem mem_scanNodes_succ (ns : List Node) (ls cur : Path) (d fuel : Nat) (n : Node)
    (key : Level) (hasNext : Bool) (hi : isolate ls d = (key, hasNext)) :
    n ∈ scanNodes ns ls cur d (fuel + 1) ↔
      if (key == [plus] || key == [hash]) = true then
        (key = [hash] ∧ getNode ns cur = some n) ∨
        Kids ns cur d (fun adj => (hasNext = false ∧ key = [plus] ∧ n = adj) ∨
           ((hasNext = true ∨ key = [hash]) ∧ n ∈ scanNodes ns ls adj.path (d + 1) fuel))
      else ∃ part, getNode ns (cur ++ [key]) = some part ∧
        (if hasNext = true then n ∈ scanNodes ns ls part.path (d + 1) fuel else n = part) := by
  rw [scanNodes]
  simp only [hi, Kids]
  by_cases hw : (key == [plus] || key == [hash]) = true
  · simp only [hw, if_true, List.mem_append, List.mem_flatMap]
    apply or_congr
    · by_cases hk : key = [hash]
      · cases hg : getNode ns cur <;> simp [hk, eq_comm]
      · simp [hk]
    · constructor
      · rintro ⟨adj, hadj, h⟩
        obtain ⟨hadjm, k, hk⟩ := (mem_children ns cur adj).mp hadj
        have hl : adj.path.getLast? = some k := by simp [hk]
        simp only [hl] at h
        by_cases hd : (d == 0 && k.head? == some dollar) = true
        · simp [hd] at h
        · simp only [hd, if_false, List.mem_append, Bool.false_eq_true] at h
          refine ⟨adj, k, hadjm, hk, by simpa using hd, ?_⟩
          rcases h with h | h
          · left
            by_cases h1 : (!hasNext && key == [plus]) = true
            · simp only [h1, if_true, List.mem_singleton] at h
              simp only [Bool.and_eq_true, Bool.not_eq_true', beq_iff_eq] at h1
              exact ⟨h1.1, h1.2, h⟩
            · simp [h1] at h
          · right
            by_cases h2 : (hasNext || key == [hash]) = true
            · simp only [h2, if_true] at h
              exact ⟨by simpa using h2, h⟩
            · simp [h2] at h
      · rintro ⟨adj, k, hadjm, hk, hd, h⟩
        refine ⟨adj, (mem_children ns cur adj).mpr ⟨hadjm, k, hk⟩, ?_⟩
        have hl : adj.path.getLast? = some k := by simp [hk]
        have hd' : (d == 0 && k.head? == some dollar) = false := by
          simpa using hd
        simp only [hl, hd', if_false, List.mem_append, Bool.false_eq_true]
        rcases h with ⟨h1, h2, h3⟩ | ⟨h1, h2⟩
        · left; simp [h1, h2, h3]
        · right
          have : (hasNext || key == [hash]) = true := by simpa using h1
          simp only [this, if_true]; exact h2
  · simp only [hw, if_false, Bool.false_eq_true]
    cases hg : getNode ns (cur ++ [key]) with
    | none => simp
    | some part =>
      cases hasNext <;> simp

/-- the `$` rule as the scan applies it: only at depth 0, only under a wildcard first level -/
def dolOK (d : Nat) (rest q : Path) : Bool :=
  !(d == 0 && (rest.head? == some [plus] || rest.head? == some [hash]) &&
    (q.head?.bind List.head?) == some dollar)

theorem dolOK_succ (d : Nat) (rest q : Path) : dolOK (d + 1) rest q = true := by simp [dolOK]

/-- what the scan started at the particle `cur` (depth `d`, remaining filter levels `rest`) must
    return: the particles below `cur` whose relative address matches `rest` -/
def InScan (ns : List Node) (cur rest : Path) (d : Nat) (n : Node) : Prop :=
  n ∈ ns ∧ ∃ q, n.path = cur ++ q ∧ matchLv rest q = true ∧ dolOK d rest q = true

theorem child_of_mem (ns : List Node) (hpc : PrefixClosed ns) (n : Node) (hn : n ∈ ns)
    (cur : Path) (k : Level) (q : Path) (hp : n.path = cur ++ k :: q) :
    ∃ adj, adj ∈ ns ∧ adj.path = cur ++ [k] := by
  have h : hasNode ns ((cur ++ [k]) ++ q) = true :=
    (hasNode_iff ns _).mpr ⟨n, hn, by simp [hp]⟩
  exact (hasNode_iff ns _).mp (prefix_exists ns hpc (cur ++ [k]) q (by simp) h)

theorem inScan_nil (ns : List Node) (hnd : (ns.map (·.path)).Nodup) (part : Node) (hp : part ∈ ns)
    (d : Nat) (n : Node) : InScan ns part.path [] d n ↔ n = part := by
  unfold InScan
  constructor
  · rintro ⟨hn, q, hq, hm, _⟩
    rw [(matchLv_nil q).mp hm, List.append_nil] at hq
    have h1 := getNode_of_mem ns hnd n hn
    have h2 := getNode_of_mem ns hnd part hp
    rw [hq, h2] at h1
    exact (Option.some.inj h1).symm
  · rintro rfl
    exact ⟨hp, [], by simp, by simp [matchLv], by simp [dolOK]⟩

theorem inScan_hash (ns : List Node) (hpc : PrefixClosed ns) (hnd : (ns.map (·.path)).Nodup)
    (cur : Path) (d : Nat) (n : Node) :
    InScan ns cur [[hash]] d n ↔
      (getNode ns cur = some n ∨ Kids ns cur d (fun adj => InScan ns adj.path [[hash]] (d + 1) n)) := by
  unfold InScan Kids
  constructor
  · rintro ⟨hn, q, hq, _, hd⟩
    cases q with
    | nil => left; exact (getNode_iff ns hnd cur n).mpr ⟨hn, by simpa using hq⟩
    | cons k q' =>
      right
      obtain ⟨adj, hadj, hap⟩ := child_of_mem ns hpc n hn cur k q' hq
      refine ⟨adj, k, hadj, hap, ?_, hn, q', by simp [hap, hq], matchLv_hash _, dolOK_succ _ _ _⟩
      rintro ⟨rfl, hk⟩
      simp [dolOK, hk] at hd
  · rintro (h | ⟨adj, k, hadj, hap, hk, hn, q, hq, _, _⟩)
    · obtain ⟨hn, hp⟩ := getNode_some ns cur n h
      exact ⟨hn, [], by simp [hp], matchLv_hash _, by simp [dolOK]⟩
    · refine ⟨hn, k :: q, by simp [hq, hap], matchLv_hash _, ?_⟩
      simp only [dolOK, List.head?_cons, Option.bind_some, Bool.not_eq_true', Bool.and_eq_false_iff,
        beq_eq_false_iff_ne, ne_eq]
      by_cases hd0 : d = 0
      · right; intro hh; exact hk ⟨hd0, hh⟩
      · left; left; exact hd0

theorem inScan_plus (ns : List Node) (hpc : PrefixClosed ns) (cur rs : Path) (d : Nat) (n : Node) :
    InScan ns cur ([plus] :: rs) d n ↔ Kids ns cur d (fun adj => InScan ns adj.path rs (d + 1) n) := by
  unfold InScan Kids
  constructor
  · rintro ⟨hn, q, hq, hm, hd⟩
    obtain ⟨k, q', rfl, hm'⟩ := (matchLv_plus rs q).mp hm
    obtain ⟨adj, hadj, hap⟩ := child_of_mem ns hpc n hn cur k q' hq
    refine ⟨adj, k, hadj, hap, ?_, hn, q', by simp [hap, hq], hm', dolOK_succ _ _ _⟩
    rintro ⟨rfl, hk⟩
    simp [dolOK, hk] at hd
  · rintro ⟨adj, k, hadj, hap, hk, hn, q, hq, hm, _⟩
    refine ⟨hn, k :: q, by simp [hq, hap], (matchLv_plus rs _).mpr ⟨k, q, rfl, hm⟩, ?_⟩
    simp only [dolOK, List.head?_cons, Option.bind_some, Bool.not_eq_true', Bool.and_eq_false_iff,
      beq_eq_false_iff_ne, ne_eq]
    by_cases hd0 : d = 0
    · right; intro hh; exact hk ⟨hd0, hh⟩
    · left; left; exact hd0

theorem inScan_lit (ns : List Node) (hpc : PrefixClosed ns) (hnd : (ns.map (·.path)).Nodup)
    (cur : Path) (r : Level) (rs : Path) (h1 : r ≠ [plus]) (h2 : r ≠ [hash]) (d : Nat) (n : Node) :
    InScan ns cur (r :: rs) d n ↔
      ∃ part, getNode ns (cur ++ [r]) = some part ∧ InScan ns part.path rs (d + 1) n := by
  unfold InScan
  constructor
  · rintro ⟨hn, q, hq, hm, _⟩
    obtain ⟨q', rfl, hm'⟩ := (matchLv_lit r rs q h1 h2).mp hm
    obtain ⟨adj, hadj, hap⟩ := child_of_mem ns hpc n hn cur r q' hq
    exact ⟨adj, (getNode_iff ns hnd _ adj).mpr ⟨hadj, hap⟩, hn, q', by simp [hap, hq], hm',
      dolOK_succ _ _ _⟩
  · rintro ⟨part, hg, hn, q, hq, hm, _⟩
    obtain ⟨_, hpp⟩ := getNode_some ns _ part hg
    refine ⟨hn, r :: q, by simp [hq, hpp], (matchLv_lit r rs _ h1 h2).mpr ⟨q, rfl, hm⟩, ?_⟩
    simp [dolOK, h1, h2]

/-- **Membership.** With enough fuel, the scan started at the particle `cur` of depth `d` returns
    exactly the particles below `cur` that match the remaining filter levels. -/
theorem mem_scanNodes (ns : List Node) (hpc : PrefixClosed ns) (hnd : (ns.map (·.path)).Nodup)
    (ls : Path) (hls : ls ≠ []) (hhl : hashLast ls = true) :
    ∀ (fuel : Nat) (cur : Path) (d : Nat), cur.length = d →
      (∀ m ∈ ns, m.path.length < d + fuel) →
      ∀ n, n ∈ scanNodes ns ls cur d fuel ↔ InScan ns cur (restOf ls d) d n := by
  intro fuel
  induction fuel with
  | zero =>
    intro cur d hcd hb n
    simp only [scanNodes, List.not_mem_nil, false_iff]
    rintro ⟨hn, q, hq, _⟩
    have := hb n hn
    rw [hq] at this
    simp at this
    omega
  | succ fuel ih =>
    intro cur d hcd hb n
    obtain ⟨r, rs, h1, h2, h3, h4⟩ := restOf_cases ls hls hhl d
    have ihc : ∀ (adj : Node) (k : Level), adj.path = cur ++ [k] →
        (n ∈ scanNodes ns ls adj.path (d + 1) fuel ↔ InScan ns adj.path (restOf ls (d + 1)) (d + 1) n) :=
      fun adj k hk => ih adj.path (d + 1) (by simp [hk, hcd])
        (fun m hm => by have := hb m hm; omega) n
    rw [mem_scanNodes_succ ns ls cur d fuel n r (!rs.isEmpty) h2, h1]
    by_cases hrh : r = [hash]
    · have hrs : rs = [] := by
        apply Classical.byContradiction
        intro h; exact (h3 h).1 hrh
      subst hrh; subst hrs
      rw [h4 rfl] at ihc
      rw [inScan_hash ns hpc hnd]
      simp only [beq_self_eq_true, Bool.or_true, if_true, true_and, List.isEmpty_nil, Bool.not_true]
      apply or_congr Iff.rfl
      apply kids_congr
      intro adj k hadj hk
      simp [ihc adj k hk]
    · by_cases hrp : r = [plus]
      · subst hrp
        rw [inScan_plus ns hpc]
        simp only [beq_self_eq_true, Bool.true_or, if_true, lplus_ne_lhash, false_and, false_or]
        apply kids_congr
        intro adj k hadj hk
        cases rs with
        | nil =>
          simp only [List.isEmpty_nil, Bool.not_true, true_and, Bool.false_eq_true, false_and,
            or_false]
          exact (inScan_nil ns hnd adj hadj (d + 1) n).symm
        | cons r2 rs' =>
          rw [(h3 (by simp)).2] at ihc
          simp [ihc adj k hk]
      · rw [inScan_lit ns hpc hnd cur r rs hrp hrh]
        have hw : (r == [plus] || r == [hash]) = false := by simp [hrp, hrh]
        simp only [hw, Bool.false_eq_true, if_false]
        apply exists_congr
        intro part
        apply and_congr_right
        intro hg
        obtain ⟨hpm, hpp⟩ := getNode_some ns _ part hg
        cases rs with
        | nil =>
          simp only [List.isEmpty_nil, Bool.not_true, Bool.false_eq_true, if_false]
          exact (inScan_nil ns hnd part hpm (d + 1) n).symm
        | cons r2 rs' =>
          rw [(h3 (by simp)).2] at ihc
          simp [ihc part r hpp]

/-! ### the scan returns no particle twice -/

theorem take_succ_append {α : Type} (cur : List α) (k : α) (q : List α) :
    (cur ++ k :: q).take (cur.length + 1) = cur ++ [k] := by
  induction cur with
  | nil => simp
  | cons c cs ih => simpa using ih

/-- everything the scan started at `cur` returns lies at or below `cur` -/
theorem scanNodes_below (ns : List Node) (ls : Path) : ∀ (fuel : Nat) (cur : Path) (d : Nat) (n : Node),
    n ∈ scanNodes ns ls cur d fuel → ∃ q, n.path = cur ++ q := by
  intro fuel
  induction fuel with
  | zero => intro cur d n h; simp [scanNodes] at h
  | succ fuel ih =>
    intro cur d n h
    rw [mem_scanNodes_succ ns ls cur d fuel n (isolate ls d).1 (isolate ls d).2 rfl] at h
    split at h
    · rcases h with ⟨_, hg⟩ | ⟨adj, k, _, hap, _, h⟩
      · exact ⟨[], by simp [(getNode_some ns cur n hg).2]⟩
      · rcases h with ⟨_, _, rfl⟩ | ⟨_, h⟩
        · exact ⟨[k], hap⟩
        · obtain ⟨q, hq⟩ := ih _ _ _ h
          exact ⟨k :: q, by simp [hq, hap]⟩
    · obtain ⟨part, hg, h⟩ := h
      have hpp := (getNode_some ns _ part hg).2
      split at h
      · obtain ⟨q, hq⟩ := ih _ _ _ h
        exact ⟨(isolate ls d).1 :: q, by simp [hq, hpp]⟩
      · subst h; exact ⟨[(isolate ls d).1], hpp⟩

/-- what the scan collects for one child particle -/
def kidList (ns : List Node) (ls : Path) (d fuel : Nat) (key : Level) (hasNext : Bool) (adj : Node) :
    List Node :=
  match adj.path.getLast? with
  | none => []
  | some k =>
    if d == 0 && k.head? == some dollar then []
    else
      (if !hasNext && key == [plus] then [adj] else []) ++
      (if hasNext || key == [hash] then scanNodes ns ls adj.path (d + 1) fuel else [])

theorem scanNodes_succ_eq (ns : List Node) (ls cur : Path) (d fuel : Nat) :
    scanNodes ns ls cur d (fuel + 1) =
      if ((isolate ls d).1 == [plus] || (isolate ls d).1 == [hash]) = true then
        (if (isolate ls d).1 == [hash] then
          match getNode ns cur with
          | some n => [n]
          | none => []
         else []) ++
        (children ns cur).flatMap (kidList ns ls d fuel (isolate ls d).1 (isolate ls d).2)
      else
        match getNode ns (cur ++ [(isolate ls d).1]) with
        | none => []
        | some part =>
          if (isolate ls d).2 = true then scanNodes ns ls part.path (d + 1) fuel else [part] := by
  rw [scanNodes]; rfl

theorem kidList_below (ns : List Node) (ls : Path) (d fuel : Nat) (key : Level) (hasNext : Bool)
    (adj x : Node) (h : x ∈ kidList ns ls d fuel key hasNext adj) : ∃ q, x.path = adj.path ++ q := by
  unfold kidList at h
  split at h
  · simp at h
  · split at h
    · simp at h
    · rcases List.mem_append.mp h with h | h
      · split at h
        · exact ⟨[], by simp [List.mem_singleton.mp h]⟩
        · simp at h
      · split at h
        · exact scanNodes_below ns ls fuel _ _ x h
        · simp at h

theorem kidList_nodup (ns : List Node) (ls : Path) (d fuel : Nat) (key : Level) (hasNext : Bool)
    (adj : Node) (ih : (scanNodes ns ls adj.path (d + 1) fuel).Nodup) :
    (kidList ns ls d fuel key hasNext adj).Nodup := by
  unfold kidList
  split
  · simp
  · split
    · simp
    · by_cases h1 : (!hasNext && key == [plus]) = true
      · have h2 : (hasNext || key == [hash]) = false := by
          simp only [Bool.and_eq_true, Bool.not_eq_true', beq_iff_eq] at h1
          simp [h1.1, h1.2]
        simp [h1, h2]
      · have h1' : (!hasNext && key == [plus]) = false := by simpa using h1
        rw [h1']
        simp only [Bool.false_eq_true, if_false, List.nil_append]
        split
        · exact ih
        · simp

theorem nodup_scanNodes (ns : List Node) (hnd : (ns.map (·.path)).Nodup) (ls : Path) :
    ∀ (fuel : Nat) (cur : Path) (d : Nat), (scanNodes ns ls cur d fuel).Nodup := by
  intro fuel
  induction fuel with
  | zero => intro cur d; simp [scanNodes]
  | succ fuel ih =>
    intro cur d
    rw [scanNodes_succ_eq]
    split
    · rw [List.nodup_append]
      refine ⟨?_, ?_, ?_⟩
      · split
        · split <;> simp
        · simp
      · unfold List.Nodup
        rw [List.pairwise_flatMap]
        refine ⟨fun adj _ => kidList_nodup ns ls d fuel _ _ adj (ih _ _), ?_⟩
        have hp : (children ns cur).Pairwise (fun a b => a.path ≠ b.path) := by
          unfold children
          apply List.Pairwise.filter
          exact List.pairwise_map.mp hnd
        refine List.Pairwise.imp_of_mem ?_ hp
        intro a b ha hb hab x hx y hy hxy
        subst hxy
        obtain ⟨_, ka, hka⟩ := (mem_children ns cur a).mp ha
        obtain ⟨_, kb, hkb⟩ := (mem_children ns cur b).mp hb
        obtain ⟨qa, hqa⟩ := kidList_below ns ls d fuel _ _ a x hx
        obtain ⟨qb, hqb⟩ := kidList_below ns ls d fuel _ _ b x hy
        apply hab
        have h1 : x.path.take (cur.length + 1) = a.path := by
          rw [hqa, hka]; simpa using take_succ_append cur ka qa
        have h2 : x.path.take (cur.length + 1) = b.path := by
          rw [hqb, hkb]; simpa using take_succ_append cur kb qb
        rw [← h1, h2]
      · intro a ha b hb hab
        subst hab
        obtain ⟨adj, hadj, hx⟩ := List.mem_flatMap.mp hb
        obtain ⟨_, k, hk⟩ := (mem_children ns cur adj).mp hadj
        obtain ⟨q, hq⟩ := kidList_below ns ls d fuel _ _ adj a hx
        have hpa : a.path = cur := by
          split at ha
          · split at ha
            · rename_i n hg
              rw [List.mem_singleton.mp ha]
              exact (getNode_some ns cur n hg).2
            · simp at ha
          · simp at ha
        have := congrArg List.length hq
        rw [hpa, hk] at this
        simp at this
    · split
      · simp
      · split
        · exact ih _ _
        · simp

/-! ### exactness of the scan -/

theorem decide_ne_nil (t : Str) : decide (t ≠ []) = !t.isEmpty := by
  cases t <;> simp

/-- the particles the scan visits are exactly the particles whose address matches, each once -/
theorem scanNodes_perm (ns : List Node) (hpc : PrefixClosed ns) (hnd : (ns.map (·.path)).Nodup)
    (ls : Path) (hls : ls ≠ []) (hhl : hashLast ls = true) :
    List.Perm (scanNodes ns ls [] 0 (ns.length + 1)) (ns.filter (fun n => msgMatch ls n.path)) := by
  apply (List.perm_ext_iff_of_nodup (nodup_scanNodes ns hnd ls _ _ _)
    (List.Nodup.sublist List.filter_sublist (nodup_nodes ns hnd))).mpr
  intro n
  rw [mem_scanNodes ns hpc hnd ls hls hhl (ns.length + 1) [] 0 rfl
    (fun m hm => by have := path_length_le ns hpc m hm; omega) n, restOf_zero]
  unfold InScan
  simp only [List.nil_append, exists_eq_left', List.mem_filter, msgMatch, dolOK, beq_self_eq_true,
    Bool.true_and, Bool.and_eq_true]

/-- **Exactness of the retained scan.**  For a prefix-closed particle list with pairwise distinct
    addresses and a filter whose `#` levels (if any) come last, the non-empty retain paths the scan
    returns are, up to order, exactly the retain paths of the particles whose address matches the
    filter (`msgMatch`), each counted once. -/
theorem scanMsgs_perm (ns : List Node) (hpc : PrefixClosed ns) (hnd : (ns.map (·.path)).Nodup)
    (ls : Path) (hls : ls ≠ []) (hhl : hashLast ls = true) :
    List.Perm ((scanMsgs ns ls [] 0 (ns.length + 1)).filter (· ≠ []))
      ((ns.filter (fun n => msgMatch ls n.path && !n.retainPath.isEmpty)).map (·.retainPath)) := by
  have h1 : (scanMsgs ns ls [] 0 (ns.length + 1)).filter (· ≠ []) =
      retOf (scanNodes ns ls [] 0 (ns.length + 1)) := by
    rw [← scanMsgs_eq_retOf]
    apply List.filter_congr
    intro t _
    exact decide_ne_nil t
  have h2 : ns.filter (fun n => msgMatch ls n.path && !n.retainPath.isEmpty) =
      (ns.filter (fun n => msgMatch ls n.path)).filter (fun n => !n.retainPath.isEmpty) := by
    rw [List.filter_filter]
    apply List.filter_congr
    intro n _
    exact Bool.and_comm _ _
  rw [h1, h2]
  unfold retOf
  exact ((scanNodes_perm ns hpc hnd ls hls hhl).filter _).map _

/-- the statement in terms of `specLevelsOK` -/
theorem scanMsgs_perm_spec (ns : List Node) (hpc : PrefixClosed ns) (hnd : (ns.map (·.path)).Nodup)
    (ls : Path) (hls : ls ≠ []) (hok : specLevelsOK ls = true) :
    List.Perm ((scanMsgs ns ls [] 0 (ns.length + 1)).filter (· ≠ []))
      ((ns.filter (fun n => msgMatch ls n.path && !n.retainPath.isEmpty)).map (·.retainPath)) :=
  scanMsgs_perm ns hpc hnd ls hls (hashLast_of_spec ls hok)

/-! ### when the last filter level is a wildcard the scan returns no empty retain path -/

theorem isolate_snd_false (ls : Path) (hls : ls ≠ []) (d : Nat) (h : (isolate ls d).2 = false) :
    ls.getLast? = some (isolate ls d).1 := by
  induction ls generalizing d with
  | nil => exact absurd rfl hls
  | cons l rest ih =>
    match rest, d with
    | [], d => simp [isolate]
    | l2 :: rest', 0 => simp [isolate] at h
    | l2 :: rest', d + 1 =>
      simp only [isolate] at h ⊢
      rw [List.getLast?_cons_cons]
      exact ih (by simp) d h

theorem scanMsgs_ne_nil (ns : List Node) (ls : Path) (hls : ls ≠ [])
    (hlast : ls.getLast? = some [plus] ∨ ls.getLast? = some [hash]) :
    ∀ (fuel : Nat) (cur : Path) (d : Nat), ∀ t ∈ scanMsgs ns ls cur d fuel, t ≠ [] := by
  intro fuel
  induction fuel with
  | zero => intro cur d t ht; simp [scanMsgs] at ht
  | succ fuel ih =>
    intro cur d t ht
    rw [scanMsgs] at ht
    split at ht
    · rcases List.mem_append.mp ht with h | h
      · split at h
        · split at h
          · split at h
            · simp at h
            · rename_i hne
              rw [List.mem_singleton.mp h]
              intro e; simp [e] at hne
          · simp at h
        · simp at h
      · obtain ⟨adj, _, h⟩ := List.mem_flatMap.mp h
        split at h
        · simp at h
        · split at h
          · simp at h
          · rcases List.mem_append.mp h with h | h
            · split at h
              · rename_i hc
                rw [List.mem_singleton.mp h]
                intro e; simp [e] at hc
              · simp at h
            · split at h
              · exact ih _ _ t h
              · simp at h
    · rename_i hw
      split at ht
      · simp at ht
      · split at ht
        · exact ih _ _ t ht
        · rename_i hn
          exfalso
          have := isolate_snd_false ls hls d (by simpa using hn)
          rw [this] at hlast
          apply hw
          rcases hlast with h | h
          · simp [Option.some.inj h]
          · simp [Option.some.inj h]

/-- exactness without discarding anything, for a filter whose last level is `+` or `#` -/
theorem scanMsgs_perm_wild (ns : List Node) (hpc : PrefixClosed ns) (hnd : (ns.map (·.path)).Nodup)
    (ls : Path) (hls : ls ≠ []) (hhl : hashLast ls = true)
    (hlast : ls.getLast? = some [plus] ∨ ls.getLast? = some [hash]) :
    List.Perm (scanMsgs ns ls [] 0 (ns.length + 1))
      ((ns.filter (fun n => msgMatch ls n.path && !n.retainPath.isEmpty)).map (·.retainPath)) := by
  have h := scanMsgs_perm ns hpc hnd ls hls hhl
  rwa [List.filter_eq_self.mpr (fun t ht => by
    simpa using scanMsgs_ne_nil ns ls hls hlast _ _ _ t ht)] at h

/-- Without that restriction the unfiltered statement of the brief is FALSE: for a filter whose last
    level is a literal the scan (like the Go code, which then looks the empty string up in the
    retained map) reports the empty retain path of a matching particle that holds no message. -/
example :
    let ns : List Node := [{ path := [[120]] }, { path := [[120], [97]] },
      { path := [[120], [97], [98]], retainPath := [120, 47, 97, 47, 98] }]
    let ls : Path := [[plus], [97]]
    scanMsgs ns ls [] 0 (ns.length + 1) = [[]] ∧
    (ns.filter (fun n => msgMatch ls n.path && !n.retainPath.isEmpty)).map (·.retainPath) = [] := by
  decide

/-! ### from levels back to topic strings -/

/-- the first byte of a topic is the first byte of its first level (a topic starting with `/` has an
    empty first level) -/
theorem head_splitLevels (t : Str) :
    ((splitLevels t).head?.bind List.head? == some dollar) = (t.head? == some dollar) := by
  cases t with
  | nil => simp [splitLevels]
  | cons c rest =>
    unfold splitLevels
    by_cases hc : c = slash
    · subst hc; simp [slash, dollar]
    · simp only [hc, if_false]
      cases hs : splitLevels rest <;> simp

theorem msgMatch_split (ls : Path) (t : Str) :
    msgMatch ls (splitLevels t) = (matchLv ls (splitLevels t) && !dollarRule ls t) := by
  unfold msgMatch dollarRule
  rw [head_splitLevels, Bool.and_comm (t.head? == some dollar)]

theorem mem_splitLevels (f : Str) : ∀ l ∈ splitLevels f, ∀ c ∈ l, c ∈ f := by
  induction f with
  | nil => intro l hl c hc; simp [splitLevels] at hl; subst hl; simp at hc
  | cons a rest ih =>
    intro l hl c hc
    unfold splitLevels at hl
    by_cases ha : a = slash
    · simp only [ha, if_true, List.mem_cons] at hl
      rcases hl with rfl | hl
      · simp at hc
      · exact List.mem_cons_of_mem _ (ih l hl c hc)
    · simp only [ha, if_false] at hl
      cases hs : splitLevels rest with
      | nil => exact absurd hs (splitLevels_ne_nil rest)
      | cons l0 ls' =>
        rw [hs] at hl ih
        simp only [List.mem_cons] at hl
        rcases hl with rfl | hl
        · rcases List.mem_cons.mp hc with rfl | hc'
          · simp
          · exact List.mem_cons_of_mem _ (ih l0 (by simp) c hc')
        · exact List.mem_cons_of_mem _ (ih l (by simp [hl]) c hc)

theorem splitLevels_inj (a b : Str) (h : splitLevels a = splitLevels b) : a = b := by
  rw [← join_split a, ← join_split b, h]

/-- a filter without wildcard levels matches its own levels only -/
theorem matchLv_wildfree (ls : Path) (hwf : ∀ l ∈ ls, l ≠ [plus] ∧ l ≠ [hash]) (q : Path) :
    matchLv ls q = true ↔ q = ls := by
  induction ls generalizing q with
  | nil => exact matchLv_nil q
  | cons r rs ih =>
    rw [matchLv_lit r rs q (hwf r (by simp)).1 (hwf r (by simp)).2]
    constructor
    · rintro ⟨ts, rfl, h⟩
      rw [(ih (fun l hl => hwf l (by simp [hl])) ts).mp h]
    · rintro rfl
      exact ⟨rs, rfl, (ih (fun l hl => hwf l (by simp [hl])) rs).mpr rfl⟩

theorem wildfree_of_contains (f : Str) (h : (!f.contains hash && !f.contains plus) = true) :
    ∀ l ∈ splitLevels f, l ≠ [plus] ∧ l ≠ [hash] := by
  simp only [Bool.and_eq_true, Bool.not_eq_true', List.contains_eq_mem, decide_eq_false_iff_not] at h
  intro l hl
  constructor
  · rintro rfl; exact h.2 (mem_splitLevels f _ hl plus (by simp))
  · rintro rfl; exact h.1 (mem_splitLevels f _ hl hash (by simp))

/-! ### `TopicsIndex.Messages` -/

/-- which retained topics the scan reports -/
theorem mem_scanMsgs_topic (x : Index)
    (hpc : PrefixClosed x.nodes) (hnd : (x.nodes.map (·.path)).Nodup)
    (hsound : ∀ n ∈ x.nodes, n.retainPath ≠ [] → splitLevels n.retainPath = n.path)
    (hcomplete : ∀ t, t ≠ [] → (assocGet x.retained t).isSome →
      ∃ n, getNode x.nodes (splitLevels t) = some n ∧ n.retainPath = t)
    (hnoempty : (assocGet x.retained []).isNone)
    (ls : Path) (hls : ls ≠ []) (hhl : hashLast ls = true)
    (t : Str) (ht : (assocGet x.retained t).isSome) :
    t ∈ scanMsgs x.nodes ls [] 0 (x.nodes.length + 1) ↔
      (matchLv ls (splitLevels t) = true ∧ dollarRule ls t = false) := by
  have htne : t ≠ [] := by
    rintro rfl
    rw [Option.isNone_iff_eq_none] at hnoempty
    simp [hnoempty] at ht
  have h1 : t ∈ scanMsgs x.nodes ls [] 0 (x.nodes.length + 1) ↔
      t ∈ (scanMsgs x.nodes ls [] 0 (x.nodes.length + 1)).filter (· ≠ []) := by
    simp [List.mem_filter, htne]
  rw [h1, (scanMsgs_perm x.nodes hpc hnd ls hls hhl).mem_iff]
  simp only [List.mem_map, List.mem_filter, Bool.and_eq_true, Bool.not_eq_true',
    List.isEmpty_eq_false_iff]
  constructor
  · rintro ⟨n, ⟨hn, hm, hne⟩, rfl⟩
    rw [← hsound n hn hne, msgMatch_split] at hm
    simpa using hm
  · rintro ⟨hm, hd⟩
    obtain ⟨n, hg, hr⟩ := hcomplete t htne ht
    obtain ⟨hn, hp⟩ := getNode_some x.nodes _ n hg
    refine ⟨n, ⟨hn, ?_, by rw [hr]; exact htne⟩, hr⟩
    rw [hp, msgMatch_split]
    simp [hm, hd]

theorem retained_nil (x : Index) (h : x.retained.isEmpty = true) (t : Str) :
    assocGet x.retained t = none := by
  rw [List.isEmpty_iff] at h
  rw [h]; rfl

/-- **`Messages` returns exactly the retained messages whose topic matches the filter**, in both
    branches (direct lookup for a wildcard-free filter, trie scan otherwise). -/
theorem messages_exact (x : Index)
    (hpc : PrefixClosed x.nodes) (hnd : (x.nodes.map (·.path)).Nodup)
    (hsound : ∀ n ∈ x.nodes, n.retainPath ≠ [] → splitLevels n.retainPath = n.path)
    (hcomplete : ∀ t, t ≠ [] → (assocGet x.retained t).isSome →
      ∃ n, getNode x.nodes (splitLevels t) = some n ∧ n.retainPath = t)
    (hkeys : ∀ t r, assocGet x.retained t = some r → r.topic = t)
    (hnoempty : (assocGet x.retained []).isNone)
    (f : Str) (hf : f ≠ []) (hok : specLevelsOK (splitLevels f) = true) :
    ∀ t, (∃ r ∈ messages x f, r.topic = t) ↔
      ((assocGet x.retained t).isSome ∧ matchLv (splitLevels f) (splitLevels t) = true ∧
        dollarRule (splitLevels f) t = false) := by
  intro t
  unfold messages
  have hfe : f.isEmpty = false := by cases f <;> simp_all
  by_cases hre : x.retained.isEmpty = true
  · simp [hfe, hre, retained_nil x hre]
  · simp only [hfe, hre, Bool.false_or, Bool.false_eq_true, if_false]
    split
    · rename_i hc
      have hwf := wildfree_of_contains f hc
      have hdr : ∀ t', dollarRule (splitLevels f) t' = false := by
        intro t'
        unfold dollarRule
        cases hs : splitLevels f with
        | nil => simp
        | cons l ls' =>
          have := hwf l (by simp [hs])
          simp [this.1, this.2]
      rw [matchLv_wildfree _ hwf]
      constructor
      · rintro ⟨r, hr, rfl⟩
        cases hg : assocGet x.retained f with
        | none => simp [hg] at hr
        | some pk =>
          simp only [hg, List.mem_singleton] at hr
          subst hr
          have := hkeys f r hg
          rw [this, hg]
          exact ⟨rfl, rfl, hdr _⟩
      · rintro ⟨hs, heq, _⟩
        have : t = f := splitLevels_inj t f heq
        subst this
        obtain ⟨r, hr⟩ := Option.isSome_iff_exists.mp hs
        exact ⟨r, by simp [hr], hkeys t r hr⟩
    · have hls := splitLevels_ne_nil f
      have hhl := hashLast_of_spec _ hok
      constructor
      · rintro ⟨r, hr, rfl⟩
        obtain ⟨s, hs, hg⟩ := List.mem_filterMap.mp hr
        have hst := hkeys s r hg
        subst hst
        have hsome : (assocGet x.retained r.topic).isSome := by simp [hg]
        exact ⟨hsome, (mem_scanMsgs_topic x hpc hnd hsound hcomplete hnoempty _ hls hhl _ hsome).mp hs⟩
      · rintro ⟨hs, hm, hd⟩
        obtain ⟨r, hr⟩ := Option.isSome_iff_exists.mp hs
        refine ⟨r, List.mem_filterMap.mpr ⟨t, ?_, hr⟩, hkeys t r hr⟩
        exact (mem_scanMsgs_topic x hpc hnd hsound hcomplete hnoempty _ hls hhl _ hs).mpr ⟨hm, hd⟩

/-- every message `Messages` returns is the one currently stored under its topic -/
theorem messages_current (x : Index)
    (hkeys : ∀ t r, assocGet x.retained t = some r → r.topic = t) (f : Str) :
    ∀ r ∈ messages x f, assocGet x.retained r.topic = some r := by
  intro r hr
  unfold messages at hr
  split at hr
  · simp at hr
  · split at hr
    · cases hg : assocGet x.retained f with
      | none => simp [hg] at hr
      | some pk =>
        simp only [hg, List.mem_singleton] at hr
        subst hr
        rw [hkeys f r hg]; exact hg
    · obtain ⟨s, _, hg⟩ := List.mem_filterMap.mp hr
      rw [hkeys s r hg]; exact hg

theorem map_topic_filterMap (m : List (Str × Retained))
    (hkeys : ∀ t r, assocGet m t = some r → r.topic = t) (l : List Str) :
    (l.filterMap (assocGet m)).map (·.topic) = l.filter (fun s => (assocGet m s).isSome) := by
  induction l with
  | nil => rfl
  | cons s rest ih =>
    cases hg : assocGet m s with
    | none => simp [hg, ih]
    | some r => simp [hg, ih, hkeys s r hg]

/-- the retain paths of the particles that carry one are pairwise distinct -/
theorem retainPaths_nodup (ns : List Node) (hnd : (ns.map (·.path)).Nodup)
    (hsound : ∀ n ∈ ns, n.retainPath ≠ [] → splitLevels n.retainPath = n.path) (p : Node → Bool) :
    ((ns.filter (fun n => p n && !n.retainPath.isEmpty)).map (·.retainPath)).Nodup := by
  unfold List.Nodup at hnd ⊢
  rw [List.pairwise_map] at hnd ⊢
  refine List.Pairwise.imp_of_mem ?_ (hnd.filter _)
  intro a b ha hb hab e
  simp only [List.mem_filter, Bool.and_eq_true, Bool.not_eq_true', List.isEmpty_eq_false_iff] at ha hb
  apply hab
  rw [← hsound a ha.1 ha.2.2, ← hsound b hb.1 hb.2.2, e]

/-- `Messages` returns no topic twice -/
theorem messages_nodup (x : Index)
    (hpc : PrefixClosed x.nodes) (hnd : (x.nodes.map (·.path)).Nodup)
    (hsound : ∀ n ∈ x.nodes, n.retainPath ≠ [] → splitLevels n.retainPath = n.path)
    (hkeys : ∀ t r, assocGet x.retained t = some r → r.topic = t)
    (hnoempty : (assocGet x.retained []).isNone)
    (f : Str) (hok : specLevelsOK (splitLevels f) = true) :
    ((messages x f).map (·.topic)).Nodup := by
  unfold messages
  split
  · simp
  · split
    · cases assocGet x.retained f <;> simp
    · rw [map_topic_filterMap x.retained hkeys]
      have hnd' := (scanMsgs_perm x.nodes hpc hnd _ (splitLevels_ne_nil f)
        (hashLast_of_spec _ hok)).nodup_iff.mpr (retainPaths_nodup x.nodes hnd hsound _)
      have heq : (scanMsgs x.nodes (splitLevels f) [] 0 (x.nodes.length + 1)).filter
            (fun s => (assocGet x.retained s).isSome) =
          ((scanMsgs x.nodes (splitLevels f) [] 0 (x.nodes.length + 1)).filter (· ≠ [])).filter
            (fun s => (assocGet x.retained s).isSome) := by
        rw [List.filter_filter]
        apply List.filter_congr
        intro s _
        by_cases hs : s = []
        · subst hs
          rw [Option.isNone_iff_eq_none] at hnoempty
          simp [hnoempty]
        · simp [hs]
      rw [heq]
      exact List.Nodup.sublist List.filter_sublist hnd'

/-! ### non-vacuity: a concrete index -/

/-- retained messages on `a`, `a/b` and `$x/y`, stored through the model's own `retainMessage` -/
def exIdx : Index :=
  runOps [.retain [97] [1] true, .retain [97, 47, 98] [2] true, .retain [36, 120, 47, 121] [3] true]

example : exIdx.nodes.map (fun n => (n.path, n.retainPath)) =
    [([[97]], [97]), ([[97], [98]], [97, 47, 98]), ([[36, 120]], []),
     ([[36, 120], [121]], [36, 120, 47, 121])] := by decide

-- the structural hypotheses hold of it
example : PrefixClosed exIdx.nodes := prefixClosed_runOps _
example : (exIdx.nodes.map (·.path)).Nodup := by decide
example : ∀ n ∈ exIdx.nodes, n.retainPath ≠ [] → splitLevels n.retainPath = n.path := by decide
example : (assocGet exIdx.retained []).isNone := by decide

-- `a/#` returns `a` and `a/b`
example : (messages exIdx [97, 47, 35]).map (·.topic) = [[97], [97, 47, 98]] := by decide
-- `+/#` returns `a` and `a/b`, not `$x/y`
example : (messages exIdx [43, 47, 35]).map (·.topic) = [[97], [97, 47, 98]] := by decide
-- `#` returns `a` and `a/b`, not `$x/y`
example : (messages exIdx [35]).map (·.topic) = [[97], [97, 47, 98]] := by decide
-- `+/b` returns `a/b`
example : (messages exIdx [43, 47, 98]).map (·.topic) = [[97, 47, 98]] := by decide
-- `$x/#` returns `$x/y`
example : (messages exIdx [36, 120, 47, 35]).map (·.topic) = [[36, 120, 47, 121]] := by decide
-- `+` returns `a` only; `$x/+` returns `$x/y`; a literal filter is a direct lookup
example : (messages exIdx [43]).map (·.topic) = [[97]] := by decide
example : (messages exIdx [36, 120, 47, 43]).map (·.topic) = [[36, 120, 47, 121]] := by decide
example : (messages exIdx [97, 47, 98]).map (·.topic) = [[97, 47, 98]] := by decide
-- the scan itself, and the specification side of `scanMsgs_perm`, on `+/#`
example : scanMsgs exIdx.nodes [[plus], [hash]] [] 0 (exIdx.nodes.length + 1) = [[97], [97, 47, 98]] := by
  decide
example : (exIdx.nodes.filter (fun n => msgMatch [[plus], [hash]] n.path && !n.retainPath.isEmpty)).map
    (·.retainPath) = [[97], [97, 47, 98]] := by decide

end Mochi.Topics
