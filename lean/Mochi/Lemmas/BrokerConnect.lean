import Mochi.Lemmas.BrokerWill
import Mochi.Lemmas.CountersConn
/-!
# The outputs of a `connect` op (C13)

`NoConnack o` — no output of `o` is a CONNACK.  Everything the broker writes outside `SendConnack` and the refusal
path of `attachClient` is `NoConnack`: deliveries, acknowledgements, DISCONNECT, closes, events.
`TakeoverOut c o` — `o` consists of a DISCONNECT 0x8E and the close, both on connection `c`.
-/
namespace Mochi.Broker
open Mochi.Topics

def Out.isConnack : Out → Bool
  | .wrote _ (.connack ..) => true
  | _ => false

def NoConnack (o : List Out) : Prop := ∀ x ∈ o, x.isConnack = false

theorem NoConnack.nil : NoConnack [] := fun _ h => by cases h
theorem NoConnack.append {a b : List Out} (ha : NoConnack a) (hb : NoConnack b) : NoConnack (a ++ b) := by
  intro x hx
  rcases List.mem_append.mp hx with h | h
  · exact ha x h
  · exact hb x h
theorem NoConnack.filter {a : List Out} (ha : NoConnack a) (p : Out → Bool) : NoConnack (a.filter p) :=
  fun x hx => ha x (List.mem_filter.mp hx).1
theorem NoConnack.single {x : Out} (h : x.isConnack = false) : NoConnack [x] := by
  intro y hy
  simp at hy
  subst hy
  exact h

theorem FanOut.noConnack {o : List Out} (h : FanOut o) : NoConnack o := by
  intro x hx
  have := h x hx
  cases x with
  | wrote c pk => cases pk <;> first | rfl | cases this
  | _ => rfl

theorem writeMsg_noConnack (s : Server) (i : Nat) (m : Msg) : NoConnack (writeMsg s i m) := by
  unfold writeMsg
  simp only []
  split
  · exact NoConnack.nil
  · split <;> exact NoConnack.single rfl

theorem stopClient_noConnack (s : Server) (i : Nat) : NoConnack (stopClient s i).2 := by
  unfold stopClient
  simp only []
  split
  · exact NoConnack.nil
  · split
    · exact NoConnack.nil
    · exact NoConnack.single rfl

theorem disconnectClient_noConnack (s : Server) (i code : Nat) : NoConnack (disconnectClient s i code).2 := by
  unfold disconnectClient
  simp only []
  refine NoConnack.append ?_ (stopClient_noConnack s i)
  split
  · exact NoConnack.single rfl
  · exact NoConnack.nil

theorem sendLWT_noConnack (s : Server) (i : Nat) : NoConnack (sendLWT s i).2 := by
  by_cases hf : (getObj s i).will.flag = true
  · by_cases hd : (getObj s i).will.delay = 0
    · rw [sendLWT_now s i hf hd]
      exact (publishToSubscribers_fan _ (willMsg (getObj s i)) rfl).noConnack.append (NoConnack.single rfl)
    · rw [sendLWT_delayed s i hf (Nat.pos_of_ne_zero hd)]
      exact NoConnack.nil
  · rw [sendLWT_noflag s i (by simpa using hf)]
    exact NoConnack.nil

theorem detach_noConnack (s : Server) (i : Nat) (b : Bool) : NoConnack (detach s i b).2 := by
  cases b
  · rw [detach_false_eq]; exact NoConnack.nil
  · show NoConnack ((sendLWT s i).2 ++ (stopClient (sendLWT s i).1 i).2)
    exact (sendLWT_noConnack s i).append (stopClient_noConnack _ i)

theorem nextImmediate_noConnack (s : Server) (i : Nat) : NoConnack (nextImmediate s i).2 := by
  rcases nextImmediate_out s i with e | ⟨_, m, _, _, e⟩
  · rw [e]; exact NoConnack.nil
  · rw [e]; exact writeMsg_noConnack s i m

theorem receivePacket_pingreq_noConnack (s : Server) (i : Nat) : NoConnack (receivePacket s i .pingreq).2.1 := by
  unfold receivePacket
  simp only []
  by_cases hd : dead (getObj s i) = true
  · simp only [hd, Bool.not_true, Bool.false_eq_true, if_false]
    split
    · exact NoConnack.nil.append (disconnectClient_noConnack s i _)
    · exact NoConnack.nil
  · have hd' : dead (getObj s i) = false := by simpa using hd
    simp only [hd', Bool.not_false, if_true]
    exact (NoConnack.single rfl).append (nextImmediate_noConnack s i)

theorem recvOn_pingreq_noConnack (s : Server) (conn : Nat) : NoConnack (recvOn s conn .pingreq false).2 := by
  unfold recvOn
  split
  · exact NoConnack.nil
  · rename_i i hc
    split
    · exact NoConnack.nil
    · have h := receivePacket_pingreq_noConnack s i
      generalize receivePacket s i .pingreq = r at h
      obtain ⟨s1, o1, e1⟩ := r
      simp only []
      cases e1 with
      | some c => exact NoConnack.append h (detach_noConnack s1 i true)
      | none =>
        simp only []
        split
        · exact NoConnack.append h (detach_noConnack s1 i false)
        · exact h

theorem admitC_noConnack (s : Server) (i : Nat) (k : Connect) (present : Bool) : NoConnack (admitC s i k present).2 := by
  unfold admitC
  extract_lets +onlyGivenNames s1
  split
  · refine foldl_inv (fun (acc : Server × List Out) => NoConnack acc.2) _ _ _ NoConnack.nil ?_
    intro acc m h
    extract_lets m' o s'
    exact h.append (writeMsg_noConnack acc.1 i m')
  · exact NoConnack.nil

/-! ### the take-over outputs of `admitA` -/

/-- `o` consists of a DISCONNECT with reason 0x8E and the close, on connection `c` -/
def TakeoverOut (c : Nat) (o : List Out) : Prop :=
  ∀ x ∈ o, (∃ ver, x = Out.wrote c (.disconnect ver 0x8E)) ∨ x = Out.closed c

theorem disconnectClient_takeover (s : Server) (e : Nat) :
    TakeoverOut (getObj s e).conn (disconnectClient s e 0x8E).2 ∧
    ((getObj s e).inline = true → (disconnectClient s e 0x8E).2 = []) := by
  unfold disconnectClient stopClient
  simp only []
  constructor
  · intro x hx
    rcases List.mem_append.mp hx with h | h
    · split at h
      · simp at h; exact Or.inl ⟨_, h⟩
      · cases h
    · split at h
      · cases h
      · split at h
        · cases h
        · simp at h; exact Or.inr h
  · intro hin
    simp [hin]
    split <;> rfl

theorem admitA_out (s : Server) (i : Nat) (k : Connect) :
    (admitA s i k).2.1 = match assocGet s.clients k.id with
      | some e => (disconnectClient (incConn s) e 0x8E).2
      | none => [] := by
  unfold admitA
  extract_lets +onlyGivenNames src s0 exLive
  split
  rename_i s' o1 present heq
  show o1 = _
  have hs0 : s0 = incConn s := rfl
  have hcl : s0.clients = s.clients := rfl
  rw [hcl] at heq
  split at heq
  · rename_i e he
    simp only [he]
    extract_lets +onlyGivenNames ex at heq
    split at heq
    rename_i s1 o hd
    have ho : o = (disconnectClient (incConn s) e 0x8E).2 := by rw [← hs0, hd]
    split at heq
    · cases heq; exact ho
    · rw [← (Prod.mk.inj (Prod.mk.inj heq).2).1]; exact ho
  · rename_i he
    simp only [he]
    cases heq
    rfl

/-! ### `admitConnack`, `admitClient`, `connect`, the `connect` op -/

theorem admitConnack_out (s : Server) (i conn : Nat) (present : Bool) :
    ∃ seiOut, (admitConnack s i conn present).2 =
      [.wrote conn (.connack (getObj s i).ver present 0 s.caps.receiveMaximum s.caps.maximumQos seiOut)] := by
  unfold admitConnack
  extract_lets +onlyGivenNames cl
  split
  rename_i s' seiOut heq
  have hcaps : s'.caps = s.caps := by
    split at heq
    · cases heq; rfl
    · cases heq; rfl
  refine ⟨seiOut, ?_⟩
  show [Out.wrote conn (mkConnack s' cl present 0 seiOut)] = _
  unfold mkConnack
  rw [hcaps]

/-- the outputs of `attachClient` from admission to the read loop: the take-over outputs of `admitA`, the CONNACK,
    then (the taken-over handler's teardown, the resent in-flight messages) no CONNACK -/
theorem admitClient_out (s : Server) (i conn : Nat) (k : Connect) :
    ∃ post, (admitClient s i conn k).2 = (admitA s i k).2.1 ++
        (admitConnack (admitA s i k).1 i conn (admitA s i k).2.2.1).2 ++ post ∧ NoConnack post := by
  unfold admitClient
  split
  rename_i s1 o1 present exLive h1
  simp only [h1]
  split
  · rename_i e
    exact ⟨(detach (admitConnack s1 i conn present).1 e true).2 ++
      (admitC (detach (admitConnack s1 i conn present).1 e true).1 i k present).2, by simp only [List.append_assoc],
      (detach_noConnack _ e true).append (admitC_noConnack _ i k present)⟩
  · exact ⟨[] ++ (admitC (admitConnack s1 i conn present).1 i k present).2, by simp only [List.append_assoc],
      NoConnack.nil.append (admitC_noConnack _ i k present)⟩

/-- the `connect` op is `attachClient` up to the read loop, followed by the harness's barrier, which writes no CONNACK -/
theorem step_connect_out (s : Server) (conn : Nat) (k : Connect) :
    ∃ tail, (step s (.connect conn k)).2 = (connect s conn k).2 ++ tail ∧ NoConnack tail := by
  rw [step]
  generalize connect s conn k = r
  obtain ⟨s', o⟩ := r
  simp only []
  split
  · rename_i i hc
    split
    · exact ⟨_, rfl, (recvOn_pingreq_noConnack s' conn).filter _⟩
    · exact ⟨[], by simp, NoConnack.nil⟩
  · exact ⟨[], by simp, NoConnack.nil⟩

/-- a connection that `attachClient` closed gets no barrier: the op is `connect` -/
theorem step_connect_closed (s : Server) (conn : Nat) (k : Connect) (i : Nat)
    (hc : assocGet (connect s conn k).1.connOf conn = some i) (ho : (getObj (connect s conn k).1 i).isOpen = false) :
    step s (.connect conn k) = connect s conn k := by
  rw [step]
  generalize connect s conn k = r at hc ho
  obtain ⟨s', o⟩ := r
  simp only [] at hc ho ⊢
  simp only [hc, ho, Bool.false_eq_true, if_false]

/-- the state in which `attachClient` decides about a CONNECT: the new client object and its connection exist -/
def connState (s : Server) (conn : Nat) (k : Connect) : Server :=
  { s with objs := s.objs ++ [parseConnect s conn k], connOf := s.connOf ++ [(conn, s.objs.length)] }

theorem getObj_connState_new (s : Server) (conn : Nat) (k : Connect) :
    getObj (connState s conn k) s.objs.length = parseConnect s conn k := getObj_append_eq (s := s) rfl

theorem getObj_connState_old (s : Server) (conn : Nat) (k : Connect) (j : Nat) (hj : j < s.objs.length) :
    getObj (connState s conn k) j = getObj s j := getObj_append_lt (s := s) rfl j hj

/-- a refused CONNECT: the failure CONNACK, the close, nothing else; nothing is registered -/
theorem connect_refused (s : Server) (conn : Nat) (k : Connect) (code : Nat)
    (h : refuseCode (connState s conn k) k (parseConnect s conn k) = some code) (hf : conn ∉ s.connOf.map (·.1)) :
    step s (.connect conn k) = connect s conn k ∧
    (connect s conn k).2 = [.wrote conn (.connack k.ver false code s.caps.receiveMaximum s.caps.maximumQos none),
      .closed conn] ∧
    (connect s conn k).1.clients = s.clients ∧ (connect s conn k).1.willDelayed = s.willDelayed := by
  have hg := getObj_connState_new s conn k
  have hst := stopClient_live (connState s conn k) s.objs.length (by rw [hg]; rfl) (by rw [hg]; rfl)
  rw [hg] at hst
  have e : connect s conn k = (setObj (connState s conn k) s.objs.length
        { parseConnect s conn k with isOpen := false, stopped := true },
      [.wrote conn (.connack k.ver false code s.caps.receiveMaximum s.caps.maximumQos none), .closed conn]) := by
    unfold connect
    have h' := h
    unfold connState at h' hst
    simp only [h', hst]
    rfl
  refine ⟨?_, by rw [e], by rw [e]; rfl, by rw [e]; rfl⟩
  refine step_connect_closed s conn k s.objs.length ?_ ?_
  · rw [e]
    show assocGet (s.connOf ++ [(conn, s.objs.length)]) conn = _
    exact assocGet_append_fresh _ _ _ hf
  · rw [e]
    rw [getObj_setObj_eq _ _ _ (by show s.objs.length < (s.objs ++ [_]).length; simp)]

/-- every refusal code is a failure code -/
theorem refuseCode_failure (s : Server) (k : Connect) (c : Client) (code : Nat) (h : refuseCode s k c = some code) :
    code ≥ 0x80 := by
  unfold refuseCode at h
  (repeat' split at h) <;> (first | (cases h; done) | (cases h; omega) | skip)
  all_goals (cases h)

/-- the packets written to connection `conn`, in order -/
def writesTo (conn : Nat) (o : List Out) : List WPk :=
  o.filterMap (fun x => match x with
    | .wrote c pk => if c == conn then some pk else none
    | _ => none)

def WPk.isConnack : WPk → Bool
  | .connack .. => true
  | _ => false

theorem writesTo_append (conn : Nat) (a b : List Out) : writesTo conn (a ++ b) = writesTo conn a ++ writesTo conn b :=
  List.filterMap_append

theorem writesTo_takeover {c conn : Nat} {o : List Out} (h : TakeoverOut c o) (hc : c ≠ conn) : writesTo conn o = [] := by
  unfold writesTo
  apply List.filterMap_eq_nil_iff.mpr
  intro x hx
  rcases h x hx with ⟨ver, rfl⟩ | rfl
  · have : (c == conn) = false := by simpa using hc
    simp only [this, Bool.false_eq_true, if_false]
  · rfl

theorem writesTo_noConnack {conn : Nat} {o : List Out} (h : NoConnack o) : ∀ pk ∈ writesTo conn o, pk.isConnack = false := by
  intro pk hpk
  unfold writesTo at hpk
  obtain ⟨x, hx, he⟩ := List.mem_filterMap.mp hpk
  have hn := h x hx
  cases x with
  | wrote c p =>
    simp only at he
    split at he
    · cases he
      cases pk <;> first | rfl | cases hn
    · cases he
  | _ => cases he

/-- an admitted CONNECT: the take-over outputs on another connection, the CONNACK with code 0, then no CONNACK -/
theorem connect_admitted_out (s : Server) (hw : WF s) (hcm : ConnMap s) (conn : Nat) (k : Connect)
    (h : refuseCode (connState s conn k) k (parseConnect s conn k) = none) (hf : conn ∉ s.connOf.map (·.1)) :
    ∃ c' pre ver sp rm mq seiOut post, c' ≠ conn ∧ TakeoverOut c' pre ∧
      (step s (.connect conn k)).2 = pre ++ [.wrote conn (.connack ver sp 0 rm mq seiOut)] ++ post ∧ NoConnack post := by
  obtain ⟨tail, ht, hnt⟩ := step_connect_out s conn k
  obtain ⟨post, hp, hnp⟩ := admitClient_out (connState s conn k) s.objs.length conn k
  obtain ⟨seiOut, hck⟩ := admitConnack_out (admitA (connState s conn k) s.objs.length k).1 s.objs.length conn
    (admitA (connState s conn k) s.objs.length k).2.2.1
  have hconn : (connect s conn k).2 = (admitClient (connState s conn k) s.objs.length conn k).2 := by
    unfold connect
    have h' := h
    unfold connState at h'
    simp only [h']
    rfl
  have hpre := admitA_out (connState s conn k) s.objs.length k
  have hcl : (connState s conn k).clients = s.clients := rfl
  rw [hcl] at hpre
  have key : ∃ c', c' ≠ conn ∧ TakeoverOut c' (admitA (connState s conn k) s.objs.length k).2.1 := by
    cases he : assocGet s.clients k.id with
    | none =>
      rw [he] at hpre
      rw [hpre]
      exact ⟨conn + 1, by omega, fun x hx => by cases hx⟩
    | some e =>
      rw [he] at hpre
      simp only at hpre
      have hel : e < s.objs.length := (hw.clients_valid k.id e (assocGet_mem _ _ _ he)).1
      have hobj : getObj (incConn (connState s conn k)) e = getObj s e := getObj_connState_old s conn k e hel
      obtain ⟨t1, t2⟩ := disconnectClient_takeover (incConn (connState s conn k)) e
      rw [hobj] at t1 t2
      by_cases hin : (getObj s e).inline = true
      · rw [hpre, t2 hin]
        exact ⟨conn + 1, by omega, fun x hx => by cases hx⟩
      · refine ⟨(getObj s e).conn, ?_, by rw [hpre]; exact t1⟩
        have hm := hcm e hel (by simpa using hin)
        intro heq
        rw [heq] at hm
        exact hf (List.mem_map_of_mem (f := (·.1)) (assocGet_mem _ _ _ hm))
  obtain ⟨c', hc', hto⟩ := key
  refine ⟨c', (admitA (connState s conn k) s.objs.length k).2.1,
    (getObj (admitA (connState s conn k) s.objs.length k).1 s.objs.length).ver,
    (admitA (connState s conn k) s.objs.length k).2.2.1,
    (admitA (connState s conn k) s.objs.length k).1.caps.receiveMaximum,
    (admitA (connState s conn k) s.objs.length k).1.caps.maximumQos, seiOut, post ++ tail, hc', hto, ?_, hnp.append hnt⟩
  rw [ht, hconn, hp, hck]
  simp only [List.append_assoc]

end Mochi.Broker
