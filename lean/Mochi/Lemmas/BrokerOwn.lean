import Mochi.Lemmas.BrokerQuiet
/-!
# Handlers that change the subscriptions of ONE session: SUBSCRIBE, UNSUBSCRIBE, `unsubscribeClient`

`Own i s s'`: like `Quiet`, except that object `i` may change its `subs` and the topic index may gain or lose
entries under `i`'s client id — in step: every entry under that id after the step was there before (and is
still a key of `subs` if it was), or is a key of the new `subs`.
-/
namespace Mochi.Broker
open Mochi.Topics

/-- the filters a client object holds subscriptions for -/
def subKeys (c : Client) : List Str := c.subs.map (·.1)

/-- every stored subscription is filed under its own filter, and that filter is not a shared filter without a
    topic part (`$share`, `$share/group`: SUBSCRIBE refuses them, `Unsubscribe` leaves the index alone for them) -/
def KeyOK (c : Client) : Prop := ∀ fs ∈ c.subs, fs.2.filter = fs.1 ∧ shareBare fs.1 = false

theorem KeyOK.notBare {c : Client} (h : KeyOK c) {f : Str} (hf : f ∈ subKeys c) : shareBare f = false := by
  obtain ⟨fs, hfs, hk⟩ := List.mem_map.mp hf
  rw [← hk]; exact (h fs hfs).2

/-! ### association lists -/

theorem mem_keys_assocSet_self {α β} [DecidableEq α] (m : List (α × β)) (k : α) (v : β) :
    k ∈ (assocSet m k v).map (·.1) := by
  induction m with
  | nil => simp [assocSet]
  | cons x xs ih =>
    obtain ⟨a, b⟩ := x
    unfold assocSet
    split
    · simp
    · rw [List.map_cons]; exact List.mem_cons_of_mem _ ih

theorem mem_keys_assocSet_of_mem {α β} [DecidableEq α] (m : List (α × β)) (k k' : α) (v : β)
    (h : k' ∈ m.map (·.1)) : k' ∈ (assocSet m k v).map (·.1) := by
  induction m with
  | nil => simp at h
  | cons x xs ih =>
    obtain ⟨a, b⟩ := x
    unfold assocSet
    rw [List.map_cons, List.mem_cons] at h
    split
    · rename_i hak
      rw [List.map_cons, List.mem_cons]
      rcases h with h | h
      · exact Or.inl (h.trans hak)
      · exact Or.inr h
    · rw [List.map_cons, List.mem_cons]
      rcases h with h | h
      · exact Or.inl h
      · exact Or.inr (ih h)

theorem mem_keys_assocDel {α β} [DecidableEq α] (m : List (α × β)) (k k' : α)
    (h : k' ∈ m.map (·.1)) (hne : k' ≠ k) : k' ∈ (assocDel m k).map (·.1) := by
  obtain ⟨e, he, hk⟩ := List.mem_map.mp h
  refine List.mem_map.mpr ⟨e, ?_, hk⟩
  unfold assocDel
  refine List.mem_filter.mpr ⟨he, ?_⟩
  simp only [ne_eq, decide_eq_true_eq]
  rw [hk]; exact hne

theorem mem_of_mem_assocDel {α β} [DecidableEq α] (m : List (α × β)) (k : α) (e : α × β)
    (h : e ∈ assocDel m k) : e ∈ m := (List.mem_filter.mp h).1

theorem assocGet_of_mem_nodup {α β} [DecidableEq α] (m : List (α × β)) (k : α) (v : β)
    (hnd : (m.map (·.1)).Nodup) (h : (k, v) ∈ m) : assocGet m k = some v := by
  induction m with
  | nil => cases h
  | cons x xs ih =>
    obtain ⟨a, b⟩ := x
    rw [List.map_cons, List.nodup_cons] at hnd
    unfold assocGet
    rcases List.mem_cons.mp h with h | h
    · cases h; simp
    · have : ¬ a = k := by
        intro e
        subst e
        exact hnd.1 (List.mem_map.mpr ⟨(a, v), h, rfl⟩)
      simp only [this, if_false]
      exact ih hnd.2 h

theorem assocGet_isSome_of_mem_keys {α β} [DecidableEq α] (m : List (α × β)) (k : α)
    (h : k ∈ m.map (·.1)) : ∃ v, assocGet m k = some v := by
  induction m with
  | nil => simp at h
  | cons x xs ih =>
    obtain ⟨a, b⟩ := x
    unfold assocGet
    by_cases hak : a = k
    · exact ⟨b, by simp [hak]⟩
    · simp only [hak, if_false]
      rw [List.map_cons, List.mem_cons] at h
      rcases h with h | h
      · exact absurd h.symm hak
      · exact ih h

/-- a filter SUBSCRIBE accepts is not a shared filter without a topic part -/
theorem isValidFilter_notBare {f : Str} (h : ¬ (!isValidFilter f false) = true) : shareBare f = false := by
  cases hb : shareBare f with
  | false => rfl
  | true =>
    exfalso
    unfold shareBare shareKey at hb
    unfold isValidFilter at h
    cases h0 : isShare (isolate (splitLevels f) 0).1 with
    | false => rw [h0] at hb; cases hb
    | true =>
      rw [h0, Bool.true_and] at hb
      cases h1 : (isolate (splitLevels f) 1).2 with
      | true => rw [h1] at hb; cases hb
      | false =>
        cases h2 : (isolate (splitLevels f) 0).2 <;> cases h3 : levelsOK (splitLevels f) <;>
          cases h4 : f.isEmpty <;> simp [h0, h1, h2, h3, h4] at h

/-! ### the relation -/

structure Own (i : Nat) (s s' : Server) : Prop where
  len : s'.objs.length = s.objs.length
  caps : s'.caps = s.caps
  connOf : s'.connOf = s.connOf
  clients : s'.clients = s.clients
  pending : s'.pending = s.pending
  parked : s'.parked = s.parked
  parkedEarly : s'.parkedEarly = s.parkedEarly
  other : ∀ k, k ≠ i → QC (getObj s k) (getObj s' k)
  id : (getObj s' i).id = (getObj s i).id
  takenOver : (getObj s' i).takenOver = (getObj s i).takenOver
  stop : (getObj s i).stopped = true → (getObj s' i).stopped = true
  os : (getObj s i).isOpen = !(getObj s i).stopped → (getObj s' i).isOpen = !(getObj s' i).stopped
  key : KeyOK (getObj s i) → KeyOK (getObj s' i)
  idx : IdxOK s.topics → IdxOK s'.topics
  /-- entries under other client ids were there before -/
  ent_other : IdxOK s.topics → ∀ c f, c ≠ (getObj s i).id → Entry s'.topics c f → Entry s.topics c f
  /-- an entry under `i`'s id was there before (and is still a key of `subs` if it was one), or is a key now
      (`KeyOK`: no key of `subs` is a shared filter without a topic part, for which `Unsubscribe` does not touch
      the index) -/
  ent_own : IdxOK s.topics → KeyOK (getObj s i) → ∀ f, Entry s'.topics (getObj s i).id f →
    (Entry s.topics (getObj s i).id f ∧ (f ∈ subKeys (getObj s i) → f ∈ subKeys (getObj s' i))) ∨
      f ∈ subKeys (getObj s' i)
  /-- the plain entries of other client ids stay -/
  hp_other : IdxOK s.topics → ∀ c f, c ≠ (getObj s i).id → HasPlain s.topics c f → HasPlain s'.topics c f
  /-- if every plain filter of `subs` had its entry, it still has -/
  hp_own : IdxOK s.topics →
    (∀ f ∈ subKeys (getObj s i), shareKey f = false → HasPlain s.topics (getObj s i).id f) →
    ∀ f ∈ subKeys (getObj s' i), shareKey f = false → HasPlain s'.topics (getObj s i).id f

theorem Quiet.own {s s' : Server} (h : Quiet s s') (i : Nat) : Own i s s' := by
  have hk := h.obj i
  refine ⟨h.len, h.caps, h.connOf, h.clients, h.pending, h.parked, h.parkedEarly, fun k _ => h.obj k, hk.id,
    hk.takenOver, hk.stop, hk.os, ?_, h.idx, ?_, ?_, ?_, ?_⟩
  · intro hko; unfold KeyOK; rw [hk.subs]; exact hko
  · intro _ c f _ he
    exact (Entry.congr h.plain h.shared c f).mp he
  · intro _ _ f he
    refine Or.inl ⟨(Entry.congr h.plain h.shared _ f).mp he, fun hm => ?_⟩
    unfold subKeys; rw [hk.subs]; exact hm
  · intro _ c f _ hp
    exact hp.congr h.plain
  · intro _ hall f hf hs
    have hf' : f ∈ subKeys (getObj s i) := by unfold subKeys at hf ⊢; rw [← hk.subs]; exact hf
    exact (hall f hf' hs).congr h.plain

theorem Own.refl (i : Nat) (s : Server) : Own i s s := (Quiet.refl s).own i

theorem Own.trans {i : Nat} {s s1 s2 : Server} (h : Own i s s1) (g : Own i s1 s2) : Own i s s2 := by
  refine ⟨g.len.trans h.len, g.caps.trans h.caps, g.connOf.trans h.connOf, g.clients.trans h.clients,
    g.pending.trans h.pending, g.parked.trans h.parked, g.parkedEarly.trans h.parkedEarly,
    fun k hk => (h.other k hk).trans (g.other k hk), g.id.trans h.id, g.takenOver.trans h.takenOver,
    fun x => g.stop (h.stop x), fun x => g.os (h.os x), fun x => g.key (h.key x), fun x => g.idx (h.idx x), ?_, ?_,
    ?_, ?_⟩
  rotate_right 2
  · intro hx c f hc hp
    exact g.hp_other (h.idx hx) c f (by rw [h.id]; exact hc) (h.hp_other hx c f hc hp)
  · intro hx hall f hf hs
    have := g.hp_own (h.idx hx) (by rw [h.id]; exact h.hp_own hx hall) f hf hs
    rw [h.id] at this; exact this
  · intro hx c f hc he
    exact h.ent_other hx c f hc (g.ent_other (h.idx hx) c f (by rw [h.id]; exact hc) he)
  · intro hx hko f he
    have he' : Entry s2.topics (getObj s1 i).id f := by rw [h.id]; exact he
    rcases g.ent_own (h.idx hx) (h.key hko) f he' with ⟨e1, k1⟩ | k2
    · rw [h.id] at e1
      rcases h.ent_own hx hko f e1 with ⟨e0, k0⟩ | k1'
      · exact Or.inl ⟨e0, fun x => k1 (k0 x)⟩
      · exact Or.inr (k1 k1')
    · exact Or.inr k2

theorem Own.quiet {i : Nat} {s s1 s2 : Server} (h : Own i s s1) (g : Quiet s1 s2) : Own i s s2 := h.trans (g.own i)

theorem Own.upd8 {i : Nat} {s0 s s' : Server} (h : Own i s0 s) (ho : s'.objs = s.objs := by rfl)
    (hcp : s'.caps = s.caps := by rfl) (hn : s'.connOf = s.connOf := by rfl) (hc : s'.clients = s.clients := by rfl)
    (hp : s'.pending = s.pending := by rfl) (hpk : s'.parked = s.parked := by rfl)
    (hpe : s'.parkedEarly = s.parkedEarly := by rfl) (ht : s'.topics.nodes = s.topics.nodes := by rfl) :
    Own i s0 s' :=
  h.quiet ((Quiet.refl s).upd8 ho hcp hn hc hp hpk hpe ht)

theorem Own.fst_mk {α} {i : Nat} {s0 x : Server} {y : α} (h : Own i s0 x) : Own i s0 (x, y).1 := h

/-! ### one SUBSCRIBE filter, one UNSUBSCRIBE filter -/

/-- object `i` rewritten with new `subs`, the topic index replaced: the frame part of `Own` -/
theorem Own.of_step {i : Nat} {s : Server} (t : Index) (n : Info) (f : Client → Client)
    (hid : ∀ c, (f c).id = c.id) (hto : ∀ c, (f c).takenOver = c.takenOver) (hst : ∀ c, (f c).stopped = c.stopped)
    (hop : ∀ c, (f c).isOpen = c.isOpen) (hkey : ∀ c, KeyOK c → KeyOK (f c))
    (hidx : IdxOK s.topics → IdxOK t)
    (ho : IdxOK s.topics → ∀ c f', c ≠ (getObj s i).id → Entry t c f' → Entry s.topics c f')
    (hw : IdxOK s.topics → KeyOK (getObj s i) → ∀ f', Entry t (getObj s i).id f' →
      (Entry s.topics (getObj s i).id f' ∧
        (f' ∈ subKeys (getObj s i) → f' ∈ subKeys (getObj (modObj { s with topics := t, info := n } i f) i))) ∨
      f' ∈ subKeys (getObj (modObj { s with topics := t, info := n } i f) i))
    (hpo : IdxOK s.topics → ∀ c f', c ≠ (getObj s i).id → HasPlain s.topics c f' → HasPlain t c f')
    (hpw : IdxOK s.topics →
      (∀ f' ∈ subKeys (getObj s i), shareKey f' = false → HasPlain s.topics (getObj s i).id f') →
      ∀ f' ∈ subKeys (getObj (modObj { s with topics := t, info := n } i f) i), shareKey f' = false →
        HasPlain t (getObj s i).id f') :
    Own i s (modObj { s with topics := t, info := n } i f) := by
  have hself : getObj (modObj { s with topics := t, info := n } i f) i = f (getObj s i) ∨
      getObj (modObj { s with topics := t, info := n } i f) i = getObj s i :=
    getObj_setObj_self_cases { s with topics := t, info := n } i (f (getObj s i))
  refine ⟨setObj_length _ i _, rfl, rfl, rfl, rfl, rfl, rfl, fun k hk => ?_, ?_, ?_, ?_, ?_, ?_, hidx, ho, hw, hpo, hpw⟩
  · have : getObj (modObj { s with topics := t, info := n } i f) k = getObj s k :=
      getObj_setObj_ne { s with topics := t, info := n } i k _ hk
    rw [this]; exact QC.refl _
  · rcases hself with e | e <;> rw [e]
    exact hid _
  · rcases hself with e | e <;> rw [e]
    exact hto _
  · rcases hself with e | e <;> rw [e]
    · rw [hst]; exact fun x => x
    · exact fun x => x
  · rcases hself with e | e <;> rw [e]
    · rw [hst, hop]; exact fun x => x
    · exact fun x => x
  · rcases hself with e | e <;> rw [e]
    · exact hkey _
    · exact fun x => x

theorem subscribeStep_own (s : Server) (i : Nat) (hi : i < s.objs.length) (sub : Sub) (n : Info)
    (hnb : shareBare sub.filter = false) :
    Own i s (modObj { s with topics := (subscribe s.topics (getObj s i).id sub).1, info := n } i
      (fun c => { c with subs := assocSet c.subs sub.filter sub })) := by
  have hself : getObj (modObj { s with topics := (subscribe s.topics (getObj s i).id sub).1, info := n } i
      (fun c => { c with subs := assocSet c.subs sub.filter sub })) i =
      { getObj s i with subs := assocSet (getObj s i).subs sub.filter sub } :=
    getObj_setObj_eq { s with topics := (subscribe s.topics (getObj s i).id sub).1, info := n } i _ hi
  refine Own.of_step _ _ _ (fun _ => rfl) (fun _ => rfl) (fun _ => rfl) (fun _ => rfl) ?_
    (fun hx => idxOK_subscribe _ hx _ _) ?_ ?_ ?_ ?_
  rotate_right 2
  · intro _ c f' _ hp
    exact hp.subscribe_keep _ _
  · intro _ hall f' hf' hs'
    rw [hself] at hf'
    obtain ⟨fs, hfs, hfk⟩ := List.mem_map.mp hf'
    rcases mem_assocSet _ _ _ _ hfs with h | h
    · exact (hall f' (List.mem_map.mpr ⟨fs, h, hfk⟩) hs').subscribe_keep _ _
    · rw [h] at hfk
      have hfk : sub.filter = f' := hfk
      rw [← hfk] at hs' ⊢
      exact HasPlain.subscribe_self _ _ _ hs'
  · intro c hc fs hfs
    rcases mem_assocSet _ _ _ _ hfs with h | h
    · exact hc fs h
    · rw [h]; exact ⟨rfl, hnb⟩
  · intro _ c f' hc he
    rcases Entry.of_subscribe he with h | ⟨h, _⟩
    · exact h
    · exact absurd h hc
  · intro _ _ f' he
    rw [hself]
    rcases Entry.of_subscribe he with h | ⟨_, h⟩
    · exact Or.inl ⟨h, fun hm => mem_keys_assocSet_of_mem _ _ _ _ hm⟩
    · right
      rw [h]
      exact mem_keys_assocSet_self _ _ _

theorem unsubscribeStep_own (s : Server) (i : Nat) (f : Str) (n : Info) :
    Own i s (modObj { s with topics := (unsubscribe s.topics f (getObj s i).id).1, info := n } i
      (fun c => { c with subs := assocDel c.subs f })) := by
  have hself : getObj (modObj { s with topics := (unsubscribe s.topics f (getObj s i).id).1, info := n } i
      (fun c => { c with subs := assocDel c.subs f })) i = { getObj s i with subs := assocDel (getObj s i).subs f } ∨
      getObj (modObj { s with topics := (unsubscribe s.topics f (getObj s i).id).1, info := n } i
      (fun c => { c with subs := assocDel c.subs f })) i = getObj s i :=
    getObj_setObj_self_cases { s with topics := (unsubscribe s.topics f (getObj s i).id).1, info := n } i _
  refine Own.of_step _ _ _ (fun _ => rfl) (fun _ => rfl) (fun _ => rfl) (fun _ => rfl) ?_
    (fun hx => idxOK_unsubscribe _ hx _ _) ?_ ?_ ?_ ?_
  rotate_right 2
  · intro hx c f' hc hp
    exact hp.unsubscribe_keep hx.pc _ _ (Or.inl hc)
  · intro hx hall f' hf' hs'
    rcases hself with e | e
    · rw [e] at hf'
      obtain ⟨fs, hfs, hfk⟩ := List.mem_map.mp hf'
      have hfs' : fs ∈ assocDel (getObj s i).subs f := hfs
      have hne : f' ≠ f := by
        have := (List.mem_filter.mp hfs').2
        simp only [ne_eq, decide_eq_true_eq] at this
        rw [← hfk]; exact this
      exact (hall f' (List.mem_map.mpr ⟨fs, mem_of_mem_assocDel _ _ _ hfs', hfk⟩) hs').unsubscribe_keep hx.pc _ _
        (Or.inr hne)
    · rw [e] at hf'
      -- out of range: nothing is stored for `i`, `subs` is the default empty list
      by_cases hi : i < s.objs.length
      · have := getObj_setObj_eq { s with topics := (unsubscribe s.topics f (getObj s i).id).1, info := n } i
          { getObj s i with subs := assocDel (getObj s i).subs f } hi
        have e' : getObj (modObj { s with topics := (unsubscribe s.topics f (getObj s i).id).1, info := n } i
            (fun c => { c with subs := assocDel c.subs f })) i =
            { getObj s i with subs := assocDel (getObj s i).subs f } := this
        rw [e'] at e
        have hsub : assocDel (getObj s i).subs f = (getObj s i).subs := congrArg Client.subs e
        obtain ⟨fs, hfs, hfk⟩ := List.mem_map.mp hf'
        rw [← hsub] at hfs
        have hne : f' ≠ f := by
          have := (List.mem_filter.mp hfs).2
          simp only [ne_eq, decide_eq_true_eq] at this
          rw [← hfk]; exact this
        exact (hall f' hf' hs').unsubscribe_keep hx.pc _ _ (Or.inr hne)
      · have hd : getObj s i = {} := by
          simp only [getObj, List.getD_eq_getElem?_getD]
          rw [List.getElem?_eq_none (by omega)]; rfl
        rw [hd] at hf'
        cases hf'
  · intro c hc fs hfs
    exact hc fs (mem_of_mem_assocDel _ _ _ hfs)
  · intro hx c f' _ he
    exact (Entry.of_unsubscribe hx he).1
  · intro hx hko f' he
    obtain ⟨h1, h2⟩ := Entry.of_unsubscribe hx he
    refine Or.inl ⟨h1, fun hm => ?_⟩
    have hne : f' ≠ f := fun e => h2 ⟨rfl, e, e ▸ hko.notBare hm⟩
    rcases hself with e | e
    · rw [e]
      exact mem_keys_assocDel _ _ _ hm hne
    · rw [e]
      exact hm

/-! ### the three handlers -/

theorem processSubscribe_own (s : Server) (i : Nat) (hi : i < s.objs.length) (id subId : Nat) (filters : List Sub) :
    Own i s (processSubscribe s i id subId filters).1 := by
  unfold processSubscribe
  extract_lets +onlyGivenNames c inUse fin r
  have hr : Own i s r.1 := by
    refine foldl_inv (fun (acc : Server × List Nat × List Bool) => Own i s acc.1) _ _ _ (Own.refl i s) ?_
    intro acc sub h
    split
    rename_i s' rcs exs
    extract_lets +onlyGivenNames sub'
    split
    · exact h
    · split
      · exact h
      · split
        · exact h
        · split
          · exact h
          · rename_i _ hvalid _ _
            extract_lets +onlyGivenNames rr src s1 s2
            show Own i s s2
            have hcid : c.id = (getObj s' i).id := h.id.symm
            have hi' : i < s'.objs.length := by rw [h.len]; exact hi
            have key : ∀ n, Own i s' (modObj { s' with topics := (subscribe s'.topics c.id sub').1, info := n } i
                (fun c => { c with subs := assocSet c.subs sub'.filter sub' })) := by
              intro n
              have := subscribeStep_own s' i hi' sub' n (isValidFilter_notBare hvalid)
              rw [← hcid] at this
              exact this
            exact h.trans (key _)
  generalize r = r' at hr
  split
  rename_i s' rcs exs
  extract_lets +onlyGivenNames c'
  split
  · exact hr
  · extract_lets +onlyGivenNames o1 z
    show Own i s z.1
    refine foldl_inv (fun (acc : Server × List Out) => Own i s acc.1) _ _ _ hr ?_
    intro acc xk h
    extract_lets +onlyGivenNames x
    split
    · exact h
    · extract_lets +onlyGivenNames src sub'
      split
      rename_i s2 o heq
      have := publishRetainedToClient_quiet acc.1 i sub' x.2.2 xk.2
      rw [heq] at this
      exact h.quiet this

theorem processUnsubscribe_own (s : Server) (i id : Nat) (filters : List Str) :
    Own i s (processUnsubscribe s i id filters).1 := by
  unfold processUnsubscribe
  extract_lets +onlyGivenNames c inUse r
  have hr : Own i s r.1 := by
    refine foldl_inv (fun (acc : Server × List Nat) => Own i s acc.1) _ _ _ (Own.refl i s) ?_
    intro acc f h
    split
    rename_i s' rcs
    split
    · exact h
    · extract_lets rr src s1 s2
      show Own i s s2
      have hcid : c.id = (getObj s' i).id := h.id.symm
      have key : ∀ n, Own i s' (modObj { s' with topics := (unsubscribe s'.topics f c.id).1, info := n } i
          (fun c => { c with subs := assocDel c.subs f })) := by
        intro n
        have := unsubscribeStep_own s' i f n
        rw [← hcid] at this
        exact this
      exact h.trans (key _)
  generalize r = r' at hr
  split
  rename_i s' rcs
  extract_lets c'
  split <;> exact hr

/-- the loop of `UnsubscribeClient`: only the topic index and the counters change; what is left in the index was
    there before and is not one of the unsubscribed filters of that client -/
theorem unsubFold_spec (cid : Str) (l : List (Str × Sub)) (b : Server) :
    (∃ t n, l.foldl (fun s (fs : Str × Sub) =>
        let r := unsubscribe s.topics fs.1 cid
        { s with topics := r.1, info := if r.2 then { s.info with subs := s.info.subs - 1 } else s.info }) b =
        { b with topics := t, info := n } ∧
      (IdxOK b.topics → IdxOK t ∧
        (∀ c f, Entry t c f → Entry b.topics c f ∧ ¬ (c = cid ∧ f ∈ l.map (·.1) ∧ shareBare f = false)) ∧
        ∀ c f, c ≠ cid → HasPlain b.topics c f → HasPlain t c f)) := by
  induction l generalizing b with
  | nil =>
    exact ⟨b.topics, b.info, rfl, fun hx => ⟨hx, fun c f he => ⟨he, fun h => by cases h.2.1⟩, fun _ _ _ hp => hp⟩⟩
  | cons fs rest ih =>
    rw [List.foldl_cons]
    obtain ⟨t, n, he, hsp⟩ := ih
      { b with topics := (unsubscribe b.topics fs.1 cid).1,
               info := if (unsubscribe b.topics fs.1 cid).2 then { b.info with subs := b.info.subs - 1 } else b.info }
    refine ⟨t, n, he, fun hx => ?_⟩
    obtain ⟨hx', hent, hpl⟩ := hsp (idxOK_unsubscribe _ hx _ _)
    refine ⟨hx', fun c f hcf => ?_, fun c f hc hp => hpl c f hc (hp.unsubscribe_keep hx.pc _ _ (Or.inl hc))⟩
    obtain ⟨h1, h2⟩ := hent c f hcf
    obtain ⟨h3, h4⟩ := Entry.of_unsubscribe hx h1
    refine ⟨h3, ?_⟩
    rintro ⟨rfl, hm, hb⟩
    rw [List.map_cons, List.mem_cons] at hm
    rcases hm with hm | hm
    · exact h4 ⟨rfl, hm, hm ▸ hb⟩
    · exact h2 ⟨rfl, hm, hb⟩

/-- `UnsubscribeClient` of a session that was not taken over -/
theorem unsubscribeClient_own (s : Server) (i : Nat) (hto : (getObj s i).takenOver = false) :
    Own i s (unsubscribeClient s i) := by
  unfold unsubscribeClient
  extract_lets +onlyGivenNames c s1
  have hto' : c.takenOver = false := hto
  simp only [hto', Bool.false_eq_true, if_false]
  obtain ⟨t, n, he, hsp⟩ := unsubFold_spec c.id c.subs s1
  rw [he]
  show Own i s (modObj { s with topics := t, info := n } i (fun c => { c with subs := [] }))
  have hself : getObj (modObj { s with topics := t, info := n } i (fun c => { c with subs := [] })) i =
      { getObj s i with subs := [] } ∨
      getObj (modObj { s with topics := t, info := n } i (fun c => { c with subs := [] })) i = getObj s i :=
    getObj_setObj_self_cases { s with topics := t, info := n } i _
  refine Own.of_step _ _ _ (fun _ => rfl) (fun _ => rfl) (fun _ => rfl) (fun _ => rfl) ?_ (fun hx => (hsp hx).1) ?_ ?_
    ?_ ?_
  · intro _ _ fs hfs
    cases hfs
  · intro hx c' f _ hcf
    exact ((hsp hx).2.1 c' f hcf).1
  · intro hx hko f hcf
    obtain ⟨h1, h2⟩ := (hsp hx).2.1 _ f hcf
    exact Or.inl ⟨h1, fun hm => absurd ⟨rfl, hm, hko.notBare hm⟩ h2⟩
  · intro hx c' f hc hp
    exact (hsp hx).2.2 c' f hc hp
  · intro hx _ f hf _
    rcases hself with e | e
    · rw [e] at hf; cases hf
    · rw [e] at hf
      -- out of range: `subs` is the default empty list
      by_cases hi : i < s.objs.length
      · have e' : getObj (modObj { s with topics := t, info := n } i (fun c => { c with subs := [] })) i =
            { getObj s i with subs := [] } := getObj_setObj_eq { s with topics := t, info := n } i _ hi
        rw [e'] at e
        have hsub : [] = (getObj s i).subs := congrArg Client.subs e
        unfold subKeys at hf
        rw [← hsub] at hf
        cases hf
      · have hd : getObj s i = {} := by
          simp only [getObj, List.getD_eq_getElem?_getD]
          rw [List.getElem?_eq_none (by omega)]; rfl
        rw [hd] at hf
        cases hf

/-! ### one inbound packet -/

theorem receivePacket_own (s : Server) (i : Nat) (hi : i < s.objs.length) (pk : InPk) :
    Own i s (receivePacket s i pk).1 := by
  unfold receivePacket
  extract_lets +onlyGivenNames c r
  have hr : Own i s r.1 := by
    simp only [r]
    split
    · split
      · exact Own.refl i s
      · exact (processPublish_quiet ..).own i
    · split
      · exact Own.refl i s
      · exact processSubscribe_own s i hi ..
    · split
      · exact Own.refl i s
      · exact processUnsubscribe_own ..
    · exact (processPuback_quiet ..).own i
    · exact (processPubrec_quiet ..).own i
    · exact (processPubrel_quiet ..).own i
    · exact (processPubcomp_quiet ..).own i
    · split <;> exact Own.refl i s
    · exact (processDisconnect_quiet ..).own i
  generalize r = r' at hr
  split
  · rename_i s1 o
    split
    rename_i s2 o2 heq
    have := nextImmediate_quiet s1 i
    rw [heq] at this
    exact hr.quiet this
  · rename_i s1 o code
    split
    · split
      rename_i s2 o2 heq
      have := disconnectClient_quiet s1 i code
      rw [heq] at this
      exact hr.quiet this
    · exact hr

/-- SUBSCRIBE and UNSUBSCRIBE are the only packets that touch subscriptions -/
def InPk.isSub : InPk → Bool
  | .subscribe .. => true
  | .unsubscribe .. => true
  | _ => false

theorem receivePacket_quiet (s : Server) (i : Nat) (pk : InPk) (hpk : pk.isSub = false) :
    Quiet s (receivePacket s i pk).1 := by
  unfold receivePacket
  extract_lets +onlyGivenNames c r
  have hr : Quiet s r.1 := by
    simp only [r]
    split
    · split
      · exact Quiet.refl s
      · exact processPublish_quiet ..
    · cases hpk
    · cases hpk
    · exact processPuback_quiet ..
    · exact processPubrec_quiet ..
    · exact processPubrel_quiet ..
    · exact processPubcomp_quiet ..
    · split <;> exact Quiet.refl s
    · exact processDisconnect_quiet ..
  generalize r = r' at hr
  split
  · rename_i s1 o
    split
    rename_i s2 o2 heq
    have := nextImmediate_quiet s1 i
    rw [heq] at this
    exact hr.trans this
  · rename_i s1 o code
    split
    · split
      rename_i s2 o2 heq
      have := disconnectClient_quiet s1 i code
      rw [heq] at this
      exact hr.trans this
    · exact hr

end Mochi.Broker
