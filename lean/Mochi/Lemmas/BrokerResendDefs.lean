import Mochi.Lemmas.BrokerSurvive
/-!
# C09 — what a resumption resends: the relations

`XK k a b` — client object `b` has EXACTLY the record `a` has under packet identifier `k` (if `a` has one), and the same
connection, protocol version and liveness (`isOpen`, `peerGone`, `inline`): what decides what `ResendInflightMessages`
writes for that record.  `SurvX k s s'`: all objects; `SurvXW j k s s'`: all objects except the acting one `j`.
-/
namespace Mochi.Broker
open Mochi.Topics

structure XK (k : Nat) (a b : Client) : Prop where
  keep : ∀ m, flGet a k = some m → flGet b k = some m
  isOpen : b.isOpen = a.isOpen
  peerGone : b.peerGone = a.peerGone
  inline : b.inline = a.inline
  conn : b.conn = a.conn
  ver : b.ver = a.ver

/-- closes `XK k a b` when `b` is `a` with fields other than `inflight` and the five liveness fields rewritten -/
macro "xk_rfl" : tactic => `(tactic| exact ⟨fun _ h => h, rfl, rfl, rfl, rfl, rfl⟩)

theorem XK.refl (k : Nat) (a : Client) : XK k a a := by xk_rfl
theorem XK.trans {k : Nat} {a b c : Client} (h : XK k a b) (g : XK k b c) : XK k a c :=
  ⟨fun m r => g.keep m (h.keep m r), g.isOpen.trans h.isOpen, g.peerGone.trans h.peerGone, g.inline.trans h.inline,
   g.conn.trans h.conn, g.ver.trans h.ver⟩
theorem XK.of_eq {k : Nat} {a b : Client} (h : a = b) : XK k a b := h ▸ XK.refl k a

/-- the same except in the five delivery fields, the in-flight list kept -/
theorem XK.of_sess {k : Nat} {a b : Client} (h : SessEq a b) (hi : b.inflight = a.inflight) : XK k a b :=
  ⟨fun m r => by unfold flGet at r ⊢; rw [hi]; exact r, h.isOpen.symm, h.peerGone.symm, h.inline.symm, h.conn.symm,
   h.ver.symm⟩

/-- the same except in the five delivery fields, the record under `k` kept -/
theorem XK.of_sess_keep {k : Nat} {a b : Client} (h : SessEq a b) (hk : ∀ m, flGet a k = some m → flGet b k = some m) :
    XK k a b :=
  ⟨hk, h.isOpen.symm, h.peerGone.symm, h.inline.symm, h.conn.symm, h.ver.symm⟩

theorem XK.flSet_ne' (k : Nat) (c : Client) (m : Msg) (h : m.id ≠ k) : XK k c (flSet c m).1 :=
  XK.of_sess_keep (SessEq.flSet c m) (fun m0 r => by rw [flGet_flSet_ne c m k h]; exact r)

theorem XK.flDelete_ne' (k : Nat) (c : Client) (id : Nat) (h : id ≠ k) : XK k c (flDelete c id).1 :=
  ⟨fun m0 r => by rw [flGet_flDelete_ne c id k h]; exact r, rfl, rfl, rfl, rfl, rfl⟩

theorem XK.decSend' (k : Nat) (c : Client) : XK k c (decSend c) := by
  unfold Mochi.Broker.decSend; split <;> xk_rfl
theorem XK.aliasOutSet' (k : Nat) (c : Client) (t : Str) : XK k c (aliasOutSet c t).1 := by
  unfold Mochi.Broker.aliasOutSet
  split
  · xk_rfl
  · split
    · xk_rfl
    · split <;> xk_rfl

theorem XK.decSend {k : Nat} {a b : Client} (h : XK k a b) : XK k a (decSend b) := h.trans (XK.decSend' k b)
theorem XK.flSet_ne {k : Nat} {a b : Client} (h : XK k a b) (m : Msg) (hm : m.id ≠ k) : XK k a (flSet b m).1 :=
  h.trans (XK.flSet_ne' k b m hm)
theorem XK.flDelete_ne {k : Nat} {a b : Client} (h : XK k a b) (id : Nat) (hm : id ≠ k) :
    XK k a (flDelete b id).1 := h.trans (XK.flDelete_ne' k b id hm)

/-- a condition on the identifier that only has to hold when `a` has a record under `k` at all -/
theorem XK.flSet_if {k : Nat} {a b : Client} (h : XK k a b) (m : Msg) (hm : ∀ m0, flGet a k = some m0 → m.id ≠ k) :
    XK k a (flSet b m).1 := by
  have hs := SessEq.flSet b m
  exact ⟨fun m0 r => ((h.flSet_ne m (hm m0 r)).keep m0 r), hs.isOpen.symm.trans h.isOpen,
    hs.peerGone.symm.trans h.peerGone, hs.inline.symm.trans h.inline, hs.conn.symm.trans h.conn,
    hs.ver.symm.trans h.ver⟩

theorem flGet_ne_of_none {c : Client} {k id : Nat} {m : Msg} (r : flGet c k = some m) (h : flGet c id = none) :
    id ≠ k := by
  rintro rfl
  rw [h] at r; cases r

theorem XK.get_set {k : Nat} {s : Server} {i : Nat} {c d : Client} (h1 : XK k (getObj s i) c) (h2 : XK k c d) :
    XK k (getObj (setObj s i c) i) d := by
  rcases getObj_setObj_self_cases s i c with e | e
  · rw [e]; exact h2
  · rw [e]; exact h1.trans h2

/-! ### server level -/

def SurvX (k : Nat) (s s' : Server) : Prop := ∀ x, XK k (getObj s x) (getObj s' x)

/-- work done for object `j`: every OTHER object keeps the record under `k` exactly, and its liveness -/
def SurvXW (j k : Nat) (s s' : Server) : Prop := ∀ x, x ≠ j → XK k (getObj s x) (getObj s' x)

theorem SurvX.refl (k : Nat) (s : Server) : SurvX k s s := fun _ => XK.refl k _
theorem SurvX.trans {k : Nat} {s s1 s2 : Server} (h : SurvX k s s1) (g : SurvX k s1 s2) : SurvX k s s2 :=
  fun x => (h x).trans (g x)
theorem SurvX.upd {k : Nat} {s0 s s' : Server} (h : SurvX k s0 s) (ho : s'.objs = s.objs) : SurvX k s0 s' :=
  fun x => by rw [getObj_of_objs_eq ho x]; exact h x
/-- writing an object related to what was there at the START -/
theorem SurvX.set {k : Nat} {s0 s : Server} (h : SurvX k s0 s) (i : Nat) (c : Client) (hc : XK k (getObj s0 i) c) :
    SurvX k s0 (setObj s i c) := by
  intro x
  by_cases hx : x = i
  · subst hx
    rcases getObj_setObj_self_cases s x c with e | e <;> rw [e]
    · exact hc
    · exact h x
  · rw [getObj_setObj_ne s i x c hx]; exact h x

theorem SurvXW.refl (j k : Nat) (s : Server) : SurvXW j k s s := fun _ _ => XK.refl k _
theorem SurvXW.trans {j k : Nat} {s s1 s2 : Server} (h : SurvXW j k s s1) (g : SurvXW j k s1 s2) :
    SurvXW j k s s2 := fun x hx => (h x hx).trans (g x hx)
theorem SurvX.w {k : Nat} {s s' : Server} (h : SurvX k s s') (j : Nat) : SurvXW j k s s' := fun x _ => h x
theorem SurvXW.survx {j k : Nat} {s0 s s' : Server} (h : SurvXW j k s0 s) (g : SurvX k s s') :
    SurvXW j k s0 s' := h.trans (g.w j)
theorem SurvXW.upd {j k : Nat} {s0 s s' : Server} (h : SurvXW j k s0 s) (ho : s'.objs = s.objs) :
    SurvXW j k s0 s' := fun x hx => by rw [getObj_of_objs_eq ho x]; exact h x hx
/-- the acting object is rewritten -/
theorem SurvXW.set {j k : Nat} {s0 s : Server} (h : SurvXW j k s0 s) (c : Client) : SurvXW j k s0 (setObj s j c) := by
  intro x hx
  rw [getObj_setObj_ne s j x c hx]; exact h x hx
theorem SurvXW.mod {j k : Nat} {s0 s : Server} (h : SurvXW j k s0 s) (f : Client → Client) :
    SurvXW j k s0 (modObj s j f) := h.set _
theorem SurvXW.fst_mk {α} {j k : Nat} {s0 x : Server} {y : α} (h : SurvXW j k s0 x) : SurvXW j k s0 (x, y).1 := h

end Mochi.Broker
