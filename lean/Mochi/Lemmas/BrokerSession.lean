import Mochi.Lemmas.BrokerConnect
import Mochi.Lemmas.BrokerDelivery
import Mochi.Lemmas.BrokerResend
import Mochi.Lemmas.BrokerCounters
/-!
# The session a CONNECT finds, registers and inherits (C14, C13, C35)

`sp14_admitA_none` / `sp14_admitA_clean` / `sp14_admitA_resume`: what `admitA` (`attachClient` from admission up to and
including `Clients.Add`: `inheritClientSession`) does, exactly, in its three cases — no session under the id; a session
that is discarded (Clean Start, or an MQTT 3 clean session); a session that is resumed.  In all three the Clients map
afterwards is `assocSet clients k.id i`, and session-present is `sessionExisted && !clean`.
-/
namespace Mochi.Broker
open Mochi.Topics

/-- what `inheritClientSession` answers: a session is registered under the id, it is not an MQTT 3 clean session,
    and the CONNECT does not ask for Clean Start -/
def sp14_present (s : Server) (k : Connect) : Bool :=
  match assocGet s.clients k.id with
  | some e => !(k.clean || ((getObj s e).clean && decide ((getObj s e).ver < 5)))
  | none => false

theorem sp14_present_eq (s : Server) (k : Connect) : sp14_present s k = (sessionExisted s k.id && !k.clean) := by
  unfold sp14_present sessionExisted
  cases assocGet s.clients k.id with
  | none => rfl
  | some e =>
    show (!(k.clean || ((getObj s e).clean && decide ((getObj s e).ver < 5)))) =
      (!((getObj s e).clean && decide ((getObj s e).ver < 5)) && !k.clean)
    cases k.clean <;> cases ((getObj s e).clean && decide ((getObj s e).ver < 5)) <;> rfl

theorem sp14_stopClient_clients (s : Server) (e : Nat) : (stopClient s e).1.clients = s.clients := by
  unfold stopClient
  extract_lets +onlyGivenNames c
  split <;> rfl

theorem sp14_stopClient_caps (s : Server) (e : Nat) : (stopClient s e).1.caps = s.caps := by
  unfold stopClient
  extract_lets +onlyGivenNames c
  split <;> rfl

theorem sp14_stopClient_ne (s : Server) (e x : Nat) (h : x ≠ e) : getObj (stopClient s e).1 x = getObj s x := by
  unfold stopClient
  extract_lets +onlyGivenNames c
  split
  · rfl
  · exact getObj_setObj_ne s e x _ h

theorem sp14_unsubscribeClient_ne (s : Server) (e x : Nat) (h : x ≠ e) :
    getObj (unsubscribeClient s e) x = getObj s x := by
  rw [getObj_of_objs_eq (unsubscribeClient_objs s e) x, getObj_setObj_ne s e x _ h]

/-- the subscriptions a resumed session re-creates on the new object: `Subscribe` for every entry of the old
    object's map, in order -/
def sp14_inheritSubs (old : List (Str × Sub)) (init : List (Str × Sub)) : List (Str × Sub) :=
  old.foldl (fun m (fs : Str × Sub) => assocSet m fs.2.filter fs.2) init

/-- no session under the client id: the counter, the registration, nothing else -/
theorem sp14_admitA_none (t : Server) (i : Nat) (k : Connect) (he : assocGet t.clients k.id = none) :
    (admitA t i k).2.2.1 = false ∧ (admitA t i k).1.clients = assocSet t.clients k.id i ∧
    (admitA t i k).1.caps = t.caps ∧ (∀ x, getObj (admitA t i k).1 x = getObj t x) := by
  unfold admitA
  extract_lets +onlyGivenNames src s0 exLive
  split
  rename_i s' o1 present heq
  have he0 : assocGet s0.clients k.id = none := he
  split at heq
  · rename_i e' he'
    rw [he0] at he'
    cases he'
  · cases heq
    exact ⟨rfl, rfl, rfl, fun _ => rfl⟩

/-- a session under the client id that is discarded (Clean Start, or it is an MQTT 3 clean session): session present
    is false, every object other than the old one is untouched -/
theorem sp14_admitA_clean (t : Server) (i : Nat) (k : Connect) (e : Nat) (he : assocGet t.clients k.id = some e)
    (hc : (k.clean || ((getObj t e).clean && decide ((getObj t e).ver < 5))) = true) :
    (admitA t i k).2.2.1 = false ∧ (admitA t i k).1.clients = assocSet t.clients k.id i ∧
    (admitA t i k).1.caps = t.caps ∧ (∀ x, x ≠ e → getObj (admitA t i k).1 x = getObj t x) := by
  unfold admitA
  extract_lets +onlyGivenNames src s0 exLive
  split
  rename_i s' o1 present heq
  show present = false ∧ assocSet s'.clients k.id i = assocSet t.clients k.id i ∧ s'.caps = t.caps ∧
    (∀ x, x ≠ e → getObj s' x = getObj t x)
  have he0 : assocGet s0.clients k.id = some e := he
  split at heq
  · rename_i e' he'
    rw [he0] at he'; cases he'
    extract_lets +onlyGivenNames ex at heq
    split at heq
    rename_i s1 o hd
    have e1 : s1 = (stopClient s0 e).1 := by
      have : (disconnectClient s0 e 0x8E).1 = s1 := by rw [hd]
      rw [← this]; rfl
    split at heq
    · extract_lets +onlyGivenNames s2 s3 at heq
      cases heq
      have c1 : s1.clients = t.clients := by rw [e1]; exact sp14_stopClient_clients s0 e
      have c2 : s2.clients = t.clients := (unsubscribeClient_clients_sv s1 e).trans c1
      have p1 : s1.caps = t.caps := by rw [e1]; exact sp14_stopClient_caps s0 e
      have p2 : s2.caps = t.caps := (unsubscribeClient_caps s1 e).trans p1
      refine ⟨rfl, ?_, p2, fun x hx => ?_⟩
      · show assocSet s2.clients k.id i = _
        rw [c2]
      · show getObj (modObj s3 e _) x = _
        rw [getObj_modObj_ne s3 e x _ hx]
        show getObj (clearInflights s2 e) x = _
        rw [clearInflights_getObj_ne_x s2 e x hx, sp14_unsubscribeClient_ne s1 e x hx, e1,
          sp14_stopClient_ne s0 e x hx]
        rfl
    · rename_i hno
      exact absurd hc hno
  · rename_i hnone
    rw [he0] at hnone; cases hnone

/-- a session under the client id that is resumed: session present; the new object `i` gets the old object's
    in-flight records (when there are any) and re-subscribes to the old object's subscriptions -/
theorem sp14_admitA_resume (t : Server) (i : Nat) (k : Connect) (e : Nat) (he : assocGet t.clients k.id = some e)
    (hc : (k.clean || ((getObj t e).clean && decide ((getObj t e).ver < 5))) = false)
    (hne : i ≠ e) (hi : i < t.objs.length) :
    (admitA t i k).2.2.1 = true ∧ (admitA t i k).1.clients = assocSet t.clients k.id i ∧
    (admitA t i k).1.caps = t.caps ∧
    LiveEq (getObj t i) (getObj (admitA t i k).1 i) ∧
    (getObj (admitA t i k).1 i).inflight =
      (if (getObj t e).inflight.length > 0 then (getObj t e).inflight else (getObj t i).inflight) ∧
    (getObj (admitA t i k).1 i).subs = sp14_inheritSubs (getObj t e).subs (getObj t i).subs := by
  unfold admitA
  extract_lets +onlyGivenNames src s0 exLive
  split
  rename_i s' o1 present heq
  show present = true ∧ assocSet s'.clients k.id i = assocSet t.clients k.id i ∧ s'.caps = t.caps ∧
    LiveEq (getObj t i) (getObj s' i) ∧
    (getObj s' i).inflight = (if (getObj t e).inflight.length > 0 then (getObj t e).inflight else (getObj t i).inflight) ∧
    (getObj s' i).subs = sp14_inheritSubs (getObj t e).subs (getObj t i).subs
  have he0 : assocGet s0.clients k.id = some e := he
  split at heq
  · rename_i e' he'
    rw [he0] at he'; cases he'
    extract_lets +onlyGivenNames ex at heq
    split at heq
    rename_i s1 o hd
    have e1 : s1 = (stopClient s0 e).1 := by
      have : (disconnectClient s0 e 0x8E).1 = s1 := by rw [hd]
      rw [← this]; rfl
    split at heq
    · rename_i hyes
      have hyes : (k.clean || ((getObj t e).clean && decide ((getObj t e).ver < 5))) = true := hyes
      rw [hc] at hyes; cases hyes
    · extract_lets +onlyGivenNames s2 ex2 rmx s2i src2 s3 s4 s5 s6 at heq
      have hs' := (Prod.mk.inj heq).1
      have hp' := (Prod.mk.inj (Prod.mk.inj heq).2).2
      refine ⟨hp'.symm, ?_⟩
      rw [← hs']
      have hl1 : s1.objs.length = t.objs.length := by rw [e1]; exact (stopClient_frame s0 e).len
      have hl2 : s2.objs.length = t.objs.length := (setObj_length s1 e _).trans hl1
      have g1 : getObj s1 i = getObj t i := by rw [e1, sp14_stopClient_ne s0 e i hne]; rfl
      have g2 : getObj s2 i = getObj t i := by
        show getObj (modObj s1 e _) i = _
        rw [getObj_modObj_ne s1 e i _ hne, g1]
      have c1 : s1.clients = t.clients := by rw [e1]; exact sp14_stopClient_clients s0 e
      have p1 : s1.caps = t.caps := by rw [e1]; exact sp14_stopClient_caps s0 e
      have ex2i : ex2.inflight = (getObj t e).inflight := by
        have hi1 := stopClient_inflight_x s0 e e
        rw [← e1] at hi1
        show (getObj (setObj s1 e _) e).inflight = _
        rcases getObj_setObj_self_cases s1 e ((fun x => { x with takenOver := true }) (getObj s1 e)) with h | h
        · rw [h]; exact hi1
        · rw [h]; exact hi1
      have ex2s : ex2.subs = (getObj t e).subs := by
        have hq : (getObj s1 e).subs = (getObj t e).subs := by
          rw [e1]
          have := ((stopClient_quiet s0 e).obj e).subs
          exact this
        show (getObj (setObj s1 e _) e).subs = _
        rcases getObj_setObj_self_cases s1 e ((fun x => { x with takenOver := true }) (getObj s1 e)) with h | h
        · rw [h]; exact hq
        · rw [h]; exact hq
      -- the invariant of the rest of the walk, for object `i`
      have inv3 : s3.clients = t.clients ∧ s3.caps = t.caps ∧ LiveEq (getObj t i) (getObj s3 i) ∧
          (getObj s3 i).inflight = (if ex2.inflight.length > 0 then ex2.inflight else (getObj t i).inflight) ∧
          (getObj s3 i).subs = (getObj t i).subs := by
        by_cases hpos : ex2.inflight.length > 0
        · have hs3 : s3 = { s2i with info := { s2i.info with inflight := s2i.info.inflight + ex2.inflight.length } } :=
            if_pos hpos
          have en : getObj s2i i = _ := getObj_setObj_eq s2 i _ (by rw [hl2]; exact hi)
          have en3 : getObj s3 i = getObj s2i i := by rw [hs3]; rfl
          rw [if_pos hpos, en3, en, g2]
          exact ⟨by rw [hs3]; exact c1, by rw [hs3]; exact p1, ⟨rfl, rfl, rfl, rfl, rfl⟩, rfl, rfl⟩
        · have hs3 : s3 = s2 := if_neg hpos
          rw [if_neg hpos, hs3, g2]
          exact ⟨c1, p1, LiveEq.refl _, rfl, rfl⟩
      have inv4 : ∀ (l : List (Str × Sub)) (b : Server), b.clients = t.clients → b.caps = t.caps → i < b.objs.length →
          (l.foldl (fun s (fs : Str × Sub) =>
            let rr := subscribe s.topics k.id fs.2
            let s := { s with topics := rr.1, info := if rr.2 then { s.info with subs := s.info.subs + 1 } else s.info }
            modObj s i (fun x => { x with subs := assocSet x.subs fs.2.filter fs.2 })) b).clients = t.clients ∧
          (l.foldl (fun s (fs : Str × Sub) =>
            let rr := subscribe s.topics k.id fs.2
            let s := { s with topics := rr.1, info := if rr.2 then { s.info with subs := s.info.subs + 1 } else s.info }
            modObj s i (fun x => { x with subs := assocSet x.subs fs.2.filter fs.2 })) b).caps = t.caps ∧
          LiveEq (getObj b i) (getObj (l.foldl (fun s (fs : Str × Sub) =>
            let rr := subscribe s.topics k.id fs.2
            let s := { s with topics := rr.1, info := if rr.2 then { s.info with subs := s.info.subs + 1 } else s.info }
            modObj s i (fun x => { x with subs := assocSet x.subs fs.2.filter fs.2 })) b) i) ∧
          (getObj (l.foldl (fun s (fs : Str × Sub) =>
            let rr := subscribe s.topics k.id fs.2
            let s := { s with topics := rr.1, info := if rr.2 then { s.info with subs := s.info.subs + 1 } else s.info }
            modObj s i (fun x => { x with subs := assocSet x.subs fs.2.filter fs.2 })) b) i).inflight = (getObj b i).inflight ∧
          (getObj (l.foldl (fun s (fs : Str × Sub) =>
            let rr := subscribe s.topics k.id fs.2
            let s := { s with topics := rr.1, info := if rr.2 then { s.info with subs := s.info.subs + 1 } else s.info }
            modObj s i (fun x => { x with subs := assocSet x.subs fs.2.filter fs.2 })) b) i).subs =
            sp14_inheritSubs l (getObj b i).subs := by
        intro l
        induction l with
        | nil => intro b hb1 hb2 _; exact ⟨hb1, hb2, LiveEq.refl _, rfl, rfl⟩
        | cons fs rest ih =>
          intro b hb1 hb2 hb3
          rw [List.foldl_cons]
          extract_lets +onlyGivenNames rr src3 b1
          have hl : i < b1.objs.length := hb3
          have gi : getObj (modObj b1 i (fun x => { x with subs := assocSet x.subs fs.2.filter fs.2 })) i =
              { getObj b i with subs := assocSet (getObj b i).subs fs.2.filter fs.2 } := getObj_modObj_lt b1 i _ hl
          obtain ⟨r1, r2, r3, r4, r5⟩ := ih (modObj b1 i (fun x => { x with subs := assocSet x.subs fs.2.filter fs.2 }))
            hb1 hb2 (by rw [show (modObj b1 i _).objs.length = b1.objs.length from setObj_length b1 i _]; exact hl)
          rw [gi] at r3 r4 r5
          exact ⟨r1, r2, ⟨r3.isOpen, r3.peerGone, r3.inline, r3.conn, r3.ver⟩, r4, r5⟩
      have hl3 : i < s3.objs.length := by
        by_cases hpos : ex2.inflight.length > 0
        · have hs3 : s3 = { s2i with info := { s2i.info with inflight := s2i.info.inflight + ex2.inflight.length } } :=
            if_pos hpos
          rw [hs3]
          show i < (setObj s2 i _).objs.length
          rw [setObj_length, hl2]; exact hi
        · have hs3 : s3 = s2 := if_neg hpos
          rw [hs3, hl2]; exact hi
      obtain ⟨q1, q2, q3, q4, q5⟩ := inv4 ex2.subs s3 inv3.1 inv3.2.1 hl3
      have q1 : s4.clients = t.clients := q1
      have q2 : s4.caps = t.caps := q2
      have q3 : LiveEq (getObj s3 i) (getObj s4 i) := q3
      have q4 : (getObj s4 i).inflight = (getObj s3 i).inflight := q4
      have q5 : (getObj s4 i).subs = sp14_inheritSubs ex2.subs (getObj s3 i).subs := q5
      have e6 : getObj s6 i = getObj s4 i := by
        show getObj (clearInflights s5 e) i = _
        rw [clearInflights_getObj_ne_x s5 e i hne]
        exact sp14_unsubscribeClient_ne s4 e i hne
      have c6 : s6.clients = t.clients := (unsubscribeClient_clients_sv s4 e).trans q1
      have p6 : s6.caps = t.caps := (unsubscribeClient_caps s4 e).trans q2
      refine ⟨by rw [c6], p6, ?_, ?_, ?_⟩
      · rw [e6]; exact inv3.2.2.1.trans q3
      · rw [e6, q4, inv3.2.2.2.1, ex2i]
      · rw [e6, q5, inv3.2.2.2.2, ex2s]
  · rename_i hnone
    rw [he0] at hnone; cases hnone

/-! ### the rest of `attachClient`, for the connecting object -/

theorem sp14_admitC_live (s : Server) (i : Nat) (k : Connect) (present : Bool) (x : Nat) :
    LiveEq (getObj s x) (getObj (admitC s i k present).1 x) := by
  unfold admitC
  extract_lets +onlyGivenNames s1
  split
  · refine foldl_inv (fun (acc : Server × List Out) => LiveEq (getObj s x) (getObj acc.1 x)) _ _ _ (LiveEq.refl _) ?_
    intro acc m h
    extract_lets +onlyGivenNames m' o s'
    show LiveEq (getObj s x) (getObj s' x)
    show LiveEq (getObj s x) (getObj (if (m.type == 4 || m.type == 7) = true then _ else acc.1) x)
    split
    · split
      rename_i c' ok heq
      extract_lets +onlyGivenNames s''
      have hc' : c' = (flDelete (getObj acc.1 i) m.id).1 := by rw [heq]
      have goal : LiveEq (getObj s x) (getObj s'' x) := by
        show LiveEq (getObj s x) (getObj (setObj acc.1 i c') x)
        by_cases hx : x = i
        · subst hx
          rcases getObj_setObj_self_cases acc.1 x c' with e | e <;> rw [e]
          · rw [hc']; exact h.trans ⟨rfl, rfl, rfl, rfl, rfl⟩
          · exact h
        · rw [getObj_setObj_ne acc.1 i x c' hx]; exact h
      split
      · exact goal
      · exact goal
    · exact h
  · exact LiveEq.refl _

/-- the barrier PINGREQ of the `connect` op on a live connection: the release of a deferred message, nothing else -/
theorem sp14_barrier (u : Server) (conn i : Nat) (hc : assocGet u.connOf conn = some i)
    (ho : (getObj u i).isOpen = true) (hp : (getObj u i).peerGone = false) (hin : (getObj u i).inline = false) :
    (recvOn u conn .pingreq false).1 = (nextImmediate u i).1 := by
  have hk := ((nextImmediate_frame u i).kept_of_nil hin).1
  unfold recvOn
  simp only [hc, ho, Bool.not_true, Bool.false_eq_true, if_false, receivePacket_pingreq_live u i ho hp, hk]

/-- what the release of a deferred message leaves alone -/
theorem sp14_nextImmediate_obj (u : Server) (i x : Nat) (hin : (getObj u i).inline = false) :
    (nextImmediate u i).1.clients = u.clients ∧ (nextImmediate u i).1.connOf = u.connOf ∧
    (getObj (nextImmediate u i).1 x).isOpen = (getObj u x).isOpen ∧
    (getObj (nextImmediate u i).1 x).conn = (getObj u x).conn ∧
    (getObj (nextImmediate u i).1 x).subs = (getObj u x).subs := by
  have q := nextImmediate_quiet u i
  have f := nextImmediate_frame u i
  refine ⟨q.clients, q.connOf, ?_, ?_, (q.obj x).subs⟩
  · by_cases hx : x = i
    · subst hx; exact (f.kept_of_nil hin).1
    · exact (f.other x hx).isOpen.symm
  · by_cases hx : x = i
    · subst hx; exact f.conn
    · exact (f.other x hx).conn.symm

theorem sp14_detach_caps (s : Server) (i : Nat) (b : Bool) : (detach s i b).1.caps = s.caps := by
  rw [detach_fst]
  have qa := (detachA_quiet s i b).caps
  rw [← qa]
  generalize (detachA s i b).1 = u
  unfold detachB
  extract_lets +onlyGivenNames c expire s3 s4 s2
  show (if (expire && !c.takenOver) = true then _ else u).caps = u.caps
  split
  · show (unsubscribeClient (clearInflights u i) i).caps = _
    rw [unsubscribeClient_caps]; rfl
  · rfl

/-- the taken-over connection's handler leaves its read loop (if it was in it) -/
def sp14_takeover (s : Server) : Option Nat → Server
  | some e => (detach s e true).1
  | none => s

theorem sp14_admitClient_fst (s : Server) (i conn : Nat) (k : Connect) :
    (admitClient s i conn k).1 =
      (admitC (sp14_takeover (admitConnack (admitA s i k).1 i conn (admitA s i k).2.2.1).1 (admitA s i k).2.2.2)
        i k (admitA s i k).2.2.1).1 := by
  unfold admitClient
  split
  rename_i s1 o1 present exLive h1
  simp only [h1]
  split <;> rfl

/-- `attachClient` from `Clients.Add` to the read loop: the Clients map stays as `Clients.Add` left it (the taken-over
    handler's clean-up does not delete the entry: its object is marked taken over), the connecting object keeps what
    `writeMsg` reads of it and its subscriptions -/
theorem sp14_admitClient_new (t : Server) (i conn : Nat) (k : Connect)
    (hunreg : ∀ c, assocGet t.clients c ≠ some i)
    (htk : ∀ e, assocGet t.clients k.id = some e → (getObj (admitA t i k).1 e).takenOver = true) :
    (admitClient t i conn k).1.clients = (admitA t i k).1.clients ∧
    (admitClient t i conn k).1.caps = (admitA t i k).1.caps ∧
    (admitClient t i conn k).1.connOf = t.connOf ∧
    LiveEq (getObj (admitA t i k).1 i) (getObj (admitClient t i conn k).1 i) ∧
    (getObj (admitClient t i conn k).1 i).subs = (getObj (admitA t i k).1 i).subs := by
  rw [sp14_admitClient_fst]
  have q2 := admitConnack_quiet (admitA t i k).1 i conn (admitA t i k).2.2.1
  have l2 := (admitConnack_exact (admitA t i k).1 i conn (admitA t i k).2.2.1 i).1
  have k1 := admitA_keep t i k
  generalize hs2 : (admitConnack (admitA t i k).1 i conn (admitA t i k).2.2.1).1 = s2 at q2 l2
  have key : ∀ s3, s3 = sp14_takeover s2 (admitA t i k).2.2.2 →
      s3.clients = s2.clients ∧ s3.caps = s2.caps ∧ s3.connOf = s2.connOf ∧
        LiveEq (getObj s2 i) (getObj s3 i) ∧ (getObj s3 i).subs = (getObj s2 i).subs := by
    intro s3 h3
    cases hx : (admitA t i k).2.2.2 with
    | none =>
      rw [hx] at h3
      subst h3
      exact ⟨rfl, rfl, rfl, LiveEq.refl _, rfl⟩
    | some e =>
      rw [hx] at h3
      have h3 : s3 = (detach s2 e true).1 := h3
      obtain ⟨e1, _, _, _⟩ := admitA_exLive t i k e hx
      have hie : i ≠ e := fun x => hunreg k.id (x ▸ e1)
      have hto : (getObj s2 e).takenOver = true := by rw [(q2.obj e).takenOver]; exact htk e e1
      have hends : endsWithConn0 (getObj s2 e) = false := by
        unfold endsWithConn0; rw [hto]; simp
      have iso := detach_isolation s2 e i true hie
      rw [h3]
      exact ⟨detach_clients s2 e true hends, sp14_detach_caps s2 e true, (detach_frame s2 e true).connOf, iso.live,
        iso.subs.symm⟩
  obtain ⟨c3, p3, n3, l3, u3⟩ := key _ rfl
  generalize sp14_takeover s2 (admitA t i k).2.2.2 = s3 at c3 p3 n3 l3 u3 ⊢
  have q4 := admitC_quiet s3 i k (admitA t i k).2.2.1
  have l4 := sp14_admitC_live s3 i k (admitA t i k).2.2.1 i
  refine ⟨?_, ?_, ?_, (l2.trans l3).trans l4, ?_⟩
  · rw [q4.clients, c3, q2.clients]
  · rw [q4.caps, p3, q2.caps]
  · rw [q4.connOf, n3, q2.connOf, k1.connOf]
  · rw [(q4.obj i).subs, u3, (q2.obj i).subs]

/-! ### the `connect` op on a fresh connection, admitted -/

theorem sp14_step_connect_open (s : Server) (conn : Nat) (k : Connect) (i : Nat)
    (hc : assocGet (connect s conn k).1.connOf conn = some i) (ho : (getObj (connect s conn k).1 i).isOpen = true) :
    (step s (.connect conn k)).1 = (recvOn (connect s conn k).1 conn .pingreq false).1 := by
  rw [step]
  generalize connect s conn k = r at hc ho
  obtain ⟨s', o⟩ := r
  simp only [] at hc ho ⊢
  simp only [hc, ho, if_true]

theorem sp14_connect_admitted_eq (s : Server) (conn : Nat) (k : Connect)
    (h : refuseCode (connState s conn k) k (parseConnect s conn k) = none) :
    connect s conn k = admitClient (connState s conn k) s.objs.length conn k := by
  unfold connect
  have h' := h
  unfold connState at h'
  simp only [h']
  rfl

/-- **an admitted CONNECT on a fresh connection, in full.**  `A` = the state right after `Clients.Add`
    (`inheritClientSession` done), `r` = the result of the op.  Session present is `sp14_present`; the Clients map of
    `r` is the old one with the new object under `k.id`; the new object is open on `conn` at the end of the op and
    has the subscriptions it had at `Clients.Add`; at `Clients.Add` it is the parsed CONNECT's object unchanged when
    no session is resumed, and has exactly the old object's in-flight records and (re-)subscriptions when one is. -/
theorem sp14_step_connect_admitted (s : Server) (hs : SyncInv s) (hw : WF s) (conn : Nat) (k : Connect)
    (hf : conn ∉ s.connOf.map (·.1))
    (h : refuseCode (connState s conn k) k (parseConnect s conn k) = none) :
    (admitA (connState s conn k) s.objs.length k).2.2.1 = sp14_present s k ∧
    (step s (.connect conn k)).1.clients = assocSet s.clients k.id s.objs.length ∧
    assocGet (step s (.connect conn k)).1.connOf conn = some s.objs.length ∧
    (getObj (step s (.connect conn k)).1 s.objs.length).isOpen = true ∧
    (getObj (step s (.connect conn k)).1 s.objs.length).conn = conn ∧
    (getObj (step s (.connect conn k)).1 s.objs.length).subs =
      (getObj (admitA (connState s conn k) s.objs.length k).1 s.objs.length).subs ∧
    (getObj (admitA (connState s conn k) s.objs.length k).1 s.objs.length).ver = k.ver ∧
    (admitA (connState s conn k) s.objs.length k).1.caps = s.caps ∧
    (sp14_present s k = false →
      getObj (admitA (connState s conn k) s.objs.length k).1 s.objs.length = parseConnect s conn k) ∧
    (∀ e, assocGet s.clients k.id = some e → sp14_present s k = true →
      (getObj (admitA (connState s conn k) s.objs.length k).1 s.objs.length).inflight = (getObj s e).inflight ∧
      (getObj (admitA (connState s conn k) s.objs.length k).1 s.objs.length).subs =
        sp14_inheritSubs (getObj s e).subs []) ∧
    (step s (.connect conn k)).1 =
      (nextImmediate (admitClient (connState s conn k) s.objs.length conn k).1 s.objs.length).1 ∧
    (step s (.connect conn k)).1.caps = s.caps := by
  have hreg : ∀ c e, assocGet s.clients c = some e → e < s.objs.length :=
    fun c e he => (hw.clients_valid c e (assocGet_mem _ _ _ he)).1
  have hnew := getObj_connState_new s conn k
  have hlt : s.objs.length < (connState s conn k).objs.length := by
    show s.objs.length < (s.objs ++ [_]).length
    simp
  have hcl : (connState s conn k).clients = s.clients := rfl
  have hcaps : (connState s conn k).caps = s.caps := rfl
  -- the state right after `Clients.Add`
  have hA : (admitA (connState s conn k) s.objs.length k).2.2.1 = sp14_present s k ∧
      (admitA (connState s conn k) s.objs.length k).1.clients = assocSet s.clients k.id s.objs.length ∧
      (admitA (connState s conn k) s.objs.length k).1.caps = s.caps ∧
      LiveEq (parseConnect s conn k) (getObj (admitA (connState s conn k) s.objs.length k).1 s.objs.length) ∧
      (sp14_present s k = false →
        getObj (admitA (connState s conn k) s.objs.length k).1 s.objs.length = parseConnect s conn k) ∧
      (∀ e, assocGet s.clients k.id = some e → sp14_present s k = true →
        (getObj (admitA (connState s conn k) s.objs.length k).1 s.objs.length).inflight = (getObj s e).inflight ∧
        (getObj (admitA (connState s conn k) s.objs.length k).1 s.objs.length).subs =
          sp14_inheritSubs (getObj s e).subs []) := by
    cases he : assocGet s.clients k.id with
    | none =>
      obtain ⟨a1, a2, a3, a4⟩ := sp14_admitA_none (connState s conn k) s.objs.length k he
      have hp : sp14_present s k = false := by unfold sp14_present; rw [he]
      refine ⟨a1.trans hp.symm, a2, a3, ?_, fun _ => (a4 _).trans hnew, fun e he' => by cases he'⟩
      rw [a4, hnew]; exact LiveEq.refl _
    | some e =>
      have hel := hreg _ _ he
      have hne : s.objs.length ≠ e := Nat.ne_of_gt hel
      have hold := getObj_connState_old s conn k e hel
      by_cases hc : (k.clean || ((getObj s e).clean && decide ((getObj s e).ver < 5))) = true
      · obtain ⟨a1, a2, a3, a4⟩ := sp14_admitA_clean (connState s conn k) s.objs.length k e he (by rw [hold]; exact hc)
        have hp : sp14_present s k = false := by unfold sp14_present; rw [he]; simp only [hc]; rfl
        refine ⟨a1.trans hp.symm, a2, a3, ?_, fun _ => (a4 _ hne).trans hnew, fun e' _ hp' => ?_⟩
        · rw [a4 _ hne, hnew]; exact LiveEq.refl _
        · rw [hp] at hp'; cases hp'
      · have hc : (k.clean || ((getObj s e).clean && decide ((getObj s e).ver < 5))) = false := by simpa using hc
        obtain ⟨a1, a2, a3, a4, a5, a6⟩ := sp14_admitA_resume (connState s conn k) s.objs.length k e he
          (by rw [hold]; exact hc) hne hlt
        have hp : sp14_present s k = true := by unfold sp14_present; rw [he]; simp only [hc]; rfl
        rw [hnew] at a4
        rw [hold, hnew] at a5 a6
        refine ⟨a1.trans hp.symm, a2, a3, a4, fun hp' => ?_, fun e' he' _ => ?_⟩
        · rw [hp] at hp'; cases hp'
        · cases he'
          refine ⟨?_, a6⟩
          rw [a5]
          by_cases hpos : (getObj s e).inflight.length > 0
          · rw [if_pos hpos]
          · rw [if_neg hpos]
            cases hl : (getObj s e).inflight with
            | nil => rfl
            | cons a as => rw [hl] at hpos; simp at hpos
  obtain ⟨A1, A2, A3, A4, A5, A6⟩ := hA
  -- the taken-over object is marked
  have hunreg : ∀ c, assocGet (connState s conn k).clients c ≠ some s.objs.length := by
    intro c hc
    exact Nat.lt_irrefl _ (hreg c _ hc)
  have hx : SyncInvX (· = s.objs.length) (connState s conn k) := hs.addObj hw (parseConnect s conn k) conn rfl rfl rfl rfl
  have w1 : WF (connState s conn k) := hw.addObj (parseConnect s conn k) conn (parseConnect_wf s conn k) hf
  have hpend : ∀ p ∈ (connState s conn k).pending, p.obj ≠ s.objs.length := by
    intro p hp he
    have := (hw.pending_valid p hp).1
    rw [he] at this
    exact Nat.lt_irrefl _ this
  obtain ⟨_, _, htk, _⟩ := admitA_inv (k := k) hx w1 hlt (by rw [hnew]; rfl) hunreg hpend (by rw [hnew]; rfl)
    (by rw [hnew]; rfl)
  obtain ⟨B1, B2, B3, B4, B5⟩ := sp14_admitClient_new (connState s conn k) s.objs.length conn k hunreg htk
  have heq := sp14_connect_admitted_eq s conn k h
  rw [← heq] at B1 B2 B3 B4 B5
  have hlive := A4.trans B4
  have hconn : assocGet (connect s conn k).1.connOf conn = some s.objs.length := by
    rw [B3]
    show assocGet (s.connOf ++ [(conn, s.objs.length)]) conn = _
    exact assocGet_append_fresh _ _ _ hf
  have ho : (getObj (connect s conn k).1 s.objs.length).isOpen = true := by rw [hlive.isOpen]; rfl
  have hp : (getObj (connect s conn k).1 s.objs.length).peerGone = false := by rw [hlive.peerGone]; rfl
  have hin : (getObj (connect s conn k).1 s.objs.length).inline = false := by rw [hlive.inline]; rfl
  have hstep : (step s (.connect conn k)).1 = (nextImmediate (connect s conn k).1 s.objs.length).1 := by
    rw [sp14_step_connect_open s conn k _ hconn ho, sp14_barrier _ conn _ hconn ho hp hin]
  obtain ⟨N1, N2, N3, N4, N5⟩ := sp14_nextImmediate_obj (connect s conn k).1 s.objs.length s.objs.length hin
  refine ⟨A1, ?_, ?_, ?_, ?_, ?_, ?_, A3, A5, A6, by rw [hstep, heq], ?_⟩
  rotate_left 6
  · rw [hstep, (nextImmediate_quiet _ _).caps, B2, A3]
  · rw [hstep, N1, B1, A2]
  · rw [hstep, N2]; exact hconn
  · rw [hstep, N3]; exact ho
  · rw [hstep, N4, hlive.conn]; rfl
  · rw [hstep, N5, B5]
  · rw [A4.ver]; rfl

/-- the outputs of an admitted CONNECT with the CONNACK's fields pinned: protocol version of the CONNECT, session
    present as `inheritClientSession` decided, the server's receive maximum and maximum QoS -/
theorem sp14_connect_admitted_out (s : Server) (hs : SyncInv s) (hw : WF s) (hcm : ConnMap s) (conn : Nat) (k : Connect)
    (h : refuseCode (connState s conn k) k (parseConnect s conn k) = none) (hf : conn ∉ s.connOf.map (·.1)) :
    ∃ c' pre seiOut post, c' ≠ conn ∧ TakeoverOut c' pre ∧
      (step s (.connect conn k)).2 = pre ++ [.wrote conn (.connack k.ver (sessionExisted s k.id && !k.clean) 0
        s.caps.receiveMaximum s.caps.maximumQos seiOut)] ++ post ∧ NoConnack post := by
  obtain ⟨tail, ht, hnt⟩ := step_connect_out s conn k
  obtain ⟨post, hp, hnp⟩ := admitClient_out (connState s conn k) s.objs.length conn k
  obtain ⟨seiOut, hck⟩ := admitConnack_out (admitA (connState s conn k) s.objs.length k).1 s.objs.length conn
    (admitA (connState s conn k) s.objs.length k).2.2.1
  obtain ⟨A1, _, _, _, _, _, A7, A8, _, _, _, _⟩ := sp14_step_connect_admitted s hs hw conn k hf h
  have hconn : (connect s conn k).2 = (admitClient (connState s conn k) s.objs.length conn k).2 := by
    rw [sp14_connect_admitted_eq s conn k h]
  have hpre := admitA_out (connState s conn k) s.objs.length k
  have hcl : (connState s conn k).clients = s.clients := rfl
  rw [hcl] at hpre
  have key : ∃ c', c' ≠ conn ∧ TakeoverOut c' (admitA (connState s conn k) s.objs.length k).2.1 := by
    cases he : assocGet s.clients k.id with
    | none =>
      rw [he] at hpre
      rw [hpre]
      exact ⟨conn + 1, by omega, fun x hx => by cases hx⟩
    | some e =>
      rw [he] at hpre
      simp only at hpre
      have hel : e < s.objs.length := (hw.clients_valid k.id e (assocGet_mem _ _ _ he)).1
      have hobj : getObj (incConn (connState s conn k)) e = getObj s e := getObj_connState_old s conn k e hel
      obtain ⟨t1, t2⟩ := disconnectClient_takeover (incConn (connState s conn k)) e
      rw [hobj] at t1 t2
      by_cases hin : (getObj s e).inline = true
      · rw [hpre, t2 hin]
        exact ⟨conn + 1, by omega, fun x hx => by cases hx⟩
      · refine ⟨(getObj s e).conn, ?_, by rw [hpre]; exact t1⟩
        have hm := hcm e hel (by simpa using hin)
        intro heq
        rw [heq] at hm
        exact hf (List.mem_map_of_mem (f := (·.1)) (assocGet_mem _ _ _ hm))
  obtain ⟨c', hc', hto⟩ := key
  refine ⟨c', (admitA (connState s conn k) s.objs.length k).2.1, seiOut, post ++ tail, hc', hto, ?_, hnp.append hnt⟩
  rw [ht, hconn, hp, hck, A7, A8, A1, sp14_present_eq]
  simp only [List.append_assoc]

/-- a refused CONNECT on a fresh connection: the state -/
theorem sp14_connect_refused_state (s : Server) (conn : Nat) (k : Connect) (code : Nat)
    (h : refuseCode (connState s conn k) k (parseConnect s conn k) = some code) (hf : conn ∉ s.connOf.map (·.1)) :
    (step s (.connect conn k)).1 = setObj (connState s conn k) s.objs.length
        { parseConnect s conn k with isOpen := false, stopped := true } := by
  have hg := getObj_connState_new s conn k
  have hst := stopClient_live (connState s conn k) s.objs.length (by rw [hg]; rfl) (by rw [hg]; rfl)
  rw [hg] at hst
  have e : connect s conn k = (setObj (connState s conn k) s.objs.length
        { parseConnect s conn k with isOpen := false, stopped := true },
      [.wrote conn (.connack k.ver false code s.caps.receiveMaximum s.caps.maximumQos none), .closed conn]) := by
    unfold connect
    have h' := h
    unfold connState at h' hst
    simp only [h', hst]
    rfl
  rw [(connect_refused s conn k code h hf).1, e]

/-! ### C35: `ClientsConnected` never passes `MaximumClients` without schedule ops -/

/-- the capabilities are kept and `ClientsConnected` does not grow -/
structure fc35_R (s s' : Server) : Prop where
  caps : s'.caps = s.caps
  le : s'.info.connected ≤ s.info.connected

theorem fc35_R.refl (s : Server) : fc35_R s s := ⟨rfl, Int.le_refl _⟩
theorem fc35_R.trans {s s1 s2 : Server} (h : fc35_R s s1) (g : fc35_R s1 s2) : fc35_R s s2 :=
  ⟨g.caps.trans h.caps, Int.le_trans g.le h.le⟩

theorem fc35_detach_connected (s : Server) (i : Nat) (b : Bool) :
    (detach s i b).1.info.connected = s.info.connected - 1 := by
  rw [detach_fst, (detachB_quiet _ i).2, (detachA_act s i b).2]

theorem fc35_detach (s : Server) (i : Nat) (b : Bool) : fc35_R s (detach s i b).1 :=
  ⟨sp14_detach_caps s i b, by rw [fc35_detach_connected]; omega⟩

theorem fc35_receivePacket (s : Server) (i : Nat) (hi : i < s.objs.length) (pk : InPk) :
    fc35_R s (receivePacket s i pk).1 :=
  ⟨(receivePacket_own s i hi pk).caps, by rw [(receivePacket_act s i pk).2]; exact Int.le_refl _⟩

theorem fc35_modObj (s : Server) (i : Nat) (f : Client → Client) : fc35_R s (modObj s i f) := ⟨rfl, Int.le_refl _⟩

theorem fc35_recvOn (s : Server) (c : Nat) (pk : InPk) (b : Bool) (hw : WF s) : fc35_R s (recvOn s c pk b).1 := by
  unfold recvOn
  split
  · exact fc35_R.refl s
  · rename_i i hc
    have hi : i < s.objs.length := hw.conn_valid c i (assocGet_mem _ _ _ hc)
    split
    · exact fc35_R.refl s
    · split
      rename_i s1 o e heq
      have h1 := fc35_receivePacket s i hi pk
      have hl1 := (receivePacket_frame s i pk).len
      rw [heq] at h1 hl1
      have h1 : fc35_R s s1 := h1
      have hl1 : s1.objs.length = s.objs.length := hl1
      split
      · split
        rename_i s2 o2 hd
        have := fc35_detach s1 i true
        rw [hd] at this
        exact h1.trans this
      · split
        · split
          rename_i s2 o2 hd
          have := fc35_detach s1 i false
          rw [hd] at this
          exact h1.trans this
        · split
          · split
            rename_i s2 o2 e2 heq2
            have h2 := fc35_receivePacket s1 i (by rw [hl1]; exact hi) .pingreq
            rw [heq2] at h2
            have h12 : fc35_R s s2 := h1.trans h2
            extract_lets +onlyGivenNames o2f
            split
            · split
              rename_i s3 o3 hd
              have := fc35_detach s2 i true
              rw [hd] at this
              exact h12.trans this
            · exact h12
          · exact h1

theorem fc35_tickClients_caps (s : Server) (t : Int) : (tickClients s t).1.caps = s.caps := by
  unfold tickClients
  refine foldl_inv (fun (acc : Server × List Out) => acc.1.caps = s.caps) _ _ _ rfl ?_
  intro acc e h
  extract_lets +onlyGivenNames c
  split
  · extract_lets +onlyGivenNames s1 s2
    show s2.caps = _
    rw [show s2.caps = s1.caps from unsubscribeClient_caps s1 e.2]
    exact h
  · exact h

theorem fc35_tick (s : Server) (kind : String) (t : Int) : fc35_R s (step s (.tick kind t)).1 := by
  refine ⟨?_, by rw [tick_connected]; exact Int.le_refl _⟩
  rw [step]
  split
  · exact fc35_tickClients_caps s t
  · split
    · exact (tickRetained_quiet s t).caps
    · split
      · exact (tickInflight_quiet s t).caps
      · split
        · exact (tickWills_quiet s t).caps
        · rfl

/-- every op that is not a schedule op and not a `connect` keeps the capabilities and does not increase
    `ClientsConnected` -/
theorem fc35_step_other (s : Server) (op : Op) (hw : WF s) (h0 : 0 < s.objs.length) (hseq : op.isSeq = true)
    (hnc : ∀ conn k, op ≠ .connect conn k) : fc35_R s (step s op).1 := by
  cases op with
  | connect conn k => exact absurd rfl (hnc conn k)
  | recv conn pk => exact fc35_recvOn s conn pk true hw
  | drop conn =>
    rw [step]
    split
    · exact fc35_R.refl s
    · rename_i i hc
      split
      · exact fc35_R.refl s
      · extract_lets +onlyGivenNames s1
        split
        rename_i s2 o hd
        have := fc35_detach s1 i true
        rw [hd] at this
        exact (fc35_modObj s i _).trans this
  | recvCut conn pk =>
    rw [step]
    split
    · exact fc35_R.refl s
    · rename_i i hc
      split
      · exact fc35_R.refl s
      · extract_lets +onlyGivenNames s1
        have w1 : WF s1 := WF.of_good hw ((Good.refl s).mod i _ (by cw_rfl))
        split
        rename_i s2 o hr
        have h2 := fc35_recvOn s1 conn pk false w1
        rw [hr] at h2
        have h12 : fc35_R s s2 := (fc35_modObj s i _).trans h2
        split
        rename_i s3 o2 hd
        have h23 : fc35_R s2 s3 := by
          split at hd
          · cases hd; exact fc35_R.refl _
          · have := fc35_detach s2 i true
            rw [hd] at this; exact this
        exact h12.trans h23
  | dropHold conn => cases hseq
  | release conn => cases hseq
  | dropHoldEarly conn => cases hseq
  | connectHold conn k stage => cases hseq
  | tick kind t => exact fc35_tick s kind t
  | inlinePublish topic payload retain qos =>
    rw [step]
    exact fc35_receivePacket s 0 h0 _
  | inlineSubscribe id filter =>
    rw [step]
    split
    · exact fc35_R.refl s
    · exact ⟨rfl, Int.le_refl _⟩
  | inlineUnsubscribe id filter =>
    rw [step]
    split
    · exact fc35_R.refl s
    · exact ⟨rfl, Int.le_refl _⟩

theorem fc35_admitA_connected (t : Server) (i : Nat) (k : Connect) :
    (admitA t i k).1.info.connected = t.info.connected + 1 := by
  cases he : assocGet t.clients k.id with
  | none => exact (admitA_qc_none t i k he).c
  | some e =>
    rw [(admitA_qc_some t i k e he).c, (stopClient_act (incConn t) e).2]
    rfl

theorem fc35_admitClient_connected (t : Server) (i conn : Nat) (k : Connect) :
    (admitClient t i conn k).1.info.connected ≤ t.info.connected + 1 := by
  rw [sp14_admitClient_fst, (admitC_qc _ i k _).c]
  have h2 := (admitConnack_qc (admitA t i k).1 i conn (admitA t i k).2.2.1).c
  rw [fc35_admitA_connected] at h2
  generalize (admitConnack (admitA t i k).1 i conn (admitA t i k).2.2.1).1 = s2 at h2
  cases (admitA t i k).2.2.2 with
  | none => show s2.info.connected ≤ _; rw [h2]; exact Int.le_refl _
  | some e =>
    show (detach s2 e true).1.info.connected ≤ _
    rw [fc35_detach_connected, h2]; omega

/-- an admitted CONNECT found `ClientsConnected` below `MaximumClients` -/
theorem fc35_admitted_below (t : Server) (k : Connect) (c : Client) (h : refuseCode t k c = none) :
    t.info.connected < t.caps.maximumClients := by
  unfold refuseCode at h
  by_cases hge : t.info.connected ≥ t.caps.maximumClients
  · rw [if_pos hge] at h; cases h
  · omega

/-- the `connect` op on a fresh connection: the capabilities are kept; refused, `ClientsConnected` is unchanged;
    admitted, it was below `MaximumClients` and grows by at most one -/
theorem fc35_step_connect (s : Server) (hs : SyncInv s) (hw : WF s) (conn : Nat) (k : Connect)
    (hf : conn ∉ s.connOf.map (·.1)) :
    (step s (.connect conn k)).1.caps = s.caps ∧
    (step s (.connect conn k)).1.info.connected ≤ s.caps.maximumClients ∨
    fc35_R s (step s (.connect conn k)).1 := by
  cases hd : refuseCode (connState s conn k) k (parseConnect s conn k) with
  | some code =>
    right
    rw [sp14_connect_refused_state s conn k code hd hf]
    exact ⟨rfl, Int.le_refl _⟩
  | none =>
    left
    obtain ⟨_, _, _, _, _, _, _, _, _, _, E1, E2⟩ := sp14_step_connect_admitted s hs hw conn k hf hd
    refine ⟨E2, ?_⟩
    have hb := fc35_admitted_below _ _ _ hd
    have hb : s.info.connected < s.caps.maximumClients := hb
    have hc := fc35_admitClient_connected (connState s conn k) s.objs.length conn k
    have hc : (admitClient (connState s conn k) s.objs.length conn k).1.info.connected ≤ s.info.connected + 1 := hc
    rw [E1, (nextImmediate_core (P := fun _ => True) _ _).conn]
    omega

/-! ### re-subscribing to a duplicate-free subscription map gives the same map -/

theorem sp14_assocSet_fresh {α β} [DecidableEq α] (m : List (α × β)) (k : α) (v : β) (h : k ∉ m.map (·.1)) :
    assocSet m k v = m ++ [(k, v)] := by
  induction m with
  | nil => rfl
  | cons x rest ih =>
    obtain ⟨k0, v0⟩ := x
    have hne : ¬ k0 = k := fun e => h (by rw [e]; exact List.mem_cons_self)
    have hr : k ∉ rest.map (·.1) := fun hm => h (List.mem_cons_of_mem _ hm)
    simp only [assocSet, if_neg hne, ih hr, List.cons_append]

theorem sp14_inheritSubs_append (l : List (Str × Sub)) : ∀ (acc : List (Str × Sub)),
    (∀ fs ∈ l, fs.2.filter = fs.1) → ((acc ++ l).map (·.1)).Nodup → sp14_inheritSubs l acc = acc ++ l := by
  induction l with
  | nil => intro acc _ _; simp [sp14_inheritSubs]
  | cons fs rest ih =>
    intro acc hk hnd
    have hfs : fs.2.filter = fs.1 := hk fs List.mem_cons_self
    have hfresh : fs.1 ∉ acc.map (·.1) := by
      intro hm
      rw [List.map_append, List.nodup_append] at hnd
      exact hnd.2.2 _ hm _ (by simp) rfl
    show sp14_inheritSubs rest (assocSet acc fs.2.filter fs.2) = _
    rw [hfs, sp14_assocSet_fresh acc fs.1 fs.2 hfresh]
    have : acc ++ [(fs.1, fs.2)] ++ rest = acc ++ fs :: rest := by simp
    rw [ih (acc ++ [(fs.1, fs.2)]) (fun x hx => hk x (List.mem_cons_of_mem _ hx)) (by rw [this]; exact hnd), this]

theorem sp14_inheritSubs_eq (l : List (Str × Sub)) (hk : ∀ fs ∈ l, fs.2.filter = fs.1) (hnd : (l.map (·.1)).Nodup) :
    sp14_inheritSubs l [] = l := by
  have := sp14_inheritSubs_append l [] hk (by simpa using hnd)
  simpa using this

end Mochi.Broker
