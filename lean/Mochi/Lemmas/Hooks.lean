import Mochi.Spec.Hooks
/-!
Helper lemmas about the dispatcher loop of `Model/Hooks.lean` (for `Props/C19.lean`).
-/
namespace Mochi.Hooks

/-! ### unfolding the loop -/

section
variable {σ ρ : Type} (m : Method) (body : Hook → σ → Iter σ ρ) (fin : σ → ρ)

@[simp] theorem loop_nil (i : Nat) (s : σ) : loop m body fin i s [] = (fin s, []) := rfl

theorem loop_skip (i : Nat) (s : σ) (h : Hook) (hs : List Hook) (hp : h.provides m = false) :
    loop m body fin i s (h :: hs) = loop m body fin (i + 1) s hs := by
  simp [loop, hp]

theorem loop_stop (i : Nat) (s : σ) (h : Hook) (hs : List Hook) (hp : h.provides m = true) (r : ρ)
    (hst : (body h s).step = .stop r) :
    loop m body fin i s (h :: hs) = (r, [⟨i, m, (body h s).input, (body h s).output⟩]) := by
  simp [loop, hp, hst]

theorem loop_next (i : Nat) (s : σ) (h : Hook) (hs : List Hook) (hp : h.provides m = true) (s' : σ)
    (hst : (body h s).step = .next s') :
    loop m body fin i s (h :: hs) =
      ((loop m body fin (i + 1) s' hs).1,
       ⟨i, m, (body h s).input, (body h s).output⟩ :: (loop m body fin (i + 1) s' hs).2) := by
  simp [loop, hp, hst]

/-! ### which hooks are consulted -/

theorem mem_providersFrom (hs : List Hook) : ∀ (i j : Nat),
    j ∈ providersFrom m i hs ↔ i ≤ j ∧ ∃ h, hs[j - i]? = some h ∧ h.provides m = true := by
  induction hs with
  | nil => intro i j; simp [providersFrom]
  | cons h hs ih =>
    intro i j
    by_cases hp : h.provides m = true
    · simp only [providersFrom, hp, if_true, List.mem_cons, ih]
      constructor
      · rintro (rfl | ⟨hle, h', hg, hp'⟩)
        · exact ⟨Nat.le_refl _, h, by simp, hp⟩
        · refine ⟨by omega, h', ?_, hp'⟩
          have : j - i = (j - (i + 1)) + 1 := by omega
          rw [this]; simpa using hg
      · rintro ⟨hle, h', hg, hp'⟩
        by_cases hij : j = i
        · exact Or.inl hij
        · right
          refine ⟨by omega, h', ?_, hp'⟩
          have : j - i = (j - (i + 1)) + 1 := by omega
          rw [this] at hg; simpa using hg
    · have hp' : h.provides m = false := by simpa using hp
      simp only [providersFrom, hp', Bool.false_eq_true, if_false, ih]
      constructor
      · rintro ⟨hle, h', hg, hq⟩
        refine ⟨by omega, h', ?_, hq⟩
        have : j - i = (j - (i + 1)) + 1 := by omega
        rw [this]; simpa using hg
      · rintro ⟨hle, h', hg, hq⟩
        have hij : j ≠ i := by
          intro e; subst e
          simp at hg; subst hg; simp [hp'] at hq
        refine ⟨by omega, h', ?_, hq⟩
        have : j - i = (j - (i + 1)) + 1 := by omega
        rw [this] at hg; simpa using hg

theorem providersFrom_lb (hs : List Hook) (i j : Nat) (hj : j ∈ providersFrom m i hs) : i ≤ j :=
  ((mem_providersFrom m hs i j).1 hj).1

theorem providersFrom_pairwise (hs : List Hook) : ∀ i, (providersFrom m i hs).Pairwise (· < ·) := by
  induction hs with
  | nil => intro i; simp [providersFrom]
  | cons h hs ih =>
    intro i
    by_cases hp : h.provides m = true
    · simp only [providersFrom, hp, if_true, List.pairwise_cons]
      refine ⟨fun j hj => ?_, ih (i + 1)⟩
      have := providersFrom_lb m hs (i + 1) j hj
      omega
    · have hp' : h.provides m = false := by simpa using hp
      simpa [providersFrom, hp'] using ih (i + 1)

/-- the consulted hooks are an initial segment of the providing hooks, in registration order -/
theorem loop_idxs_prefix (hs : List Hook) : ∀ (i : Nat) (s : σ),
    idxs (loop m body fin i s hs).2 <+: providersFrom m i hs := by
  induction hs with
  | nil => intro i s; simp [idxs, providersFrom]
  | cons h hs ih =>
    intro i s
    by_cases hp : h.provides m = true
    · cases hst : (body h s).step with
      | stop r =>
        rw [loop_stop m body fin i s h hs hp r hst]
        simp [idxs, providersFrom, hp]
      | next s' =>
        rw [loop_next m body fin i s h hs hp s' hst]
        simp only [idxs, providersFrom, hp, if_true, List.map_cons]
        exact List.prefix_cons_inj i |>.2 (ih (i + 1) s')
    · have hp' : h.provides m = false := by simpa using hp
      rw [loop_skip m body fin i s h hs hp']
      simpa [providersFrom, hp'] using ih (i + 1) s

/-- a loop that never returns early consults every providing hook -/
theorem loop_idxs_all (hnostop : ∀ h s, ∃ s', (body h s).step = .next s') (hs : List Hook) :
    ∀ (i : Nat) (s : σ), idxs (loop m body fin i s hs).2 = providersFrom m i hs := by
  induction hs with
  | nil => intro i s; simp [idxs, providersFrom]
  | cons h hs ih =>
    intro i s
    by_cases hp : h.provides m = true
    · obtain ⟨s', hst⟩ := hnostop h s
      rw [loop_next m body fin i s h hs hp s' hst]
      simp only [idxs, providersFrom, hp, if_true, List.map_cons]
      exact congrArg _ (ih (i + 1) s')
    · have hp' : h.provides m = false := by simpa using hp
      rw [loop_skip m body fin i s h hs hp']
      simpa [providersFrom, hp'] using ih (i + 1) s

/-- every recorded call is a call of method `m` on the hook at that index, which provides `m`, and records
    what the body of the loop did with it -/
theorem loop_call_sound (hs : List Hook) : ∀ (i : Nat) (s : σ) (c : Call), c ∈ (loop m body fin i s hs).2 →
    c.method = m ∧ i ≤ c.idx ∧ ∃ h s', hs[c.idx - i]? = some h ∧ h.provides m = true ∧
      c.input = (body h s').input ∧ c.output = (body h s').output := by
  induction hs with
  | nil => intro i s c hc; simp at hc
  | cons h hs ih =>
    intro i s c hc
    have lift : ∀ c : Call, (c.method = m ∧ i + 1 ≤ c.idx ∧ ∃ h' s', hs[c.idx - (i + 1)]? = some h' ∧ h'.provides m = true ∧
          c.input = (body h' s').input ∧ c.output = (body h' s').output) →
        (c.method = m ∧ i ≤ c.idx ∧ ∃ h' s', (h :: hs)[c.idx - i]? = some h' ∧ h'.provides m = true ∧
          c.input = (body h' s').input ∧ c.output = (body h' s').output) := by
      rintro c ⟨hm, hle, h', s', hg, hp', hi, ho⟩
      refine ⟨hm, by omega, h', s', ?_, hp', hi, ho⟩
      have : c.idx - i = (c.idx - (i + 1)) + 1 := by omega
      rw [this]; simpa using hg
    by_cases hp : h.provides m = true
    · cases hst : (body h s).step with
      | stop r =>
        rw [loop_stop m body fin i s h hs hp r hst] at hc
        simp at hc; subst hc
        exact ⟨rfl, Nat.le_refl _, h, s, by simp, hp, rfl, rfl⟩
      | next s' =>
        rw [loop_next m body fin i s h hs hp s' hst] at hc
        simp only [List.mem_cons] at hc
        rcases hc with rfl | hc
        · exact ⟨rfl, Nat.le_refl _, h, s, by simp, hp, rfl, rfl⟩
        · exact lift c (ih (i + 1) s' c hc)
    · have hp' : h.provides m = false := by simpa using hp
      rw [loop_skip m body fin i s h hs hp'] at hc
      exact lift c (ih (i + 1) s c hc)

/-! ### threading -/

/-- if a hook's input is `inp` of the loop-carried value, and going on carries `nxt input output`, the trace
    is chained -/
theorem loop_chained (inp : σ → Arg) (nxt : Arg → Out → Arg)
    (h1 : ∀ h s, (body h s).input = inp s)
    (h2 : ∀ h s s', (body h s).step = .next s' → inp s' = nxt (inp s) (body h s).output)
    (hs : List Hook) : ∀ (i : Nat) (s : σ), Chained nxt (inp s) (loop m body fin i s hs).2 := by
  induction hs with
  | nil => intro i s; simp [Chained]
  | cons h hs ih =>
    intro i s
    by_cases hp : h.provides m = true
    · cases hst : (body h s).step with
      | stop r =>
        rw [loop_stop m body fin i s h hs hp r hst]
        simp [Chained, h1]
      | next s' =>
        rw [loop_next m body fin i s h hs hp s' hst]
        simp only [Chained, h1, true_and]
        rw [← h2 h s s' hst]
        exact ih (i + 1) s'
    · have hp' : h.provides m = false := by simpa using hp
      rw [loop_skip m body fin i s h hs hp']
      exact ih (i + 1) s

/-- a loop that never returns early returns `fin` of a value whose `inp` is the end of the chain -/
theorem loop_chainEnd (inp : σ → Arg) (nxt : Arg → Out → Arg)
    (h1 : ∀ h s, (body h s).input = inp s)
    (h2 : ∀ h s s', (body h s).step = .next s' → inp s' = nxt (inp s) (body h s).output)
    (hnostop : ∀ h s, ∃ s', (body h s).step = .next s')
    (hs : List Hook) : ∀ (i : Nat) (s : σ), ∃ z, (loop m body fin i s hs).1 = fin z ∧
      inp z = chainEnd nxt (inp s) (loop m body fin i s hs).2 := by
  induction hs with
  | nil => intro i s; exact ⟨s, rfl, rfl⟩
  | cons h hs ih =>
    intro i s
    by_cases hp : h.provides m = true
    · obtain ⟨s', hst⟩ := hnostop h s
      rw [loop_next m body fin i s h hs hp s' hst]
      obtain ⟨z, hz1, hz2⟩ := ih (i + 1) s'
      refine ⟨z, hz1, ?_⟩
      simp only [chainEnd, h1]
      rw [← h2 h s s' hst]; exact hz2
    · have hp' : h.provides m = false := by simpa using hp
      rw [loop_skip m body fin i s h hs hp']
      exact ih (i + 1) s

/-! ### early return -/

/-- `isStop o`: the output `o` of a call makes the loop return.  If the body stops exactly on such outputs,
    only the last call of a trace can have one, and it has one iff the loop returned early. -/
theorem loop_stop_last (isStop : Out → Bool)
    (hiff : ∀ h s, isStop (body h s).output = true ↔ ∃ r, (body h s).step = .stop r)
    (hs : List Hook) : ∀ (i : Nat) (s : σ),
      (∀ c ∈ (loop m body fin i s hs).2.dropLast, isStop c.output = false) := by
  induction hs with
  | nil => intro i s c hc; simp at hc
  | cons h hs ih =>
    intro i s c hc
    by_cases hp : h.provides m = true
    · cases hst : (body h s).step with
      | stop r =>
        rw [loop_stop m body fin i s h hs hp r hst] at hc
        simp at hc
      | next s' =>
        rw [loop_next m body fin i s h hs hp s' hst] at hc
        cases hrest : (loop m body fin (i + 1) s' hs).2 with
        | nil => rw [hrest] at hc; simp at hc
        | cons c' rest =>
          rw [hrest] at hc
          simp only [List.dropLast_cons_cons, List.mem_cons] at hc
          rcases hc with rfl | hc
          · cases hb : isStop (body h s).output with
            | false => rfl
            | true =>
              obtain ⟨r, hr⟩ := (hiff h s).1 hb
              rw [hst] at hr; cases hr
          · have := ih (i + 1) s' c
            rw [hrest] at this
            exact this hc
    · have hp' : h.provides m = false := by simpa using hp
      rw [loop_skip m body fin i s h hs hp'] at hc
      exact ih (i + 1) s c hc

/-- **the two ways a dispatcher ends.**  If the body stops exactly on outputs with `isStop`, then either no
    call had such an output, every providing hook was consulted and the result is `fin` of the end of the chain;
    or the LAST call had such an output, the result is what the body returned there, and no earlier call had one. -/
theorem loop_cases (isStop : Out → Bool)
    (hiff : ∀ h s, isStop (body h s).output = true ↔ ∃ r, (body h s).step = .stop r)
    (inp : σ → Arg) (nxt : Arg → Out → Arg)
    (h1 : ∀ h s, (body h s).input = inp s)
    (h2 : ∀ h s s', (body h s).step = .next s' → inp s' = nxt (inp s) (body h s).output)
    (hs : List Hook) : ∀ (i : Nat) (s : σ),
      ((∀ c ∈ (loop m body fin i s hs).2, isStop c.output = false) ∧
        idxs (loop m body fin i s hs).2 = providersFrom m i hs ∧
        ∃ z, (loop m body fin i s hs).1 = fin z ∧ inp z = chainEnd nxt (inp s) (loop m body fin i s hs).2)
      ∨ (∃ c h s', (loop m body fin i s hs).2.getLast? = some c ∧ isStop c.output = true ∧
          h.provides m = true ∧ hs[c.idx - i]? = some h ∧ i ≤ c.idx ∧
          c.input = (body h s').input ∧ c.output = (body h s').output ∧
          (body h s').step = .stop (loop m body fin i s hs).1 ∧
          ∀ c' ∈ (loop m body fin i s hs).2.dropLast, isStop c'.output = false) := by
  induction hs with
  | nil => intro i s; left; exact ⟨by simp, by simp [idxs, providersFrom], s, rfl, rfl⟩
  | cons h hs ih =>
    intro i s
    by_cases hp : h.provides m = true
    · cases hst : (body h s).step with
      | stop r =>
        right
        rw [loop_stop m body fin i s h hs hp r hst]
        refine ⟨_, h, s, rfl, (hiff h s).2 ⟨r, hst⟩, hp, by simp, Nat.le_refl _, rfl, rfl, hst, by simp⟩
      | next s' =>
        have hns : isStop (body h s).output = false := by
          cases hb : isStop (body h s).output with
          | false => rfl
          | true => obtain ⟨r, hr⟩ := (hiff h s).1 hb; rw [hst] at hr; cases hr
        rw [loop_next m body fin i s h hs hp s' hst]
        rcases ih (i + 1) s' with ⟨hall, hidx, z, hz1, hz2⟩ | ⟨c, h', s'', hlast, hstop, hp', hget, hle, hci, hco, hstep, hpre⟩
        · left
          refine ⟨?_, ?_, z, hz1, ?_⟩
          · intro c hc
            simp only [List.mem_cons] at hc
            rcases hc with rfl | hc
            · exact hns
            · exact hall c hc
          · simp only [idxs, List.map_cons, providersFrom, hp, if_true]
            exact congrArg _ hidx
          · simp only [chainEnd, h1]
            rw [← h2 h s s' hst]; exact hz2
        · right
          refine ⟨c, h', s'', ?_, hstop, hp', ?_, by omega, hci, hco, hstep, ?_⟩
          · cases hrest : (loop m body fin (i + 1) s' hs).2 with
            | nil => rw [hrest] at hlast; simp at hlast
            | cons c0 rest => rw [hrest] at hlast; simpa [List.getLast?_cons_cons] using hlast
          · have : c.idx - i = (c.idx - (i + 1)) + 1 := by omega
            rw [this]; simpa using hget
          · intro c' hc'
            cases hrest : (loop m body fin (i + 1) s' hs).2 with
            | nil => rw [hrest] at hlast; simp at hlast
            | cons c0 rest =>
              rw [hrest] at hc' hpre
              simp only [List.dropLast_cons_cons, List.mem_cons] at hc'
              rcases hc' with rfl | hc'
              · exact hns
              · exact hpre c' hc'
    · have hp' : h.provides m = false := by simpa using hp
      rw [loop_skip m body fin i s h hs hp']
      rcases ih (i + 1) s with ⟨hall, hidx, z, hz1, hz2⟩ | ⟨c, h', s'', hlast, hstop, hq, hget, hle, hci, hco, hstep, hpre⟩
      · left
        exact ⟨hall, by simpa [providersFrom, hp'] using hidx, z, hz1, hz2⟩
      · right
        refine ⟨c, h', s'', hlast, hstop, hq, ?_, by omega, hci, hco, hstep, hpre⟩
        have : c.idx - i = (c.idx - (i + 1)) + 1 := by omega
        rw [this]; simpa using hget

end

/-! ### the individual loop bodies -/

theorem notify_trace (m : Method) (a : Arg) (hs : List Hook) : ∀ i,
    (loop m (notifyBody a) (fun _ => ()) i () hs).2 = (providersFrom m i hs).map (fun j => ⟨j, m, a, .unit⟩) := by
  induction hs with
  | nil => intro i; simp [providersFrom]
  | cons h hs ih =>
    intro i
    by_cases hp : h.provides m = true
    · rw [loop_next m (notifyBody a) _ i () h hs hp () rfl]
      simp [providersFrom, hp, ih (i + 1), notifyBody]
    · have hp' : h.provides m = false := by simpa using hp
      rw [loop_skip m _ _ i () h hs hp']
      simpa [providersFrom, hp'] using ih (i + 1)

theorem any_ret (m : Method) (a : Arg) (ask : Hook → Bool) (hs : List Hook) : ∀ i,
    (loop m (anyBody a ask) (fun _ => false) i () hs).1 = true ↔
      ∃ h ∈ hs, h.provides m = true ∧ ask h = true := by
  induction hs with
  | nil => intro i; simp
  | cons h hs ih =>
    intro i
    by_cases hp : h.provides m = true
    · by_cases ha : ask h = true
      · rw [loop_stop m (anyBody a ask) _ i () h hs hp true (by simp [anyBody, ha])]
        simp only [true_iff]
        exact ⟨h, by simp, hp, ha⟩
      · have ha' : ask h = false := by simpa using ha
        rw [loop_next m (anyBody a ask) _ i () h hs hp () (by simp [anyBody, ha'])]
        simp only [ih (i + 1), List.mem_cons]
        constructor
        · rintro ⟨h', hm, h1, h2⟩; exact ⟨h', Or.inr hm, h1, h2⟩
        · rintro ⟨h', hm | hm, h1, h2⟩
          · subst hm; rw [ha'] at h2; cases h2
          · exact ⟨h', hm, h1, h2⟩
    · have hp' : h.provides m = false := by simpa using hp
      rw [loop_skip m _ _ i () h hs hp']
      simp only [ih (i + 1), List.mem_cons]
      constructor
      · rintro ⟨h', hm, h1, h2⟩; exact ⟨h', Or.inr hm, h1, h2⟩
      · rintro ⟨h', hm | hm, h1, h2⟩
        · subst hm; rw [hp'] at h1; cases h1
        · exact ⟨h', hm, h1, h2⟩

theorem connect_ret (pk : Pkt) (hs : List Hook) : ∀ i,
    (loop .onConnect (connectBody pk) (fun _ => none) i () hs).1 =
      (hs.filter (·.provides .onConnect)).findSome? (·.onConnect pk) := by
  induction hs with
  | nil => intro i; simp
  | cons h hs ih =>
    intro i
    by_cases hp : h.provides .onConnect = true
    · cases he : h.onConnect pk with
      | some e =>
        rw [loop_stop .onConnect (connectBody pk) _ i () h hs hp (some e) (by simp [connectBody, he])]
        simp [List.filter, hp, he]
      | none =>
        rw [loop_next .onConnect (connectBody pk) _ i () h hs hp () (by simp [connectBody, he])]
        simp [List.filter, hp, he, ih (i + 1)]
    · have hp' : h.provides .onConnect = false := by simpa using hp
      rw [loop_skip .onConnect _ _ i () h hs hp']
      simp [List.filter, hp', ih (i + 1)]

theorem stored_ret (m : Method) (get : Hook → Bytes × Option Err) (hs : List Hook) : ∀ i,
    (loop m (storedBody get) (fun _ => ([], none)) i () hs).1 =
      (((hs.filter (·.provides m)).map get).find? storedDecides).getD ([], none) := by
  induction hs with
  | nil => intro i; simp
  | cons h hs ih =>
    intro i
    by_cases hp : h.provides m = true
    · cases he : (get h).2 with
      | some e =>
        rw [loop_stop m (storedBody get) _ i () h hs hp ((get h).1, some e) (by simp [storedBody, he])]
        simp [List.filter, hp, storedDecides, he]
        rw [← he]
      | none =>
        by_cases hl : (get h).1.length > 0
        · rw [loop_stop m (storedBody get) _ i () h hs hp ((get h).1, none) (by simp [storedBody, he, hl])]
          have : storedDecides (get h) = true := by simpa [storedDecides, he] using hl
          simp [List.filter, hp, this]
          rw [← he]
        · rw [loop_next m (storedBody get) _ i () h hs hp () (by simp [storedBody, he, hl])]
          have : storedDecides (get h) = false := by simpa [storedDecides, he] using hl
          simp [List.filter, hp, this, ih (i + 1)]
    · have hp' : h.provides m = false := by simpa using hp
      rw [loop_skip m _ _ i () h hs hp']
      simp [List.filter, hp', ih (i + 1)]

/-- replacing the threading function on the calls that have a successor -/
theorem chained_congr (nxt nxt' : Arg → Out → Arg) : ∀ (t : List Call) (a : Arg),
    (∀ c ∈ t.dropLast, nxt c.input c.output = nxt' c.input c.output) → Chained nxt a t → Chained nxt' a t := by
  intro t
  induction t with
  | nil => intro a _ _; trivial
  | cons c rest ih =>
    intro a hall hch
    cases rest with
    | nil => exact ⟨hch.1, trivial⟩
    | cons c2 rest2 =>
      refine ⟨hch.1, ?_⟩
      have h0 : nxt c.input c.output = nxt' c.input c.output := hall c (by simp)
      rw [← h0]
      apply ih _ _ hch.2
      intro c' hc'
      exact hall c' (by simp only [List.dropLast_cons_cons, List.mem_cons]; exact Or.inr hc')

end Mochi.Hooks
