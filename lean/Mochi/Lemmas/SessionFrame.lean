import Mochi.Lemmas.BrokerFrame
import Mochi.Model.Session
/-! Frame lemmas (`Lemmas/BrokerFrame.lean`) lifted from decoded `InPk`s to decoded packets of any type
(`receiveDecoded`), to the read-loop events and to whole byte chunks (`feed`): whatever bytes arrive on
the connection of client object `i`, the result is related to the start by `Frame i`. -/
namespace Mochi.Session
open Mochi.Codec Mochi.Reader Mochi.Broker Mochi.Topics

theorem failWith_frame (s : Server) (i : Nat) (code : Nat) :
    Frame i s (failWith s i code).1 (failWith s i code).2.1 := by
  unfold failWith
  split
  · split
    rename_i s' o heq
    have := disconnectClient_frame s i code
    rw [heq] at this
    exact this
  · exact Frame.refl i s _

theorem recvSecondConnect_frame (s : Server) (i : Nat) :
    Frame i s (recvSecondConnect s i).1 (recvSecondConnect s i).2.1 := by
  unfold recvSecondConnect
  split
  rename_i s1 o1 h1
  split
  rename_i s2 o2 e h2
  have a := sendLWT_frame s i
  rw [h1] at a
  have b := failWith_frame s1 i 0x82
  rw [h2] at b
  exact (a.nil o1).trans b

theorem recvPublish_frame (s : Server) (i : Nat) (pk : Packet) :
    Frame i s (recvPublish s i pk).1 (recvPublish s i pk).2.1 := by
  unfold recvPublish
  extract_lets +onlyGivenNames fh alias inpk
  split
  · exact receivePacket_frame ..
  · split
    · exact failWith_frame ..
    · exact receivePacket_frame ..

theorem recvSubscribe_frame (s : Server) (i : Nat) (pk : Packet) :
    Frame i s (recvSubscribe s i pk).1 (recvSubscribe s i pk).2.1 := by
  unfold recvSubscribe
  split
  · exact failWith_frame ..
  · exact receivePacket_frame ..

theorem recvUnsubscribe_frame (s : Server) (i : Nat) (pk : Packet) :
    Frame i s (recvUnsubscribe s i pk).1 (recvUnsubscribe s i pk).2.1 := by
  unfold recvUnsubscribe
  split
  · exact failWith_frame ..
  · exact receivePacket_frame ..

theorem recvAuth_frame (s : Server) (i : Nat) (pk : Packet) :
    Frame i s (recvAuth s i pk).1 (recvAuth s i pk).2.1 := by
  unfold recvAuth
  split
  · exact failWith_frame ..
  · split
    rename_i s1 o1 h1
    have := nextImmediate_frame s i
    rw [h1] at this
    exact this.nil o1

/-- `Frame` for a handler result, as one predicate (so that `split` sees a single `if`) -/
def FrameRes (i : Nat) (s : Server) (r : HRes) : Prop := Frame i s r.1 r.2.1

theorem frameRes_ite (i : Nat) (s : Server) (c : Prop) [Decidable c] {a b : HRes}
    (ha : FrameRes i s a) (hb : FrameRes i s b) : FrameRes i s (if c then a else b) := by
  split <;> assumption

theorem receiveDecoded_frameRes (s : Server) (i : Nat) (pk : Packet) : FrameRes i s (receiveDecoded s i pk) := by
  unfold receiveDecoded
  extract_lets +onlyGivenNames t
  refine frameRes_ite i s _ (recvSecondConnect_frame s i) ?_
  refine frameRes_ite i s _ (recvPublish_frame s i pk) ?_
  refine frameRes_ite i s _ (receivePacket_frame s i _) ?_
  refine frameRes_ite i s _ (receivePacket_frame s i _) ?_
  refine frameRes_ite i s _ (receivePacket_frame s i _) ?_
  refine frameRes_ite i s _ (receivePacket_frame s i _) ?_
  refine frameRes_ite i s _ (recvSubscribe_frame s i pk) ?_
  refine frameRes_ite i s _ (recvUnsubscribe_frame s i pk) ?_
  refine frameRes_ite i s _ (receivePacket_frame s i _) ?_
  refine frameRes_ite i s _ (receivePacket_frame s i _) ?_
  refine frameRes_ite i s _ (recvAuth_frame s i pk) ?_
  exact Frame.refl i s _

theorem receiveDecoded_frame (s : Server) (i : Nat) (pk : Packet) :
    Frame i s (receiveDecoded s i pk).1 (receiveDecoded s i pk).2.1 :=
  receiveDecoded_frameRes s i pk

theorem recvDecodedOn_frame (s : Server) (conn : Nat) (pk : Packet) (i : Nat) (hc : assocGet s.connOf conn = some i) :
    Frame i s (recvDecodedOn s conn pk).1 (recvDecodedOn s conn pk).2 := by
  unfold recvDecodedOn
  split
  · exact Frame.refl i s _
  · rename_i i' hc'
    rw [hc] at hc'
    cases hc'
    split
    · exact Frame.refl i s _
    · split
      rename_i s1 o e heq
      have h1 := receiveDecoded_frame s i pk
      rw [heq] at h1
      split
      · split
        rename_i s2 o2 hd
        have := detach_frame s1 i true
        rw [hd] at this
        exact h1.trans this
      · split
        · split
          rename_i s2 o2 hd
          have := detach_frame s1 i false
          rw [hd] at this
          exact h1.trans this
        · exact h1

theorem readErrorOn_frame (s : Server) (conn : Nat) (i : Nat) (hc : assocGet s.connOf conn = some i) :
    Frame i s (readErrorOn s conn).1 (readErrorOn s conn).2 := by
  unfold readErrorOn
  rw [hc]
  simp only []
  split
  · exact Frame.refl i s _
  · exact detach_frame s i true

theorem feedEvents_frame (evs : List ReadEvent) (s : Server) (conn : Nat) (i : Nat)
    (hc : assocGet s.connOf conn = some i) :
    Frame i s (feedEvents s conn evs).1 (feedEvents s conn evs).2 := by
  induction evs generalizing s with
  | nil => exact Frame.refl i s _
  | cons ev rest ih =>
    cases ev with
    | packet pk =>
      simp only [feedEvents]
      have a := recvDecodedOn_frame s conn pk i hc
      exact a.trans (ih _ (by rw [a.connOf]; exact hc))
    | needMore => exact Frame.refl i s _
    | error e => exact readErrorOn_frame s conn i hc

theorem feed_frame (cfg : Cfg) (s : Server) (conn : Nat) (stream : List Nat) (i : Nat)
    (hc : assocGet s.connOf conn = some i) :
    Frame i s (feed cfg s conn stream).1 (feed cfg s conn stream).2 := by
  unfold feed
  rw [hc]
  exact feedEvents_frame _ s conn i hc

end Mochi.Session
