import Mochi.Lemmas.BrokerInv
import Mochi.Lemmas.BrokerFrame
import Mochi.Lemmas.BrokerDelivery
/-!
# C24 over histories: the receiver's view of the outbound topic aliases

`seenBindings outs conn`: what the peer of connection `conn` has learnt from the PUBLISH packets written to it —
the (alias, topic) pairs of the packets that carried BOTH a non-empty topic and an alias, in order.
`AliasSync s outs`: every pair in the outbound alias table of a live client (open, peer present, not inline; Topic
Alias Maximum > 0) is in the view of its connection.  FALSE in general (F24a, F24b — `Props/C24.lean` has the
counterexamples); an invariant of `step` on the class where no delivery is dropped in the op (`info.inflightDropped`
unchanged) and aliased clients have no Receive Maximum (`Calm`: no deferral).

Everything here is in the namespace `Mochi.Broker.A24`.
-/
namespace Mochi.Broker.A24
open Mochi.Topics Mochi.Broker

/-- the binding a written packet teaches the peer of `conn` -/
def pubBinding (conn : Nat) : Out → Option (Nat × Str)
  | .wrote n (.publish _ m _) => if n = conn ∧ 0 < m.alias ∧ m.topic ≠ [] then some (m.alias, m.topic) else none
  | _ => none

/-- the receiver's view: (alias, topic) pairs of the PUBLISH packets written to `conn` with both, in order -/
def seenBindings (outs : List Out) (conn : Nat) : List (Nat × Str) := outs.filterMap (pubBinding conn)

/-- the last binding wins -/
def viewLookup (view : List (Nat × Str)) (a : Nat) : Option Str := (view.reverse.find? (·.1 == a)).map (·.2)

/-- a written PUBLISH names its topic, or carries an alias the view binds -/
def Resolvable (view : List (Nat × Str)) (m : Msg) : Prop :=
  m.topic ≠ [] ∨ (0 < m.alias ∧ (viewLookup view m.alias).isSome = true)

instance (view : List (Nat × Str)) (m : Msg) : Decidable (Resolvable view m) := by
  unfold Resolvable; infer_instance

/-- the client's writes reach a peer -/
def Live (c : Client) : Prop := c.isOpen = true ∧ c.peerGone = false ∧ c.inline = false

instance (c : Client) : Decidable (Live c) := by unfold Live; infer_instance

/-- every (non-empty topic, alias) pair in the outbound table of a live aliased client is in its peer's view -/
def AliasSync (s : Server) (outs : List Out) : Prop :=
  ∀ k, Live (getObj s k) → 0 < (getObj s k).tam → ∀ t a, (t, a) ∈ (getObj s k).aliasOut → t ≠ [] →
    (a, t) ∈ seenBindings outs (getObj s k).conn

/-- the outputs of a whole history -/
def runOuts (s : Server) : List Op → List Out
  | [] => []
  | op :: ops => (step s op).2 ++ runOuts (step s op).1 ops

/-- every PUBLISH in `o` is resolvable in the view accumulated up to and including itself (`pre`: what was written
    before `o`) -/
def ResOuts (pre o : List Out) : Prop :=
  ∀ p q conn ver m me, o = p ++ Out.wrote conn (.publish ver m me) :: q →
    Resolvable (seenBindings (pre ++ p ++ [Out.wrote conn (.publish ver m me)]) conn) m

/-- no aliased client has a Receive Maximum: nothing is ever deferred for it -/
def Calm (c : Client) : Prop := 0 < c.tam → c.maxSend = 0 ∧ c.recvMaxProp = 0

instance (c : Client) : Decidable (Calm c) := by unfold Calm; infer_instance

/-- executable form of `ResOuts`: the (connection, packet) pairs of the PUBLISH packets in `o` that are NOT resolvable
    in the view accumulated up to and including themselves -/
def unresolved (pre : List Out) : List Out → List (Nat × Msg)
  | [] => []
  | x :: xs =>
    (match x with
      | .wrote conn (.publish _ m _) => if Resolvable (seenBindings (pre ++ [x]) conn) m then [] else [(conn, m)]
      | _ => []) ++ unresolved (pre ++ [x]) xs

/-- the class of one op: nothing is dropped (in-flight limit, packet ids exhausted), every client is `Calm` before
    it, and a CONNECT with a Topic Alias Maximum carries no Receive Maximum -/
def OpClass (s : Server) (op : Op) : Prop :=
  (step s op).1.info.inflightDropped = s.info.inflightDropped ∧ (∀ c ∈ s.objs, Calm c) ∧
  (match op with
   | .connect _ k => 0 < k.tam.getD 0 → k.rm.getD 0 = 0
   | .connectHold _ k _ => 0 < k.tam.getD 0 → k.rm.getD 0 = 0
   | _ => True)

instance (s : Server) (op : Op) : Decidable (OpClass s op) := by
  unfold OpClass
  cases op <;> infer_instance

def OpsClass (s : Server) : List Op → Prop
  | [] => True
  | op :: ops => OpClass s op ∧ OpsClass (step s op).1 ops

instance opsClassDec (s : Server) (ops : List Op) : Decidable (OpsClass s ops) :=
  match ops with
  | [] => isTrue trivial
  | op :: ops =>
    match (inferInstance : Decidable (OpClass s op)) with
    | isFalse h => isFalse (fun g => h g.1)
    | isTrue h =>
      match opsClassDec (step s op).1 ops with
      | isFalse g => isFalse (fun g' => g g'.2)
      | isTrue g => isTrue ⟨h, g⟩

theorem seenBindings_append (o1 o2 : List Out) (conn : Nat) :
    seenBindings (o1 ++ o2) conn = seenBindings o1 conn ++ seenBindings o2 conn := by
  simp only [seenBindings, List.filterMap_append]

theorem seenBindings_nil (conn : Nat) : seenBindings [] conn = [] := rfl

theorem viewLookup_isSome {view : List (Nat × Str)} {a : Nat} {t : Str} (h : (a, t) ∈ view) :
    (viewLookup view a).isSome = true := by
  unfold viewLookup
  rw [Option.isSome_map, List.find?_isSome]
  exact ⟨(a, t), List.mem_reverse.mpr h, by simp⟩

theorem seen_mono_left {o1 : List Out} (o2 : List Out) {conn : Nat} {x : Nat × Str} (h : x ∈ seenBindings o1 conn) :
    x ∈ seenBindings (o1 ++ o2) conn := by
  rw [seenBindings_append]; exact List.mem_append_left _ h

theorem seen_mono_right (o1 : List Out) {o2 : List Out} {conn : Nat} {x : Nat × Str} (h : x ∈ seenBindings o2 conn) :
    x ∈ seenBindings (o1 ++ o2) conn := by
  rw [seenBindings_append]; exact List.mem_append_right _ h

theorem assocGet_mem {α β} [DecidableEq α] (m : List (α × β)) (k : α) (v : β) (h : assocGet m k = some v) :
    (k, v) ∈ m := by
  induction m with
  | nil => cases h
  | cons e rest ih =>
    obtain ⟨k', v'⟩ := e
    unfold assocGet at h
    by_cases hk : k' = k
    · rw [if_pos hk] at h
      cases h; subst hk; exact List.mem_cons_self
    · rw [if_neg hk] at h
      exact List.mem_cons_of_mem _ (ih h)

/-! ### `ResOuts` -/

theorem ResOuts.nil (pre : List Out) : ResOuts pre [] := by
  intro p q conn ver m me h
  cases p <;> cases h

theorem ResOuts.append {pre o1 o2 : List Out} (h1 : ResOuts pre o1) (h2 : ResOuts (pre ++ o1) o2) :
    ResOuts pre (o1 ++ o2) := by
  intro p q conn ver m me h
  rcases List.append_eq_append_iff.mp h with ⟨a', ha, hb⟩ | ⟨c', ha, hb⟩
  · -- p = o1 ++ a', o2 = a' ++ x :: q
    have := h2 a' q conn ver m me hb
    rw [ha, ← List.append_assoc]; exact this
  · -- o1 = p ++ c', x :: q = c' ++ o2
    cases c' with
    | nil =>
      have hp : p = o1 := by simpa using ha.symm
      have := h2 [] q conn ver m me (by simpa using hb.symm)
      rw [hp]; simpa using this
    | cons y ys =>
      have hy : y = Out.wrote conn (.publish ver m me) := by
        have := hb; simp only [List.cons_append, List.cons.injEq] at this; exact this.1.symm
      subst hy
      exact h1 p ys conn ver m me ha

/-- outputs without a PUBLISH -/
def NoPub (o : List Out) : Prop := ∀ conn ver m me, Out.wrote conn (.publish ver m me) ∉ o

theorem ResOuts.of_noPub {pre o : List Out} (h : NoPub o) : ResOuts pre o := by
  intro p q conn ver m me e
  exact absurd (e ▸ List.mem_append_right _ List.mem_cons_self) (h conn ver m me)

/-! ### the Hoare-style relation -/

/-- `s'` with outputs `o` results from `s`: the drop counter only grows, `Calm` objects stay `Calm`, and — when nothing
    was dropped and everything was `Calm` — `AliasSync` is carried from any earlier outputs `pre` to `pre ++ o`, every
    PUBLISH of `o` being resolvable where it stands -/
structure AH (s s' : Server) (o : List Out) : Prop where
  mono : s.info.inflightDropped ≤ s'.info.inflightDropped
  calm : (∀ k, Calm (getObj s k)) → ∀ k, Calm (getObj s' k)
  sync : s'.info.inflightDropped = s.info.inflightDropped → (∀ k, Calm (getObj s k)) →
    ∀ pre, AliasSync s pre → AliasSync s' (pre ++ o) ∧ ResOuts pre o

theorem AH.refl (s : Server) : AH s s [] :=
  ⟨Int.le_refl _, fun h => h, fun _ _ pre h => ⟨by rw [List.append_nil]; exact h, ResOuts.nil pre⟩⟩

theorem AH.trans {s s1 s2 : Server} {o1 o2 : List Out} (h : AH s s1 o1) (g : AH s1 s2 o2) : AH s s2 (o1 ++ o2) := by
  refine ⟨Int.le_trans h.mono g.mono, fun x => g.calm (h.calm x), fun hd hc pre hs => ?_⟩
  have e1 : s1.info.inflightDropped = s.info.inflightDropped := by have := h.mono; have := g.mono; omega
  have e2 : s2.info.inflightDropped = s1.info.inflightDropped := by omega
  obtain ⟨a1, r1⟩ := h.sync e1 hc pre hs
  obtain ⟨a2, r2⟩ := g.sync e2 (h.calm hc) (pre ++ o1) a1
  exact ⟨by rw [← List.append_assoc]; exact a2, r1.append r2⟩

/-- client level: nothing the sync depends on changes -/
structure AK (a b : Client) : Prop where
  conn : b.conn = a.conn
  tam : b.tam = a.tam
  aliasOut : b.aliasOut = a.aliasOut
  live : Live b → Live a
  calm : Calm a → Calm b

theorem AK.refl (a : Client) : AK a a := ⟨rfl, rfl, rfl, fun h => h, fun h => h⟩
theorem AK.trans {a b c : Client} (h : AK a b) (g : AK b c) : AK a c :=
  ⟨g.conn.trans h.conn, g.tam.trans h.tam, g.aliasOut.trans h.aliasOut, fun x => h.live (g.live x),
   fun x => g.calm (h.calm x)⟩

/-- server level: the drop counter and every object's sync-relevant fields are kept -/
structure AQ (s s' : Server) : Prop where
  drop : s'.info.inflightDropped = s.info.inflightDropped
  all : ∀ k, AK (getObj s k) (getObj s' k)

theorem AQ.refl (s : Server) : AQ s s := ⟨rfl, fun _ => AK.refl _⟩
theorem AQ.trans {s s1 s2 : Server} (h : AQ s s1) (g : AQ s1 s2) : AQ s s2 :=
  ⟨g.drop.trans h.drop, fun k => (h.all k).trans (g.all k)⟩

theorem AQ.upd {s0 s s' : Server} (h : AQ s0 s) (ho : s'.objs = s.objs)
    (hd : s'.info.inflightDropped = s.info.inflightDropped) : AQ s0 s' :=
  ⟨hd.trans h.drop, fun k => by rw [getObj_of_objs_eq ho k]; exact h.all k⟩

theorem AQ.set {s0 s : Server} (h : AQ s0 s) (i : Nat) (c : Client) (hc : AK (getObj s i) c) :
    AQ s0 (setObj s i c) := by
  refine h.trans ⟨rfl, fun k => ?_⟩
  by_cases hk : k = i
  · subst hk
    rcases getObj_setObj_self_cases s k c with e | e <;> rw [e]
    · exact hc
    · exact AK.refl _
  · rw [getObj_setObj_ne s i k c hk]; exact AK.refl _

theorem AQ.mod {s0 s : Server} (h : AQ s0 s) (i : Nat) (f : Client → Client)
    (hf : AK (getObj s i) (f (getObj s i))) : AQ s0 (modObj s i f) := h.set i _ hf

theorem AQ.sync {s s' : Server} (h : AQ s s') {pre : List Out} (hs : AliasSync s pre) (o : List Out) :
    AliasSync s' (pre ++ o) := by
  intro k hl ht t a hm hne
  have ak := h.all k
  have := hs k (ak.live hl) (by rw [← ak.tam]; exact ht) t a (by rw [← ak.aliasOut]; exact hm) hne
  rw [ak.conn]; exact seen_mono_left o this

/-- a quiet step that writes no PUBLISH -/
theorem AQ.ah {s s' : Server} (h : AQ s s') {o : List Out} (ho : NoPub o) : AH s s' o :=
  ⟨Int.le_of_eq h.drop.symm, fun hc k => (h.all k).calm (hc k),
   fun _ _ pre hs => ⟨h.sync hs o, ResOuts.of_noPub ho⟩⟩

theorem AH.stepQ {s s1 s2 : Server} {o : List Out} (h : AH s s1 o) (g : AQ s1 s2) : AH s s2 o := by
  have := h.trans (g.ah (o := []) (fun _ _ _ _ hm => by cases hm))
  rw [List.append_nil] at this; exact this

/-! ### the core: `publishToClientCore` -/

theorem aliasOutSet_spec (c : Client) (t : Str) :
    (∀ t' al, (t', al) ∈ (aliasOutSet c t).1.aliasOut →
      (t', al) ∈ c.aliasOut ∨ (t' = t ∧ al = (aliasOutSet c t).2.1 ∧ (aliasOutSet c t).2.2 = false ∧ 0 < al)) ∧
    ((aliasOutSet c t).2.2 = true → (t, (aliasOutSet c t).2.1) ∈ c.aliasOut) := by
  unfold aliasOutSet
  by_cases h0 : (c.tam == 0) = true
  · rw [if_pos h0]; exact ⟨fun _ _ h => Or.inl h, fun h => by cases h⟩
  · rw [if_neg h0]
    cases hg : assocGet c.aliasOut t with
    | some a => exact ⟨fun _ _ h => Or.inl h, fun _ => assocGet_mem _ _ _ hg⟩
    | none =>
      by_cases hf : c.aliasCursor + 1 > c.tam
      · simp only [if_pos hf]; exact ⟨fun _ _ h => Or.inl h, fun h => by cases h⟩
      · simp only [if_neg hf]
        refine ⟨fun t' al h => ?_, fun h => by cases h⟩
        rcases List.mem_append.mp h with h | h
        · exact Or.inl h
        · have := List.mem_singleton.mp h
          cases this
          refine Or.inr ⟨?_, ?_, ?_, ?_⟩ <;> first | rfl | trivial | exact Nat.succ_pos _

theorem flSet_aliasOut (c : Client) (m : Msg) : (flSet c m).1.aliasOut = c.aliasOut := by
  unfold flSet; split <;> rfl
theorem decSend_aliasOut (c : Client) : (decSend c).aliasOut = c.aliasOut := by
  unfold decSend; split <;> rfl
theorem flSet_open (c : Client) (m : Msg) : (flSet c m).1.isOpen = c.isOpen ∧ (flSet c m).1.maxSend = c.maxSend := by
  unfold flSet; split <;> exact ⟨rfl, rfl⟩
theorem decSend_open (c : Client) : (decSend c).isOpen = c.isOpen ∧ (decSend c).maxSend = c.maxSend := by
  unfold decSend; split <;> exact ⟨rfl, rfl⟩

theorem live_of_sess {a b : Client} (h : SessEq a b) : Live b → Live a := fun ⟨h1, h2, h3⟩ =>
  ⟨h.isOpen.trans h1, h.peerGone.trans h2, h.inline.trans h3⟩

theorem calm_of_sess {a b : Client} (h : SessEq a b) : Calm a → Calm b := fun x hb => by
  have := x (by rw [h.tam]; exact hb)
  exact ⟨by rw [← h.maxSend]; exact this.1, by rw [← h.recvMaxProp]; exact this.2⟩

/-- what the alias step of `publishToClientCore` yields -/
structure CoreF (c c1 : Client) (pk out1 : Msg) : Prop where
  sess : SessEq c c1
  ty : out1.type = pk.type
  tab : ∀ t al, (t, al) ∈ c1.aliasOut → (t, al) ∈ c.aliasOut ∨ (t = pk.topic ∧ al = out1.alias ∧ out1.topic = pk.topic ∧ 0 < al)
  res : out1.topic = pk.topic ∨ (0 < out1.alias ∧ 0 < c.tam ∧ (pk.topic, out1.alias) ∈ c.aliasOut)

/-- the branches of `publishToClientCore` in which nothing is dropped: what they leave behind -/
theorem core_finish {s s' : Server} {i : Nat} {c1 : Client} {pk out1 : Msg} {o : List Out}
    (F : CoreF (getObj s i) c1 pk out1) (hne : pk.topic ≠ [])
    (hdel : ∀ k, SessEq (getObj s k) (getObj s' k))
    (hother : ∀ k, k ≠ i → getObj s' k = getObj s k)
    (hal : i < s.objs.length → (getObj s' i).aliasOut = c1.aliasOut)
    (hshape : o = [] ∨ (∃ e, o = [Out.event e]) ∨
      (Live (getObj s i) ∧ ∃ ver m me, o = [Out.wrote (getObj s i).conn (.publish ver m me)] ∧
        m.alias = out1.alias ∧ m.topic = out1.topic))
    (hfull : Live (getObj s i) → 0 < (getObj s i).tam → Calm (getObj s i) →
      ∃ ver m me, o = [Out.wrote (getObj s i).conn (.publish ver m me)] ∧ m.alias = out1.alias ∧ m.topic = out1.topic)
    (pre : List Out) (hc : Calm (getObj s i)) (hs : AliasSync s pre) :
    AliasSync s' (pre ++ o) ∧ ResOuts pre o := by
  constructor
  · intro k hl ht t a hm hne'
    by_cases hk : k = i
    · subst hk
      have se := hdel k
      have hl0 := live_of_sess se hl
      have ht0 : 0 < (getObj s k).tam := by rw [se.tam]; exact ht
      have hik : k < s.objs.length := by
        refine Classical.byContradiction fun hlt => ?_
        have : getObj s k = {} := by
          simp only [getObj, List.getD_eq_getElem?_getD]
          rw [List.getElem?_eq_none (Nat.le_of_not_gt hlt)]; rfl
        rw [this] at ht0; exact absurd ht0 (by decide)
      rw [hal hik] at hm
      rw [← se.conn]
      rcases F.tab t a hm with h | ⟨rfl, rfl, ht3, hpos⟩
      · exact seen_mono_left o (hs k hl0 ht0 t a h hne')
      · obtain ⟨ver, m, me, ho, ha, htm⟩ := hfull hl0 ht0 hc
        apply seen_mono_right
        rw [ho]
        have hp : pubBinding (getObj s k).conn (Out.wrote (getObj s k).conn (.publish ver m me)) =
            some (out1.alias, pk.topic) := by
          have ha0 : 0 < m.alias := by rw [ha]; exact hpos
          show (if (getObj s k).conn = (getObj s k).conn ∧ 0 < m.alias ∧ m.topic ≠ [] then some (m.alias, m.topic)
            else none) = _
          rw [if_pos ⟨rfl, ha0, by rw [htm, ht3]; exact hne⟩, ha, htm, ht3]
        simp only [seenBindings, List.filterMap_cons, hp, List.filterMap_nil, List.mem_singleton]
    · rw [hother k hk] at hl ht hm ⊢
      exact seen_mono_left o (hs k hl ht t a hm hne')
  · rcases hshape with rfl | ⟨e, rfl⟩ | ⟨hl0, ver, m, me, rfl, ha, htm⟩
    · exact ResOuts.nil pre
    · exact ResOuts.of_noPub (fun _ _ _ _ hm => by cases List.mem_singleton.mp hm)
    · intro p q conn ver' m' me' e
      have hp : p = [] := by
        cases p with
        | nil => rfl
        | cons y ys => cases ys <;> cases e
      subst hp
      simp only [List.nil_append, List.cons.injEq, Out.wrote.injEq, WPk.publish.injEq] at e
      obtain ⟨⟨rfl, rfl, rfl, rfl⟩, _⟩ := e
      unfold Resolvable
      rcases F.res with h | ⟨h1, h2, h3⟩
      · exact Or.inl (by rw [htm, h]; exact hne)
      · refine Or.inr ⟨by rw [ha]; exact h1, ?_⟩
        have := hs i hl0 h2 pk.topic out1.alias h3 hne
        rw [ha]
        exact viewLookup_isSome (by
          rw [List.append_nil, seenBindings_append]; exact List.mem_append_left _ this)

theorem write_leaf (s s' : Server) (i : Nat) (m : Msg) (hm : m.type = 3)
    (hse : SessEq (getObj s i) (getObj s' i)) :
    (writeMsg s' i m = [] ∨ (Live (getObj s i) ∧
      ∃ ver me, writeMsg s' i m = [Out.wrote (getObj s i).conn (.publish ver m me)])) ∧
    (Live (getObj s i) → ∃ ver me, writeMsg s' i m = [Out.wrote (getObj s i).conn (.publish ver m me)]) := by
  obtain ⟨me, hw⟩ := writeMsg_pub s' i m hm
  rw [← hse.isOpen, ← hse.inline, ← hse.peerGone, ← hse.conn] at hw
  by_cases hl : Live (getObj s i)
  · have : ((getObj s i).isOpen && !(getObj s i).inline && !(getObj s i).peerGone) = true := by
      obtain ⟨h1, h2, h3⟩ := hl; rw [h1, h2, h3]; rfl
    rw [if_pos this] at hw
    exact ⟨Or.inr ⟨hl, _, me, hw⟩, fun _ => ⟨_, me, hw⟩⟩
  · have : ¬ ((getObj s i).isOpen && !(getObj s i).inline && !(getObj s i).peerGone) = true := by
      intro h
      apply hl
      cases h1 : (getObj s i).isOpen <;> cases h2 : (getObj s i).inline <;> cases h3 : (getObj s i).peerGone <;>
        simp_all [Live]
    rw [if_neg this] at hw
    exact ⟨Or.inl hw, fun h => absurd h hl⟩

/-- what a branch of `publishToClientCore` leaves behind -/
def CoreOK (s : Server) (i : Nat) (out1 : Msg) (al : List (Str × Nat)) (s' : Server) (o : List Out) : Prop :=
  s'.info.inflightDropped = s.info.inflightDropped + 1 ∨
  (s'.info.inflightDropped = s.info.inflightDropped ∧ (∀ k, k ≠ i → getObj s' k = getObj s k) ∧
   (i < s.objs.length → (getObj s' i).aliasOut = al) ∧
   (o = [] ∨ (∃ e, o = [Out.event e]) ∨
      (Live (getObj s i) ∧ ∃ ver m me, o = [Out.wrote (getObj s i).conn (.publish ver m me)] ∧
        m.alias = out1.alias ∧ m.topic = out1.topic)) ∧
   (Live (getObj s i) → 0 < (getObj s i).tam → Calm (getObj s i) →
      ∃ ver m me, o = [Out.wrote (getObj s i).conn (.publish ver m me)] ∧ m.alias = out1.alias ∧ m.topic = out1.topic))

theorem getObj_setObj_in (s : Server) (i : Nat) (c : Client) (h : i < s.objs.length) : getObj (setObj s i c) i = c :=
  getObj_setObj_eq s i c h

theorem publishToClientCore_shape (s : Server) (i : Nat) (sub : Sub) (f : Bool) (pk : Msg) (hty : pk.type = 3) :
    ∃ c1 out1, CoreF (getObj s i) c1 pk out1 ∧
      CoreOK s i out1 c1.aliasOut (publishToClientCore s i sub f pk).1 (publishToClientCore s i sub f pk).2 := by
  have hdel := (publishToClientCore_deliv s i sub f pk).all
  generalize hr : publishToClientCore s i sub f pk = r at hdel
  obtain ⟨s', o⟩ := r
  show ∃ c1 out1, CoreF (getObj s i) c1 pk out1 ∧ CoreOK s i out1 c1.aliasOut s' o
  unfold publishToClientCore at hr
  extract_lets c out at hr
  split at hr
  rename_i c1 out1 heq
  have hout : out.type = pk.type ∧ out.topic = pk.topic ∧ out.alias = 0 := ⟨rfl, rfl, rfl⟩
  have F : CoreF c c1 pk out1 := by
    split at heq
    · rename_i htam
      split at heq
      rename_i c' a ex h2
      have h3 := SessEq.aliasOutSet c pk.topic
      have h4 := aliasOutSet_spec c pk.topic
      rw [h2] at h3 h4
      simp only at h4
      split at heq
      · rename_i ha
        cases heq
        refine ⟨h3, hout.1, fun t al hm => ?_, ?_⟩
        · rcases h4.1 t al hm with h | ⟨h5, h6, h7, h8⟩
          · exact Or.inl h
          · refine Or.inr ⟨h5, h6, ?_, h8⟩
            show (if ex = true then [] else out.topic) = pk.topic
            rw [h7]; rfl
        · cases ex with
          | true => exact Or.inr ⟨ha, htam, h4.2 rfl⟩
          | false => exact Or.inl rfl
      · rename_i ha
        cases heq
        refine ⟨h3, hout.1, fun t al hm => ?_, Or.inl rfl⟩
        rcases h4.1 t al hm with h | ⟨_, h6, _, h8⟩
        · exact Or.inl h
        · exact absurd h8 (by rw [h6]; exact ha)
    · cases heq
      exact ⟨SessEq.refl _, hout.1, fun _ _ h => Or.inl h, Or.inl rfl⟩
  clear heq
  refine ⟨c1, out1, F, ?_⟩
  have hty1 : out1.type = 3 := F.ty.trans hty
  extract_lets s1 at hr
  have h1o : ∀ k, k ≠ i → getObj s1 k = getObj s k := fun k hk => getObj_setObj_ne s i k c1 hk
  have h1l : s1.objs.length = s.objs.length := setObj_length s i c1
  split at hr
  · split at hr
    · cases hr; exact Or.inl rfl
    · split at hr
      · cases hr; exact Or.inl rfl
      · rename_i pid _
        extract_lets c2 out2 sentQuota at hr
        split at hr
        rename_i c3 isNew hfl
        extract_lets c4 s2 src s3 at hr
        have hc3 : c3 = (flSet c2 out2).1 := by rw [hfl]
        have hc4a : c4.aliasOut = c1.aliasOut := by
          show (if isNew = true then decSend c3 else c3).aliasOut = _
          split
          · rw [decSend_aliasOut, hc3, flSet_aliasOut]
          · rw [hc3, flSet_aliasOut]
        have hc4o : c4.isOpen = c1.isOpen ∧ c4.maxSend = c1.maxSend := by
          show (if isNew = true then decSend c3 else c3).isOpen = _ ∧ (if isNew = true then decSend c3 else c3).maxSend = _
          split
          · rw [(decSend_open c3).1, (decSend_open c3).2, hc3, (flSet_open c2 out2).1, (flSet_open c2 out2).2]
            exact ⟨rfl, rfl⟩
          · rw [hc3, (flSet_open c2 out2).1, (flSet_open c2 out2).2]; exact ⟨rfl, rfl⟩
        have h3objs : s3.objs = s2.objs := by
          show (if isNew = true then _ else s2).objs = _
          split <;> rfl
        have h3d : s3.info.inflightDropped = s.info.inflightDropped := by
          show (if isNew = true then _ else s2).info.inflightDropped = _
          split <;> rfl
        have h3o : ∀ k, k ≠ i → getObj s3 k = getObj s k := fun k hk => by
          rw [getObj_of_objs_eq h3objs k, getObj_setObj_ne s1 i k c4 hk]; exact h1o k hk
        have h3i : i < s.objs.length → getObj s3 i = c4 := fun hi => by
          rw [getObj_of_objs_eq h3objs i]; exact getObj_setObj_in s1 i c4 (by rw [h1l]; exact hi)
        have hty2 : out2.type = 3 := hty1
        split at hr
        · rename_i hdefer
          cases hr
          refine Or.inr ⟨h3d, fun k hk => ?_, fun hi => ?_, Or.inl rfl, fun hl ht hcalm => ?_⟩
          · rw [getObj_setObj_ne s3 i k _ hk]; exact h3o k hk
          · rw [getObj_setObj_in s3 i _ (by rw [h3objs]; show (setObj s1 i c4).objs.length > i; rw [setObj_length, h1l]; exact hi),
              flSet_aliasOut]
            exact hc4a
          · exfalso
            have hm : c4.maxSend = 0 := by rw [hc4o.2, ← F.sess.maxSend]; exact (hcalm ht).1
            rw [hm] at hdefer
            simp at hdefer
        · split at hr
          · rename_i hclosed
            obtain ⟨rfl, rfl⟩ := Prod.mk.inj hr
            refine Or.inr ⟨h3d, h3o, fun hi => by rw [h3i hi]; exact hc4a, Or.inl rfl, fun hl _ _ => ?_⟩
            exfalso
            have : c4.isOpen = true := by rw [hc4o.1, ← F.sess.isOpen]; exact hl.1
            rw [this] at hclosed; simp at hclosed
          · obtain ⟨rfl, rfl⟩ := Prod.mk.inj hr
            obtain ⟨w1, w2⟩ := write_leaf s s3 i out2 hty2 (hdel i)
            refine Or.inr ⟨h3d, h3o, fun hi => by rw [h3i hi]; exact hc4a, ?_, fun hl _ _ => ?_⟩
            · rcases w1 with w | ⟨hl, ver, me, w⟩
              · exact Or.inl w
              · exact Or.inr (Or.inr ⟨hl, ver, out2, me, w, rfl, rfl⟩)
            · obtain ⟨ver, me, w⟩ := w2 hl
              exact ⟨ver, out2, me, w, rfl, rfl⟩
  · split at hr
    · rename_i hclosed
      obtain ⟨rfl, rfl⟩ := Prod.mk.inj hr
      refine Or.inr ⟨rfl, h1o, fun hi => by rw [getObj_setObj_in s i c1 hi], Or.inl rfl, fun hl _ _ => ?_⟩
      exfalso
      have : c1.isOpen = true := by rw [← F.sess.isOpen]; exact hl.1
      rw [this] at hclosed; simp at hclosed
    · obtain ⟨rfl, rfl⟩ := Prod.mk.inj hr
      obtain ⟨w1, w2⟩ := write_leaf s s1 i out1 hty1 (hdel i)
      refine Or.inr ⟨rfl, h1o, fun hi => by rw [getObj_setObj_in s i c1 hi], ?_, fun hl _ _ => ?_⟩
      · rcases w1 with w | ⟨hl, ver, me, w⟩
        · exact Or.inl w
        · exact Or.inr (Or.inr ⟨hl, ver, out1, me, w, rfl, rfl⟩)
      · obtain ⟨ver, me, w⟩ := w2 hl
        exact ⟨ver, out1, me, w, rfl, rfl⟩

/-- the core: one delivery of a PUBLISH with a non-empty topic -/
theorem publishToClientCore_ah (s : Server) (i : Nat) (sub : Sub) (f : Bool) (pk : Msg)
    (hty : pk.type = 3) (hne : pk.topic ≠ []) :
    AH s (publishToClientCore s i sub f pk).1 (publishToClientCore s i sub f pk).2 := by
  obtain ⟨c1, out1, F, hk⟩ := publishToClientCore_shape s i sub f pk hty
  have hdel := (publishToClientCore_deliv s i sub f pk).all
  refine ⟨?_, fun hc k => calm_of_sess (hdel k) (hc k), fun hd hc pre hs => ?_⟩
  · rcases hk with h | ⟨h, _⟩ <;> omega
  · rcases hk with h | ⟨_, h2, h3, h4, h5⟩
    · omega
    · exact core_finish F hne hdel h2 h3 h4 h5 pre (hc i) hs

theorem publishToClient_ah (s : Server) (i : Nat) (sub : Sub) (f : Bool) (pk : Msg)
    (hty : pk.type = 3) (hne : pk.topic ≠ []) :
    AH s (publishToClient s i sub f pk).1 (publishToClient s i sub f pk).2 := by
  unfold publishToClient
  split
  · exact AH.refl s
  · split
    · exact AH.refl s
    · exact publishToClientCore_ah s i sub f pk hty hne

theorem noPub_inline (l : List (Nat × Sub)) (t p : Str) :
    NoPub (l.map fun (x : Nat × Sub) => Out.inline x.1 t p) := by
  intro conn ver m me hm
  obtain ⟨x, _, hx⟩ := List.mem_map.mp hm
  cases hx

theorem publishToSubscribers_ah (s : Server) (pk : Msg) (hty : pk.type = 3) (hne : pk.topic ≠ []) :
    AH s (publishToSubscribers s pk).1 (publishToSubscribers s pk).2 := by
  unfold publishToSubscribers
  split
  · exact AH.refl s
  · extract_lets e pk' r subsMap inl
    have hty' : pk'.type = 3 := by
      show (if _ then _ else pk).type = 3
      split
      · show (if _ then _ else pk).type = 3
        split <;> exact hty
      · exact hty
    have hne' : pk'.topic ≠ [] := by
      show (if _ then _ else pk).topic ≠ []
      split
      · show (if _ then _ else pk).topic ≠ []
        split <;> exact hne
      · exact hne
    have h0 : AH s s inl := (AQ.refl s).ah (by
      intro conn ver m me hm
      obtain ⟨x, _, hx⟩ := List.mem_map.mp hm
      cases hx)
    refine foldl_inv (fun (acc : Server × List Out) => AH s acc.1 acc.2) _ _ _ h0 ?_
    intro acc cs h
    split
    · exact h
    · rename_i k _
      split
      rename_i s' o heq
      have := publishToClient_ah acc.1 k cs.2 false pk' hty' hne'
      rw [heq] at this
      exact h.trans this

end Mochi.Broker.A24
