import Mochi.Lemmas.BrokerInv
import Mochi.Lemmas.BrokerFrame
/-!
# C24 over histories: the receiver's view of the outbound topic aliases

`seenBindings outs conn`: what the peer of connection `conn` has learnt from the PUBLISH packets written to it —
the (alias, topic) pairs of the packets that carried BOTH a non-empty topic and an alias, in order.
`AliasSync s outs`: every pair in the outbound alias table of a live client (open, peer present, not inline; Topic
Alias Maximum > 0) is in the view of its connection.  FALSE in general (F24a, F24b — `Props/C24.lean` has the
counterexamples); an invariant of `step` on the class where no delivery is dropped in the op (`info.inflightDropped`
unchanged) and aliased clients have no Receive Maximum (`Calm`: no deferral).

Everything here is in the namespace `Mochi.Broker.A24`.
-/
namespace Mochi.Broker.A24
open Mochi.Topics Mochi.Broker

/-- the binding a written packet teaches the peer of `conn` -/
def pubBinding (conn : Nat) : Out → Option (Nat × Str)
  | .wrote n (.publish _ m _) => if n = conn ∧ 0 < m.alias ∧ m.topic ≠ [] then some (m.alias, m.topic) else none
  | _ => none

/-- the receiver's view: (alias, topic) pairs of the PUBLISH packets written to `conn` with both, in order -/
def seenBindings (outs : List Out) (conn : Nat) : List (Nat × Str) := outs.filterMap (pubBinding conn)

/-- the last binding wins -/
def viewLookup (view : List (Nat × Str)) (a : Nat) : Option Str := (view.reverse.find? (·.1 == a)).map (·.2)

/-- a written PUBLISH names its topic, or carries an alias the view binds -/
def Resolvable (view : List (Nat × Str)) (m : Msg) : Prop :=
  m.topic ≠ [] ∨ (0 < m.alias ∧ (viewLookup view m.alias).isSome = true)

instance (view : List (Nat × Str)) (m : Msg) : Decidable (Resolvable view m) := by
  unfold Resolvable; infer_instance

/-- the client's writes reach a peer -/
def Live (c : Client) : Prop := c.isOpen = true ∧ c.peerGone = false ∧ c.inline = false

instance (c : Client) : Decidable (Live c) := by unfold Live; infer_instance

/-- every (non-empty topic, alias) pair in the outbound table of a live aliased client is in its peer's view -/
def AliasSync (s : Server) (outs : List Out) : Prop :=
  ∀ k, Live (getObj s k) → 0 < (getObj s k).tam → ∀ t a, (t, a) ∈ (getObj s k).aliasOut → t ≠ [] →
    (a, t) ∈ seenBindings outs (getObj s k).conn

/-- the outputs of a whole history -/
def runOuts (s : Server) : List Op → List Out
  | [] => []
  | op :: ops => (step s op).2 ++ runOuts (step s op).1 ops

/-- every PUBLISH in `o` is resolvable in the view accumulated up to and including itself (`pre`: what was written
    before `o`) -/
def ResOuts (pre o : List Out) : Prop :=
  ∀ p q conn ver m me, o = p ++ Out.wrote conn (.publish ver m me) :: q →
    Resolvable (seenBindings (pre ++ p ++ [Out.wrote conn (.publish ver m me)]) conn) m

/-- no aliased client has a Receive Maximum: nothing is ever deferred for it -/
def Calm (c : Client) : Prop := 0 < c.tam → c.maxSend = 0 ∧ c.recvMaxProp = 0

instance (c : Client) : Decidable (Calm c) := by unfold Calm; infer_instance

/-- executable form of `ResOuts`: the (connection, packet) pairs of the PUBLISH packets in `o` that are NOT resolvable
    in the view accumulated up to and including themselves -/
def unresolved (pre : List Out) : List Out → List (Nat × Msg)
  | [] => []
  | x :: xs =>
    (match x with
      | .wrote conn (.publish _ m _) => if Resolvable (seenBindings (pre ++ [x]) conn) m then [] else [(conn, m)]
      | _ => []) ++ unresolved (pre ++ [x]) xs

/-- the class of one op: nothing is dropped (in-flight limit, packet ids exhausted), every client is `Calm` before
    it, and a CONNECT with a Topic Alias Maximum carries no Receive Maximum -/
def OpClass (s : Server) (op : Op) : Prop :=
  (step s op).1.info.inflightDropped = s.info.inflightDropped ∧ (∀ c ∈ s.objs, Calm c) ∧
  (match op with
   | .connect _ k => 0 < k.tam.getD 0 → k.rm.getD 0 = 0
   | .connectHold _ k _ => 0 < k.tam.getD 0 → k.rm.getD 0 = 0
   | _ => True)

instance (s : Server) (op : Op) : Decidable (OpClass s op) := by
  unfold OpClass
  cases op <;> infer_instance

def OpsClass (s : Server) : List Op → Prop
  | [] => True
  | op :: ops => OpClass s op ∧ OpsClass (step s op).1 ops

instance opsClassDec (s : Server) (ops : List Op) : Decidable (OpsClass s ops) :=
  match ops with
  | [] => isTrue trivial
  | op :: ops =>
    match (inferInstance : Decidable (OpClass s op)) with
    | isFalse h => isFalse (fun g => h g.1)
    | isTrue h =>
      match opsClassDec (step s op).1 ops with
      | isFalse g => isFalse (fun g' => g g'.2)
      | isTrue g => isTrue ⟨h, g⟩

theorem seenBindings_append (o1 o2 : List Out) (conn : Nat) :
    seenBindings (o1 ++ o2) conn = seenBindings o1 conn ++ seenBindings o2 conn := by
  simp only [seenBindings, List.filterMap_append]

theorem seenBindings_nil (conn : Nat) : seenBindings [] conn = [] := rfl

theorem viewLookup_isSome {view : List (Nat × Str)} {a : Nat} {t : Str} (h : (a, t) ∈ view) :
    (viewLookup view a).isSome = true := by
  unfold viewLookup
  rw [Option.isSome_map, List.find?_isSome]
  exact ⟨(a, t), List.mem_reverse.mpr h, by simp⟩

end Mochi.Broker.A24
