import Mochi.Model.Storage
/-!
Helper lemmas for C20–C22: the *logical* store. Every backend's physical key is `enc hashed ⟨kind, suffix⟩`
of a backend-independent logical key; the hook bodies differ only in three behavioural facts. The physical
run of a backend is the image of the logical run under the (injective) key encoding, and the read-back
modulo the `id` field (which holds the physical key string) is a function of the logical store alone.
-/
namespace Mochi.Storage

/-- backend-independent key: the kind and the string the key functions append -/
structure LKey where
  kind : Kind
  suffix : Str
deriving DecidableEq, Repr

/-- the key encoding of the single-keyspace engines (`hashed = false`) and of redis (`hashed = true`) -/
def enc (hashed : Bool) (k : LKey) : PKey :=
  match k.kind with
  | .sys => if hashed then ⟨hPrefix ++ SYS, SYS ++ k.suffix⟩ else ⟨[], SYS ++ k.suffix⟩
  | kind => if hashed then ⟨hPrefix ++ kind.name, k.suffix⟩ else ⟨[], kind.name ++ us :: k.suffix⟩

/-- the behavioural facts of a backend (everything but where the keys live) -/
structure Facts where
  disconnectRewrites : Bool
  storesPacketId : Bool
  takeoverByIs : Bool
deriving DecidableEq, Repr

def Backend.facts (b : Backend) : Facts := ⟨b.disconnectRewrites, b.storesPacketId, b.takeoverByIs⟩

@[simp] theorem Backend.facts_disconnectRewrites (b : Backend) : b.facts.disconnectRewrites = b.disconnectRewrites := rfl
@[simp] theorem Backend.facts_storesPacketId (b : Backend) : b.facts.storesPacketId = b.storesPacketId := rfl
@[simp] theorem Backend.facts_takeoverByIs (b : Backend) : b.facts.takeoverByIs = b.takeoverByIs := rfl

inductive LWrite where
  | set (k : LKey) (r : Record)
  | del (k : LKey)
deriving DecidableEq, Repr

/-- the `ID` field of subscriptions and messages holds the physical key string -/
def withId (r : Record) (id : Str) : Record :=
  match r with
  | .sub s => .sub { s with id := id }
  | .msg m => .msg { m with id := id }
  | r => r

def encW (h : Bool) : LWrite → Write
  | .set k r => .set (enc h k) (withId r (enc h k).key)
  | .del k => .del (enc h k)

abbrev LKV := List (LKey × Record)

def encE (h : Bool) (e : LKey × Record) : PKey × Record := (enc h e.1, withId e.2 (enc h e.1).key)

def LKV.set (kv : LKV) (k : LKey) (r : Record) : LKV := (k, r) :: kv.filter (fun e => e.1 != k)
def LKV.del (kv : LKV) (k : LKey) : LKV := kv.filter (fun e => e.1 != k)

def applyLWrite (kv : LKV) : LWrite → LKV
  | .set k r => kv.set k r
  | .del k => kv.del k

def applyLWrites (kv : LKV) (ws : List LWrite) : LKV := ws.foldl applyLWrite kv

def lClient (id : Str) : LKey := ⟨.client, id⟩
def lSub (id filter : Str) : LKey := ⟨.sub, id ++ colon :: filter⟩
def lRet (topic : Str) : LKey := ⟨.retained, topic⟩
def lIfl (id : Str) (pid : Nat) : LKey := ⟨.inflight, id ++ colon :: formatID pid⟩
def lSys : LKey := ⟨.sys, []⟩

def isTakenOverF (f : Facts) : StopCause → Bool
  | .takenOver => true
  | .wrappedTakenOver => f.takeoverByIs
  | _ => false

/-- the hook events over logical keys (records carry no `id`) -/
def interpL (f : Facts) : Event → List LWrite
  | .established cl => [.set (lClient cl.id) (.client (clientRecord cl))]
  | .willSent cl => [.set (lClient cl.id) (.client (clientRecord cl))]
  | .clientExpired cl => [.del (lClient cl.id)]
  | .disconnect cl expire =>
    (if f.disconnectRewrites then [.set (lClient cl.id) (.client (clientRecord cl))] else []) ++
    (if !expire then [] else if isTakenOverF f cl.stop then [] else [.del (lClient cl.id)])
  | .subscribed cl fs codes =>
    (fs.zip codes).map fun fc => .set (lSub cl.id fc.1.filter)
      (.sub { id := [], t := SUB, client := cl.id, qos := fc.2, filter := fc.1.filter, ident := fc.1.ident, nl := fc.1.nl,
              rh := fc.1.rh, rap := fc.1.rap })
  | .unsubscribed cl fs => fs.map fun f => .del (lSub cl.id f.filter)
  | .retain cl pk del =>
    if del then [.del (lRet pk.topic)] else [.set (lRet pk.topic) (.msg (msgRecord ⟨[], []⟩ RET cl pk 0 0))]
  | .retainedExpired topic => [.del (lRet topic)]
  | .qosPublish cl pk sent _ =>
    [.set (lIfl cl.id pk.pid) (.msg (msgRecord ⟨[], []⟩ IFM cl pk sent (if f.storesPacketId then pk.pid else 0)))]
  | .qosComplete cl pk => [.del (lIfl cl.id pk.pid)]
  | .qosDropped cl pk => [.del (lIfl cl.id pk.pid)]
  | .sysInfo info => [.set lSys (.sys { id := SYS, t := SYS, info := info })]

def stepL (f : Facts) (kv : LKV) (e : Event) : LKV := applyLWrites kv (interpL f e)
def runL (f : Facts) (evs : List Event) : LKV := evs.foldl (stepL f) []

/-! ### the key functions are the encoding of the logical keys -/

theorem clientKey_enc (b : Backend) (id : Str) : clientKey b id = enc b.hashed (lClient id) := by
  unfold clientKey enc lClient; cases b.hashed <;> simp [Kind.name]

theorem subscriptionKey_enc (b : Backend) (id f : Str) : subscriptionKey b id f = enc b.hashed (lSub id f) := by
  unfold subscriptionKey enc lSub; cases b.hashed <;> simp [Kind.name]

theorem retainedKey_enc (b : Backend) (t : Str) : retainedKey b t = enc b.hashed (lRet t) := by
  unfold retainedKey enc lRet; cases b.hashed <;> simp [Kind.name]

theorem inflightKey_enc (b : Backend) (id : Str) (pid : Nat) : inflightKey b id pid = enc b.hashed (lIfl id pid) := by
  unfold inflightKey enc lIfl; cases b.hashed <;> simp [Kind.name]

theorem sysInfoKey_enc (b : Backend) : sysInfoKey b = enc b.hashed lSys := by
  unfold sysInfoKey enc lSys; cases b.hashed <;> simp

theorem Kind.name_injective {a b : Kind} (h : a.name = b.name) : a = b := by
  cases a <;> cases b <;> simp [Kind.name, CL, SUB, RET, IFM, SYS] at h <;> rfl

/-- **the key encoding is injective** on logical keys (for both namespace layouts) -/
theorem enc_injective (h : Bool) {k1 k2 : LKey} (he : enc h k1 = enc h k2) : k1 = k2 := by
  obtain ⟨kd1, s1⟩ := k1
  obtain ⟨kd2, s2⟩ := k2
  cases h <;> cases kd1 <;> cases kd2 <;>
    simp [enc, Kind.name, CL, SUB, RET, IFM, SYS, us, hPrefix] at he ⊢ <;> simp_all

theorem enc_bne (h : Bool) (a k : LKey) : (enc h a != enc h k) = (a != k) := by
  by_cases hk : a = k
  · subst hk; simp
  · have hne : enc h a ≠ enc h k := fun he => hk (enc_injective h he)
    rw [bne_iff_ne.mpr hk, bne_iff_ne.mpr hne]

/-- the scan of a kind selects exactly the keys of that kind -/
theorem scans_enc (b : Backend) (kind : Kind) (k : LKey) : scans b kind (enc b.hashed k) = (k.kind == kind) := by
  obtain ⟨kd, s⟩ := k
  unfold scans
  cases b.hashed <;> cases kd <;> cases kind <;>
    simp [enc, Kind.name, CL, SUB, RET, IFM, SYS, us, hPrefix, List.isPrefixOf]

/-! ### a backend's run is the encoded logical run -/

theorem isTakenOver_facts (b : Backend) (c : StopCause) : isTakenOver b c = isTakenOverF b.facts c := by
  cases c <;> rfl

theorem interp_enc (b : Backend) (e : Event) : interp b e = (interpL b.facts e).map (encW b.hashed) := by
  cases e with
  | established cl => simp [interp, interpL, updateClient, encW, clientKey_enc, withId]
  | willSent cl => simp [interp, interpL, updateClient, encW, clientKey_enc, withId]
  | clientExpired cl => simp [interp, interpL, encW, clientKey_enc]
  | disconnect cl expire =>
    simp only [interp, interpL, onDisconnect, updateClient, isTakenOver_facts, Backend.facts_disconnectRewrites, clientKey_enc,
      List.map_append]
    congr 1
    · by_cases hd : b.disconnectRewrites = true <;> simp [hd, encW, withId]
    · cases expire
      · simp
      · by_cases ht : isTakenOverF b.facts cl.stop = true <;> simp [ht, encW]
  | subscribed cl fs codes =>
    simp only [interp, interpL, onSubscribed, List.map_map]
    apply List.map_congr_left
    intro fc _
    simp [encW, subRecord, subscriptionKey_enc, withId]
  | unsubscribed cl fs =>
    simp only [interp, interpL, onUnsubscribed, List.map_map]
    apply List.map_congr_left
    intro f _
    simp [encW, subscriptionKey_enc]
  | retain cl pk del =>
    cases del <;> simp [interp, interpL, onRetainMessage, encW, retainedKey_enc, withId, msgRecord]
  | retainedExpired topic => simp [interp, interpL, encW, retainedKey_enc]
  | qosPublish cl pk sent resends =>
    by_cases hs : b.storesPacketId = true <;>
      simp [interp, interpL, onQosPublish, encW, inflightKey_enc, withId, msgRecord, hs]
  | qosComplete cl pk => simp [interp, interpL, onQosComplete, encW, inflightKey_enc]
  | qosDropped cl pk => simp [interp, interpL, onQosComplete, encW, inflightKey_enc]
  | sysInfo info => simp [interp, interpL, onSysInfoTick, encW, sysInfoKey_enc, withId]

theorem filter_bne_map (h : Bool) (L : LKV) (k : LKey) :
    (L.filter (fun e => e.1 != k)).map (encE h) = (L.map (encE h)).filter (fun e => e.1 != enc h k) := by
  induction L with
  | nil => rfl
  | cons x xs ih =>
    simp only [List.filter_cons, List.map_cons]
    have : ((encE h x).1 != enc h k) = (x.1 != k) := enc_bne h x.1 k
    rw [this]
    cases hx : (x.1 != k) <;> simp [ih]

theorem applyWrite_enc (h : Bool) (L : LKV) (w : LWrite) :
    applyWrite (L.map (encE h)) (encW h w) = (applyLWrite L w).map (encE h) := by
  cases w with
  | set k r => simp [applyWrite, applyLWrite, encW, KV.set, LKV.set, filter_bne_map, encE]
  | del k => simp [applyWrite, applyLWrite, encW, KV.del, LKV.del, filter_bne_map]

theorem applyWrites_enc (h : Bool) (L : LKV) (ws : List LWrite) :
    applyWrites (L.map (encE h)) (ws.map (encW h)) = (applyLWrites L ws).map (encE h) := by
  induction ws generalizing L with
  | nil => rfl
  | cons w ws ih =>
    simp only [applyWrites, applyLWrites, List.map_cons, List.foldl_cons] at ih ⊢
    rw [applyWrite_enc]; exact ih _

theorem step_enc (b : Backend) (L : LKV) (e : Event) :
    step b (L.map (encE b.hashed)) e = (stepL b.facts L e).map (encE b.hashed) := by
  unfold step stepL; rw [interp_enc, applyWrites_enc]

theorem foldl_step_enc (b : Backend) (L : LKV) (evs : List Event) :
    evs.foldl (step b) (L.map (encE b.hashed)) = (evs.foldl (stepL b.facts) L).map (encE b.hashed) := by
  induction evs generalizing L with
  | nil => rfl
  | cons e es ih => simp only [List.foldl_cons]; rw [step_enc]; exact ih _

/-- the physical store of a backend is the encoding of the logical store of its facts -/
theorem run_enc (b : Backend) (evs : List Event) : run b evs = (runL b.facts evs).map (encE b.hashed) := by
  unfold run runL; exact foldl_step_enc b [] evs

/-! ### read-back modulo ids is a function of the logical store -/

def SubRec.eraseId (s : SubRec) : SubRec := { s with id := [] }
def MsgRec.eraseId (m : MsgRec) : MsgRec := { m with id := [] }

/-- forget the `id` fields that hold the physical key string -/
def ReadBack.eraseIds (r : ReadBack) : ReadBack :=
  { r with subs := r.subs.map SubRec.eraseId, retained := r.retained.map MsgRec.eraseId, inflight := r.inflight.map MsgRec.eraseId }

def readbackL (L : LKV) : ReadBack :=
  { clients := L.filterMap fun e => if e.1.kind == .client then e.2.asClient else none
    subs := L.filterMap fun e => if e.1.kind == .sub then e.2.asSub.map SubRec.eraseId else none
    retained := L.filterMap fun e => if e.1.kind == .retained then e.2.asMsg.map MsgRec.eraseId else none
    inflight := L.filterMap fun e => if e.1.kind == .inflight then e.2.asMsg.map MsgRec.eraseId else none
    sys := match L.find? (fun e => e.1 == lSys) with
      | some (_, .sys y) => y
      | _ => {} }

theorem asClient_withId (r : Record) (x : Str) : (withId r x).asClient = r.asClient := by
  cases r <;> rfl

theorem asSub_withId (r : Record) (x : Str) : ((withId r x).asSub).map SubRec.eraseId = r.asSub.map SubRec.eraseId := by
  cases r <;> simp [withId, Record.asSub, SubRec.eraseId]

theorem asMsg_withId (r : Record) (x : Str) : ((withId r x).asMsg).map MsgRec.eraseId = r.asMsg.map MsgRec.eraseId := by
  cases r <;> simp [withId, Record.asMsg, MsgRec.eraseId]

theorem storedSys_enc (b : Backend) (L : LKV) :
    storedSysInfo b (L.map (encE b.hashed)) = (readbackL L).sys := by
  unfold storedSysInfo readbackL
  rw [sysInfoKey_enc, List.find?_map]
  have hp : ((fun e : PKey × Record => e.1 == enc b.hashed lSys) ∘ encE b.hashed) = (fun e : LKey × Record => e.1 == lSys) := by
    funext e
    have := enc_bne b.hashed e.1 lSys
    simp only [Function.comp, encE]
    have h2 : (enc b.hashed e.1 == enc b.hashed lSys) = (e.1 == lSys) := by
      have := congrArg not this
      simpa [bne] using this
    exact h2
  rw [hp]
  cases hf : L.find? (fun e => e.1 == lSys) with
  | none => rfl
  | some e =>
    obtain ⟨k, r⟩ := e
    cases r <;> simp [encE, withId]

theorem storedClients_enc (b : Backend) (L : LKV) :
    storedClients b (L.map (encE b.hashed)) = (readbackL L).clients := by
  unfold storedClients readbackL
  rw [List.filterMap_map]
  congr 1; funext e
  simp only [Function.comp, encE, scans_enc, asClient_withId]

theorem storedSubscriptions_enc (b : Backend) (L : LKV) :
    (storedSubscriptions b (L.map (encE b.hashed))).map SubRec.eraseId = (readbackL L).subs := by
  unfold storedSubscriptions readbackL
  rw [List.filterMap_map, List.map_filterMap]
  congr 1; funext e
  simp only [Function.comp, encE, scans_enc]
  split <;> simp [asSub_withId]

theorem storedRetained_enc (b : Backend) (L : LKV) :
    (storedRetained b (L.map (encE b.hashed))).map MsgRec.eraseId = (readbackL L).retained := by
  unfold storedRetained readbackL
  rw [List.filterMap_map, List.map_filterMap]
  congr 1; funext e
  simp only [Function.comp, encE, scans_enc]
  split <;> simp [asMsg_withId]

theorem storedInflight_enc (b : Backend) (L : LKV) :
    (storedInflight b (L.map (encE b.hashed))).map MsgRec.eraseId = (readbackL L).inflight := by
  unfold storedInflight readbackL
  rw [List.filterMap_map, List.map_filterMap]
  congr 1; funext e
  simp only [Function.comp, encE, scans_enc]
  split <;> simp [asMsg_withId]

/-- **read-back of a backend, modulo the key-holding `id` fields, is the logical read-back** -/
theorem readback_enc (b : Backend) (L : LKV) : (readback b (L.map (encE b.hashed))).eraseIds = readbackL L := by
  have h1 := storedClients_enc b L
  have h2 := storedSubscriptions_enc b L
  have h3 := storedRetained_enc b L
  have h4 := storedInflight_enc b L
  have h5 := storedSys_enc b L
  cases hr : readbackL L
  simp only [hr] at h1 h2 h3 h4 h5
  simp only [readback, ReadBack.eraseIds, h1, h2, h3, h4, h5]

/-- what a backend returns after any events, modulo ids, depends on its facts alone -/
theorem readback_logical (b : Backend) (evs : List Event) :
    (readback b (run b evs)).eraseIds = readbackL (runL b.facts evs) := by
  rw [run_enc, readback_enc]

theorem runL_congr (f g : Facts) (evs : List Event) (h : ∀ e ∈ evs, interpL f e = interpL g e) : runL f evs = runL g evs := by
  unfold runL
  generalize ([] : LKV) = L
  induction evs generalizing L with
  | nil => rfl
  | cons e es ih =>
    simp only [List.foldl_cons]
    have he : stepL f L e = stepL g L e := by unfold stepL; rw [h e (by simp)]
    rw [he]
    exact ih (fun e' he' => h e' (by simp [he'])) _

theorem run_congr (a b : Backend) (evs : List Event) (h : ∀ e ∈ evs, interp a e = interp b e) : run a evs = run b evs := by
  unfold run
  generalize ([] : KV) = L
  induction evs generalizing L with
  | nil => rfl
  | cons e es ih =>
    simp only [List.foldl_cons]
    have he : step a L e = step b L e := by unfold step; rw [h e (by simp)]
    rw [he]
    exact ih (fun e' he' => h e' (by simp [he'])) _

end Mochi.Storage
