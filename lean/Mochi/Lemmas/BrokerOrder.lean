import Mochi.Props.C03
/-!
# C12, history level: first transmissions follow publish order (everything outside F12)

`trace s ops` is the history's output, op by op; `flat s ops` its concatenation (what the connections see, in
order).  Two facts make the positive half of C12:

* **structure** (`flat_split`, any state, any ops — schedule ops included): the outputs of op `i` precede the
  outputs of op `j` whenever `i < j`;
* **the first transmission is written in the publishing step** (`publish_q0_stream`, reachable states): an accepted
  publish writes connection `c` exactly one PUBLISH — the copy of the message — when `c` is served
  (`Q1.ServedVia`: entitled, and the copy is QoS 0 or the delivery is in case (d) "sent": not dropped, not
  DEFERRED), and none otherwise.

Deferred deliveries (released later by `nextImmediate`) and resends after resumption are NOT covered: they are the
recorded finding F12 (`C12_deferred_release_counterexample`, `C12_resend_counterexample`).
All declarations live in `Mochi.Broker.O12`.
-/
namespace Mochi.Broker.O12
open Mochi.Topics Mochi.Broker

/-! ### the trace of a history -/

/-- the outputs of a history, op by op -/
def trace (s : Server) : List Op → List (List Out)
  | [] => []
  | op :: ops => (step s op).2 :: trace (step s op).1 ops

/-- everything the history writes, in order -/
def flat (s : Server) (ops : List Op) : List Out := (trace s ops).flatten

theorem run_cons (s : Server) (op : Op) (ops : List Op) : run s (op :: ops) = run (step s op).1 ops := rfl

theorem run_app (s : Server) (a b : List Op) : run s (a ++ b) = run (run s a) b := by
  unfold run; rw [List.foldl_append]

theorem trace_length (s : Server) (ops : List Op) : (trace s ops).length = ops.length := by
  induction ops generalizing s with
  | nil => rfl
  | cons op ops ih => simp [trace, ih]

theorem trace_append (s : Server) (a b : List Op) : trace s (a ++ b) = trace s a ++ trace (run s a) b := by
  induction a generalizing s with
  | nil => rfl
  | cons op a ih =>
    show (step s op).2 :: trace (step s op).1 (a ++ b) = _
    rw [ih]; rfl

theorem flat_append (s : Server) (a b : List Op) : flat s (a ++ b) = flat s a ++ flat (run s a) b := by
  unfold flat; rw [trace_append, List.flatten_append]

theorem flat_cons (s : Server) (op : Op) (ops : List Op) : flat s (op :: ops) = (step s op).2 ++ flat (step s op).1 ops := by
  unfold flat; rfl

/-- the `i`-th entry of the trace is the output of the `i`-th op in the state the ops before it lead to -/
theorem trace_getElem? (s : Server) (ops : List Op) (i : Nat) :
    (trace s ops)[i]? = ops[i]?.map (fun op => (step (run s (ops.take i)) op).2) := by
  induction ops generalizing s i with
  | nil => simp [trace]
  | cons op ops ih =>
    cases i with
    | zero => simp [trace, run]
    | succ i => simp only [trace, List.getElem?_cons_succ, List.take_succ_cons, run_cons]; exact ih _ i

theorem split_at {α} (l : List α) (i : Nat) (x : α) (h : l[i]? = some x) : l = l.take i ++ x :: l.drop (i + 1) := by
  obtain ⟨hi, hx⟩ := List.getElem?_eq_some_iff.mp h
  rw [← hx, ← List.drop_eq_getElem_cons hi, List.take_append_drop]

/-- **structure.**  If `op₁` is the `i`-th and `op₂` the `j`-th op of the history, `i < j`, then the history's output
    is `A ++ out₁ ++ B ++ out₂ ++ C` with `outₖ` the output of `opₖ` in the state the earlier ops lead to: whatever
    op `i` writes precedes whatever op `j` writes.  No hypothesis on the state or the ops. -/
theorem flat_split (s : Server) (ops : List Op) (i j : Nat) (op₁ op₂ : Op)
    (hi : ops[i]? = some op₁) (hj : ops[j]? = some op₂) (hij : i < j) :
    ∃ A B C, flat s ops =
      A ++ (step (run s (ops.take i)) op₁).2 ++ B ++ (step (run s (ops.take j)) op₂).2 ++ C := by
  have e1 := split_at ops i op₁ hi
  have hj' : (ops.drop (i + 1))[j - (i + 1)]? = some op₂ := by
    rw [List.getElem?_drop]; rw [show i + 1 + (j - (i + 1)) = j by omega]; exact hj
  have e2 := split_at _ _ op₂ hj'
  have etake : ops.take j = ops.take i ++ op₁ :: (ops.drop (i + 1)).take (j - (i + 1)) := by
    have : ops.take j = (ops.take i ++ op₁ :: ops.drop (i + 1)).take j := by rw [← e1]
    rw [this, List.take_append]
    have hl : (ops.take i).length = i := by
      rw [List.length_take]; have := (List.getElem?_eq_some_iff.mp hi).1; omega
    rw [hl, List.take_of_length_le (by omega : (ops.take i).length ≤ j)]
    rw [show j - i = (j - (i + 1)) + 1 by omega, List.take_succ_cons]
  refine ⟨flat s (ops.take i),
    flat (step (run s (ops.take i)) op₁).1 ((ops.drop (i + 1)).take (j - (i + 1))),
    flat (step (run s (ops.take j)) op₂).1 ((ops.drop (i + 1)).drop (j - (i + 1) + 1)), ?_⟩
  have hrun : run s (ops.take j) =
      run (step (run s (ops.take i)) op₁).1 ((ops.drop (i + 1)).take (j - (i + 1))) := by
    rw [etake, run_app, run_cons]
  conv => lhs; rw [e1, flat_append, flat_cons, e2, flat_append, flat_cons]
  rw [← hrun]
  simp only [List.append_assoc]


/-! ### the stream of one connection -/

/-- the PUBLISH packets written to connection `c`, in order -/
def pubsTo (c : Nat) (outs : List Out) : List Msg :=
  outs.filterMap fun o => match o with
    | .wrote n (.publish _ m _) => if n = c then some m else none
    | _ => none

theorem pubsTo_append (c : Nat) (a b : List Out) : pubsTo c (a ++ b) = pubsTo c a ++ pubsTo c b := by
  unfold pubsTo; rw [List.filterMap_append]

theorem mem_pubsTo (c : Nat) (l : List Out) (m : Msg) :
    m ∈ pubsTo c l ↔ ∃ ver me, Out.wrote c (.publish ver m me) ∈ l := by
  unfold pubsTo
  rw [List.mem_filterMap]
  constructor
  · rintro ⟨o, ho, h⟩
    cases o with
    | wrote n pk =>
      cases pk with
      | publish ver m' me =>
        simp only at h
        split at h
        · rename_i hn; cases h; subst hn; exact ⟨ver, me, ho⟩
        · cases h
      | _ => cases h
    | _ => cases h
  · rintro ⟨ver, me, h⟩
    exact ⟨_, h, by simp⟩

theorem pubsTo_length (c : Nat) (l : List Out) : (pubsTo c l).length = (l.filterMap pubConn).count c := by
  induction l with
  | nil => rfl
  | cons o l ih =>
    have e : pubsTo c (o :: l) = pubsTo c [o] ++ pubsTo c l := pubsTo_append c [o] l
    have e' : (o :: l).filterMap pubConn = [o].filterMap pubConn ++ l.filterMap pubConn :=
      List.filterMap_append (l := [o]) (l' := l) (f := pubConn)
    rw [e, e', List.length_append, List.count_append, ih]
    congr 1
    cases o with
    | wrote n pk =>
      cases pk with
      | publish ver m me =>
        by_cases hn : n = c
        · simp [pubsTo, pubConn, hn]
        · simp [pubsTo, pubConn, hn]
      | _ => rfl
    | _ => rfl

theorem eq_singleton_of_mem {α} (l : List α) (x : α) (hl : l.length ≤ 1) (hx : x ∈ l) : l = [x] := by
  match l, hl, hx with
  | [y], _, hx => rw [List.mem_singleton.mp hx]
  | _ :: _ :: _, hl, _ => simp at hl

theorem writeMsg_conn (s : Server) (i : Nat) (m : Msg) (x : Out) (h : x ∈ writeMsg s i m) :
    ∃ pk, x = Out.wrote (getObj s i).conn pk := by
  unfold writeMsg at h
  extract_lets c at h
  split at h
  · cases h
  · split at h
    · exact ⟨_, List.mem_singleton.mp h⟩
    · exact ⟨_, List.mem_singleton.mp h⟩

theorem pubsTo_nil_of_other (c n : Nat) (l : List Out) (hn : n ≠ c) (h : ∀ x ∈ l, ∃ pk, x = Out.wrote n pk) :
    pubsTo c l = [] := by
  apply List.eq_nil_iff_forall_not_mem.mpr
  intro m hm
  obtain ⟨ver, me, hx⟩ := (mem_pubsTo c l m).mp hm
  obtain ⟨pk, e⟩ := h _ hx
  cases e
  exact hn rfl


/-! ### the publishing step writes the first transmission: inbound PUBLISH of QoS 0 -/

/-- what the theorems ask of the op `recv p (PUBLISH QoS 0, topic t, no alias)` in state `s` (all on the state BEFORE
    the op), for the receiving connection `c`: `p` is the connection of client object `i`; the publish passes the
    gates (`PublishGates`: live network client, valid non-empty topic, receive quota, write permission, no record
    under id 0, no hook mode); no shared subscription matches the topic; and the op's release tail (`nextImmediate`
    for the PUBLISHER) cannot write to `c`: the publisher holds no deferred message, or its connection is not `c`. -/
structure PubQ0 (s : Server) (p i c : Nat) (t : Str) : Prop where
  reg : assocGet s.connOf p = some i
  gates : PublishGates s i t
  noShared : (subscribers s.topics t).shared = []
  own : (∀ m ∈ (getObj s i).inflight, 0 ≤ m.expiry) ∨ (getObj s i).conn ≠ c

/-- a written copy of the message with payload `payload` published by client `origin`, as a QoS 0 first transmission -/
def CopyQ0 (m : Msg) (payload origin : Str) : Prop :=
  m.type = 3 ∧ m.payload = payload ∧ m.origin = origin ∧ m.qos = 0 ∧ m.dup = false ∧ m.id = 0

/-- **the op, seen from connection `c`.**  An accepted QoS 0 PUBLISH op writes connection `c` EXACTLY ONE PUBLISH —
    the copy of the message (QoS 0, dup 0) — if `c` is entitled in the state before the op (`EntitledF03`), and NO
    PUBLISH if it is not.  (A copy of QoS 0 is never deferred: there is no other case.) -/
theorem publish_q0_stream (s : Server) (hs : SyncInv s) (hw : WF s) (hcm : ConnMap s)
    (p i c : Nat) (t : Str) (h : PubQ0 s p i c t) (dup retain : Bool) (payload : Str) (me : Nat) :
    (EntitledF03 s (inboundMsg s i 0 dup retain 0 t payload me) c →
      ∃ m, pubsTo c (step s (.recv p (.publish 0 dup retain 0 t payload me none))).2 = [m] ∧
        CopyQ0 m payload (getObj s i).id) ∧
    (¬ EntitledF03 s (inboundMsg s i 0 dup retain 0 t payload me) c →
      pubsTo c (step s (.recv p (.publish 0 dup retain 0 t payload me none))).2 = []) := by
  obtain ⟨o, r, e, hd, _, hrel⟩ :=
    recv_publish_delivery_exact_releases s hs hw hcm p i dup retain t payload me h.reg h.gates h.noShared
  have hr : pubsTo c r = [] := by
    rcases h.own with hq | hn
    · apply List.eq_nil_iff_forall_not_mem.mpr
      intro m hm
      obtain ⟨ver, mes, hx⟩ := (mem_pubsTo c r m).mp hm
      obtain ⟨_, m', hm', hneg, _⟩ := hrel _ hx
      have := hq m' hm'
      omega
    · apply pubsTo_nil_of_other c (getObj s i).conn r hn
      intro x hx
      obtain ⟨_, m', _, _, hxw⟩ := hrel x hx
      exact writeMsg_conn s i m' x hxw
  rw [e, pubsTo_append, hr, List.append_nil]
  obtain ⟨d1, _, d3, d4⟩ := hd c
  constructor
  · intro he
    obtain ⟨ver, m, mes, hx⟩ := d1.mpr he
    have hm : m ∈ pubsTo c o := (mem_pubsTo c o m).mpr ⟨ver, mes, hx⟩
    refine ⟨m, eq_singleton_of_mem _ m (by rw [pubsTo_length]; exact d3) hm, ?_⟩
    rcases d4 _ hx with ⟨id, hid⟩ | ⟨n, ver', m', me', heq, c1, c2, c3, c4, c5, c6⟩
    · cases hid
    · cases heq
      exact ⟨c1, c2, c4, c3, c5, c6⟩
  · intro hne
    apply List.eq_nil_iff_forall_not_mem.mpr
    intro m hm
    obtain ⟨ver, mes, hx⟩ := (mem_pubsTo c o m).mp hm
    exact hne (d1.mp ⟨ver, m, mes, hx⟩)

/-- **one copy per op** (so "the" first transmission is well defined): the accepted QoS 0 PUBLISH op writes
    connection `c` at most one PUBLISH. -/
theorem publish_q0_single (s : Server) (hs : SyncInv s) (hw : WF s) (hcm : ConnMap s)
    (p i c : Nat) (t : Str) (h : PubQ0 s p i c t) (dup retain : Bool) (payload : Str) (me : Nat) :
    (pubsTo c (step s (.recv p (.publish 0 dup retain 0 t payload me none))).2).length ≤ 1 := by
  obtain ⟨h1, h2⟩ := publish_q0_stream s hs hw hcm p i c t h dup retain payload me
  by_cases he : EntitledF03 s (inboundMsg s i 0 dup retain 0 t payload me) c
  · obtain ⟨m, hm, _⟩ := h1 he
    rw [hm]; exact Nat.le_refl 1
  · rw [h2 he]; exact Nat.zero_le 1

/-- **one copy per routing call, any QoS** (state level: `WF`, one connection per object, no outbound aliases, no
    matching shared subscription): `publishToSubscribers` writes connection `c` at most one PUBLISH. -/
theorem routing_single (s : Server) (hw : WF s) (hcd : ConnDistinct s) (hna : Q1.NoAliases s)
    (pk : Msg) (hig : pk.ignore = false) (ht : pk.type = 3)
    (hsh : (subscribers s.topics pk.topic).shared = []) (c : Nat) :
    (pubsTo c (publishToSubscribers s pk).2).length ≤ 1 := by
  rw [pubsTo_length]
  exact (publishToSubscribers_writes_exact_qos s hw hcd hna pk hig ht hsh c).2.1

/-! ### histories -/

theorem opsFresh_take (s : Server) (ops : List Op) (n : Nat) (h : OpsFresh s ops) : OpsFresh s (ops.take n) := by
  induction ops generalizing s n with
  | nil => simpa using h
  | cons op ops ih =>
    cases n with
    | zero => exact trivial
    | succ n => exact ⟨h.1, ih _ n h.2⟩

theorem reach_take {caps : Caps} {s : Server} (hr : ReachSeq caps s) (ops : List Op) (hseq : SeqOps ops)
    (hf : OpsFresh s ops) (n : Nat) : ReachSeq caps (run s (ops.take n)) :=
  hr.run _ (fun o ho => hseq o (List.mem_of_mem_take ho)) (opsFresh_take s ops n hf)

/-- **order, generic.**  Any state, any history (schedule ops included), any two ops `i < j` of it: if op `i` writes
    connection `c` exactly the PUBLISH `m₁` and op `j` exactly `m₂` (each in the state the earlier ops lead to), then
    the stream of PUBLISH packets on `c` is `A ++ m₁ :: B ++ m₂ :: C`: `m₁` is transmitted before `m₂`. -/
theorem order_of_first_tx (s : Server) (ops : List Op) (i j : Nat) (op₁ op₂ : Op) (c : Nat) (m₁ m₂ : Msg)
    (hi : ops[i]? = some op₁) (hj : ops[j]? = some op₂) (hij : i < j)
    (h₁ : pubsTo c (step (run s (ops.take i)) op₁).2 = [m₁])
    (h₂ : pubsTo c (step (run s (ops.take j)) op₂).2 = [m₂]) :
    ∃ A B C, pubsTo c (flat s ops) = A ++ m₁ :: B ++ m₂ :: C := by
  obtain ⟨A, B, C, e⟩ := flat_split s ops i j op₁ op₂ hi hj hij
  refine ⟨pubsTo c A, pubsTo c B, pubsTo c C, ?_⟩
  rw [e]
  simp only [pubsTo_append, h₁, h₂, List.append_assoc, List.singleton_append, List.cons_append, List.nil_append]

/-- **C12 on histories, publishes of QoS 0** (see `C12_history_order_partial` in `Props/C12.lean`). -/
theorem history_order_q0 (caps : Caps) (s : Server) (hr : ReachSeq caps s) (ops : List Op) (hseq : SeqOps ops)
    (hf : OpsFresh s ops) (p c i j k₁ k₂ : Nat) (t : Str) (d₁ r₁ d₂ r₂ : Bool) (pay₁ pay₂ : Str) (me₁ me₂ : Nat)
    (hi : ops[i]? = some (.recv p (.publish 0 d₁ r₁ 0 t pay₁ me₁ none)))
    (hj : ops[j]? = some (.recv p (.publish 0 d₂ r₂ 0 t pay₂ me₂ none))) (hij : i < j)
    (g₁ : PubQ0 (run s (ops.take i)) p k₁ c t) (g₂ : PubQ0 (run s (ops.take j)) p k₂ c t)
    (e₁ : EntitledF03 (run s (ops.take i)) (inboundMsg (run s (ops.take i)) k₁ 0 d₁ r₁ 0 t pay₁ me₁) c)
    (e₂ : EntitledF03 (run s (ops.take j)) (inboundMsg (run s (ops.take j)) k₂ 0 d₂ r₂ 0 t pay₂ me₂) c) :
    ∃ m₁ m₂ A B C,
      pubsTo c (step (run s (ops.take i)) (.recv p (.publish 0 d₁ r₁ 0 t pay₁ me₁ none))).2 = [m₁] ∧
      pubsTo c (step (run s (ops.take j)) (.recv p (.publish 0 d₂ r₂ 0 t pay₂ me₂ none))).2 = [m₂] ∧
      CopyQ0 m₁ pay₁ (getObj (run s (ops.take i)) k₁).id ∧ CopyQ0 m₂ pay₂ (getObj (run s (ops.take j)) k₂).id ∧
      pubsTo c (flat s ops) = A ++ m₁ :: B ++ m₂ :: C := by
  obtain ⟨a1, a2, a3, _⟩ := (reach_take hr ops hseq hf i).inv
  obtain ⟨b1, b2, b3, _⟩ := (reach_take hr ops hseq hf j).inv
  obtain ⟨m₁, x1, y1⟩ := (publish_q0_stream _ a1 a2 a3 p k₁ c t g₁ d₁ r₁ pay₁ me₁).1 e₁
  obtain ⟨m₂, x2, y2⟩ := (publish_q0_stream _ b1 b2 b3 p k₂ c t g₂ d₂ r₂ pay₂ me₂).1 e₂
  obtain ⟨A, B, C, e⟩ := order_of_first_tx s ops i j _ _ c m₁ m₂ hi hj hij x1 x2
  exact ⟨m₁, m₂, A, B, C, x1, x2, y1, y2, e⟩


/-! ### the whole stream of QoS 0 flows -/

/-- a labelling of a history for the receiving connection `c`: `some (origin, payload)` marks an accepted QoS 0
    PUBLISH (`PubQ0`, on any connection `p`, any topic `t`) of the client with id `origin`, to which `c` is entitled in
    the state before the op; `none` marks an op that writes `c` no PUBLISH at all (`pubsTo c … = []`: pings,
    acknowledgements, publishes `c` is not entitled to — `publish_q0_stream`, second half —, connects and subscribes
    of others, …).  Ops that write `c` a PUBLISH in any other way (QoS > 0 copies, retained messages on its own
    SUBSCRIBE, resends on resumption, releases of deferred messages) have no label: such histories are not covered. -/
inductive Labelled (c : Nat) : Server → List Op → List (Option (Str × Str)) → Prop
  | nil (s : Server) : Labelled c s [] []
  | pub (s : Server) (p i : Nat) (t : Str) (dup retain : Bool) (payload : Str) (me : Nat) (ops : List Op)
      (ls : List (Option (Str × Str))) :
      PubQ0 s p i c t → EntitledF03 s (inboundMsg s i 0 dup retain 0 t payload me) c →
      Labelled c (step s (.recv p (.publish 0 dup retain 0 t payload me none))).1 ops ls →
      Labelled c s (.recv p (.publish 0 dup retain 0 t payload me none) :: ops) (some ((getObj s i).id, payload) :: ls)
  | other (s : Server) (op : Op) (ops : List Op) (ls : List (Option (Str × Str))) :
      pubsTo c (step s op).2 = [] → Labelled c (step s op).1 ops ls → Labelled c s (op :: ops) (none :: ls)

/-- **the stream.**  For a labelled history from a reachable state, the (origin, payload) pairs of the PUBLISH packets
    written to `c`, in order, are EXACTLY those of the labelled publishes, in publish order; every one of them is a
    first transmission of QoS 0 (dup 0). -/
theorem qos0_stream (caps : Caps) (c : Nat) (s : Server) (ops : List Op) (ls : List (Option (Str × Str)))
    (h : Labelled c s ops ls) (hr : ReachSeq caps s) (hseq : SeqOps ops) (hf : OpsFresh s ops) :
    (pubsTo c (flat s ops)).map (fun m => (m.origin, m.payload)) = ls.filterMap id ∧
    ∀ m ∈ pubsTo c (flat s ops), m.qos = 0 ∧ m.dup = false := by
  induction h with
  | nil s => exact ⟨rfl, fun m hm => by cases hm⟩
  | pub s p i t dup retain payload me ops ls g e _ ih =>
    obtain ⟨a1, a2, a3, _⟩ := hr.inv
    obtain ⟨m, hm, hc⟩ := (publish_q0_stream s a1 a2 a3 p i c t g dup retain payload me).1 e
    obtain ⟨q1, q2⟩ := ih (hr.step _ (hseq _ List.mem_cons_self) hf.1)
      (fun o ho => hseq o (List.mem_cons_of_mem _ ho)) hf.2
    rw [flat_cons, pubsTo_append, hm]
    refine ⟨?_, ?_⟩
    · simp only [List.singleton_append, List.map_cons, List.filterMap_cons, id, q1, hc.2.1, hc.2.2.1]
    · intro m' hm'
      rcases List.mem_append.mp hm' with h1 | h1
      · rw [List.mem_singleton.mp h1]; exact ⟨hc.2.2.2.1, hc.2.2.2.2.1⟩
      · exact q2 m' h1
  | other s op ops ls g _ ih =>
    obtain ⟨q1, q2⟩ := ih (hr.step _ (hseq _ List.mem_cons_self) hf.1)
      (fun o ho => hseq o (List.mem_cons_of_mem _ ho)) hf.2
    rw [flat_cons, pubsTo_append, g, List.nil_append]
    exact ⟨by rw [q1]; rfl, q2⟩

/-- … and per publisher: the payloads `c` is written from the client with id `o`, in order, are exactly the payloads
    of `o`'s labelled publishes, in publish order -/
theorem qos0_stream_of (caps : Caps) (c : Nat) (s : Server) (ops : List Op) (ls : List (Option (Str × Str)))
    (h : Labelled c s ops ls) (hr : ReachSeq caps s) (hseq : SeqOps ops) (hf : OpsFresh s ops) (o : Str) :
    ((pubsTo c (flat s ops)).filter (fun m => m.origin == o)).map (·.payload) =
      ((ls.filterMap id).filter (fun x => x.1 == o)).map (·.2) := by
  rw [← (qos0_stream caps c s ops ls h hr hseq hf).1, List.filter_map, List.map_map]
  rfl

/-! ### any QoS: the routing call writes the first transmission of every delivery that is not dropped or deferred -/

theorem verdictOut_msg (s : Server) (i : Nat) (sub : Sub) (pk : Msg) (v : Q1.Verdict) (n ver : Nat) (m : Msg) (me : Bool)
    (h : Out.wrote n (.publish ver m me) ∈ Q1.verdictOut s i sub pk v) :
    m.payload = pk.payload ∧ m.topic = pk.topic ∧ m.origin = pk.origin ∧ m.dup = false ∧
    m.qos = shapeQos s.caps sub pk.qos := by
  cases v with
  | sent pid =>
    simp only [Q1.verdictOut, List.mem_singleton, Out.wrote.injEq, WPk.publish.injEq] at h
    obtain ⟨_, _, rfl, _⟩ := h
    exact ⟨rfl, rfl, rfl, rfl, rfl⟩
  | exhausted => simp [Q1.verdictOut] at h
  | limit => simp [Q1.verdictOut] at h
  | deferred pid => simp [Q1.verdictOut] at h

theorem entryOut_msg (s : Server) (i : Nat) (sub : Sub) (pk : Msg) (n ver : Nat) (m : Msg) (me : Bool)
    (h : Out.wrote n (.publish ver m me) ∈ Q1.entryOut s i sub pk) :
    m.payload = pk.payload ∧ m.topic = pk.topic ∧ m.origin = pk.origin ∧ m.dup = false ∧
    m.qos = shapeQos s.caps sub pk.qos := by
  unfold Q1.entryOut at h
  split at h
  · split at h
    · split at h
      · exact verdictOut_msg s i sub pk _ n ver m me h
      · exact verdictOut_msg s i sub pk _ n ver m me (List.mem_filter.mp h).1
    · split at h
      · simp only [List.mem_singleton, Out.wrote.injEq, WPk.publish.injEq] at h
        obtain ⟨_, _, rfl, _⟩ := h
        exact ⟨rfl, rfl, rfl, rfl, rfl⟩
      · cases h
  · cases h

/-- **one routing call, any QoS, seen from connection `c`** (state level: `WF`, one connection per object, no
    outbound aliases, no matching shared subscription).  If `c` is SERVED (`Q1.ServedVia`: entitled, and the copy is
    QoS 0 or the delivery is in case (d) — in-flight limit not reached, a packet identifier available, NOT deferred:
    `sent_of_notDeferred`), `publishToSubscribers` writes `c` exactly one PUBLISH, the copy of the message (payload,
    topic, origin, dup 0); otherwise none: a dropped or DEFERRED delivery is not transmitted by this call. -/
theorem routing_first_tx (s : Server) (hw : WF s) (hcd : ConnDistinct s) (hna : Q1.NoAliases s)
    (pk : Msg) (hig : pk.ignore = false) (ht : pk.type = 3)
    (hsh : (subscribers s.topics pk.topic).shared = []) (c : Nat) :
    (Q1.ServedVia s pk (subscribers s.topics pk.topic).subs c →
      ∃ m, pubsTo c (publishToSubscribers s pk).2 = [m] ∧ m.payload = pk.payload ∧ m.topic = pk.topic ∧
        m.origin = pk.origin ∧ m.dup = false) ∧
    (¬ Q1.ServedVia s pk (subscribers s.topics pk.topic).subs c → pubsTo c (publishToSubscribers s pk).2 = []) := by
  obtain ⟨d1, d2, _, _, d5⟩ := publishToSubscribers_writes_exact_qos s hw hcd hna pk hig ht hsh c
  constructor
  · intro he
    obtain ⟨ver, m, mes, hx⟩ := d1.mpr he
    have hm : m ∈ pubsTo c (publishToSubscribers s pk).2 := (mem_pubsTo c _ m).mpr ⟨ver, mes, hx⟩
    refine ⟨m, eq_singleton_of_mem _ m (by rw [pubsTo_length]; exact d2) hm, ?_⟩
    rcases d5 _ hx with ⟨id, hid⟩ | ⟨cid, i, sub, _, _, hxe⟩
    · cases hid
    · obtain ⟨e1, e2, e3, e4, _⟩ := entryOut_msg s i sub (stamped s pk) c ver m mes hxe
      obtain ⟨f1, f2, _, _, f5⟩ := stamped_fields s pk
      exact ⟨e1.trans f2, e2.trans f1, e3.trans f5, e4⟩
  · intro hne
    apply List.eq_nil_iff_forall_not_mem.mpr
    intro m hm
    obtain ⟨ver, mes, hx⟩ := (mem_pubsTo c _ m).mp hm
    exact hne (d1.mp ⟨ver, m, mes, hx⟩)

/-- the delivery is in case (d) "sent" when the in-flight limit is not reached, a packet identifier is available and
    the client is not subject to deferral (no Receive Maximum, or send quota left) -/
theorem sent_of_notDeferred (s : Server) (k pid : Nat)
    (hl : (getObj s k).inflight.length < s.caps.maximumInflight)
    (hp : nextPacketID (getObj s k) s.caps.maximumPacketID = some pid)
    (hn : (getObj s k).maxSend = 0 ∨ (getObj s k).sendQuota > 0) : Q1.verdict s k = .sent pid := by
  unfold Q1.verdict
  rw [if_neg (by omega), hp]
  simp only
  rw [if_neg (by omega)]

end Mochi.Broker.O12
