import Mochi.Lemmas.CodecAt
/-!
Round trip of the MQTT 5 property block: one lemma per property kind, the loop lemma by induction on
the entry list, `Properties.Decode` on `Properties.Encode`, and the fold of `assignProp` back to the
record (`normProps`).
-/
namespace Mochi.Codec
open Mochi.Varint

/-- a property entry the decoder's `switch` reads back: identifier of the right kind, value in range -/
def wfEntry : Nat × PVal → Prop
  | (k, .byte n) => k ∈ [1, 23, 25, 36, 37, 40, 41, 42] ∧ n < 256
  | (k, .u16 n) => k ∈ [19, 33, 34, 35] ∧ n < 65536
  | (k, .u32 n) => k ∈ [2, 17, 24, 39] ∧ n < 4294967296
  | (k, .str s) => k ∈ [3, 8, 18, 21, 26, 28, 31] ∧ wfStr s
  | (k, .bin s) => k ∈ [9, 22] ∧ wfBin s
  | (k, .varint n) => k = 11 ∧ n ≤ maxVBI
  | (k, .pair a b) => k = 38 ∧ wfStr a ∧ wfStr b

theorem decodePropValue_byte {bt : Str} {off k n : Nat} {t : Str} (h : At bt off (encodePVal (.byte n) ++ t))
    (hw : wfEntry (k, .byte n)) : decodePropValue k bt off = .ok (some (.byte n), off + 1) := by
  obtain ⟨hk, hn⟩ := hw
  have h' : At bt off (n :: t) := by simpa [encodePVal, Nat.mod_eq_of_lt hn] using h
  have e := decodeByte_At h'
  simp only [List.mem_cons, List.not_mem_nil, or_false] at hk
  rcases hk with rfl | rfl | rfl | rfl | rfl | rfl | rfl | rfl <;> simp [decodePropValue, e, Except.map]

theorem decodePropValue_u16 {bt : Str} {off k n : Nat} {t : Str} (h : At bt off (encodePVal (.u16 n) ++ t))
    (hw : wfEntry (k, .u16 n)) : decodePropValue k bt off = .ok (some (.u16 n), off + 2) := by
  obtain ⟨hk, hn⟩ := hw
  have e := decodeUint16_At (v := n) (by simpa [encodePVal] using h) hn
  simp only [List.mem_cons, List.not_mem_nil, or_false] at hk
  rcases hk with rfl | rfl | rfl | rfl <;> simp [decodePropValue, e, Except.map]

theorem decodePropValue_u32 {bt : Str} {off k n : Nat} {t : Str} (h : At bt off (encodePVal (.u32 n) ++ t))
    (hw : wfEntry (k, .u32 n)) : decodePropValue k bt off = .ok (some (.u32 n), off + 4) := by
  obtain ⟨hk, hn⟩ := hw
  have e := decodeUint32_At (v := n) (by simpa [encodePVal] using h) hn
  simp only [List.mem_cons, List.not_mem_nil, or_false] at hk
  rcases hk with rfl | rfl | rfl | rfl <;> simp [decodePropValue, e, Except.map]

theorem decodePropValue_str {bt : Str} {off k : Nat} {s t : Str} (h : At bt off (encodePVal (.str s) ++ t))
    (hw : wfEntry (k, .str s)) : decodePropValue k bt off = .ok (some (.str s), off + 2 + s.length) := by
  obtain ⟨hk, hn⟩ := hw
  have e := decodeString_At (s := s) (by simpa [encodePVal] using h) hn
  simp only [List.mem_cons, List.not_mem_nil, or_false] at hk
  rcases hk with rfl | rfl | rfl | rfl | rfl | rfl | rfl <;> simp [decodePropValue, e, Except.map]

theorem decodePropValue_bin {bt : Str} {off k : Nat} {s t : Str} (h : At bt off (encodePVal (.bin s) ++ t))
    (hw : wfEntry (k, .bin s)) : decodePropValue k bt off = .ok (some (.bin s), off + 2 + s.length) := by
  obtain ⟨hk, hn⟩ := hw
  have e := decodeBytes_At (s := s) (by simpa [encodePVal] using h) hn
  simp only [List.mem_cons, List.not_mem_nil, or_false] at hk
  rcases hk with rfl | rfl <;> simp [decodePropValue, e, Except.map]

theorem decodePropValue_varint {bt : Str} {off k n : Nat} {t : Str} (h : At bt off (encodePVal (.varint n) ++ t))
    (hw : wfEntry (k, .varint n)) : decodePropValue k bt off = .ok (some (.varint n), off + (encodeLength n).length) := by
  obtain ⟨rfl, hn⟩ := hw
  have e1 := sliceFrom_At h
  have e2 := decodeLength_encode_append n t hn
  simp only [encodePVal] at e1
  simp [decodePropValue, e1, e2]

theorem decodePropValue_pair {bt : Str} {off k : Nat} {a b t : Str} (h : At bt off (encodePVal (.pair a b) ++ t))
    (hw : wfEntry (k, .pair a b)) :
    decodePropValue k bt off = .ok (some (.pair a b), off + 2 + a.length + 2 + b.length) := by
  obtain ⟨rfl, ha, hb⟩ := hw
  have h1 : At bt off (encodeBytes a ++ (encodeBytes b ++ t)) := by simpa [encodePVal, List.append_assoc] using h
  have e1 := decodeString_At h1 ha
  have e2 := decodeString_At h1.step_bytes hb
  simp [decodePropValue, e1, e2]

/-- **one property value**: whatever its kind, the decoder reads back what `encodePVal` wrote and
    stops right behind it -/
theorem decodePropValue_At {bt : Str} {off k : Nat} {v : PVal} {t : Str} (h : At bt off (encodePVal v ++ t))
    (hw : wfEntry (k, v)) : decodePropValue k bt off = .ok (some v, off + (encodePVal v).length) := by
  cases v with
  | byte n => rw [decodePropValue_byte h hw]; simp [encodePVal]
  | u16 n => rw [decodePropValue_u16 h hw]; simp [encodePVal, encodeUint16]
  | u32 n => rw [decodePropValue_u32 h hw]; simp [encodePVal, encodeUint32]
  | str s => rw [decodePropValue_str h hw]; simp [encodePVal, encodeBytes_length]; omega
  | bin s => rw [decodePropValue_bin h hw]; simp [encodePVal, encodeBytes_length]; omega
  | varint n => rw [decodePropValue_varint h hw]; simp [encodePVal]
  | pair a b => rw [decodePropValue_pair h hw]; simp [encodePVal, encodeBytes_length]; omega

/-- an entry the loop accepts for packet type `pkt` -/
def goodEntry (pkt : Nat) (e : Nat × PVal) : Prop := propAllowed e.1 pkt = true ∧ wfEntry e

/-- **the loop**: positioned at a run of encoded entries that ends at `n`, it collects exactly those
    entries, in order, and stops at `n` -/
theorem propsLoop_At (pkt : Nat) (bt : Str) (es : List (Nat × PVal)) (hes : ∀ e ∈ es, goodEntry pkt e) :
    ∀ (fuel off : Nat) (acc : List (Nat × PVal)) (t : Str), es.length ≤ fuel → At bt off (encodePropList es ++ t) →
      propsLoop pkt bt (off + (encodePropList es).length) fuel off acc = .ok (acc.reverse ++ es, off + (encodePropList es).length) := by
  induction es with
  | nil =>
    intro fuel off acc t _ _
    cases fuel <;> simp [propsLoop, encodePropList]
  | cons e es ih =>
    intro fuel off acc t hf h
    obtain ⟨k, v⟩ := e
    obtain ⟨hk, hw⟩ := hes (k, v) (by simp)
    cases fuel with
    | zero => simp at hf
    | succ fuel =>
      have h0 : At bt off (k :: (encodePVal v ++ (encodePropList es ++ t))) := by
        simpa [encodePropList, List.append_assoc] using h
      have e1 := decodeByte_At h0
      have h1 := h0.cons
      have e2 := decodePropValue_At h1 hw
      have h2 := h1.step
      have hlt : off < off + (encodePropList ((k, v) :: es)).length := by simp [encodePropList]
      have hk' : propAllowed k pkt = true := hk
      have := ih (fun e he => hes e (by simp [he])) fuel (off + 1 + (encodePVal v).length) ((k, v) :: acc) t
        (by simpa using hf) h2
      have hn : off + (encodePropList ((k, v) :: es)).length =
          off + 1 + (encodePVal v).length + (encodePropList es).length := by
        simp [encodePropList]; omega
      rw [hn]
      rw [propsLoop]
      have hlt' : off < off + 1 + (encodePVal v).length + (encodePropList es).length := by omega
      simp only [hlt', if_true, e1, hk', Bool.not_true, Bool.false_eq_true, if_false, e2]
      rw [this]
      simp

theorem encodePropList_length_ge (es : List (Nat × PVal)) : es.length ≤ (encodePropList es).length := by
  induction es with
  | nil => simp [encodePropList]
  | cons e es ih => obtain ⟨k, v⟩ := e; simp [encodePropList]; omega

/-- **`Properties.Decode` on an encoded entry list** (length prefix, then the entries), whatever follows -/
theorem propsDecode_entries (pkt : Nat) (es : List (Nat × PVal)) (hes : ∀ e ∈ es, goodEntry pkt e)
    (hlen : (encodePropList es).length ≤ maxVBI) (rest : Str) (p0 : Props) :
    propsDecode pkt (encodeLength (encodePropList es).length ++ encodePropList es ++ rest) p0 =
      .ok (es.foldl assignProp p0, (encodeLength (encodePropList es).length ++ encodePropList es).length) := by
  unfold propsDecode
  rw [List.append_assoc, decodeLength_encode_append _ _ hlen]
  simp only []
  by_cases hz : (encodePropList es).length = 0
  · have : es = [] := by
      have := encodePropList_length_ge es
      exact List.eq_nil_of_length_eq_zero (by omega)
    subst this
    simp [encodePropList]
  · have hz' : ((encodePropList es).length == 0) = false := by simpa using hz
    simp only [hz', Bool.false_eq_true, if_false]
    have hd : List.drop (encodeLength (encodePropList es).length).length
        (encodeLength (encodePropList es).length ++ (encodePropList es ++ rest)) = encodePropList es ++ rest := by
      simp
    rw [hd]
    have := propsLoop_At pkt (encodePropList es ++ rest) es hes ((encodePropList es ++ rest).length + 1) 0 [] rest
      (by have := encodePropList_length_ge es; simp; omega) (At.zero _)
    simp only [Nat.zero_add] at this
    rw [this]
    simp [Nat.add_comm]

/-! ### well-formed property records -/

/-- every field of the record is in range for its wire representation (strings: valid UTF-8 without
    NUL, shorter than 65536 bytes; binaries shorter than 65536; integers within their width;
    subscription identifiers at most 268,435,455 — zero ones are dropped by the encoder; user
    properties are pairs of well-formed strings).  Independent of the packet type: what the type does
    not permit is suppressed by the encoder (`normProps`). -/
def WFProps (p : Props) : Prop :=
  p.payloadFormat < 256 ∧ p.messageExpiryInterval < 4294967296 ∧ wfStr p.contentType ∧ wfStr p.responseTopic ∧
  wfBin p.correlationData ∧ (∀ v ∈ p.subscriptionIdentifier, v ≤ maxVBI) ∧ p.sessionExpiryInterval < 4294967296 ∧
  wfStr p.assignedClientID ∧ p.serverKeepAlive < 65536 ∧ wfStr p.authenticationMethod ∧ wfBin p.authenticationData ∧
  p.requestProblemInfo < 256 ∧ p.willDelayInterval < 4294967296 ∧ p.requestResponseInfo < 256 ∧ wfStr p.responseInfo ∧
  wfStr p.serverReference ∧ wfStr p.reasonString ∧ p.receiveMaximum < 65536 ∧ p.topicAliasMaximum < 65536 ∧
  p.topicAlias < 65536 ∧ p.maximumQos < 256 ∧ p.retainAvailable < 256 ∧ (∀ kv ∈ p.user, wfStr kv.1 ∧ wfStr kv.2) ∧
  p.maximumPacketSize < 4294967296 ∧ p.wildcardSubAvailable < 256 ∧ p.subIDAvailable < 256 ∧ p.sharedSubAvailable < 256

instance (p : Props) : Decidable (WFProps p) := by unfold WFProps; infer_instance

theorem WFProps_default : WFProps {} := by decide

theorem good_append {pkt : Nat} {a b : List (Nat × PVal)} (ha : ∀ e ∈ a, goodEntry pkt e) (hb : ∀ e ∈ b, goodEntry pkt e) :
    ∀ e ∈ a ++ b, goodEntry pkt e := by
  intro e he
  rcases List.mem_append.mp he with h | h
  · exact ha e h
  · exact hb e h

theorem good_opt {pkt : Nat} {c : Bool} {e : Nat × PVal} (h : c = true → goodEntry pkt e) :
    ∀ x ∈ opt c e, goodEntry pkt x := by
  intro x hx
  unfold opt at hx
  split at hx
  · rename_i hc; simp at hx; subst hx; exact h hc
  · simp at hx

/-- everything `Properties.Encode` writes for a well-formed record is an entry the decoder accepts -/
theorem propsToList_good (pkt : Nat) (mods : Mods) (n : Nat) (p : Props) (hp : WFProps p) :
    ∀ e ∈ propsToList pkt mods n p, goodEntry pkt e := by
  obtain ⟨h1, h2, h3, h8, h9, h11, h17, h18, h19, h21, h22, h23, h24, h25, h26, h28, h31, h33, h34, h35, h36, h37,
    h38, h39, h40, h41, h42⟩ := hp
  unfold propsToList
  simp only []
  repeat' apply good_append
  all_goals first
    | (apply good_opt; intro hc; simp only [Bool.and_eq_true] at hc
       refine ⟨by simp [hc], ?_⟩; simp [wfEntry, *])
    | skip
  · -- subscription identifiers
    intro e he
    split at he
    · rename_i hc
      simp only [Bool.and_eq_true] at hc
      simp only [List.mem_map, List.mem_filter] at he
      obtain ⟨v, ⟨hv, _⟩, rfl⟩ := he
      exact ⟨hc.1, rfl, h11 v hv⟩
    · simp at he
  · -- user properties
    intro e he
    split at he
    · rename_i hc
      simp only [Bool.and_eq_true] at hc
      simp only [List.mem_map] at he
      obtain ⟨kv, hkv, rfl⟩ := he
      exact ⟨hc.1.2, rfl, h38 kv hkv⟩
    · simp at he

end Mochi.Codec

namespace Mochi.Codec
open Mochi.Varint

/-! ### what the encoder keeps: `propKept`, `normProps` -/

/-- does `Properties.Encode(pkt, mods, _, n)` write property `k` of `p`?  (The conditions of
    packets/properties.go, one line per `if`.) -/
def propKept (pkt : Nat) (mods : Mods) (n : Nat) (p : Props) (k : Nat) : Bool :=
  let can (k : Nat) := propAllowed k pkt
  match k with
  | 1 => can 1 && p.payloadFormatFlag
  | 2 => can 2 && p.messageExpiryInterval > 0
  | 3 => can 3 && !p.contentType.isEmpty
  | 8 => mods.allowResponseInfo && can 8 && !p.responseTopic.isEmpty && !containsAny p.responseTopic [43, 35]
  | 9 => mods.allowResponseInfo && can 9 && p.correlationData.length > 0
  | 11 => can 11 && p.subscriptionIdentifier.length > 0
  | 17 => can 17 && p.sessionExpiryIntervalFlag
  | 18 => can 18 && !p.assignedClientID.isEmpty
  | 19 => can 19 && p.serverKeepAliveFlag
  | 21 => can 21 && !p.authenticationMethod.isEmpty
  | 22 => can 22 && p.authenticationData.length > 0
  | 23 => can 23 && p.requestProblemInfoFlag
  | 24 => can 24 && p.willDelayInterval > 0
  | 25 => can 25 && p.requestResponseInfo > 0
  | 26 => mods.allowResponseInfo && can 26 && p.responseInfo.length > 0
  | 28 => can 28 && p.serverReference.length > 0
  | 31 => !mods.disallowProblemInfo && can 31 && !p.reasonString.isEmpty &&
            (mods.maxSize == 0 || (n + (encodeBytes p.reasonString).length + 1) % 4294967296 < mods.maxSize)
  | 33 => can 33 && p.receiveMaximum > 0
  | 34 => can 34 && p.topicAliasMaximum > 0
  | 35 => can 35 && p.topicAliasFlag && p.topicAlias > 0
  | 36 => can 36 && p.maximumQosFlag && p.maximumQos < 2
  | 37 => can 37 && p.retainAvailableFlag
  | 38 => !mods.disallowProblemInfo && can 38 &&
            (mods.maxSize == 0 ||
              (n + (encodePropList (p.user.map fun (k, v) => (38, PVal.pair k v))).length + 1) % 4294967296 < mods.maxSize)
  | 39 => can 39 && p.maximumPacketSize > 0
  | 40 => can 40 && p.wildcardSubAvailableFlag
  | 41 => can 41 && p.subIDAvailableFlag
  | 42 => can 42 && p.sharedSubAvailableFlag
  | _ => false

/-- the record with exactly the properties `c` selects, everything else at its zero value -/
def keepProps (c : Nat → Bool) (p : Props) : Props where
  payloadFormat := if c 1 then p.payloadFormat else 0
  payloadFormatFlag := c 1
  messageExpiryInterval := if c 2 then p.messageExpiryInterval else 0
  contentType := if c 3 then p.contentType else []
  responseTopic := if c 8 then p.responseTopic else []
  correlationData := if c 9 then p.correlationData else []
  subscriptionIdentifier := if c 11 then p.subscriptionIdentifier.filter (· > 0) else []
  sessionExpiryInterval := if c 17 then p.sessionExpiryInterval else 0
  sessionExpiryIntervalFlag := c 17
  assignedClientID := if c 18 then p.assignedClientID else []
  serverKeepAlive := if c 19 then p.serverKeepAlive else 0
  serverKeepAliveFlag := c 19
  authenticationMethod := if c 21 then p.authenticationMethod else []
  authenticationData := if c 22 then p.authenticationData else []
  requestProblemInfo := if c 23 then p.requestProblemInfo else 0
  requestProblemInfoFlag := c 23
  willDelayInterval := if c 24 then p.willDelayInterval else 0
  requestResponseInfo := if c 25 then p.requestResponseInfo else 0
  responseInfo := if c 26 then p.responseInfo else []
  serverReference := if c 28 then p.serverReference else []
  reasonString := if c 31 then p.reasonString else []
  receiveMaximum := if c 33 then p.receiveMaximum else 0
  topicAliasMaximum := if c 34 then p.topicAliasMaximum else 0
  topicAlias := if c 35 then p.topicAlias else 0
  topicAliasFlag := c 35
  maximumQos := if c 36 then p.maximumQos else 0
  maximumQosFlag := c 36
  retainAvailable := if c 37 then p.retainAvailable else 0
  retainAvailableFlag := c 37
  user := if c 38 then p.user else []
  maximumPacketSize := if c 39 then p.maximumPacketSize else 0
  wildcardSubAvailable := if c 40 then p.wildcardSubAvailable else 0
  wildcardSubAvailableFlag := c 40
  subIDAvailable := if c 41 then p.subIDAvailable else 0
  subIDAvailableFlag := c 41
  sharedSubAvailable := if c 42 then p.sharedSubAvailable else 0
  sharedSubAvailableFlag := c 42

/-- **`p` after the encoder's suppression**: the properties `Properties.Encode(pkt, mods, _, n)` writes
    keep their value, every other field is at its zero value — which is what a decoder starting from
    the empty record sees. -/
def normProps (pkt : Nat) (mods : Mods) (n : Nat) (p : Props) : Props := keepProps (propKept pkt mods n p) p

/-- `propsToList` in terms of `propKept` -/
theorem propsToList_eq (pkt : Nat) (mods : Mods) (n : Nat) (p : Props) :
    propsToList pkt mods n p =
      let c := propKept pkt mods n p
      opt (c 1) (1, .byte p.payloadFormat) ++ opt (c 2) (2, .u32 p.messageExpiryInterval) ++
      opt (c 3) (3, .str p.contentType) ++ opt (c 8) (8, .str p.responseTopic) ++
      opt (c 9) (9, .bin p.correlationData) ++
      (if c 11 then (p.subscriptionIdentifier.filter (· > 0)).map fun v => (11, PVal.varint v) else []) ++
      opt (c 17) (17, .u32 p.sessionExpiryInterval) ++ opt (c 18) (18, .str p.assignedClientID) ++
      opt (c 19) (19, .u16 p.serverKeepAlive) ++ opt (c 21) (21, .str p.authenticationMethod) ++
      opt (c 22) (22, .bin p.authenticationData) ++ opt (c 23) (23, .byte p.requestProblemInfo) ++
      opt (c 24) (24, .u32 p.willDelayInterval) ++ opt (c 25) (25, .byte p.requestResponseInfo) ++
      opt (c 26) (26, .str p.responseInfo) ++ opt (c 28) (28, .str p.serverReference) ++
      opt (c 31) (31, .str p.reasonString) ++ opt (c 33) (33, .u16 p.receiveMaximum) ++
      opt (c 34) (34, .u16 p.topicAliasMaximum) ++ opt (c 35) (35, .u16 p.topicAlias) ++
      opt (c 36) (36, .byte p.maximumQos) ++ opt (c 37) (37, .byte p.retainAvailable) ++
      (if c 38 then p.user.map fun (k, v) => (38, PVal.pair k v) else []) ++
      opt (c 39) (39, .u32 p.maximumPacketSize) ++ opt (c 40) (40, .byte p.wildcardSubAvailable) ++
      opt (c 41) (41, .byte p.subIDAvailable) ++ opt (c 42) (42, .byte p.sharedSubAvailable) := by
  rfl

end Mochi.Codec

namespace Mochi.Codec
open Mochi.Varint

/-! ### folding `assignProp` over the written entries gives `normProps` -/

def applyOpt (c : Bool) (e : Nat × PVal) (q : Props) : Props := if c then assignProp q e else q

theorem foldl_opt (c : Bool) (e : Nat × PVal) (q : Props) : (opt c e).foldl assignProp q = applyOpt c e q := by
  unfold opt applyOpt; cases c <;> simp

theorem foldl_subids (l : List Nat) (q : Props) :
    (l.map fun v => (11, PVal.varint v)).foldl assignProp q =
      { q with subscriptionIdentifier := q.subscriptionIdentifier ++ l } := by
  induction l generalizing q with
  | nil => simp
  | cons v l ih => simp [ih, assignProp]

theorem foldl_user (l : List (Str × Str)) (q : Props) :
    (l.map fun (k, v) => (38, PVal.pair k v)).foldl assignProp q = { q with user := q.user ++ l } := by
  induction l generalizing q with
  | nil => simp
  | cons kv l ih => simp [ih, assignProp]

/-- the selection `c` restricted to property identifiers up to `K` -/
def upto (K : Nat) (c : Nat → Bool) : Nat → Bool := fun k => decide (k ≤ K) && c k

theorem keepProps_zero (c : Nat → Bool) (p : Props) : keepProps (upto 0 c) p = {} := by
  simp [keepProps, upto]

theorem keepProps_all (c : Nat → Bool) (p : Props) : keepProps (upto 42 c) p = keepProps c p := by
  simp [keepProps, upto]

/-- one scalar property: `K'` is the identifier handled just before `K` -/
theorem keep_step (c : Nat → Bool) (p : Props) (K K' : Nat) (v : PVal)
    (h : (K, K', v) ∈ [(1, 0, PVal.byte p.payloadFormat), (2, 1, .u32 p.messageExpiryInterval), (3, 2, .str p.contentType),
      (8, 3, .str p.responseTopic), (9, 8, .bin p.correlationData), (17, 11, .u32 p.sessionExpiryInterval),
      (18, 17, .str p.assignedClientID), (19, 18, .u16 p.serverKeepAlive), (21, 19, .str p.authenticationMethod),
      (22, 21, .bin p.authenticationData), (23, 22, .byte p.requestProblemInfo), (24, 23, .u32 p.willDelayInterval),
      (25, 24, .byte p.requestResponseInfo), (26, 25, .str p.responseInfo), (28, 26, .str p.serverReference),
      (31, 28, .str p.reasonString), (33, 31, .u16 p.receiveMaximum), (34, 33, .u16 p.topicAliasMaximum),
      (35, 34, .u16 p.topicAlias), (36, 35, .byte p.maximumQos), (37, 36, .byte p.retainAvailable),
      (39, 38, .u32 p.maximumPacketSize), (40, 39, .byte p.wildcardSubAvailable), (41, 40, .byte p.subIDAvailable),
      (42, 41, .byte p.sharedSubAvailable)]) :
    applyOpt (c K) (K, v) (keepProps (upto K' c) p) = keepProps (upto K c) p := by
  simp only [List.mem_cons, List.not_mem_nil, or_false, Prod.mk.injEq] at h
  rcases h with ⟨rfl, rfl, rfl⟩ | ⟨rfl, rfl, rfl⟩ | ⟨rfl, rfl, rfl⟩ | ⟨rfl, rfl, rfl⟩ | ⟨rfl, rfl, rfl⟩ |
    ⟨rfl, rfl, rfl⟩ | ⟨rfl, rfl, rfl⟩ | ⟨rfl, rfl, rfl⟩ | ⟨rfl, rfl, rfl⟩ | ⟨rfl, rfl, rfl⟩ | ⟨rfl, rfl, rfl⟩ |
    ⟨rfl, rfl, rfl⟩ | ⟨rfl, rfl, rfl⟩ | ⟨rfl, rfl, rfl⟩ | ⟨rfl, rfl, rfl⟩ | ⟨rfl, rfl, rfl⟩ | ⟨rfl, rfl, rfl⟩ |
    ⟨rfl, rfl, rfl⟩ | ⟨rfl, rfl, rfl⟩ | ⟨rfl, rfl, rfl⟩ | ⟨rfl, rfl, rfl⟩ | ⟨rfl, rfl, rfl⟩ | ⟨rfl, rfl, rfl⟩ |
    ⟨rfl, rfl, rfl⟩ | ⟨rfl, rfl, rfl⟩ <;>
  · cases hc : c _ <;> simp [applyOpt, assignProp, keepProps, upto, hc]

theorem keep_step_subids (c : Nat → Bool) (p : Props) :
    (if c 11 then (p.subscriptionIdentifier.filter (· > 0)).map fun v => (11, PVal.varint v) else []).foldl assignProp
      (keepProps (upto 9 c) p) = keepProps (upto 11 c) p := by
  cases hc : c 11 <;> simp [foldl_subids, keepProps, upto, hc]

theorem keep_step_user (c : Nat → Bool) (p : Props) :
    (if c 38 then p.user.map fun (k, v) => (38, PVal.pair k v) else []).foldl assignProp
      (keepProps (upto 37 c) p) = keepProps (upto 38 c) p := by
  cases hc : c 38 <;> simp [foldl_user, keepProps, upto, hc]

end Mochi.Codec

namespace Mochi.Codec
open Mochi.Varint

/-- **`assignProp` folds the written entries back to the record** -/
theorem foldl_propsToList (pkt : Nat) (mods : Mods) (n : Nat) (p : Props) :
    (propsToList pkt mods n p).foldl assignProp {} = normProps pkt mods n p := by
  rw [propsToList_eq]
  simp only [List.foldl_append, foldl_opt]
  unfold normProps
  generalize propKept pkt mods n p = c
  rw [← keepProps_zero c p]
  rw [keep_step c p 1 0 _ (by simp), keep_step c p 2 1 _ (by simp), keep_step c p 3 2 _ (by simp),
    keep_step c p 8 3 _ (by simp), keep_step c p 9 8 _ (by simp), keep_step_subids,
    keep_step c p 17 11 _ (by simp), keep_step c p 18 17 _ (by simp), keep_step c p 19 18 _ (by simp),
    keep_step c p 21 19 _ (by simp), keep_step c p 22 21 _ (by simp), keep_step c p 23 22 _ (by simp),
    keep_step c p 24 23 _ (by simp), keep_step c p 25 24 _ (by simp), keep_step c p 26 25 _ (by simp),
    keep_step c p 28 26 _ (by simp), keep_step c p 31 28 _ (by simp), keep_step c p 33 31 _ (by simp),
    keep_step c p 34 33 _ (by simp), keep_step c p 35 34 _ (by simp), keep_step c p 36 35 _ (by simp),
    keep_step c p 37 36 _ (by simp), keep_step_user, keep_step c p 39 38 _ (by simp),
    keep_step c p 40 39 _ (by simp), keep_step c p 41 40 _ (by simp), keep_step c p 42 41 _ (by simp),
    keepProps_all]

/-- length of the encoded entries (what the property-length prefix announces) -/
def propsBodyLen (pkt : Nat) (mods : Mods) (n : Nat) (p : Props) : Nat := (encodePropList (propsToList pkt mods n p)).length

/-- **Property block round trip.**  For a well-formed record whose encoding fits the length prefix,
    `Properties.Decode` — positioned at the property-length varint, whatever follows the block —
    returns the record after the encoder's suppression, and reports exactly the bytes the encoder
    wrote as consumed. -/
theorem props_roundtrip (pkt : Nat) (mods : Mods) (n : Nat) (p : Props) (rest : Str)
    (hp : WFProps p) (hlen : propsBodyLen pkt mods n p ≤ maxVBI) :
    propsDecode pkt (propsEncode pkt mods n p ++ rest) = .ok (normProps pkt mods n p, (propsEncode pkt mods n p).length) := by
  have := propsDecode_entries pkt (propsToList pkt mods n p) (propsToList_good pkt mods n p hp) hlen rest {}
  rw [foldl_propsToList] at this
  exact this

/-- the same through `decodePropsAt` (slice at the cursor, decode, advance) -/
theorem decodePropsAt_At {name : String} {pkt : Nat} {mods : Mods} {n : Nat} {p : Props} {buf : Str} {off : Nat} {t : Str}
    (h : At buf off (propsEncode pkt mods n p ++ t)) (hp : WFProps p) (hlen : propsBodyLen pkt mods n p ≤ maxVBI) :
    decodePropsAt name pkt buf off {} = .ok (normProps pkt mods n p, off + (propsEncode pkt mods n p).length) := by
  unfold decodePropsAt
  simp only [sliceFrom_At h, props_roundtrip pkt mods n p t hp hlen, wrapErr, bind, Except.bind, pure, Except.pure]

end Mochi.Codec

namespace Mochi.Codec

/-! ### small facts about `normProps` -/

theorem normProps_default (pkt : Nat) (mods : Mods) (n : Nat) : normProps pkt mods n {} = {} := by
  rw [← foldl_propsToList]
  have : propsToList pkt mods n {} = [] := by unfold propsToList; simp [opt]
  rw [this]; rfl

/-- a property the packet type does not permit is never kept -/
theorem propKept_allowed (pkt : Nat) (mods : Mods) (n : Nat) (p : Props) (k : Nat)
    (h : propKept pkt mods n p k = true) : propAllowed k pkt = true := by
  unfold propKept at h
  simp only [] at h
  split at h <;> first
    | (simp only [Bool.and_eq_true] at h; first | exact h.1 | exact h.1.2 | exact h.1.1 | exact h.1.1.2)
    | simp at h

/-- user properties and subscription identifiers keep their order (and multiplicity) -/
theorem normProps_user (pkt : Nat) (mods : Mods) (n : Nat) (p : Props) :
    (normProps pkt mods n p).user = if propKept pkt mods n p 38 then p.user else [] := rfl

theorem normProps_subIds (pkt : Nat) (mods : Mods) (n : Nat) (p : Props) :
    (normProps pkt mods n p).subscriptionIdentifier =
      if propKept pkt mods n p 11 then p.subscriptionIdentifier.filter (· > 0) else [] := rfl

/-- nothing is invented: a record whose set fields are all written (`keepProps` leaves it alone) is
    returned unchanged -/
theorem normProps_of_canonical (pkt : Nat) (mods : Mods) (n : Nat) (p : Props)
    (h : keepProps (propKept pkt mods n p) p = p) : normProps pkt mods n p = p := h

/-- `normProps` is a normal form: the written entries of the normalised record are the same -/
theorem normProps_wf (pkt : Nat) (mods : Mods) (n : Nat) (p : Props) (hp : WFProps p) :
    WFProps (normProps pkt mods n p) := by
  obtain ⟨h1, h2, h3, h8, h9, h11, h17, h18, h19, h21, h22, h23, h24, h25, h26, h28, h31, h33, h34, h35, h36, h37,
    h38, h39, h40, h41, h42⟩ := hp
  unfold normProps
  generalize propKept pkt mods n p = c
  unfold WFProps keepProps
  simp only []
  refine ⟨?_, ?_, ?_, ?_, ?_, ?_, ?_, ?_, ?_, ?_, ?_, ?_, ?_, ?_, ?_, ?_, ?_, ?_, ?_, ?_, ?_, ?_, ?_, ?_, ?_, ?_, ?_⟩ <;>
    first
    | (split <;> first | assumption | decide | omega)
    | skip
  · split
    · intro v hv; exact h11 v (List.mem_filter.mp hv).1
    · intro v hv; simp at hv

end Mochi.Codec

namespace Mochi.Codec
open Mochi.Varint

/-! ### a length of the property block that `decide` can compute

`encodeLength` is defined by well-founded recursion and does not reduce in the kernel; for a
well-formed record the length of each variable-byte integer is `minLen`. -/

def pvalLenC : PVal → Nat
  | .varint n => minLen n
  | v => (encodePVal v).length

def entriesLenC : List (Nat × PVal) → Nat
  | [] => 0
  | (_, v) :: r => 1 + pvalLenC v + entriesLenC r

theorem encodeLength_length (n : Nat) (h : n ≤ maxVBI) : (encodeLength n).length = minLen n :=
  (C29_roundtrip_minimal n h).1

theorem entriesLenC_eq (es : List (Nat × PVal)) (h : ∀ e ∈ es, wfEntry e) :
    (encodePropList es).length = entriesLenC es := by
  induction es with
  | nil => rfl
  | cons e es ih =>
    obtain ⟨k, v⟩ := e
    have hw := h (k, v) (by simp)
    have ih' := ih (fun e he => h e (by simp [he]))
    simp only [encodePropList, entriesLenC, List.length_cons, List.length_append, ih']
    cases v with
    | varint n => simp only [pvalLenC, encodePVal, encodeLength_length n hw.2]; omega
    | _ => simp only [pvalLenC]; omega

/-- computable form of `propsBodyLen` -/
def propsBodyLenC (pkt : Nat) (mods : Mods) (n : Nat) (p : Props) : Nat := entriesLenC (propsToList pkt mods n p)

theorem propsBodyLen_eq (pkt : Nat) (mods : Mods) (n : Nat) (p : Props) (hp : WFProps p) :
    propsBodyLen pkt mods n p = propsBodyLenC pkt mods n p :=
  entriesLenC_eq _ (fun e he => (propsToList_good pkt mods n p hp e he).2)


/-- `decodePropsAt_At` with the computable length bound -/
theorem decodePropsAt_AtC {name : String} {pkt : Nat} {mods : Mods} {n : Nat} {p : Props} {buf : Str} {off : Nat} {t : Str}
    (h : At buf off (propsEncode pkt mods n p ++ t)) (hp : WFProps p) (hlen : propsBodyLenC pkt mods n p ≤ maxVBI) :
    decodePropsAt name pkt buf off {} = .ok (normProps pkt mods n p, off + (propsEncode pkt mods n p).length) :=
  decodePropsAt_At h hp (by rw [propsBodyLen_eq pkt mods n p hp]; exact hlen)

end Mochi.Codec
