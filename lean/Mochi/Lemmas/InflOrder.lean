import Mochi.Model.InflOrder
/-!
Lemmas about M14 (in-flight ordering), core Lean only.
-/
namespace Mochi.InflOrder

theorem mem_ins (r y : Rec) (l : List Rec) : y ∈ ins r l ↔ y = r ∨ y ∈ l := by
  induction l with
  | nil => simp [ins]
  | cons x xs ih =>
    unfold ins; split
    · simp
    · simp only [List.mem_cons, ih]
      constructor
      · rintro (h | h | h)
        · exact .inr (.inl h)
        · exact .inl h
        · exact .inr (.inr h)
      · rintro (h | h | h)
        · exact .inr (.inl h)
        · exact .inl h
        · exact .inr (.inr h)

theorem ins_perm (r : Rec) (l : List Rec) : (ins r l).Perm (r :: l) := by
  induction l with
  | nil => simp [ins]
  | cons x xs ih =>
    unfold ins; split
    · exact List.Perm.refl _
    · exact (List.Perm.cons x ih).trans (List.Perm.swap r x xs)

theorem ins_sorted (r : Rec) (l : List Rec) (h : l.Pairwise fun a b => a.created ≤ b.created) :
    (ins r l).Pairwise fun a b => a.created ≤ b.created := by
  induction l with
  | nil => simp [ins]
  | cons x xs ih =>
    rw [List.pairwise_cons] at h
    unfold ins; split
    · rename_i hle
      refine List.pairwise_cons.mpr ⟨?_, List.pairwise_cons.mpr h⟩
      intro y hy
      rcases List.mem_cons.mp hy with rfl | hy'
      · exact hle
      · have := h.1 y hy'; omega
    · rename_i hnle
      refine List.pairwise_cons.mpr ⟨?_, ih h.2⟩
      intro y hy
      rcases (mem_ins r y xs).mp hy with rfl | hy'
      · omega
      · exact h.1 y hy'

theorem isort_perm (l : List Rec) : (isort l).Perm l := by
  induction l with
  | nil => exact List.Perm.refl _
  | cons x xs ih => exact (ins_perm x (isort xs)).trans (List.Perm.cons x ih)

theorem isort_sorted (l : List Rec) : (isort l).Pairwise fun a b => a.created ≤ b.created := by
  induction l with
  | nil => exact List.Pairwise.nil
  | cons x xs ih => exact ins_sorted x _ ih

/-- `getAll` is sorted by creation time … -/
theorem getAll_sorted (s : Store) (imm : Bool) :
    (getAll s imm).Pairwise fun a b => a.created ≤ b.created := isort_sorted _

/-- … and is a permutation of exactly the collected records -/
theorem getAll_perm (s : Store) (imm : Bool) : (getAll s imm).Perm (candidates s imm) := isort_perm _

theorem mem_getAll (s : Store) (imm : Bool) (r : Rec) : r ∈ getAll s imm ↔ r ∈ candidates s imm :=
  (getAll_perm s imm).mem_iff

/-- In a list sorted by `created`, a strictly older element stands before a younger one. -/
theorem sorted_older_first (l : List Rec) (h : l.Pairwise fun a b => a.created ≤ b.created)
    (a b : Rec) (ha : a ∈ l) (hb : b ∈ l) (hlt : a.created < b.created) :
    ∃ A B C, l = A ++ a :: B ++ b :: C := by
  induction l with
  | nil => cases ha
  | cons x xs ih =>
    rw [List.pairwise_cons] at h
    rcases List.mem_cons.mp ha with rfl | ha'
    · rcases List.mem_cons.mp hb with rfl | hb'
      · omega
      · obtain ⟨B, C, hBC⟩ := List.append_of_mem hb'
        exact ⟨[], B, C, by simp [hBC]⟩
    · rcases List.mem_cons.mp hb with rfl | hb'
      · have := h.1 a ha'; omega
      · obtain ⟨A, B, C, hABC⟩ := ih h.2 ha' hb'
        exact ⟨x :: A, B, C, by simp [hABC]⟩

/-- the record `NextImmediate` returns is a deferred record, and no deferred record is older -/
theorem nextImmediate_minimal (s : Store) (r : Rec) (h : nextImmediate s = some r) :
    r ∈ candidates s true ∧ ∀ x ∈ candidates s true, r.created ≤ x.created := by
  unfold nextImmediate at h
  have hs := getAll_sorted s true
  match hg : getAll s true, h with
  | y :: ys, h =>
    simp only [hg, List.head?_cons, Option.some.injEq] at h
    subst h
    have hmem : ∀ x, x ∈ candidates s true ↔ x ∈ y :: ys := by
      intro x; rw [← hg]; exact (mem_getAll s true x).symm
    refine ⟨(hmem y).mpr (List.mem_cons_self), ?_⟩
    intro x hx
    rw [hg, List.pairwise_cons] at hs
    rcases List.mem_cons.mp ((hmem x).mp hx) with rfl | hx'
    · omega
    · exact hs.1 x hx'

theorem nextImmediate_none (s : Store) : nextImmediate s = none ↔ candidates s true = [] := by
  unfold nextImmediate
  rw [List.head?_eq_none_iff]
  constructor
  · intro h; have := (getAll_perm s true); rw [h] at this; exact this.symm.eq_nil
  · intro h; have := (getAll_perm s true); rw [h] at this; exact this.eq_nil

end Mochi.InflOrder

namespace Mochi.InflOrder

/-- the store is a map: at most one record per packet id -/
def UniqueIds (s : Store) : Prop := (s.map (·.id)).Nodup

theorem set_ids_of_present (s : Store) (r : Rec) :
    (s.map fun x => if x.id == r.id then r else x).map (·.id) = s.map (·.id) := by
  rw [List.map_map]
  apply List.map_congr_left
  intro x _
  by_cases h : x.id = r.id
  · simp [h]
  · simp [h]

theorem set_unique (s : Store) (r : Rec) (h : UniqueIds s) : UniqueIds (set s r).1 := by
  unfold set
  split
  · show ((s.map fun x => if x.id == r.id then r else x).map (·.id)).Nodup
    rw [set_ids_of_present]; exact h
  · rename_i hn
    show ((s ++ [r]).map (·.id)).Nodup
    rw [List.map_append, List.nodup_append]
    refine ⟨h, by simp, ?_⟩
    intro a ha b hb
    simp only [List.map_cons, List.map_nil, List.mem_singleton] at hb
    subst hb
    intro hab
    apply hn
    obtain ⟨x, hx, hxa⟩ := List.mem_map.mp ha
    exact List.any_eq_true.mpr ⟨x, hx, by simp [hxa, hab]⟩

theorem del_unique (s : Store) (id : Nat) (h : UniqueIds s) : UniqueIds (del s id).1 := by
  unfold del UniqueIds
  exact List.Nodup.sublist ((List.filter_sublist).map _) h

theorem mem_set_aux (s : Store) (r x : Rec) : x ∈ (set s r).1 ↔ (x = r ∧ True) ∨ (x ∈ s ∧ x.id ≠ r.id) ∨ False := by
  unfold set
  split
  · rename_i hp
    simp only [List.mem_map, and_true, or_false]
    constructor
    · rintro ⟨y, hy, rfl⟩
      by_cases h : y.id = r.id
      · simp [h]
      · right; simp [h, hy]
    · rintro (rfl | ⟨hx, hne⟩)
      · obtain ⟨y, hy, hyr⟩ := List.any_eq_true.mp hp
        exact ⟨y, hy, by simp [beq_iff_eq.mp hyr]⟩
      · exact ⟨x, hx, by simp [hne]⟩
  · rename_i hn
    simp only [List.mem_append, List.mem_singleton, and_true, or_false]
    constructor
    · rintro (hx | rfl)
      · right; refine ⟨hx, fun h => hn (List.any_eq_true.mpr ⟨x, hx, by simp [h]⟩)⟩
      · left; rfl
    · rintro (rfl | ⟨hx, _⟩)
      · right; rfl
      · left; exact hx

/-- `Set` stores the record: afterwards the id maps to exactly that record, other ids are untouched -/
theorem mem_set (s : Store) (r x : Rec) : x ∈ (set s r).1 ↔ x = r ∨ (x ∈ s ∧ x.id ≠ r.id) := by
  simpa using mem_set_aux s r x

/-- `Delete` removes exactly the records of that id -/
theorem mem_del (s : Store) (id : Nat) (x : Rec) : x ∈ (del s id).1 ↔ x ∈ s ∧ x.id ≠ id := by
  unfold del; simp

end Mochi.InflOrder
