import Mochi.Lemmas.BrokerCounters
import Mochi.Lemmas.ScanMsgs
import Mochi.Lemmas.Refine
/-!
# The retained scan `messages s.topics f` is exact in every reachable broker state

`Mochi.Topics.messages_exact` needs structural facts about the index: addresses prefix closed and pairwise
distinct, every retain path sits on the particle it names, every retained topic has its particle, and the
retained map is keyed by topic.  For index histories (`runOps`) these come from the simulation `Sim` of
`Refine.lean`.  The broker is not an index history: `tickRetained` deletes expired topics from
`s.topics.retained` but leaves the particle's `retainPath` in place, so `Sim s.topics.nodes s.topics.retained a`
is NOT an invariant of the broker.

`RetIdx x`: the particles of `x` simulate some plain index `a` whose retained map `ret'` is a SUPERSET of
`x.retained`.  Every index operation keeps it (the particles an operation computes do not depend on the
retained map, `applyOp_nodes_ri`), and so does dropping keys from the real map.  `RetIdxOK_laws` makes it a
lawful predicate on the broker core, so it holds after every history (`RetIdxOK_run`), and it gives every
hypothesis of `messages_exact` / `messages_nodup` / `messages_current` but "no retained message under the
empty topic".
-/
namespace Mochi.Topics

/-- what an index operation does to the retained map -/
def retOp_ri (r : List (Str × Retained)) : IOp → List (Str × Retained)
  | .retain t p fl =>
    if p.length > 0 then assocSet r t { topic := t, payload := p, retain := fl } else assocDel r t
  | _ => r

theorem retainMessage_retained_ri (x : Index) (topic payload : Str) (fl : Bool) :
    (retainMessage x topic payload fl).1.retained =
      if payload.length > 0 then assocSet x.retained topic { topic := topic, payload := payload, retain := fl }
      else assocDel x.retained topic := by
  unfold retainMessage
  extract_lets p ns
  obtain ⟨n, hn⟩ := getNode_setPath_self x.nodes p (pathFrom_ne_nil _ _)
  rw [show getNode ns p = some n from hn]
  simp only []
  split <;> rfl

theorem applyOp_retained_ri (x : Index) (op : IOp) : (applyOp x op).retained = retOp_ri x.retained op := by
  cases op with
  | subscribe c s =>
    show (subscribe x c s).1.retained = x.retained
    unfold subscribe
    extract_lets ls group p ns p2 ns2
    (repeat' split) <;> rfl
  | unsubscribe f c =>
    show (unsubscribe x f c).1.retained = x.retained
    unfold unsubscribe
    extract_lets ls share p group
    (repeat' split) <;> rfl
  | inlineSubscribe id s =>
    show (inlineSubscribe x id s).1.retained = x.retained
    unfold inlineSubscribe
    extract_lets p ns
    split <;> rfl
  | inlineUnsubscribe id f =>
    show (inlineUnsubscribe x id f).1.retained = x.retained
    unfold inlineUnsubscribe
    extract_lets p
    split <;> rfl
  | retain t p fl => exact retainMessage_retained_ri x t p fl

/-- the particles an operation computes do not depend on the retained map -/
theorem applyOp_nodes_ri (ns : List Node) (r r' : List (Str × Retained)) (op : IOp) :
    (applyOp { nodes := ns, retained := r } op).nodes = (applyOp { nodes := ns, retained := r' } op).nodes := by
  cases op with
  | subscribe c s =>
    simp only [applyOp, subscribe]
    (repeat' split) <;> rfl
  | unsubscribe f c =>
    simp only [applyOp, unsubscribe]
    (repeat' split) <;> rfl
  | inlineSubscribe id s =>
    simp only [applyOp, inlineSubscribe]
    (repeat' split) <;> rfl
  | inlineUnsubscribe id f =>
    simp only [applyOp, inlineUnsubscribe]
    (repeat' split) <;> rfl
  | retain t p fl =>
    simp only [applyOp, retainMessage]
    (repeat' split) <;> rfl

/-- the particles of `x` simulate a plain index whose retained map contains `x.retained` -/
def RetIdx (x : Index) : Prop :=
  ∃ (ret' : List (Str × Retained)) (a : Abs),
    PrefixClosed x.nodes ∧ PathsOK (x.nodes.map (·.path)) ∧
    Sim x.nodes ret' a ∧
    (∀ t r, assocGet x.retained t = some r → assocGet ret' t = some r) ∧
    (∀ t r, assocGet x.retained t = some r → r.topic = t)

theorem RetIdx_empty_ri : RetIdx {} :=
  ⟨[], {}, by intro p hp; simp [hasNode] at hp, ⟨List.nodup_nil, fun _ h => by simp at h⟩, sim_empty,
    fun _ _ h => h, fun _ _ h => by simp [assocGet_nil] at h⟩

theorem retOp_sub_ri (m m' : List (Str × Retained)) (op : IOp)
    (h : ∀ t r, assocGet m t = some r → assocGet m' t = some r) :
    ∀ t r, assocGet (retOp_ri m op) t = some r → assocGet (retOp_ri m' op) t = some r := by
  cases op with
  | subscribe c s => exact h
  | unsubscribe f c => exact h
  | inlineSubscribe id s => exact h
  | inlineUnsubscribe id f => exact h
  | retain k p fl =>
    intro t r
    simp only [retOp_ri]
    by_cases hp : p.length > 0
    · rw [if_pos hp, if_pos hp, assocGet_assocSet, assocGet_assocSet]
      by_cases ht : t = k
      · rw [if_pos ht, if_pos ht]; exact fun e => e
      · rw [if_neg ht, if_neg ht]; exact h t r
    · rw [if_neg hp, if_neg hp, assocGet_assocDel, assocGet_assocDel]
      by_cases ht : t = k
      · rw [if_pos ht, if_pos ht]; exact fun e => e
      · rw [if_neg ht, if_neg ht]; exact h t r

theorem retOp_keys_ri (m : List (Str × Retained)) (op : IOp)
    (h : ∀ t r, assocGet m t = some r → r.topic = t) :
    ∀ t r, assocGet (retOp_ri m op) t = some r → r.topic = t := by
  cases op with
  | subscribe c s => exact h
  | unsubscribe f c => exact h
  | inlineSubscribe id s => exact h
  | inlineUnsubscribe id f => exact h
  | retain k p fl =>
    intro t r
    simp only [retOp_ri]
    by_cases hp : p.length > 0
    · rw [if_pos hp, assocGet_assocSet]
      by_cases ht : t = k
      · rw [if_pos ht]
        intro e
        cases e
        exact ht.symm
      · rw [if_neg ht]; exact h t r
    · rw [if_neg hp, assocGet_assocDel]
      by_cases ht : t = k
      · rw [if_pos ht]; intro e; cases e
      · rw [if_neg ht]; exact h t r

/-- every index operation keeps `RetIdx` -/
theorem RetIdx_applyOp_ri (x : Index) (op : IOp) (h : RetIdx x) : RetIdx (applyOp x op) := by
  obtain ⟨ret', a, hpc, hok, hsim, hsup, hkeys⟩ := h
  have hn : (applyOp { nodes := x.nodes, retained := ret' } op).nodes = (applyOp x op).nodes :=
    applyOp_nodes_ri x.nodes ret' x.retained op
  have hs := sim_applyOp { nodes := x.nodes, retained := ret' } a hpc hsim op
  rw [hn, applyOp_retained_ri] at hs
  refine ⟨_, _, prefixClosed_applyOp x hpc op, pathsOK_applyOp x hok op, hs, ?_, ?_⟩
  · rw [applyOp_retained_ri]
    exact retOp_sub_ri _ _ op hsup
  · rw [applyOp_retained_ri]
    exact retOp_keys_ri _ op hkeys

/-- dropping a key from the real retained map keeps `RetIdx` -/
theorem RetIdx_del_ri (x : Index) (k : Str) (h : RetIdx x) :
    RetIdx { x with retained := assocDel x.retained k } := by
  obtain ⟨ret', a, hpc, hok, hsim, hsup, hkeys⟩ := h
  have hd : ∀ t r, assocGet (assocDel x.retained k) t = some r → assocGet x.retained t = some r := by
    intro t r
    rw [assocGet_assocDel]
    by_cases ht : t = k
    · rw [if_pos ht]; intro e; cases e
    · rw [if_neg ht]; exact fun e => e
  exact ⟨ret', a, hpc, hok, hsim, fun t r e => hsup t r (hd t r e), fun t r e => hkeys t r (hd t r e)⟩

/-! ### what `RetIdx` gives the retained scan -/

theorem RetIdx.sound_ri {x : Index} (h : RetIdx x) :
    ∀ n ∈ x.nodes, n.retainPath ≠ [] → splitLevels n.retainPath = n.path := by
  obtain ⟨ret', a, _, hok, hsim, _, _⟩ := h
  intro n hn hr
  have hg := getNode_of_mem x.nodes hok.1 n hn
  have : (getNode x.nodes n.path).bind pRet = some n.retainPath := by
    rw [hg]; simp [pRet, hr]
  exact (hsim.rsound n.path n.retainPath this).1

theorem RetIdx.complete_ri {x : Index} (h : RetIdx x) :
    ∀ t, t ≠ [] → (assocGet x.retained t).isSome →
      ∃ n, getNode x.nodes (splitLevels t) = some n ∧ n.retainPath = t := by
  obtain ⟨ret', a, _, _, hsim, hsup, _⟩ := h
  intro t ht hs
  obtain ⟨r, hr⟩ := Option.isSome_iff_exists.mp hs
  have := hsim.rhas t ht (by rw [hsup t r hr]; rfl)
  cases hg : getNode x.nodes (splitLevels t) with
  | none => rw [hg] at this; simp at this
  | some n =>
    refine ⟨n, rfl, ?_⟩
    rw [hg] at this
    simp only [Option.bind_some, pRet] at this
    split at this
    · simp at this
    · simpa using this

theorem RetIdx.keys_ri {x : Index} (h : RetIdx x) : ∀ t r, assocGet x.retained t = some r → r.topic = t := by
  obtain ⟨_, _, _, _, _, _, hkeys⟩ := h
  exact hkeys

theorem RetIdx.prefixClosed_ri {x : Index} (h : RetIdx x) : PrefixClosed x.nodes := by
  obtain ⟨_, _, hpc, _, _, _, _⟩ := h
  exact hpc

theorem RetIdx.pathsOK_ri {x : Index} (h : RetIdx x) : PathsOK (x.nodes.map (·.path)) := by
  obtain ⟨_, _, _, hok, _, _, _⟩ := h
  exact hok

end Mochi.Topics

namespace Mochi.Broker
open Mochi.Topics

/-- the topic index of the core satisfies `RetIdx` -/
def RetIdxOK (k : Core) : Prop := RetIdx k.topics

theorem tickRetainedLoop_RetIdx_ri (s : Server) (now : Int) (h : RetIdx s.topics) :
    RetIdx (tickRetained.tickRetainedLoop s now).topics := by
  unfold tickRetained.tickRetainedLoop
  refine foldl_inv (fun (x : Server) => RetIdx x.topics) _ _ _ h ?_
  intro b e hb
  extract_lets pk expired enforced
  split
  · exact RetIdx_del_ri b.topics e.1 hb
  · exact hb

theorem RetIdxOK_laws : Laws RetIdxOK := by
  refine ⟨?_, ?_, ?_, ?_, ?_, ?_⟩
  · intro s cid sb h
    exact RetIdx_applyOp_ri s.topics (.subscribe cid sb) h
  · intro s f cid h
    exact RetIdx_applyOp_ri s.topics (.unsubscribe f cid) h
  · intro s pk h
    unfold retainMsg
    split
    · exact h
    · exact RetIdx_applyOp_ri s.topics (.retain pk.topic pk.payload pk.retain) h
  · intro s now h
    exact tickRetainedLoop_RetIdx_ri s now h
  · intro s id sb h
    exact RetIdx_applyOp_ri s.topics (.inlineSubscribe id sb) h
  · intro s id f h
    exact RetIdx_applyOp_ri s.topics (.inlineUnsubscribe id f) h

theorem RetIdxOK_init (caps : Caps) : RetIdxOK (core (init caps)) := RetIdx_empty_ri

theorem RetIdxOK_step (s : Server) (op : Op) : RetIdxOK (core s) → RetIdxOK (core (step s op).1) :=
  step_coreP RetIdxOK_laws s op

/-- **in every history the topic index of the broker satisfies `RetIdx`** -/
theorem RetIdxOK_run (caps : Caps) (ops : List Op) : RetIdxOK (core (run (init caps) ops)) :=
  run_coreP RetIdxOK_laws _ ops (RetIdxOK_init caps)

/-- **`Messages(filter)` on the broker's index returns exactly the retained topics the filter matches**,
    given only that nothing is retained under the empty topic. -/
theorem messages_exact_of_RetIdxOK (s : Server) (h : RetIdxOK (core s))
    (hne : assocGet s.topics.retained [] = none)
    (f : Str) (hf : f ≠ []) (hok : specLevelsOK (splitLevels f) = true) (t : Str) :
    (∃ r ∈ messages s.topics f, r.topic = t) ↔
      ((assocGet s.topics.retained t).isSome ∧ specMatch (splitLevels f) t = true) := by
  have h' : RetIdx s.topics := h
  rw [messages_exact s.topics h'.prefixClosed_ri h'.pathsOK_ri.1 h'.sound_ri h'.complete_ri h'.keys_ri
        (by rw [hne]; rfl) f hf hok t]
  unfold specMatch
  constructor
  · rintro ⟨h1, h2, h3⟩; exact ⟨h1, by simp [h2, h3]⟩
  · rintro ⟨h1, h2⟩
    simp only [Bool.and_eq_true, Bool.not_eq_true'] at h2
    exact ⟨h1, h2.1, h2.2⟩

/-- `Messages(filter)` returns no topic twice -/
theorem messages_nodup_of_RetIdxOK (s : Server) (h : RetIdxOK (core s))
    (hne : assocGet s.topics.retained [] = none)
    (f : Str) (hok : specLevelsOK (splitLevels f) = true) :
    ((messages s.topics f).map (·.topic)).Nodup := by
  have h' : RetIdx s.topics := h
  exact messages_nodup s.topics h'.prefixClosed_ri h'.pathsOK_ri.1 h'.sound_ri h'.keys_ri
    (by rw [hne]; rfl) f hok

/-- every message `Messages(filter)` returns is the one currently stored under its topic -/
theorem messages_current_of_RetIdxOK (s : Server) (h : RetIdxOK (core s)) (f : Str) :
    ∀ r ∈ messages s.topics f, assocGet s.topics.retained r.topic = some r := by
  have h' : RetIdx s.topics := h
  exact messages_current s.topics h'.keys_ri f

/-- the three, after every history -/
theorem messages_exact_run (caps : Caps) (ops : List Op)
    (hne : assocGet (run (init caps) ops).topics.retained [] = none)
    (f : Str) (hf : f ≠ []) (hok : specLevelsOK (splitLevels f) = true) (t : Str) :
    (∃ r ∈ messages (run (init caps) ops).topics f, r.topic = t) ↔
      ((assocGet (run (init caps) ops).topics.retained t).isSome ∧ specMatch (splitLevels f) t = true) :=
  messages_exact_of_RetIdxOK _ (RetIdxOK_run caps ops) hne f hf hok t

end Mochi.Broker

#print axioms Mochi.Broker.RetIdxOK_laws
#print axioms Mochi.Broker.RetIdxOK_step
#print axioms Mochi.Broker.RetIdxOK_run
#print axioms Mochi.Broker.messages_exact_of_RetIdxOK
#print axioms Mochi.Broker.messages_nodup_of_RetIdxOK
#print axioms Mochi.Broker.messages_current_of_RetIdxOK
#print axioms Mochi.Broker.messages_exact_run
