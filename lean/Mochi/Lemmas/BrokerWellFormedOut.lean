import Mochi.Model.Broker
import Mochi.Lemmas.AckRes
import Mochi.Lemmas.BrokerFrame
import Mochi.Lemmas.BrokerInv
import Mochi.Lemmas.BrokerDelivery
import Mochi.Lemmas.BrokerAnswers
/-!
# C23 at broker level: what `step` writes, to whom, and for which protocol version

One walk over every function of the sequential broker model that writes (`Mochi/Model/Broker.lean`), carrying the
relation `VOK s s' o` ("`s'` results from `s`, having emitted `o`"):

* `KV s s'` — no object is created or removed; `conn`, `ver`, `inline` of EVERY object are kept; a closed object
  stays closed; every Clients-map entry still points at an existing object;
* every `wrote conn pk` of `o` is addressed to an existing, non-inline object `j` of `s` with `conn = (getObj s j).conn`
  that is OPEN, the packet is encoded for `(getObj s j).ver` (`verOf`), and has an MQTT 3 shape (`Shape`: the CONNACK
  and SUBACK code tables);
* `Disc`: after a `wrote conn (.disconnect ..)` every object on `conn` is closed and nothing more is written to `conn`.

The relation is transitive (`VOK.trans`), so each handler is one lemma.
-/
namespace Mochi.Broker.W23
open Mochi.Topics

/-! ### what a written packet is encoded for, and its MQTT 3 shape -/

/-- the protocol version a written packet is ENCODED for (PINGRESP has no version-dependent part) -/
def verOf : WPk → Option Nat
  | .connack v _ _ _ _ _ => some v
  | .publish v _ _ => some v
  | .ack v _ _ _ => some v
  | .suback v _ _ => some v
  | .unsuback v _ _ => some v
  | .disconnect v _ => some v
  | .pingresp => none

/-- the SUBACK return codes MQTT 3.1.1 defines -/
def V3SubCode (c : Nat) : Prop := c = 0 ∨ c = 1 ∨ c = 2 ∨ c = 0x80

instance (c : Nat) : Decidable (V3SubCode c) := by unfold V3SubCode; infer_instance

/-- the CONNACK reason codes the model writes to an MQTT 3 client (as MQTT 5 codes; `WPk.render` maps them through
    `v3code`): success, the three that `V5CodesToV3` converts (0x84 → 1, 0x86 → 5, 0x88 → 3) and the three of finding
    F23a, sent raw (0x80, 0x9A, 0x9B) -/
def V3ConnackCode (code : Nat) : Prop :=
  code = 0 ∨ code = 0x84 ∨ code = 0x86 ∨ code = 0x88 ∨ code = 0x80 ∨ code = 0x9A ∨ code = 0x9B

instance (c : Nat) : Decidable (V3ConnackCode c) := by unfold V3ConnackCode; infer_instance

/-- the version-3 tables: a CONNACK encoded for MQTT 3 carries one of `V3ConnackCode`; a SUBACK encoded for MQTT 3
    carries MQTT 3 return codes only (also when the packet identifier was in use: since fix e36320d the 0x91 of that
    refusal passes through the MQTT 3 downgrade like every other failure code) -/
def Shape : WPk → Prop
  | .connack v _ code _ _ _ => v < 5 → V3ConnackCode code
  | .suback v _ rcs => v < 5 → ∀ c ∈ rcs, V3SubCode c
  | _ => True

/-- `x`, if it is a write, goes to the connection of an existing, open, non-inline object of `s` and is encoded for
    that object's protocol version -/
def OutOK (s : Server) : Out → Prop
  | .wrote conn pk => Shape pk ∧ ∃ j, j < s.objs.length ∧ (getObj s j).inline = false ∧ (getObj s j).conn = conn ∧
      (∀ v, verOf pk = some v → v = (getObj s j).ver) ∧ (getObj s j).isOpen = true
  | _ => True

def IsDisc : Out → Prop
  | .wrote _ (.disconnect _ _) => True
  | _ => False

/-- no DISCONNECT packet in `o` -/
def NoDisc (o : List Out) : Prop := ∀ x ∈ o, ¬ IsDisc x

/-- every object of `s` on connection `conn` is closed -/
def ClosedOn (s : Server) (conn : Nat) : Prop :=
  ∀ j, j < s.objs.length → (getObj s j).inline = false → (getObj s j).conn = conn → (getObj s j).isOpen = false

/-- after a DISCONNECT written to `conn`: every object on `conn` is closed (in `s'`, the state at the end) and nothing
    more is written to `conn` -/
def Disc (s' : Server) (o : List Out) : Prop :=
  ∀ o1 conn v code o2, o = o1 ++ Out.wrote conn (.disconnect v code) :: o2 →
    ClosedOn s' conn ∧ ∀ pk, Out.wrote conn pk ∉ o2

/-- every Clients-map entry points at an existing object -/
def CV (s : Server) : Prop := ∀ cid j, (cid, j) ∈ s.clients → j < s.objs.length

/-- what the walk assumes of a state: `CV` and one connection per (non-inline) object -/
structure Pre (s : Server) : Prop where
  cv : CV s
  cd : ConnDistinct s
  /-- a stopped object is closed (`Client.Stop` closes the connection) -/
  so : ∀ k, (getObj s k).stopped = true → (getObj s k).isOpen = false

/-! ### `KV`: what every function keeps -/

structure Fix (a b : Client) : Prop where
  conn : b.conn = a.conn
  ver : b.ver = a.ver
  inline : b.inline = a.inline
  shut : a.isOpen = false → b.isOpen = false
  so : (a.stopped = true → a.isOpen = false) → (b.stopped = true → b.isOpen = false)

theorem Fix.refl (a : Client) : Fix a a := ⟨rfl, rfl, rfl, fun h => h, fun h => h⟩
theorem Fix.trans {a b c : Client} (h : Fix a b) (g : Fix b c) : Fix a c :=
  ⟨g.conn.trans h.conn, g.ver.trans h.ver, g.inline.trans h.inline, fun x => g.shut (h.shut x),
   fun x => g.so (h.so x)⟩

macro "fix_rfl" : tactic => `(tactic| exact ⟨rfl, rfl, rfl, fun h => h, fun h => h⟩)

theorem Fix.flSet (c : Client) (m : Msg) : Fix c (flSet c m).1 := by
  unfold Mochi.Broker.flSet; split <;> fix_rfl
theorem Fix.flDelete (c : Client) (id : Nat) : Fix c (flDelete c id).1 := by
  unfold Mochi.Broker.flDelete; fix_rfl
theorem Fix.decSend (c : Client) : Fix c (decSend c) := by
  unfold Mochi.Broker.decSend; split <;> fix_rfl
theorem Fix.incSend (c : Client) : Fix c (incSend c) := by
  unfold Mochi.Broker.incSend; split <;> fix_rfl
theorem Fix.decRecv (c : Client) : Fix c (decRecv c) := by
  unfold Mochi.Broker.decRecv; split <;> fix_rfl
theorem Fix.incRecv (c : Client) : Fix c (incRecv c) := by
  unfold Mochi.Broker.incRecv; split <;> fix_rfl
theorem Fix.aliasOutSet (c : Client) (t : Str) : Fix c (aliasOutSet c t).1 := by
  unfold Mochi.Broker.aliasOutSet
  split
  · fix_rfl
  · split
    · fix_rfl
    · split <;> fix_rfl

structure KV (s s' : Server) : Prop where
  len : s'.objs.length = s.objs.length
  fix : ∀ k, Fix (getObj s k) (getObj s' k)
  cv : CV s → CV s'
  connOf : s'.connOf = s.connOf

theorem KV.refl (s : Server) : KV s s := ⟨rfl, fun _ => Fix.refl _, fun h => h, rfl⟩

theorem KV.trans {s s1 s2 : Server} (h : KV s s1) (g : KV s1 s2) : KV s s2 :=
  ⟨g.len.trans h.len, fun k => (h.fix k).trans (g.fix k), fun x => g.cv (h.cv x), g.connOf.trans h.connOf⟩

/-- a change to server fields other than `objs`, `clients` -/
theorem KV.upd {s0 s s' : Server} (h : KV s0 s) (ho : s'.objs = s.objs) (hc : s'.clients = s.clients)
    (hn : s'.connOf = s.connOf) : KV s0 s' := by
  refine ⟨by rw [ho]; exact h.len, fun k => by rw [getObj_of_objs_eq ho k]; exact h.fix k, fun x => ?_, hn.trans h.connOf⟩
  intro cid j hm
  rw [hc] at hm
  rw [ho]
  exact h.cv x cid j hm

/-- the Clients map shrinks -/
theorem KV.delClient {s0 s : Server} (h : KV s0 s) (cid : Str) : KV s0 { s with clients := assocDel s.clients cid } := by
  refine ⟨h.len, h.fix, fun x => ?_, h.connOf⟩
  intro c j hm
  exact h.cv x c j (List.mem_filter.mp hm).1

theorem KV.set {s0 s : Server} (h : KV s0 s) (i : Nat) (c : Client) (hc : Fix (getObj s i) c) :
    KV s0 (setObj s i c) := by
  refine ⟨(setObj_length s i c).trans h.len, fun k => ?_, fun x => ?_, h.connOf⟩
  · by_cases hk : k = i
    · subst hk
      rcases getObj_setObj_self_cases s k c with e | e
      · rw [e]; exact (h.fix k).trans hc
      · rw [e]; exact h.fix k
    · rw [getObj_setObj_ne s i k c hk]; exact h.fix k
  · intro cid j hm
    rw [setObj_length]
    exact h.cv x cid j hm

theorem KV.mod {s0 s : Server} (h : KV s0 s) (i : Nat) (f : Client → Client) (hf : Fix (getObj s i) (f (getObj s i))) :
    KV s0 (modObj s i f) := h.set i _ hf

theorem KV.pre {s s' : Server} (h : KV s s') (p : Pre s) : Pre s' := by
  refine ⟨h.cv p.cv, ?_, fun k => (h.fix k).so (p.so k)⟩
  intro i j hi hj hii hij e
  rw [h.len] at hi hj
  rw [(h.fix i).inline] at hii
  rw [(h.fix j).inline] at hij
  rw [(h.fix i).conn, (h.fix j).conn] at e
  exact p.cd i j hi hj hii hij e

theorem KV.closedOn {s s' : Server} (h : KV s s') {conn : Nat} (c : ClosedOn s conn) : ClosedOn s' conn := by
  intro j hj hin hc
  rw [h.len] at hj
  rw [(h.fix j).inline] at hin
  rw [(h.fix j).conn] at hc
  exact (h.fix j).shut (c j hj hin hc)

/-- a write addressed in the later state is addressed in the earlier one -/
theorem OutOK.back {s s' : Server} (h : KV s s') {x : Out} (g : OutOK s' x) : OutOK s x := by
  cases x with
  | wrote conn pk =>
    obtain ⟨sh, j, hj, hin, hc, hv, ho⟩ := g
    refine ⟨sh, j, by rw [← h.len]; exact hj, by rw [← (h.fix j).inline]; exact hin,
      by rw [← (h.fix j).conn]; exact hc, fun v e => by rw [← (h.fix j).ver]; exact hv v e, ?_⟩
    cases hb : (getObj s j).isOpen with
    | true => rfl
    | false => rw [(h.fix j).shut hb] at ho; cases ho
  | closed _ => trivial
  | event _ => trivial
  | inline _ _ _ => trivial

/-! ### `VOK` -/

structure VOK (s s' : Server) (o : List Out) : Prop where
  kv : KV s s'
  ok : ∀ x ∈ o, OutOK s x
  disc : Disc s' o

theorem Disc.of_noDisc {s' : Server} {o : List Out} (h : NoDisc o) : Disc s' o := by
  intro o1 conn v code o2 e
  exact absurd trivial (h (Out.wrote conn (.disconnect v code)) (by rw [e]; simp))

theorem NoDisc.nil : NoDisc [] := fun _ h => by cases h

theorem NoDisc.append {a b : List Out} (h : NoDisc a) (g : NoDisc b) : NoDisc (a ++ b) := by
  intro x hx
  rcases List.mem_append.mp hx with hx | hx
  · exact h x hx
  · exact g x hx

theorem VOK.of_kv {s s' : Server} (h : KV s s') : VOK s s' [] :=
  ⟨h, fun _ hx => (by cases hx), Disc.of_noDisc NoDisc.nil⟩

theorem VOK.refl (s : Server) : VOK s s [] := VOK.of_kv (KV.refl s)

/-- a segment without DISCONNECT -/
theorem VOK.of_writes {s s' : Server} {o : List Out} (h : KV s s') (ok : ∀ x ∈ o, OutOK s x) (nd : NoDisc o) :
    VOK s s' o := ⟨h, ok, Disc.of_noDisc nd⟩

theorem VOK.trans {s s1 s2 : Server} {o1 o2 : List Out} (h : VOK s s1 o1) (g : VOK s1 s2 o2) :
    VOK s s2 (o1 ++ o2) := by
  refine ⟨h.kv.trans g.kv, ?_, ?_⟩
  · intro x hx
    rcases List.mem_append.mp hx with hx | hx
    · exact h.ok x hx
    · exact (g.ok x hx).back h.kv
  · intro a conn v code b e
    rcases List.append_eq_append_iff.mp e with ⟨a', ha, hb⟩ | ⟨c', ha, hb⟩
    · -- the DISCONNECT lies in `o2`
      exact g.disc a' conn v code b hb
    · cases c' with
      | nil =>
        rw [List.nil_append] at hb
        exact g.disc [] conn v code b hb.symm
      | cons d c'' =>
        rw [List.cons_append] at hb
        injection hb with hd hb
        subst hd
        obtain ⟨hc, hn⟩ := h.disc a conn v code c'' ha
        refine ⟨g.kv.closedOn hc, fun pk hm => ?_⟩
        rw [hb] at hm
        rcases List.mem_append.mp hm with hm | hm
        · exact hn pk hm
        · obtain ⟨_, j, hj, hin, hcj, _, ho⟩ := g.ok _ hm
          rw [hc j hj hin hcj] at ho
          cases ho

/-- followed by a step that writes nothing -/
theorem VOK.stepQ {s s1 s2 : Server} {o : List Out} (h : VOK s s1 o) (g : KV s1 s2) : VOK s s2 o := by
  have := h.trans (VOK.of_kv g)
  rw [List.append_nil] at this
  exact this

theorem VOK.pre {s s' : Server} {o : List Out} (h : VOK s s' o) (p : Pre s) : Pre s' := h.kv.pre p

theorem VOK.fst_mk {α} {s0 x : Server} {y : α} {o : List Out} (h : VOK s0 x o) : VOK s0 (x, y).1 o := h

/-- dropping outputs keeps everything (`List.filter`) -/
theorem VOK.filter {s s' : Server} {o : List Out} (h : VOK s s' o) (p : Out → Bool) : VOK s s' (o.filter p) := by
  refine ⟨h.kv, fun x hx => h.ok x (List.mem_filter.mp hx).1, ?_⟩
  intro a conn v code b e
  -- split `o` at the element the filtered list is split at
  have key : ∀ (l : List Out) (a b : List Out) (d : Out), l.filter p = a ++ d :: b →
      ∃ a' b', l = a' ++ d :: b' ∧ b'.filter p = b := by
    intro l
    induction l with
    | nil => intro a b d e; simp at e
    | cons y ys ih =>
      intro a b d e
      rw [List.filter_cons] at e
      by_cases hy : p y = true
      · rw [if_pos hy] at e
        cases a with
        | nil =>
          rw [List.nil_append] at e
          injection e with e1 e2
          exact ⟨[], ys, by rw [e1]; rfl, e2⟩
        | cons a0 as =>
          rw [List.cons_append] at e
          injection e with e1 e2
          obtain ⟨a', b', h1, h2⟩ := ih as b d e2
          exact ⟨y :: a', b', by rw [h1]; rfl, h2⟩
      · rw [if_neg hy] at e
        obtain ⟨a', b', h1, h2⟩ := ih a b d e
        exact ⟨y :: a', b', by rw [h1]; rfl, h2⟩
  obtain ⟨a', b', h1, h2⟩ := key o a b _ e
  obtain ⟨hc, hn⟩ := h.disc a' conn v code b' h1
  refine ⟨hc, fun pk hm => hn pk ?_⟩
  rw [← h2] at hm
  exact (List.mem_filter.mp hm).1

/-! ### primitives -/

theorem writeMsg_ok (s : Server) (i : Nat) (m : Msg) (hi : i < s.objs.length) :
    (∀ x ∈ writeMsg s i m, OutOK s x) ∧ NoDisc (writeMsg s i m) := by
  unfold writeMsg
  extract_lets +onlyGivenNames c
  by_cases h : (!c.isOpen || c.inline || c.peerGone) = true
  · rw [if_pos h]
    exact ⟨fun _ hx => (by cases hx), NoDisc.nil⟩
  · rw [if_neg h]
    have h' : c.isOpen = true ∧ c.inline = false ∧ c.peerGone = false := by
      cases h1 : c.isOpen <;> cases h2 : c.inline <;> cases h3 : c.peerGone <;> simp [h1, h2, h3] at h ⊢
    split
    · refine ⟨fun x hx => ?_, fun x hx => ?_⟩
      · rw [List.mem_singleton] at hx; subst hx
        exact ⟨trivial, i, hi, h'.2.1, rfl, fun v e => by cases e; rfl, h'.1⟩
      · rw [List.mem_singleton] at hx; subst hx; exact fun h => h
    · refine ⟨fun x hx => ?_, fun x hx => ?_⟩
      · rw [List.mem_singleton] at hx; subst hx
        exact ⟨trivial, i, hi, h'.2.1, rfl, fun v e => by cases e; rfl, h'.1⟩
      · rw [List.mem_singleton] at hx; subst hx; exact fun h => h

theorem writeMsg_vok (s : Server) (i : Nat) (m : Msg) (hi : i < s.objs.length) : VOK s s (writeMsg s i m) :=
  VOK.of_writes (KV.refl s) (writeMsg_ok s i m hi).1 (writeMsg_ok s i m hi).2

theorem stopClient_vok (s : Server) (i : Nat) : VOK s (stopClient s i).1 (stopClient s i).2 := by
  unfold stopClient
  extract_lets +onlyGivenNames c
  split
  · exact VOK.refl s
  · refine VOK.of_writes ((KV.refl s).set i _ ⟨rfl, rfl, rfl, fun _ => rfl, fun _ _ => rfl⟩) (fun x hx => ?_) (fun x hx => ?_)
    · split at hx
      · cases hx
      · rw [List.mem_singleton] at hx; subst hx; trivial
    · split at hx
      · cases hx
      · rw [List.mem_singleton] at hx; subst hx; exact fun h => h

/-- after `stopClient` the object is closed (when it exists) -/
theorem stopClient_closed_obj (s : Server) (i : Nat) (hi : i < s.objs.length) (ho : (getObj s i).isOpen = true → (getObj s i).stopped = false) :
    (getObj (stopClient s i).1 i).isOpen = false := by
  unfold stopClient
  extract_lets +onlyGivenNames c
  split
  · rename_i hst
    cases hb : (getObj s i).isOpen with
    | false => rfl
    | true => have := ho hb; rw [this] at hst; cases hst
  · rw [getObj_setObj_eq s i _ hi]

/-! ### the relation on results -/

abbrev VOKr (s : Server) (r : Server × List Out) : Prop := VOK s r.1 r.2
abbrev VOKh (s : Server) (r : HRes) : Prop := VOK s r.1 r.2.1

theorem KV.set0 {s0 s : Server} (h : KV s0 s) (i : Nat) (c : Client) (hc : Fix (getObj s0 i) c) :
    KV s0 (setObj s i c) := by
  refine ⟨(setObj_length s i c).trans h.len, fun k => ?_, fun x => ?_, h.connOf⟩
  · by_cases hk : k = i
    · subst hk
      rcases getObj_setObj_self_cases s k c with e | e
      · rw [e]; exact hc
      · rw [e]; exact h.fix k
    · rw [getObj_setObj_ne s i k c hk]; exact h.fix k
  · intro cid j hm
    rw [setObj_length]
    exact h.cv x cid j hm

theorem VOK.write {s s' : Server} (h : KV s s') (i : Nat) (m : Msg) (hi : i < s.objs.length) :
    VOK s s' (writeMsg s' i m) := by
  have := (VOK.of_kv h).trans (writeMsg_vok s' i m (by rw [h.len]; exact hi))
  rw [List.nil_append] at this
  exact this

theorem VOK.event {s s' : Server} (h : KV s s') (e : String) : VOK s s' [.event e] :=
  VOK.of_writes h (fun x hx => by rw [List.mem_singleton] at hx; subst hx; trivial)
    (fun x hx => by rw [List.mem_singleton] at hx; subst hx; exact fun h => h)

theorem VOK.append_nil {s s' : Server} {o : List Out} (h : VOK s s' o) : VOK s s' (o ++ []) := by
  rw [List.append_nil]; exact h

theorem disconnectClient_eq (s : Server) (i code : Nat) :
    disconnectClient s i code = ((stopClient s i).1,
      (if (getObj s i).isOpen && !(getObj s i).inline && !(getObj s i).peerGone
        then [Out.wrote (getObj s i).conn (.disconnect (getObj s i).ver code)] else []) ++ (stopClient s i).2) := rfl

theorem stopClient_out (s : Server) (i : Nat) : ∀ x ∈ (stopClient s i).2, ∃ c, x = Out.closed c := by
  unfold stopClient
  extract_lets +onlyGivenNames c
  intro x hx
  split at hx
  · cases hx
  · split at hx
    · cases hx
    · rw [List.mem_singleton] at hx; exact ⟨_, hx⟩

/-- `DisconnectClient`: the DISCONNECT goes to the object's own connection, for its version; afterwards the object
    (the only one on that connection) is closed -/
theorem disconnectClient_vok (s : Server) (i code : Nat) (p : Pre s) (hi : i < s.objs.length) :
    VOKr s (disconnectClient s i code) := by
  rw [disconnectClient_eq]
  have hst := stopClient_vok s i
  by_cases hw : ((getObj s i).isOpen && !(getObj s i).inline && !(getObj s i).peerGone) = true
  · rw [if_pos hw]
    have hw' : (getObj s i).isOpen = true ∧ (getObj s i).inline = false := by
      cases h1 : (getObj s i).isOpen <;> cases h2 : (getObj s i).inline <;> simp [h1, h2] at hw ⊢
    refine ⟨hst.kv, fun x hx => ?_, ?_⟩
    · rcases List.mem_append.mp hx with hx | hx
      · rw [List.mem_singleton] at hx; subst hx
        exact ⟨trivial, i, hi, hw'.2, rfl, fun v e => by cases e; rfl, hw'.1⟩
      · obtain ⟨c, rfl⟩ := stopClient_out s i x hx; trivial
    · intro a conn v cd b e
      cases a with
      | nil =>
        rw [List.nil_append, List.singleton_append] at e
        injection e with e1 e2
        injection e1 with e1 _
        refine ⟨?_, fun pk hm => ?_⟩
        · intro j hj hin hc
          have hj' : j < s.objs.length := by rw [← hst.kv.len]; exact hj
          have : j = i := by
            apply p.cd j i hj' hi
            · rw [← (hst.kv.fix j).inline]; exact hin
            · exact hw'.2
            · rw [← (hst.kv.fix j).conn, hc, e1]
          subst this
          exact stopClient_closed_obj s j hi (fun h => by
            cases hb : (getObj s j).stopped with
            | false => rfl
            | true => rw [p.so j hb] at h; cases h)
        · rw [← e2] at hm
          obtain ⟨c, hc⟩ := stopClient_out s i _ hm
          cases hc
      | cons a0 as =>
        rw [List.singleton_append, List.cons_append] at e
        injection e with _ e2
        have : Out.wrote conn (.disconnect v cd) ∈ (stopClient s i).2 := by rw [e2]; simp
        obtain ⟨c, hc⟩ := stopClient_out s i _ this
        cases hc
  · rw [if_neg hw, List.nil_append]
    exact hst

/-! ### the delivery family -/

theorem publishToClientCore_vok (s : Server) (i : Nat) (sub : Sub) (f : Bool) (pk : Msg) (hi : i < s.objs.length) :
    VOKr s (publishToClientCore s i sub f pk) := by
  unfold publishToClientCore
  extract_lets c out
  split
  rename_i c1 out1 heq
  have hc1 : Fix c c1 := by
    split at heq
    · split at heq
      rename_i c' a ex h2
      have h3 := Fix.aliasOutSet c pk.topic
      rw [h2] at h3
      split at heq <;> (cases heq; exact h3)
    · cases heq; exact Fix.refl _
  clear heq
  extract_lets s1
  have hs1 : KV s s1 := (KV.refl s).set0 i c1 hc1
  split
  · split
    · exact VOK.of_kv (hs1.upd rfl rfl rfl)
    · split
      · refine VOK.event ?_ _
        exact hs1.upd rfl rfl rfl
      · rename_i pid _
        extract_lets c2 out2 sentQuota
        have hc2 : Fix c c2 := hc1.trans (by fix_rfl)
        split
        rename_i c3 isNew hfl
        have hc3 : Fix c c3 := by
          have := Fix.flSet c2 out2
          rw [hfl] at this
          exact hc2.trans this
        extract_lets c4 s2 src s3
        have hc4 : Fix c c4 := by
          show Fix c (if isNew = true then decSend c3 else c3)
          split
          · exact hc3.trans (Fix.decSend c3)
          · exact hc3
        have hs2 : KV s s2 := hs1.set0 i c4 hc4
        have hs3 : KV s s3 := by
          show KV s (if isNew = true then _ else _)
          split
          · exact hs2.upd rfl rfl rfl
          · exact hs2
        split
        · exact VOK.of_kv (hs3.set0 i _ (hc4.trans (Fix.flSet c4 _)))
        · split
          · exact VOK.of_kv hs3
          · exact VOK.write hs3 i _ hi
  · split
    · exact VOK.of_kv hs1
    · exact VOK.write hs1 i _ hi

theorem publishToClient_vok (s : Server) (i : Nat) (sub : Sub) (f : Bool) (pk : Msg) (hi : i < s.objs.length) :
    VOKr s (publishToClient s i sub f pk) := by
  unfold publishToClient
  split
  · exact VOK.refl s
  · split
    · exact VOK.refl s
    · exact publishToClientCore_vok s i sub f pk hi

/-- a fold whose steps each append a `VOK` segment -/
theorem foldl_vok {α} (s0 : Server) (f : Server × List Out → α → Server × List Out) (l : List α)
    (b : Server × List Out) (h0 : VOKr s0 b)
    (hs : ∀ b a, VOKr s0 b → Pre b.1 → VOKr s0 (f b a)) (p : Pre s0) : VOKr s0 (l.foldl f b) := by
  induction l generalizing b with
  | nil => exact h0
  | cons x xs ih => exact ih _ (hs _ _ h0 (h0.pre p))

theorem publishToSubscribers_vok (s : Server) (pk : Msg) (p : Pre s) : VOKr s (publishToSubscribers s pk) := by
  unfold publishToSubscribers
  split
  · exact VOK.refl s
  · extract_lets e pk' r subsMap inl
    refine foldl_vok s _ _ _ ?_ ?_ p
    · refine VOK.of_writes (KV.refl s) (fun x hx => ?_) (fun x hx => ?_)
      · obtain ⟨a, _, rfl⟩ := List.mem_map.mp hx; trivial
      · obtain ⟨a, _, rfl⟩ := List.mem_map.mp hx; exact fun h => h
    · intro acc cs h pa
      split
      · exact h
      · rename_i k hk
        split
        rename_i s' o heq
        have hk' : k < acc.1.objs.length := pa.cv _ _ (assocGet_mem _ _ _ hk)
        have := publishToClient_vok acc.1 k cs.2 false pk' hk'
        rw [heq] at this
        exact h.trans this

theorem publishRetainedToClient_vok (s : Server) (i : Nat) (sub : Sub) (ex : Bool) (k : Nat) (p : Pre s)
    (hi : i < s.objs.length) : VOKr s (publishRetainedToClient s i sub ex k) := by
  unfold publishRetainedToClient
  split
  · exact VOK.refl s
  · split
    · exact VOK.refl s
    · extract_lets sub'
      refine foldl_vok s _ _ _ (VOK.refl s) ?_ p
      intro acc r h pa
      split
      · exact h
      · rename_i m _
        split
        rename_i s' o heq
        have := publishToClient_vok acc.1 i sub' true m (by rw [h.kv.len]; exact hi)
        rw [heq] at this
        exact h.trans this

theorem retainMsg_kv (s : Server) (pk : Msg) : KV s (retainMsg s pk) := by
  unfold retainMsg
  split
  · exact KV.refl s
  · exact (KV.refl s).upd rfl rfl rfl

theorem unsubscribeClient_kv (s : Server) (i : Nat) : KV s (unsubscribeClient s i) := by
  unfold unsubscribeClient
  extract_lets +onlyGivenNames c s1
  have h1 : KV s s1 := (KV.refl s).set0 i _ (by fix_rfl)
  split
  · exact h1
  · refine foldl_inv (fun (x : Server) => KV s x) _ _ _ h1 ?_
    intro b a h
    exact h.upd rfl rfl rfl

theorem clearInflights_kv (s : Server) (i : Nat) : KV s (clearInflights s i) := by
  unfold clearInflights
  extract_lets +onlyGivenNames c n
  exact ((KV.refl s).set0 i _ (by fix_rfl)).upd rfl rfl rfl

theorem sendLWT_vok (s : Server) (i : Nat) (p : Pre s) : VOKr s (sendLWT s i) := by
  unfold sendLWT
  extract_lets +onlyGivenNames c
  split
  · exact VOK.refl s
  · extract_lets +onlyGivenNames pk
    split
    · exact VOK.of_kv ((KV.refl s).upd rfl rfl rfl)
    · extract_lets +onlyGivenNames s1
      have hs1 : KV s s1 := by
        show KV s (if pk.retain = true then retainMsg s pk else s)
        split
        · exact retainMsg_kv s pk
        · exact KV.refl s
      split
      rename_i s2 o heq
      have := publishToSubscribers_vok s1 pk (hs1.pre p)
      rw [heq] at this
      have h2 : VOK s s2 o := by
        have := (VOK.of_kv hs1).trans this
        rw [List.nil_append] at this; exact this
      have h3 : VOK s (modObj s2 i (fun c => { c with will := { c.will with flag := false } })) o :=
        h2.stepQ ((KV.refl s2).mod i _ (by fix_rfl))
      exact h3.trans (VOK.event (KV.refl _) _)

/-! ### the handlers -/

theorem VOK.after {s s1 s2 : Server} {o : List Out} (h : KV s s1) (g : VOK s1 s2 o) : VOK s s2 o := by
  have := (VOK.of_kv h).trans g
  rw [List.nil_append] at this
  exact this

/-- a message written in an intermediate state `s1`, the state moving on to `s2` -/
theorem VOK.write_at {s s1 s2 : Server} (h1 : KV s s1) (h2 : KV s s2) (i : Nat) (m : Msg) (hi : i < s.objs.length) :
    VOK s s2 (writeMsg s1 i m) :=
  VOK.of_writes h2 (fun x hx => ((writeMsg_ok s1 i m (by rw [h1.len]; exact hi)).1 x hx).back h1)
    (writeMsg_ok s1 i m (by rw [h1.len]; exact hi)).2

/-- a packet the handler writes directly to its own (live, non-inline) client -/
theorem VOK.direct {s s' : Server} (h : KV s s') (i : Nat) (hi : i < s.objs.length) (hin : (getObj s i).inline = false)
    (pk : WPk) (hd : dead (getObj s' i) = false) (hv : ∀ v, verOf pk = some v → v = (getObj s' i).ver)
    (hsh : Shape pk) (hnd : ¬ IsDisc (.wrote (getObj s' i).conn pk)) :
    VOK s s' [.wrote (getObj s' i).conn pk] := by
  refine VOK.of_writes h (fun x hx => ?_) (fun x hx => ?_)
  · rw [List.mem_singleton] at hx; subst hx
    refine OutOK.back h ?_
    exact ⟨hsh, i, by rw [h.len]; exact hi, by rw [(h.fix i).inline]; exact hin, rfl, hv,
      ((dead_eq_false_iff _).mp hd).1⟩
  · rw [List.mem_singleton] at hx; subst hx; exact hnd

theorem ackRes_vok (s : Server) (i t id rc : Nat) (hi : i < s.objs.length) : VOKh s (ackRes s i t id rc) := by
  rcases ackRes_cases s i t id rc with h | h <;> rw [h]
  · exact writeMsg_vok s i _ hi
  · exact VOK.refl s

theorem processPuback_vok (s : Server) (i id : Nat) : VOKh s (processPuback s i id) := by
  unfold processPuback
  extract_lets +onlyGivenNames c
  split
  · exact VOK.refl s
  · extract_lets +onlyGivenNames c'
    exact VOK.of_kv (((KV.refl s).set0 i c' ((Fix.flDelete c id).trans (Fix.incSend _))).upd rfl rfl rfl)

theorem processPubrec_vok (s : Server) (i id rc : Nat) (hi : i < s.objs.length) : VOKh s (processPubrec s i id rc) := by
  unfold processPubrec
  extract_lets +onlyGivenNames c
  split
  · exact ackRes_vok s i 6 id 0x92 hi
  · split
    · extract_lets +onlyGivenNames c'
      exact VOK.of_kv (((KV.refl s).set0 i c' (Fix.flDelete c id)).upd rfl rfl rfl)
    · extract_lets +onlyGivenNames ack c' s1
      have hs1 : KV s s1 := (KV.refl s).set0 i c' ((Fix.decRecv c).trans (Fix.flSet _ ack))
      split
      · exact VOK.of_kv hs1
      · exact VOK.write hs1 i ack hi

theorem processPubrel_vok (s : Server) (i id rc : Nat) (hi : i < s.objs.length) : VOKh s (processPubrel s i id rc) := by
  unfold processPubrel
  extract_lets +onlyGivenNames c
  split
  · exact ackRes_vok s i 7 id 0x92 hi
  · split
    · extract_lets +onlyGivenNames c'
      exact VOK.of_kv (((KV.refl s).set0 i c' (Fix.flDelete c id)).upd rfl rfl rfl)
    · extract_lets +onlyGivenNames ack c1 s1
      have hc1 : Fix c c1 := Fix.flSet c ack
      have hs1 : KV s s1 := (KV.refl s).set0 i c1 hc1
      split
      · exact VOK.of_kv hs1
      · extract_lets +onlyGivenNames o c2
        split
        rename_i c3 ok heq
        extract_lets +onlyGivenNames s2
        have hc3 : Fix c c3 := by
          have := Fix.flDelete c2 id
          rw [heq] at this
          exact (hc1.trans ((Fix.incRecv c1).trans (Fix.incSend _))).trans this
        have hs2 : KV s s2 := hs1.set0 i c3 hc3
        split
        · refine VOK.write_at hs1 ?_ i ack hi
          exact hs2.upd rfl rfl rfl
        · exact VOK.write_at hs1 hs2 i ack hi

theorem processPubcomp_vok (s : Server) (i id : Nat) : VOKh s (processPubcomp s i id) := by
  unfold processPubcomp
  extract_lets +onlyGivenNames c
  split
  rename_i c1 ok heq
  extract_lets +onlyGivenNames s1
  have hc1 : Fix (getObj s i) c1 := by
    have := Fix.flDelete c id
    rw [heq] at this
    exact ((Fix.incRecv (getObj s i)).trans (Fix.incSend _)).trans this
  have hs1 : KV s s1 := (KV.refl s).set0 i c1 hc1
  split
  · exact VOK.of_kv (hs1.upd rfl rfl rfl)
  · exact VOK.of_kv hs1

theorem nextImmediate_vok (s : Server) (i : Nat) (hi : i < s.objs.length) : VOKr s (nextImmediate s i) := by
  unfold nextImmediate
  extract_lets +onlyGivenNames c
  split
  · split
    · rename_i m _
      extract_lets +onlyGivenNames o
      split
      rename_i c1 ok heq
      extract_lets +onlyGivenNames s1
      have hc1 : Fix c c1 := by
        have := Fix.flDelete c m.id
        rw [heq] at this
        exact this
      have hs0 : KV s { s with nextSeed := s.nextSeed / 64 } := (KV.refl s).upd rfl rfl rfl
      have hs1 : KV s s1 := hs0.set0 i _ (hc1.trans (Fix.decSend _))
      split
      · refine VOK.write_at (KV.refl s) ?_ i m hi
        exact hs1.upd rfl rfl rfl
      · exact VOK.write_at (KV.refl s) hs1 i m hi
    · exact VOK.refl s
  · exact VOK.refl s

theorem processDisconnect_vok (s : Server) (i rc : Nat) (sei : Option Nat) : VOKh s (processDisconnect s i rc sei) := by
  unfold processDisconnect
  extract_lets +onlyGivenNames c r
  have hr : ∀ s' c', r = some (s', c') → s' = s ∧ Fix c c' := by
    intro s' c' h
    simp only [r] at h
    split at h
    · split at h
      · cases h
      · cases h; exact ⟨rfl, by fix_rfl⟩
    · cases h; exact ⟨rfl, Fix.refl _⟩
  generalize r = r' at hr
  split
  · exact VOK.refl s
  · rename_i s' c'
    obtain ⟨rfl, hc'⟩ := hr s' c' rfl
    extract_lets +onlyGivenNames s1
    have hs1 : KV s' s1 := (KV.refl s').set0 i c' hc'
    split
    · exact VOK.of_kv hs1
    · extract_lets +onlyGivenNames s2
      have hs2 : KV s' s2 := hs1.upd rfl rfl rfl
      split
      rename_i s3 o hst
      have := stopClient_vok s2 i
      rw [hst] at this
      exact VOK.after hs2 this

theorem processUnsubscribe_vok (s : Server) (i id : Nat) (filters : List Str) (hi : i < s.objs.length)
    (hin : (getObj s i).inline = false) : VOKh s (processUnsubscribe s i id filters) := by
  unfold processUnsubscribe
  extract_lets +onlyGivenNames c inUse r
  have hr : KV s r.1 := by
    refine foldl_inv (fun (acc : Server × List Nat) => KV s acc.1) _ _ _ (KV.refl s) ?_
    intro acc f h
    split
    rename_i s' rcs
    split
    · exact h
    · extract_lets rr src s1 s2
      show KV s s2
      refine (h.upd (s' := s1) rfl rfl rfl).mod i _ ?_
      fix_rfl
  generalize r = r' at hr
  split
  rename_i s' rcs
  extract_lets c'
  split
  · exact VOK.of_kv hr
  · rename_i hd
    exact VOK.direct hr i hi hin _ (by simpa using hd) (fun v e => by cases e; rfl) trivial (fun h => h)

theorem fin_v3 (ver rc : Nat) (h : ver < 5) : V3SubCode (if (decide (rc > 2) && decide (ver < 5)) = true then 0x80 else rc) := by
  by_cases h2 : rc > 2
  · simp [h2, h, V3SubCode]
  · simp only [h2, decide_false, Bool.false_and, Bool.false_eq_true, if_false]
    unfold V3SubCode
    omega

theorem processSubscribe_vok (s : Server) (i id subId : Nat) (filters : List Sub) (p : Pre s) (hi : i < s.objs.length)
    (hin : (getObj s i).inline = false) : VOKh s (processSubscribe s i id subId filters) := by
  unfold processSubscribe
  extract_lets +onlyGivenNames c inUse fin r
  have hfin : ∀ rc, c.ver < 5 → V3SubCode (fin rc) := fun rc h => fin_v3 c.ver rc h
  have hr : KV s r.1 ∧ (c.ver < 5 → ∀ x ∈ r.2.1, V3SubCode x) := by
    have : KV s r.1 ∧ (c.ver < 5 → ∀ x ∈ r.2.1, V3SubCode x) := by
      refine foldl_inv (fun (acc : Server × List Nat × List Bool) => KV s acc.1 ∧
        (c.ver < 5 → ∀ x ∈ acc.2.1, V3SubCode x)) _ _ _
        ⟨KV.refl s, by intro _ x hx; cases hx⟩ ?_
      intro acc sub h
      obtain ⟨hk, hc⟩ := h
      split
      rename_i s' rcs exs
      extract_lets +onlyGivenNames sub'
      have add : ∀ rc, c.ver < 5 → ∀ x ∈ rcs ++ [fin rc], V3SubCode x := by
        intro rc hv x hx
        rcases List.mem_append.mp hx with hx | hx
        · exact hc hv x hx
        · rw [List.mem_singleton] at hx; rw [hx]; exact hfin rc hv
      split
      · exact ⟨hk, add _⟩
      · split
        · exact ⟨hk, add _⟩
        · split
          · exact ⟨hk, add _⟩
          · split
            · exact ⟨hk, add _⟩
            · extract_lets +onlyGivenNames rr src s1 s2
              refine ⟨?_, add _⟩
              show KV s s2
              refine (hk.upd (s' := s1) rfl rfl rfl).mod i _ ?_
              fix_rfl
    exact this
  generalize r = r' at hr
  split
  rename_i s' rcs exs
  obtain ⟨hk, hsh⟩ := hr
  extract_lets +onlyGivenNames c'
  split
  · exact VOK.of_kv hk
  · rename_i hd
    extract_lets +onlyGivenNames o1 z
    have hv : c'.ver = c.ver := (hk.fix i).ver
    have h1 : VOK s s' o1 :=
      VOK.direct hk i hi hin _ (by simpa using hd) (fun v e => by cases e; rfl)
        (fun hlt => hsh (by rw [← hv]; exact hlt)) (fun h => h)
    have hz : VOKr s' z := by
      refine foldl_vok s' _ _ _ (VOK.refl s') ?_ (hk.pre p)
      intro acc xk h pa
      extract_lets +onlyGivenNames x
      split
      · exact h
      · extract_lets +onlyGivenNames src sub'
        split
        rename_i s2 o heq
        have := publishRetainedToClient_vok acc.1 i sub' x.2.2 xk.2 pa (by rw [h.kv.len, hk.len]; exact hi)
        rw [heq] at this
        exact h.trans this
    exact h1.trans hz

theorem VOKh.ite {s : Server} {p : Prop} [Decidable p] {a b : HRes}
    (ha : p → VOKh s a) (hb : ¬ p → VOKh s b) : VOKh s (if p then a else b) := by
  by_cases h : p
  · rw [if_pos h]; exact ha h
  · rw [if_neg h]; exact hb h

theorem processPublish_vok (s : Server) (i : Nat) (qos : Nat) (dup retain : Bool) (id : Nat) (topic payload : Str)
    (msgExpiry : Nat) (alias : Option Nat) (p : Pre s) (hi : i < s.objs.length) :
    VOKh s (processPublish s i qos dup retain id topic payload msgExpiry alias) := by
  unfold processPublish
  extract_lets +onlyGivenNames c
  have early : ∀ code, VOKh s
      (if (qos == 0) = true then ((s, [], none) : HRes)
        else if (c.ver != 5) = true then
          match disconnectClient s i code with
          | (s, o) => (s, o, some code)
        else ackRes s i (if (qos == 2) = true then 5 else 4) id code) := by
    intro code
    split
    · exact VOK.refl s
    · split
      · split
        rename_i s' o heq
        have := disconnectClient_vok s i code p hi
        rw [heq] at this
        exact this
      · exact ackRes_vok s i _ id code hi
  refine VOKh.ite (fun _ => early _) (fun _ => ?_)
  refine VOKh.ite (fun _ => ?_) (fun _ => ?_)
  · split
    rename_i s' o heq
    have := disconnectClient_vok s i 0x93 p hi
    rw [heq] at this
    exact this
  · refine VOKh.ite (fun _ => early _) (fun _ => ?_)
    extract_lets +onlyGivenNames e pk pre
    have hpre : ∀ r, pre = some r → r = ackRes s i 5 id 0x91 := by
      intro r h
      simp only [pre] at h
      split at h
      · cases h
      · split at h
        · split at h
          · cases h; rfl
          · cases h
        · cases h
    generalize pre = pre' at hpre
    split
    · rename_i r
      rw [hpre r rfl]
      exact ackRes_vok s i 5 id 0x91 hi
    · clear hpre
      split
      rename_i s1 c1 heq
      have h1 : KV s s1 ∧ Fix (getObj s i) c1 := by
        split at heq
        · cases heq
          exact ⟨((KV.refl s).set0 i _ (Fix.flDelete c id)).upd rfl rfl rfl, Fix.flDelete c id⟩
        · cases heq
          exact ⟨KV.refl s, Fix.refl _⟩
      clear heq
      obtain ⟨hs1, ho1⟩ := h1
      split
      rename_i c2 pk2 heq
      have hc2 : Fix c1 c2 := by
        split at heq
        · split at heq
          · split at heq
            · cases heq; exact Fix.refl _
            · split at heq
              · split at heq
                · cases heq; exact Fix.refl _
                · cases heq; fix_rfl
              · cases heq; fix_rfl
          · cases heq; exact Fix.refl _
        · cases heq; exact Fix.refl _
      clear heq
      extract_lets +onlyGivenNames s2
      have hs2 : KV s s2 := hs1.set0 i c2 (ho1.trans hc2)
      have hi2 : i < s2.objs.length := by rw [hs2.len]; exact hi
      split
      · split
        rename_i s' o heq
        have := disconnectClient_vok s2 i 0x82 (hs2.pre p) hi2
        rw [heq] at this
        exact VOK.after hs2 this
      extract_lets +onlyGivenNames pk3 mode
      split
      · exact VOK.of_kv hs2
      · split
        · exact VOK.after hs2 (ackRes_vok s2 i _ id 0x87 hi2)
        · extract_lets +onlyGivenNames pk4 s3
          have hs3 : KV s s3 := by
            show KV s (if pk4.retain = true then retainMsg s2 pk4 else s2)
            split
            · exact hs2.trans (retainMsg_kv s2 pk4)
            · exact hs2
          split
          · split
            rename_i s4 o heq
            have := publishToSubscribers_vok s3 pk4 (hs3.pre p)
            rw [heq] at this
            exact VOK.after hs3 this
          · extract_lets +onlyGivenNames s4 ackT ackRC ack
            have hs4 : KV s s4 := hs3.mod i decRecv (Fix.decRecv _)
            split
            rename_i c5 isNew heq
            have hc5 : Fix (getObj s4 i) c5 := by
              have := Fix.flSet (getObj s4 i) ack
              rw [heq] at this
              exact this
            clear heq
            extract_lets +onlyGivenNames s5 src s6
            have hs5 : KV s s5 := hs4.set i c5 hc5
            have hs6 : KV s s6 := by
              show KV s (if isNew = true then _ else s5)
              split
              · exact hs5.upd rfl rfl rfl
              · exact hs5
            split
            · exact VOK.of_kv hs6
            · extract_lets +onlyGivenNames o1 s7
              have hs7 : KV s s7 := by
                show KV s (if (pk4.qos == 1) = true then _ else s6)
                split
                · split
                  rename_i c6 ok heq
                  have hc6 : Fix (getObj s6 i) c6 := by
                    have := Fix.flDelete (getObj s6 i) id
                    rw [heq] at this
                    exact this
                  extract_lets +onlyGivenNames s8
                  have hs8 : KV s s8 := hs6.set i _ (hc6.trans (Fix.incRecv _))
                  split
                  · exact hs8.upd rfl rfl rfl
                  · exact hs8
                · exact hs6
              split
              rename_i s9 o2 heq
              have := publishToSubscribers_vok s7 pk4 (hs7.pre p)
              rw [heq] at this
              exact (VOK.write_at hs6 hs7 i ack hi).trans this

/-! ### one inbound packet -/

def isPublish : InPk → Bool
  | .publish .. => true
  | _ => false

theorem receivePacket_vok (s : Server) (i : Nat) (pk : InPk) (p : Pre s) (hi : i < s.objs.length)
    (hin : (getObj s i).inline = false ∨ isPublish pk = true) : VOKh s (receivePacket s i pk) := by
  unfold receivePacket
  extract_lets +onlyGivenNames c r
  have hr : VOKh s r := by
    simp only [r]
    split
    · split
      · exact VOK.refl s
      · exact processPublish_vok _ _ _ _ _ _ _ _ _ _ p hi
    · have hin' : (getObj s i).inline = false := by rcases hin with h | h; exact h; cases h
      split
      · exact VOK.refl s
      · exact processSubscribe_vok _ _ _ _ _ p hi hin'
    · have hin' : (getObj s i).inline = false := by rcases hin with h | h; exact h; cases h
      split
      · exact VOK.refl s
      · exact processUnsubscribe_vok _ _ _ _ hi hin'
    · exact processPuback_vok ..
    · exact processPubrec_vok _ _ _ _ hi
    · exact processPubrel_vok _ _ _ _ hi
    · exact processPubcomp_vok ..
    · have hin' : (getObj s i).inline = false := by rcases hin with h | h; exact h; cases h
      split
      · rename_i hd
        exact VOK.direct (KV.refl s) i hi hin' .pingresp (by simpa using hd) (fun v e => by cases e) trivial (fun h => h)
      · exact VOK.refl s
    · exact processDisconnect_vok ..
  generalize r = r' at hr
  split
  · rename_i s1 o
    split
    rename_i s2 o2 heq
    have := nextImmediate_vok s1 i (by rw [hr.kv.len]; exact hi)
    rw [heq] at this
    exact hr.trans this
  · rename_i s1 o code
    split
    · split
      rename_i s2 o2 heq
      have := disconnectClient_vok s1 i code (hr.pre p) (by rw [hr.kv.len]; exact hi)
      rw [heq] at this
      exact hr.trans this
    · exact hr

theorem detachA_vok (s : Server) (i : Nat) (withErr : Bool) (p : Pre s) : VOKr s (detachA s i withErr) := by
  unfold detachA
  split
  · split
    rename_i s2 o2 h2
    split
    rename_i s3 o3 h3
    have a := sendLWT_vok s i p
    rw [h2] at a
    have b := stopClient_vok s2 i
    rw [h3] at b
    exact a.trans b
  · exact VOK.of_kv ((KV.refl s).mod i (fun c => { c with will := {} }) (by fix_rfl))

theorem detachB_kv (s : Server) (i : Nat) : KV s (detachB s i) := by
  unfold detachB
  extract_lets +onlyGivenNames c expire s3 s4 s2
  refine KV.upd (s := s2) ?_ rfl rfl rfl
  show KV s (if (expire && !c.takenOver) = true then _ else s)
  split
  · have h3 : KV s s3 := clearInflights_kv s i
    have h4 : KV s s4 := h3.trans (unsubscribeClient_kv s3 i)
    exact h4.delClient _
  · exact KV.refl s

theorem detach_vok (s : Server) (i : Nat) (withErr : Bool) (p : Pre s) : VOKr s (detach s i withErr) := by
  unfold detach
  split
  rename_i s1 o1 heq
  have hs1 : VOK s s1 o1 := by
    have := detachA_vok s i withErr p
    rw [heq] at this
    exact this
  exact hs1.stepQ (detachB_kv s1 i)

/-- the connection table points at existing, non-inline objects -/
def ConnOK (s : Server) : Prop := ∀ n i, assocGet s.connOf n = some i → i < s.objs.length ∧ (getObj s i).inline = false

theorem recvOn_vok (s : Server) (conn : Nat) (pk : InPk) (b : Bool) (p : Pre s) (hc : ConnOK s) :
    VOKr s (recvOn s conn pk b) := by
  unfold recvOn
  split
  · exact VOK.refl s
  · rename_i i hci
    obtain ⟨hi, hin⟩ := hc conn i hci
    split
    · exact VOK.refl s
    · split
      rename_i s1 o e heq
      have h1 : VOK s s1 o := by
        have := receivePacket_vok s i pk p hi (Or.inl hin)
        rw [heq] at this
        exact this
      have p1 := h1.pre p
      have hi1 : i < s1.objs.length := by rw [h1.kv.len]; exact hi
      split
      · split
        rename_i s2 o2 hd
        have := detach_vok s1 i true p1
        rw [hd] at this
        exact h1.trans this
      · split
        · split
          rename_i s2 o2 hd
          have := detach_vok s1 i false p1
          rw [hd] at this
          exact h1.trans this
        · split
          · split
            rename_i s2 o2 e2 heq2
            have h2 : VOK s1 s2 o2 := by
              have := receivePacket_vok s1 i .pingreq p1 hi1 (Or.inl (by rw [(h1.kv.fix i).inline]; exact hin))
              rw [heq2] at this
              exact this
            extract_lets +onlyGivenNames o2f
            have h12 : VOK s s2 (o ++ o2f) := h1.trans (h2.filter _)
            split
            · split
              rename_i s3 o3 hd
              have := detach_vok s2 i true (h12.pre p)
              rw [hd] at this
              exact h12.trans this
            · exact h12
          · exact h1

/-! ### connecting -/

theorem KV.addClient {s0 s : Server} (h : KV s0 s) (cid : Str) (i : Nat) (hi : i < s.objs.length) :
    KV s0 { s with clients := assocSet s.clients cid i } := by
  refine ⟨h.len, h.fix, fun x => ?_, h.connOf⟩
  intro c j hm
  rcases mem_assocSet _ _ _ _ hm with hm | hm
  · exact h.cv x c j hm
  · cases hm; exact hi

theorem admitA_vok (s : Server) (i : Nat) (k : Connect) (p : Pre s) (hi : i < s.objs.length) :
    VOK s (admitA s i k).1 (admitA s i k).2.1 := by
  unfold admitA
  extract_lets +onlyGivenNames src s0 exLive
  have hs0 : KV s s0 := (KV.refl s).upd rfl rfl rfl
  split
  rename_i s' o1 present heq
  have h' : VOK s s' o1 := by
    split at heq
    · rename_i e he
      extract_lets +onlyGivenNames ex at heq
      split at heq
      rename_i s1 o hd
      have he' : e < s0.objs.length := (hs0.pre p).cv _ _ (assocGet_mem _ _ _ he)
      have hs1 : VOK s s1 o := by
        have := disconnectClient_vok s0 e 0x8E (hs0.pre p) he'
        rw [hd] at this
        exact VOK.after hs0 this
      split at heq
      · extract_lets +onlyGivenNames s2 s3 at heq
        rw [← (Prod.mk.inj heq).1, ← (Prod.mk.inj (Prod.mk.inj heq).2).1]
        exact hs1.stepQ (((unsubscribeClient_kv s1 e).trans (clearInflights_kv s2 e)).mod e _ (by fix_rfl))
      · extract_lets +onlyGivenNames s2 ex2 rmx s2i src2 s3 s4 s5 s6 at heq
        rw [← (Prod.mk.inj heq).1, ← (Prod.mk.inj (Prod.mk.inj heq).2).1]
        have hs2 : KV s1 s2 := (KV.refl s1).mod e _ (by fix_rfl)
        have hs2i : KV s1 s2i := hs2.mod i _ (by fix_rfl)
        have hs3 : KV s1 s3 := by
          show KV s1 (if ex2.inflight.length > 0 then _ else s2)
          split
          · exact hs2i.upd rfl rfl rfl
          · exact hs2
        have hs4 : KV s1 s4 := by
          refine foldl_inv (fun (x : Server) => KV s1 x) _ _ _ hs3 ?_
          intro b fs h
          extract_lets +onlyGivenNames rr src3 b1
          exact (h.upd (s' := b1) rfl rfl rfl).mod i _ (by fix_rfl)
        exact hs1.stepQ ((hs4.trans (unsubscribeClient_kv s4 e)).trans (clearInflights_kv s5 e))
    · rw [← (Prod.mk.inj heq).1, ← (Prod.mk.inj (Prod.mk.inj heq).2).1]
      exact VOK.of_kv hs0
  exact h'.stepQ ((KV.refl s').addClient _ i (by rw [h'.kv.len]; exact hi))

/-- `admitA` keeps `isOpen` of the connecting object (the session it takes over is another object) -/
theorem admitA_open (s : Server) (i : Nat) (k : Connect) (hne : ∀ e, assocGet s.clients k.id = some e → e ≠ i) :
    (getObj (admitA s i k).1 i).isOpen = (getObj s i).isOpen := by
  cases he : assocGet s.clients k.id with
  | none => exact ((admitA_qc_none s i k he).q.all i).isOpen.symm
  | some e =>
    have q := ((admitA_qc_some s i k e he).q.all i).isOpen
    have f := ((stopClient_frame (incConn s) e).other i (fun h => hne e he h.symm)).isOpen
    exact (f.trans q).symm

theorem admitConnack_vok (s : Server) (i conn : Nat) (present : Bool) (hi : i < s.objs.length)
    (hin : (getObj s i).inline = false) (hconn : (getObj s i).conn = conn) (hopen : (getObj s i).isOpen = true) :
    VOKr s (admitConnack s i conn present) := by
  unfold admitConnack
  extract_lets +onlyGivenNames cl
  split
  rename_i s' seiOut heq
  have hk : KV s s' := by
    split at heq
    · rw [← (Prod.mk.inj heq).1]; exact (KV.refl s).mod i _ (by fix_rfl)
    · rw [← (Prod.mk.inj heq).1]; exact KV.refl s
  refine VOK.of_writes hk (fun x hx => ?_) (fun x hx => ?_)
  · rw [List.mem_singleton] at hx; subst hx
    exact ⟨fun _ => Or.inl rfl, i, hi, hin, hconn, fun v e => by cases e; rfl, hopen⟩
  · rw [List.mem_singleton] at hx; subst hx; exact fun h => h

theorem admitC_vok (s : Server) (i : Nat) (k : Connect) (present : Bool) (hi : i < s.objs.length) :
    VOKr s (admitC s i k present) := by
  unfold admitC
  extract_lets +onlyGivenNames s1
  have hs1 : KV s s1 := (KV.refl s).upd rfl rfl rfl
  split
  · refine foldl_inv (fun (acc : Server × List Out) => VOKr s acc) _ _ _ (VOK.of_kv hs1) ?_
    intro acc m h
    extract_lets +onlyGivenNames m' o s'
    have hs' : KV acc.1 s' := by
      show KV acc.1 (if (m.type == 4 || m.type == 7) = true then _ else acc.1)
      split
      · split
        rename_i c' ok heq
        extract_lets +onlyGivenNames s''
        have hc' : Fix (getObj acc.1 i) c' := by
          have := Fix.flDelete (getObj acc.1 i) m.id
          rw [heq] at this
          exact this
        have h3 : KV acc.1 s'' := (KV.refl acc.1).set i c' hc'
        split
        · exact h3.upd rfl rfl rfl
        · exact h3
      · exact KV.refl _
    exact h.trans (VOK.write_at (KV.refl acc.1) hs' i m' (by rw [h.kv.len]; exact hi))
  · exact VOK.of_kv hs1

theorem admitClient_vok (s : Server) (i conn : Nat) (k : Connect) (p : Pre s) (hi : i < s.objs.length)
    (hin : (getObj s i).inline = false) (hconn : (getObj s i).conn = conn) (hopen : (getObj s i).isOpen = true)
    (hne : ∀ e, assocGet s.clients k.id = some e → e ≠ i) : VOKr s (admitClient s i conn k) := by
  unfold admitClient
  split
  rename_i s1 o1 present exLive h1
  have v1 : VOK s s1 o1 := by
    have := admitA_vok s i k p hi
    rw [h1] at this; exact this
  have ho1 : (getObj s1 i).isOpen = true := by
    have := admitA_open s i k hne
    rw [h1] at this
    exact this.trans hopen
  have hi1 : i < s1.objs.length := by rw [v1.kv.len]; exact hi
  split
  rename_i s2 o2 h2
  have v2 : VOK s1 s2 o2 := by
    have := admitConnack_vok s1 i conn present hi1 (by rw [(v1.kv.fix i).inline]; exact hin)
      (by rw [(v1.kv.fix i).conn]; exact hconn) ho1
    rw [h2] at this; exact this
  have v12 := v1.trans v2
  split
  rename_i s3 o4 h3
  have v3 : VOK s2 s3 o4 := by
    split at h3
    · rename_i e
      have := detach_vok s2 e true (v12.pre p)
      rw [h3] at this; exact this
    · cases h3; exact VOK.refl _
  have v123 := v12.trans v3
  split
  rename_i s4 o3 h4
  have v4 : VOK s3 s4 o3 := by
    have := admitC_vok s3 i k present (by rw [v123.kv.len]; exact hi)
    rw [h4] at this; exact this
  exact v123.trans v4

/-- the state in which a CONNECT is served: the parsed client object appended, the connection registered -/
def addObj (s : Server) (conn : Nat) (k : Connect) : Server :=
  { s with objs := s.objs ++ [parseConnect s conn k], connOf := s.connOf ++ [(conn, s.objs.length)] }

theorem getObj_addObj_new (s : Server) (conn : Nat) (k : Connect) :
    getObj (addObj s conn k) s.objs.length = parseConnect s conn k :=
  getObj_append_eq (s := s) (s' := addObj s conn k) rfl

theorem refuseCode_v3 (s : Server) (k : Connect) (c : Client) (code : Nat) (h : refuseCode s k c = some code)
    (hv : k.ver < 5) : V3ConnackCode code := by
  unfold refuseCode at h
  unfold V3ConnackCode
  repeat' split at h
  all_goals (try cases h)
  all_goals omega

theorem connect_vok (s : Server) (conn : Nat) (k : Connect) (p : Pre (addObj s conn k))
    (hne : ∀ cid e, assocGet s.clients cid = some e → e ≠ s.objs.length) :
    VOKr (addObj s conn k) (connect s conn k) := by
  unfold connect
  extract_lets +onlyGivenNames c i s1
  have hs1 : s1 = addObj s conn k := rfl
  have hi : i < s1.objs.length := by
    show s.objs.length < (s.objs ++ [c]).length
    simp
  have hobj : getObj s1 i = c := getObj_addObj_new s conn k
  split
  · rename_i code hcode
    split
    rename_i s2 o2 h2
    have v2 : VOK s1 s2 o2 := by
      have := stopClient_vok s1 i
      rw [h2] at this; exact this
    have v1 : VOK s1 s1 [Out.wrote conn (mkConnack s1 c false code none)] := by
      refine VOK.of_writes (KV.refl s1) (fun x hx => ?_) (fun x hx => ?_)
      · rw [List.mem_singleton] at hx; subst hx
        refine ⟨fun hv => refuseCode_v3 s1 k c code hcode hv, i, hi, by rw [hobj]; rfl, by rw [hobj]; rfl,
          fun v e => by cases e; rw [hobj], by rw [hobj]; rfl⟩
      · rw [List.mem_singleton] at hx; subst hx; exact fun h => h
    exact v1.trans v2
  · exact admitClient_vok s1 i conn k p hi (by rw [hobj]; rfl) (by rw [hobj]; rfl) (by rw [hobj]; rfl)
      (fun e he => hne k.id e he)

/-! ### housekeeping -/

theorem tickClients_vok (s : Server) (dt : Int) : VOKr s (tickClients s dt) := by
  unfold tickClients
  refine foldl_inv (fun (acc : Server × List Out) => VOKr s acc) _ _ _ (VOK.refl s) ?_
  intro acc e h
  extract_lets +onlyGivenNames c
  split
  · extract_lets +onlyGivenNames s1 s2
    refine h.trans (VOK.event ?_ _)
    exact ((clearInflights_kv acc.1 e.2).trans (unsubscribeClient_kv s1 e.2)).delClient _
  · exact h

theorem tickRetained_kv (s : Server) (now : Int) : KV s (tickRetained s now) := by
  unfold tickRetained
  extract_lets +onlyGivenNames s1
  refine KV.upd (s := s1) ?_ rfl rfl rfl
  show KV s (tickRetained.tickRetainedLoop s now)
  unfold tickRetained.tickRetainedLoop
  refine foldl_inv (fun (x : Server) => KV s x) _ _ _ (KV.refl s) ?_
  intro b e h
  extract_lets +onlyGivenNames pk expired enforced
  split
  · exact h.upd rfl rfl rfl
  · exact h

theorem tickInflight_kv (s : Server) (now : Int) : KV s (tickInflight s now) := by
  unfold tickInflight
  refine foldl_inv (fun (x : Server) => KV s x) _ _ _ (KV.refl s) ?_
  intro b e h
  extract_lets +onlyGivenNames c
  refine foldl_inv (fun (x : Server) => KV s x) _ _ _ h ?_
  intro b2 m h2
  extract_lets +onlyGivenNames expired enforced
  split
  · split
    rename_i c' ok heq
    extract_lets +onlyGivenNames s1
    have hc' : Fix (getObj b2 e.2) c' := by
      have := Fix.flDelete (getObj b2 e.2) m.id
      rw [heq] at this
      exact this
    have h3 : KV s s1 := h2.set e.2 c' hc'
    split
    · exact h3.upd rfl rfl rfl
    · exact h3
  · exact h2

theorem tickWills_vok (s : Server) (dt : Int) (p : Pre s) : VOKr s (tickWills s dt) := by
  unfold tickWills
  refine foldl_vok s _ _ _ (VOK.refl s) ?_ p
  intro acc e h pa
  split
  · split
    rename_i s1 o h1
    have g1 : VOK acc.1 s1 o := by
      have := publishToSubscribers_vok acc.1 e.2 pa
      rw [h1] at this
      exact this
    split
    rename_i s2 o2 h2
    have g2 : VOK s1 s2 o2 := by
      split at h2
      · rename_i i _
        extract_lets +onlyGivenNames s3 at h2
        rw [← (Prod.mk.inj h2).1, ← (Prod.mk.inj h2).2]
        have g3 : KV s1 s3 := by
          show KV s1 (if e.2.retain = true then retainMsg s1 e.2 else s1)
          split
          · exact retainMsg_kv s1 e.2
          · exact KV.refl s1
        exact VOK.event (g3.mod i _ (by fix_rfl)) _
      · cases h2; exact VOK.refl s1
    have := (h.trans g1).trans g2
    rw [List.append_assoc] at this ⊢
    exact this.stepQ ((KV.refl s2).upd rfl rfl rfl)
  · exact h

/-! ### one op -/

/-- the post-state reading of `OutOK` (an object written to may have been closed later in the op) -/
def Addr (s : Server) : Out → Prop
  | .wrote conn pk => Shape pk ∧ ∃ j, j < s.objs.length ∧ (getObj s j).inline = false ∧ (getObj s j).conn = conn ∧
      (∀ v, verOf pk = some v → v = (getObj s j).ver)
  | _ => True

theorem OutOK.fwd {s s' : Server} (h : KV s s') {x : Out} (g : OutOK s x) : Addr s' x := by
  cases x with
  | wrote conn pk =>
    obtain ⟨sh, j, hj, hin, hc, hv, _⟩ := g
    exact ⟨sh, j, by rw [h.len]; exact hj, by rw [(h.fix j).inline]; exact hin,
      by rw [(h.fix j).conn]; exact hc, fun v e => by rw [(h.fix j).ver]; exact hv v e⟩
  | closed _ => trivial
  | event _ => trivial
  | inline _ _ _ => trivial

/-- the invariant the op-level theorems assume (holds initially, kept by every covered op: `Inv_init`, `Inv_step`) -/
structure Inv (s : Server) : Prop where
  pre : Pre s
  connOK : ConnOK s
  map : ConnMap s
  inl : 0 < s.objs.length

theorem KV.inv {s s' : Server} (h : KV s s') (i : Inv s) : Inv s' := by
  refine ⟨h.pre i.pre, ?_, ?_, by rw [h.len]; exact i.inl⟩
  · intro n j hj
    rw [h.connOf] at hj
    obtain ⟨a, b⟩ := i.connOK n j hj
    exact ⟨by rw [h.len]; exact a, by rw [(h.fix j).inline]; exact b⟩
  · exact i.map.of_ck ⟨h.len, h.connOf, fun k => (h.fix k).conn, fun k => (h.fix k).inline⟩

theorem getObj_ge (s : Server) (k : Nat) (h : s.objs.length ≤ k) : getObj s k = {} := by
  simp [getObj, List.getD_eq_getElem?_getD, List.getElem?_eq_none h]

theorem Inv.add {s : Server} (h : Inv s) (conn : Nat) (k : Connect) (hf : conn ∉ s.connOf.map (·.1)) :
    Inv (addObj s conn k) := by
  have ho : (addObj s conn k).objs = s.objs ++ [parseConnect s conn k] := rfl
  have hlen : (addObj s conn k).objs.length = s.objs.length + 1 := by rw [ho]; simp
  have hmap : ConnMap (addObj s conn k) := connMap_addObj h.map (parseConnect s conn k) conn rfl hf
  refine ⟨⟨?_, hmap.distinct, ?_⟩, ?_, hmap, by rw [hlen]; omega⟩
  · intro cid j hm
    have : j < s.objs.length := h.pre.cv cid j hm
    rw [hlen]; omega
  · intro j
    by_cases h1 : j < s.objs.length
    · rw [getObj_append_lt ho j h1]; exact h.pre.so j
    · by_cases h2 : j = s.objs.length
      · subst h2
        rw [getObj_addObj_new]
        intro hst
        have : (parseConnect s conn k).stopped = false := rfl
        rw [this] at hst; cases hst
      · rw [getObj_ge _ j (by rw [hlen]; omega)]
        intro hst; cases hst
  · intro n j hj
    have hj' : assocGet (s.connOf ++ [(conn, s.objs.length)]) n = some j := hj
    rw [assocGet_append] at hj'
    cases h1 : assocGet s.connOf n with
    | some j' =>
      rw [h1] at hj'
      cases hj'
      obtain ⟨a, b⟩ := h.connOK n j h1
      exact ⟨by rw [hlen]; omega, by rw [getObj_append_lt ho j a]; exact b⟩
    | none =>
      rw [h1] at hj'
      have : j = s.objs.length := by
        simp only [Option.none_or, assocGet] at hj'
        split at hj'
        · cases hj'; rfl
        · cases hj'
      subst this
      exact ⟨by rw [hlen]; omega, by rw [getObj_addObj_new]; rfl⟩

/-- the state in which the op is served -/
def startOf (s : Server) : Op → Server
  | .connect conn k => addObj s conn k
  | _ => s

/-- the ops the walk covers: all but the two that resume a connecting handler parked inside `attachClient` -/
def Covered : Op → Bool
  | .connectHold .. => false
  | .release _ => false
  | _ => true

theorem Inv.start {s : Server} (h : Inv s) (op : Op) (hf : OpFresh s op) : Inv (startOf s op) := by
  cases op with
  | connect conn k => exact h.add conn k hf
  | _ => exact h

theorem VOK.filterClosed {s s' : Server} {o : List Out} (h : VOK s s' o) (conn : Nat) :
    VOK s s' (o.filter (fun x => match x with | .closed c => c != conn | _ => true)) := h.filter _

theorem step_vok (s : Server) (op : Op) (h : Inv s) (hc : Covered op = true) (hf : OpFresh s op) :
    VOKr (startOf s op) (step s op) := by
  cases op with
  | connect conn k =>
    have h0 : Inv (addObj s conn k) := h.add conn k hf
    rw [step]
    split
    rename_i s1 o h1
    have v1 : VOK (addObj s conn k) s1 o := by
      have := connect_vok s conn k h0.pre (fun cid e he => by
        have := h.pre.cv cid e (assocGet_mem _ _ _ he)
        omega)
      rw [h1] at this; exact this
    have i1 : Inv s1 := v1.kv.inv h0
    show VOKr (addObj s conn k) _
    split
    · split
      · split
        rename_i s2 o2 h2
        have := recvOn_vok s1 conn .pingreq false i1.pre i1.connOK
        rw [h2] at this
        exact v1.trans (this.filter _)
      · exact v1
    · exact v1
  | recv conn pk =>
    rw [step]
    exact recvOn_vok s conn pk true h.pre h.connOK
  | drop conn =>
    rw [step]
    show VOKr s _
    split
    · exact VOK.refl s
    · rename_i i hci
      split
      · exact VOK.refl s
      · extract_lets +onlyGivenNames s1
        have k1 : KV s s1 := (KV.refl s).mod i _ (by fix_rfl)
        split
        rename_i s2 o h2
        have := detach_vok s1 i true (k1.pre h.pre)
        rw [h2] at this
        exact (VOK.after k1 this).filter _
  | recvCut conn pk =>
    rw [step]
    show VOKr s _
    split
    · exact VOK.refl s
    · rename_i i hci
      split
      · exact VOK.refl s
      · extract_lets +onlyGivenNames s1
        have k1 : KV s s1 := (KV.refl s).mod i _ (by fix_rfl)
        have i1 : Inv s1 := k1.inv h
        split
        rename_i s2 o h2
        have v2 : VOK s1 s2 o := by
          have := recvOn_vok s1 conn pk false i1.pre i1.connOK
          rw [h2] at this; exact this
        split
        rename_i s3 o2 h3
        have v3 : VOK s2 s3 o2 := by
          split at h3
          · cases h3; exact VOK.refl s2
          · have := detach_vok s2 i true (v2.pre i1.pre)
            rw [h3] at this; exact this
        exact (VOK.after k1 (v2.trans v3)).filter _
  | dropHold conn =>
    rw [step]
    show VOKr s _
    split
    · exact VOK.refl s
    · rename_i i hci
      split
      · exact VOK.refl s
      · extract_lets +onlyGivenNames s1
        have k1 : KV s s1 := (KV.refl s).mod i _ (by fix_rfl)
        split
        rename_i s2 o h2
        have := detachA_vok s1 i true (k1.pre h.pre)
        rw [h2] at this
        refine VOK.filter ?_ _
        refine VOK.stepQ (VOK.after k1 this) ?_
        exact (KV.refl s2).upd rfl rfl rfl
  | dropHoldEarly conn =>
    rw [step]
    show VOKr s _
    split
    · exact VOK.refl s
    · rename_i i hci
      split
      · exact VOK.refl s
      · have k0 : KV s { s with parkedEarly := s.parkedEarly ++ [i] } := (KV.refl s).upd rfl rfl rfl
        have k1 : KV s (modObj { s with parkedEarly := s.parkedEarly ++ [i] } i (fun c => { c with peerGone := true })) :=
          k0.mod i _ (by fix_rfl)
        exact VOK.of_kv k1
  | connectHold conn k stage => cases hc
  | release conn => cases hc
  | tick kind t =>
    rw [step]
    show VOKr s _
    split
    · exact tickClients_vok s t
    · split
      · exact VOK.of_kv (tickRetained_kv s t)
      · split
        · exact VOK.of_kv (tickInflight_kv s t)
        · split
          · exact tickWills_vok s t h.pre
          · exact VOK.refl s
  | inlinePublish topic payload retain qos =>
    rw [step]
    exact receivePacket_vok s 0 _ h.pre h.inl (Or.inr rfl)
  | inlineSubscribe id filter =>
    rw [step]
    show VOKr s _
    split
    · exact VOK.refl s
    · extract_lets +onlyGivenNames rr s1
      refine VOK.of_writes ((KV.refl s).upd rfl rfl rfl) (fun x hx => ?_) (fun x hx => ?_)
      · obtain ⟨a, _, rfl⟩ := List.mem_map.mp hx; trivial
      · obtain ⟨a, _, rfl⟩ := List.mem_map.mp hx; exact fun h => h
  | inlineUnsubscribe id filter =>
    rw [step]
    show VOKr s _
    split
    · exact VOK.refl s
    · exact VOK.of_kv ((KV.refl s).upd rfl rfl rfl)

/-- the invariant is kept by every covered op -/
theorem Inv_step (s : Server) (op : Op) (h : Inv s) (hc : Covered op = true) (hf : OpFresh s op) :
    Inv (step s op).1 :=
  (step_vok s op h hc hf).kv.inv (h.start op hf)

theorem Inv_init (caps : Caps) : Inv (init caps) := by
  have hmap := ConnMap_init caps
  refine ⟨⟨?_, hmap.distinct, ?_⟩, ?_, hmap, Nat.zero_lt_one⟩
  · intro cid j hm
    have : (cid, j) ∈ [(inlineID, 0)] := hm
    rw [List.mem_singleton] at this
    cases this
    exact Nat.zero_lt_one
  · intro k
    by_cases hk : k = 0
    · subst hk; intro hst; cases hst
    · rw [getObj_ge _ k (by show 1 ≤ k; omega)]
      intro hst; cases hst
  · intro n j hj
    cases hj

/-- `Inv` in every state reached from `init` by covered, fresh ops -/
theorem Inv_run (caps : Caps) (ops : List Op) (hc : ∀ op ∈ ops, Covered op = true) (hf : OpsFresh (init caps) ops) :
    Inv (run (init caps) ops) := by
  suffices ∀ (s : Server), Inv s → OpsFresh s ops → Inv (run s ops) from this _ (Inv_init caps) hf
  clear hf
  induction ops with
  | nil => intro s h _; exact h
  | cons op ops ih =>
    intro s h hfr
    exact ih (fun o ho => hc o (List.mem_cons_of_mem _ ho)) _
      (Inv_step s op h (hc op List.mem_cons_self) hfr.1) hfr.2

/-! ### the op-level statements -/

/-- every write of a covered op goes to the connection of an existing non-inline object of the post-state, is encoded
    for that object's version and has an MQTT 3 shape -/
theorem step_addr (s : Server) (op : Op) (h : Inv s) (hc : Covered op = true) (hf : OpFresh s op) :
    ∀ x ∈ (step s op).2, Addr (step s op).1 x := fun x hx =>
  ((step_vok s op h hc hf).ok x hx).fwd (step_vok s op h hc hf).kv

/-- … and that object is THE object the connection table maps the connection to -/
theorem step_version (s : Server) (op : Op) (h : Inv s) (hc : Covered op = true) (hf : OpFresh s op)
    (conn : Nat) (pk : WPk) (hw : Out.wrote conn pk ∈ (step s op).2) :
    ∃ j, assocGet (step s op).1.connOf conn = some j ∧ j < (step s op).1.objs.length ∧
      ∀ v, verOf pk = some v → v = (getObj (step s op).1 j).ver := by
  obtain ⟨_, j, hj, hin, hcj, hv⟩ := step_addr s op h hc hf _ hw
  have := (Inv_step s op h hc hf).map j hj hin
  rw [hcj] at this
  exact ⟨j, this, hj, hv⟩

theorem step_shape (s : Server) (op : Op) (h : Inv s) (hc : Covered op = true) (hf : OpFresh s op)
    (conn : Nat) (pk : WPk) (hw : Out.wrote conn pk ∈ (step s op).2) : Shape pk :=
  (step_addr s op h hc hf _ hw).1

/-- nothing follows a DISCONNECT on its connection within one op -/
theorem step_disc (s : Server) (op : Op) (h : Inv s) (hc : Covered op = true) (hf : OpFresh s op)
    (o1 o2 : List Out) (conn v code : Nat) (e : (step s op).2 = o1 ++ Out.wrote conn (.disconnect v code) :: o2) :
    (∀ pk, Out.wrote conn pk ∉ o2) ∧ ClosedOn (step s op).1 conn :=
  have := (step_vok s op h hc hf).disc o1 conn v code o2 e
  ⟨this.2, this.1⟩

end Mochi.Broker.W23
