import Mochi.Model.Broker
import Mochi.Lemmas.AckRes
import Mochi.Lemmas.BrokerFrame
import Mochi.Lemmas.BrokerInv
import Mochi.Lemmas.BrokerDelivery
import Mochi.Lemmas.BrokerAnswers
import Mochi.Lemmas.BrokerWellFormedOut
import Mochi.Lemmas.BrokerPublishOp
/-!
# C23 at broker level, second part: the shape of written PUBLISH packets, their topics, the DISCONNECT codes

One more walk over every function of the sequential broker model (`Mochi/Model/Broker.lean`) — this time carrying a
state invariant `SG T s` and a predicate on every output `OutP T x`:

* a written PUBLISH `m` has `PubShape m` (type 3, QoS ≤ 2, packet identifier 0 exactly when QoS 0) and a topic in `T`;
* a written DISCONNECT carries one of the six codes of `DiscCode`.

`T : Str → Prop` is a parameter (`TOK T`: it holds of the empty topic — the alias-only form — and of every topic that
`publishValidate` lets through): `T := fun _ => True` gives the shape theorems without any hypothesis on wills,
`T := NoWild` gives "no wildcard in an outbound topic" under the hypothesis that the will topics of CONNECT packets are
wildcard-free (they are NOT validated: finding F28b).

The invariant needs no bound on object indices (`setObj` out of range changes nothing, `getObj` out of range is the
default client, which satisfies `CG`), so — unlike `W23` — the walk covers ALL ops, `.connectHold` and `.release`
included, and needs no freshness of connection numbers.
-/
namespace Mochi.Broker.P23
open Mochi.Topics

/-! ### the predicates -/

/-- a well-formed outbound PUBLISH: QoS at most 2, packet identifier exactly when QoS > 0 -/
def PubShape (m : Msg) : Prop := m.type = 3 ∧ m.qos ≤ 2 ∧ (m.qos = 0 → m.id = 0) ∧ (0 < m.qos → 0 < m.id)

instance (m : Msg) : Decidable (PubShape m) := by unfold PubShape; infer_instance

/-- a topic NAME: neither `+` (43) nor `#` (35) -/
def NoWild (t : Str) : Prop := t.contains plus = false ∧ t.contains hash = false

instance (t : Str) : Decidable (NoWild t) := by unfold NoWild; infer_instance

/-- the DISCONNECT reason codes the sequential model writes: 0x82 protocol error (PublishValidate, empty
    SUBSCRIBE/UNSUBSCRIBE, unbound topic alias, session expiry raised from 0), 0x87 not authorized and 0x90 topic name
    invalid (MQTT 3 publisher, QoS > 0: finding F23b makes these DISCONNECT packets), 0x8E session taken over, 0x93
    receive maximum exceeded, 0x94 topic alias invalid -/
def DiscCode (c : Nat) : Prop := c = 0x82 ∨ c = 0x87 ∨ c = 0x8E ∨ c = 0x90 ∨ c = 0x93 ∨ c = 0x94

instance (c : Nat) : Decidable (DiscCode c) := by unfold DiscCode; infer_instance

/-- what is claimed of one output -/
def OutP (T : Str → Prop) : Out → Prop
  | .wrote _ (.publish _ m _) => PubShape m ∧ T m.topic
  | .wrote _ (.disconnect _ code) => DiscCode code
  | _ => True

/-- the topics `T` may be asked of: the empty one (a PUBLISH that carries only an alias) and whatever
    `publishValidate` accepts -/
structure TOK (T : Str → Prop) : Prop where
  nil : T []
  val : ∀ (s : Server) (q id : Nat) (t : Str) (al : Option Nat), publishValidate s q id t al = none → T t

theorem TOK_true : TOK (fun _ => True) := ⟨trivial, fun _ _ _ _ _ _ => trivial⟩

theorem TOK_noWild : TOK NoWild := by
  refine ⟨by decide, ?_⟩
  intro s q id t al h
  unfold publishValidate at h
  split at h
  · cases h
  · split at h
    · cases h
    · split at h
      · cases h
      · rename_i hw
        unfold NoWild
        revert hw
        cases t.contains plus <;> cases t.contains hash <;> intro hw <;>
          first | exact ⟨rfl, rfl⟩ | exact absurd rfl hw

/-- an in-flight record that is a PUBLISH (the map also holds the PUBACK/PUBREC/PUBREL/PUBCOMP records, F10) -/
def Rec (T : Str → Prop) (m : Msg) : Prop := m.type = 3 → 0 < m.qos ∧ m.qos ≤ 2 ∧ 0 < m.id ∧ T m.topic

structure CG (T : Str → Prop) (c : Client) : Prop where
  infl : ∀ m ∈ c.inflight, Rec T m
  will : T c.will.topic
  alias : ∀ e ∈ c.aliasIn, T e.2

/-- the state invariant of the walk -/
structure SG (T : Str → Prop) (s : Server) : Prop where
  caps : s.caps.maximumQos ≤ 2
  objs : ∀ k, CG T (getObj s k)
  ret : ∀ e ∈ s.rmsgs, T e.2.topic
  wd : ∀ e ∈ s.willDelayed, T e.2.topic

def OKo (T : Str → Prop) (o : List Out) : Prop := ∀ x ∈ o, OutP T x

/-- the error a handler returns is below 0x80 (no DISCONNECT is written for it) or in the table -/
def CodeOK (e : Option Nat) : Prop := ∀ code, e = some code → code < 0x80 ∨ DiscCode code

abbrev Gr (T : Str → Prop) (r : Server × List Out) : Prop := SG T r.1 ∧ OKo T r.2
abbrev Gh (T : Str → Prop) (r : HRes) : Prop := SG T r.1 ∧ OKo T r.2.1 ∧ CodeOK r.2.2

variable {T : Str → Prop}

theorem Gr.mk {s : Server} {o : List Out} (h : SG T s) (g : OKo T o) : Gr T (s, o) := ⟨h, g⟩
theorem Gh.mk {s : Server} {o : List Out} {e : Option Nat} (h : SG T s) (g : OKo T o) (c : CodeOK e) :
    Gh T (s, o, e) := ⟨h, g, c⟩

theorem OKo.nil : OKo T [] := fun _ h => by cases h

theorem OKo.append {a b : List Out} (h : OKo T a) (g : OKo T b) : OKo T (a ++ b) := by
  intro x hx
  rcases List.mem_append.mp hx with hx | hx
  · exact h x hx
  · exact g x hx

theorem OKo.filter {a : List Out} (h : OKo T a) (p : Out → Bool) : OKo T (a.filter p) :=
  fun x hx => h x (List.mem_filter.mp hx).1

theorem OKo.event (e : String) : OKo T [.event e] := by
  intro x hx; rw [List.mem_singleton] at hx; subst hx; trivial

theorem CodeOK.none : CodeOK none := fun _ h => by cases h
theorem CodeOK.low {c : Nat} (h : c < 0x80) : CodeOK (some c) := fun _ e => by cases e; exact Or.inl h
theorem CodeOK.disc {c : Nat} (h : DiscCode c) : CodeOK (some c) := fun _ e => by cases e; exact Or.inr h

/-! ### client level -/

theorem CG.of_eq {c c' : Client} (h : CG T c) (hi : c'.inflight = c.inflight) (hw : c'.will.topic = c.will.topic)
    (ha : c'.aliasIn = c.aliasIn) : CG T c' :=
  ⟨by rw [hi]; exact h.infl, by rw [hw]; exact h.will, by rw [ha]; exact h.alias⟩

theorem CG.default (hT : TOK T) : CG T ({} : Client) :=
  ⟨fun _ h => (by cases h), hT.nil, fun _ h => (by cases h)⟩

theorem CG.flSet {c : Client} (h : CG T c) (m : Msg) (hm : Rec T m) : CG T (flSet c m).1 := by
  unfold Mochi.Broker.flSet
  split
  · refine ⟨?_, h.will, h.alias⟩
    intro x hx
    obtain ⟨y, hy, rfl⟩ := List.mem_map.mp hx
    split
    · exact hm
    · exact h.infl y hy
  · refine ⟨?_, h.will, h.alias⟩
    intro x hx
    rcases List.mem_append.mp hx with hx | hx
    · exact h.infl x hx
    · rw [List.mem_singleton] at hx; subst hx; exact hm

theorem CG.flDelete {c : Client} (h : CG T c) (id : Nat) : CG T (flDelete c id).1 := by
  unfold Mochi.Broker.flDelete
  exact ⟨fun x hx => h.infl x (List.mem_filter.mp hx).1, h.will, h.alias⟩

theorem CG.decSend {c : Client} (h : CG T c) : CG T (decSend c) := by
  unfold Mochi.Broker.decSend; split
  · exact h.of_eq rfl rfl rfl
  · exact h
theorem CG.incSend {c : Client} (h : CG T c) : CG T (incSend c) := by
  unfold Mochi.Broker.incSend; split
  · exact h.of_eq rfl rfl rfl
  · exact h
theorem CG.decRecv {c : Client} (h : CG T c) : CG T (decRecv c) := by
  unfold Mochi.Broker.decRecv; split
  · exact h.of_eq rfl rfl rfl
  · exact h
theorem CG.incRecv {c : Client} (h : CG T c) : CG T (incRecv c) := by
  unfold Mochi.Broker.incRecv; split
  · exact h.of_eq rfl rfl rfl
  · exact h
theorem CG.aliasOutSet {c : Client} (h : CG T c) (t : Str) : CG T (aliasOutSet c t).1 := by
  unfold Mochi.Broker.aliasOutSet
  split
  · exact h
  · split
    · exact h
    · split
      · exact h
      · exact h.of_eq rfl rfl rfl

/-! ### server level -/

theorem SG.set {s : Server} (h : SG T s) (i : Nat) (c : Client) (hc : CG T c) : SG T (setObj s i c) := by
  refine ⟨h.caps, fun k => ?_, h.ret, h.wd⟩
  by_cases hk : k = i
  · subst hk
    rcases getObj_setObj_self_cases s k c with e | e
    · rw [e]; exact hc
    · rw [e]; exact h.objs k
  · rw [getObj_setObj_ne s i k c hk]; exact h.objs k

theorem SG.mod {s : Server} (h : SG T s) (i : Nat) (f : Client → Client) (hf : CG T (f (getObj s i))) :
    SG T (modObj s i f) := h.set i _ hf

/-- a change to server fields other than `caps`, `objs`, `rmsgs`, `willDelayed` -/
theorem SG.upd {s s' : Server} (h : SG T s) (hc : s'.caps = s.caps) (ho : s'.objs = s.objs) (hr : s'.rmsgs = s.rmsgs)
    (hw : s'.willDelayed = s.willDelayed) : SG T s' :=
  ⟨by rw [hc]; exact h.caps, fun k => by rw [getObj_of_objs_eq ho k]; exact h.objs k, by rw [hr]; exact h.ret,
   by rw [hw]; exact h.wd⟩

/-! ### primitives -/

theorem nextPacketIDLoop_pos (c : Client) (maxID started : Nat) (fuel i : Nat) (ov : Bool) (pid : Nat)
    (h : nextPacketIDLoop c maxID started fuel i ov = some pid) : 0 < pid := by
  induction fuel generalizing i ov with
  | zero => unfold nextPacketIDLoop at h; cases h
  | succ n ih =>
    unfold nextPacketIDLoop at h
    split at h
    · cases h
    · split at h
      · exact ih _ _ h
      · extract_lets i' at h
        split at h
        · rw [← Option.some.inj h]
          exact Nat.succ_pos i
        · exact ih _ _ h

theorem nextPacketID_pos (c : Client) (maxID pid : Nat) (h : nextPacketID c maxID = some pid) : 0 < pid :=
  nextPacketIDLoop_pos c maxID c.packetID _ _ _ pid h

theorem shapeQos_le2 (caps : Caps) (sub : Sub) (q : Nat) (h : caps.maximumQos ≤ 2) : shapeQos caps sub q ≤ 2 := by
  unfold shapeQos
  extract_lets q'
  split
  · exact h
  · omega

theorem writeMsg_g (s : Server) (i : Nat) (m : Msg) (hm : m.type = 3 → PubShape m ∧ T m.topic) :
    OKo T (writeMsg s i m) := by
  unfold writeMsg
  extract_lets +onlyGivenNames c
  split
  · exact OKo.nil
  · split
    · rename_i ht
      intro x hx
      rw [List.mem_singleton] at hx; subst hx
      exact hm (by simpa using ht)
    · intro x hx
      rw [List.mem_singleton] at hx; subst hx
      trivial

/-- an acknowledgement is no PUBLISH -/
theorem writeAck_g (s : Server) (i t id rc : Nat) (ht : t ≠ 3) : OKo T (writeAck s i t id rc) :=
  writeMsg_g s i _ (fun h => absurd h ht)

theorem stopClient_out (s : Server) (i : Nat) : OKo T (stopClient s i).2 := by
  intro x hx
  obtain ⟨c, rfl⟩ := W23.stopClient_out s i x hx
  trivial

theorem stopClient_sg (s : Server) (i : Nat) (h : SG T s) : SG T (stopClient s i).1 := by
  unfold stopClient
  extract_lets +onlyGivenNames c
  split
  · exact h
  · exact h.set i _ ((h.objs i).of_eq rfl rfl rfl)

theorem stopClient_g (s : Server) (i : Nat) (h : SG T s) : Gr T (stopClient s i) :=
  ⟨stopClient_sg s i h, stopClient_out s i⟩

theorem disconnectClient_g (s : Server) (i code : Nat) (h : SG T s) (hc : DiscCode code) :
    Gr T (disconnectClient s i code) := by
  rw [W23.disconnectClient_eq]
  refine ⟨stopClient_sg s i h, OKo.append ?_ (stopClient_out s i)⟩
  split
  · intro x hx
    rw [List.mem_singleton] at hx; subst hx
    exact hc
  · exact OKo.nil

/-! ### the delivery family -/

theorem publishToClientCore_g (hT : TOK T) (s : Server) (i : Nat) (sub : Sub) (f : Bool) (pk : Msg) (h : SG T s)
    (hpk : T pk.topic) : Gr T (publishToClientCore s i sub f pk) := by
  unfold publishToClientCore
  extract_lets c out
  have hq : out.qos ≤ 2 := shapeQos_le2 s.caps sub pk.qos h.caps
  split
  rename_i c1 out1 heq
  have hc1 : CG T c1 ∧ out1.qos ≤ 2 ∧ out1.id = 0 ∧ T out1.topic := by
    split at heq
    · split at heq
      rename_i c' a ex h2
      have h3 := CG.aliasOutSet (h.objs i) pk.topic
      rw [h2] at h3
      split at heq
      · cases heq
        refine ⟨h3, hq, rfl, ?_⟩
        show T (if ex = true then [] else pk.topic)
        split
        · exact hT.nil
        · exact hpk
      · cases heq; exact ⟨h3, hq, rfl, hpk⟩
    · cases heq; exact ⟨h.objs i, hq, rfl, hpk⟩
  clear heq
  obtain ⟨hc1, hq1, hid1, ht1⟩ := hc1
  extract_lets s1
  have hs1 : SG T s1 := h.set i c1 hc1
  split
  · rename_i hpos
    split
    · exact ⟨hs1.upd rfl rfl rfl rfl, OKo.nil⟩
    · split
      · exact ⟨hs1.upd rfl rfl rfl rfl, OKo.event _⟩
      · rename_i pid hpid
        extract_lets c2 out2 sentQuota
        have hp : 0 < pid := nextPacketID_pos _ _ _ hpid
        have hrec : ∀ e : Int, Rec T { out2 with expiry := e } := fun e _ => ⟨hpos, hq1, hp, ht1⟩
        have hrec2 : Rec T out2 := fun _ => ⟨hpos, hq1, hp, ht1⟩
        have hc2 : CG T c2 := hc1.of_eq rfl rfl rfl
        split
        rename_i c3 isNew hfl
        have hc3 : CG T c3 := by
          have := hc2.flSet out2 hrec2
          rw [hfl] at this
          exact this
        extract_lets c4 s2 src s3
        have hc4 : CG T c4 := by
          show CG T (if isNew = true then decSend c3 else c3)
          split
          · exact hc3.decSend
          · exact hc3
        have hs2 : SG T s2 := hs1.set i c4 hc4
        have hs3 : SG T s3 := by
          show SG T (if isNew = true then _ else _)
          split
          · exact hs2.upd rfl rfl rfl rfl
          · exact hs2
        split
        · exact ⟨hs3.set i _ (hc4.flSet _ (hrec _)), OKo.nil⟩
        · split
          · exact ⟨hs3, OKo.nil⟩
          · refine ⟨hs3, writeMsg_g s3 i out2 (fun ht => ⟨⟨ht, hq1, fun h0 => ?_, fun _ => hp⟩, ht1⟩)⟩
            have : 0 < out1.qos := hpos
            have h0' : out1.qos = 0 := h0
            omega
  · rename_i hz
    split
    · exact ⟨hs1, OKo.nil⟩
    · refine ⟨hs1, writeMsg_g s1 i out1 (fun ht => ⟨⟨ht, hq1, fun _ => hid1, fun hp => ?_⟩, ht1⟩)⟩
      exact absurd hp hz

theorem publishToClient_g (hT : TOK T) (s : Server) (i : Nat) (sub : Sub) (f : Bool) (pk : Msg) (h : SG T s)
    (hpk : T pk.topic) : Gr T (publishToClient s i sub f pk) := by
  unfold publishToClient
  split
  · exact ⟨h, OKo.nil⟩
  · split
    · exact ⟨h, OKo.nil⟩
    · exact publishToClientCore_g hT s i sub f pk h hpk

theorem foldl_inv_mem' {α β} (P : β → Prop) (f : β → α → β) (l : List α) (b : β) (h0 : P b)
    (hs : ∀ b a, a ∈ l → P b → P (f b a)) : P (l.foldl f b) := by
  induction l generalizing b with
  | nil => exact h0
  | cons x xs ih =>
    exact ih _ (hs _ _ List.mem_cons_self h0) (fun b a ha => hs b a (List.mem_cons_of_mem _ ha))

theorem publishToSubscribers_g (hT : TOK T) (s : Server) (pk : Msg) (h : SG T s) (hpk : T pk.topic) :
    Gr T (publishToSubscribers s pk) := by
  unfold publishToSubscribers
  split
  · exact ⟨h, OKo.nil⟩
  · extract_lets e pk' r subsMap inl
    have hpk' : T pk'.topic := by
      simp only [pk']
      repeat' split
      all_goals exact hpk
    refine foldl_inv (fun (acc : Server × List Out) => Gr T acc) _ _ _ ⟨h, ?_⟩ ?_
    · intro x hx
      obtain ⟨a, _, rfl⟩ := List.mem_map.mp hx
      trivial
    · intro acc cs ha
      split
      · exact ha
      · rename_i k hk
        split
        rename_i s' o heq
        have := publishToClient_g hT acc.1 k cs.2 false pk' ha.1 hpk'
        rw [heq] at this
        exact ⟨this.1, ha.2.append this.2⟩

theorem publishRetainedToClient_g (hT : TOK T) (s : Server) (i : Nat) (sub : Sub) (ex : Bool) (k : Nat) (h : SG T s) :
    Gr T (publishRetainedToClient s i sub ex k) := by
  unfold publishRetainedToClient
  split
  · exact ⟨h, OKo.nil⟩
  · split
    · exact ⟨h, OKo.nil⟩
    · extract_lets sub'
      refine foldl_inv (fun (acc : Server × List Out) => Gr T acc) _ _ _ ⟨h, OKo.nil⟩ ?_
      intro acc r ha
      split
      · exact ha
      · rename_i m hm
        split
        rename_i s' o heq
        have := publishToClient_g hT acc.1 i sub' true m ha.1 (ha.1.ret _ (assocGet_mem _ _ _ hm))
        rw [heq] at this
        exact ⟨this.1, ha.2.append this.2⟩

theorem retainMsg_sg (s : Server) (pk : Msg) (h : SG T s) (hpk : T pk.topic) : SG T (retainMsg s pk) := by
  unfold retainMsg
  split
  · exact h
  · extract_lets r rm
    refine ⟨h.caps, h.objs, ?_, h.wd⟩
    show ∀ e ∈ rm, T e.2.topic
    intro e he
    simp only [rm] at he
    split at he
    · rcases mem_assocSet _ _ _ _ he with he | he
      · exact h.ret e he
      · rw [he]; exact hpk
    · exact h.ret e (List.mem_filter.mp he).1

theorem unsubscribeClient_sg (s : Server) (i : Nat) (h : SG T s) : SG T (unsubscribeClient s i) := by
  unfold unsubscribeClient
  extract_lets +onlyGivenNames c s1
  have h1 : SG T s1 := h.set i _ ((h.objs i).of_eq rfl rfl rfl)
  split
  · exact h1
  · refine foldl_inv (fun (x : Server) => SG T x) _ _ _ h1 ?_
    intro b a hb
    exact hb.upd rfl rfl rfl rfl

theorem clearInflights_sg (s : Server) (i : Nat) (h : SG T s) : SG T (clearInflights s i) := by
  unfold clearInflights
  extract_lets +onlyGivenNames c n
  have hc : CG T { c with inflight := [] } :=
    ⟨fun _ hx => absurd hx List.not_mem_nil, (h.objs i).will, (h.objs i).alias⟩
  exact (h.set i _ hc).upd rfl rfl rfl rfl

theorem sendLWT_g (hT : TOK T) (s : Server) (i : Nat) (h : SG T s) : Gr T (sendLWT s i) := by
  unfold sendLWT
  extract_lets +onlyGivenNames c
  split
  · exact ⟨h, OKo.nil⟩
  · extract_lets +onlyGivenNames pk
    have hpk : T pk.topic := (h.objs i).will
    split
    · refine ⟨⟨h.caps, h.objs, h.ret, ?_⟩, OKo.nil⟩
      intro e he
      rcases mem_assocSet _ _ _ _ he with he | he
      · exact h.wd e he
      · rw [he]; exact hpk
    · extract_lets +onlyGivenNames s1
      have hs1 : SG T s1 := by
        show SG T (if pk.retain = true then retainMsg s pk else s)
        split
        · exact retainMsg_sg s pk h hpk
        · exact h
      split
      rename_i s2 o heq
      have := publishToSubscribers_g hT s1 pk hs1 hpk
      rw [heq] at this
      have h2 : SG T s2 := this.1
      refine Gr.mk (h2.mod i _ ?_) (this.2.append (OKo.event _))
      exact (h2.objs i).of_eq rfl rfl rfl

/-! ### the handlers -/

theorem dc82 : DiscCode 0x82 := Or.inl rfl
theorem dc87 : DiscCode 0x87 := Or.inr (Or.inl rfl)
theorem dc8E : DiscCode 0x8E := Or.inr (Or.inr (Or.inl rfl))
theorem dc90 : DiscCode 0x90 := Or.inr (Or.inr (Or.inr (Or.inl rfl)))
theorem dc93 : DiscCode 0x93 := Or.inr (Or.inr (Or.inr (Or.inr (Or.inl rfl))))
theorem dc94 : DiscCode 0x94 := Or.inr (Or.inr (Or.inr (Or.inr (Or.inr rfl))))

theorem OKo.connack (s : Server) (c : Client) (conn : Nat) (sp : Bool) (code : Nat) (sei : Option Nat) :
    OKo T [Out.wrote conn (mkConnack s c sp code sei)] := by
  intro y hy; rw [List.mem_singleton] at hy; subst hy; exact True.intro

theorem OKo.single {x : Out} (h : OutP T x) : OKo T [x] := by
  intro y hy; rw [List.mem_singleton] at hy; subst hy; exact h

theorem Gh.ite {p : Prop} [Decidable p] {a b : HRes}
    (ha : p → Gh T a) (hb : ¬ p → Gh T b) : Gh T (if p then a else b) := by
  by_cases h : p
  · rw [if_pos h]; exact ha h
  · rw [if_neg h]; exact hb h

theorem Gr.ite {p : Prop} [Decidable p] {a b : Server × List Out}
    (ha : p → Gr T a) (hb : ¬ p → Gr T b) : Gr T (if p then a else b) := by
  by_cases h : p
  · rw [if_pos h]; exact ha h
  · rw [if_neg h]; exact hb h

theorem ackRes_g (s : Server) (i t id rc : Nat) (h : SG T s) (ht : t ≠ 3) : Gh T (ackRes s i t id rc) := by
  rcases ackRes_cases s i t id rc with e | e <;> rw [e]
  · exact Gh.mk h (writeAck_g s i t id rc ht) CodeOK.none
  · exact Gh.mk h OKo.nil (CodeOK.low (by decide))

theorem processPuback_g (s : Server) (i id : Nat) (h : SG T s) : Gh T (processPuback s i id) := by
  unfold processPuback
  extract_lets +onlyGivenNames c
  split
  · exact Gh.mk h OKo.nil CodeOK.none
  · extract_lets +onlyGivenNames c'
    exact Gh.mk ((h.set i c' ((h.objs i).flDelete id).incSend).upd rfl rfl rfl rfl) OKo.nil CodeOK.none

theorem processPubrec_g (s : Server) (i id rc : Nat) (h : SG T s) : Gh T (processPubrec s i id rc) := by
  unfold processPubrec
  extract_lets +onlyGivenNames c
  split
  · exact ackRes_g s i 6 id 0x92 h (by decide)
  · split
    · extract_lets +onlyGivenNames c'
      exact Gh.mk ((h.set i c' ((h.objs i).flDelete id)).upd rfl rfl rfl rfl) OKo.nil CodeOK.none
    · extract_lets +onlyGivenNames ack c' s1
      have hn : ack.type ≠ 3 := by show (6 : Nat) ≠ 3; decide
      have hs1 : SG T s1 := h.set i c' ((h.objs i).decRecv.flSet ack (fun ht => absurd ht hn))
      split
      · exact Gh.mk hs1 OKo.nil (CodeOK.low (by decide))
      · exact Gh.mk hs1 (writeMsg_g s1 i ack (fun ht => absurd ht hn)) CodeOK.none

theorem processPubrel_g (s : Server) (i id rc : Nat) (h : SG T s) : Gh T (processPubrel s i id rc) := by
  unfold processPubrel
  extract_lets +onlyGivenNames c
  split
  · exact ackRes_g s i 7 id 0x92 h (by decide)
  · split
    · extract_lets +onlyGivenNames c'
      exact Gh.mk ((h.set i c' ((h.objs i).flDelete id)).upd rfl rfl rfl rfl) OKo.nil CodeOK.none
    · extract_lets +onlyGivenNames ack c1 s1
      have hn : ack.type ≠ 3 := by show (7 : Nat) ≠ 3; decide
      have hc1 : CG T c1 := (h.objs i).flSet ack (fun ht => absurd ht hn)
      have hs1 : SG T s1 := h.set i c1 hc1
      split
      · exact Gh.mk hs1 OKo.nil (CodeOK.low (by decide))
      · extract_lets +onlyGivenNames o c2
        split
        rename_i c3 ok heq
        extract_lets +onlyGivenNames s2
        have hc3 : CG T c3 := by
          have := CG.flDelete (c := c2) hc1.incRecv.incSend id
          rw [heq] at this
          exact this
        have hs2 : SG T s2 := hs1.set i c3 hc3
        have ho : OKo T o := writeMsg_g s1 i ack (fun ht => absurd ht hn)
        split
        · exact Gh.mk (hs2.upd rfl rfl rfl rfl) ho CodeOK.none
        · exact Gh.mk hs2 ho CodeOK.none

theorem processPubcomp_g (s : Server) (i id : Nat) (h : SG T s) : Gh T (processPubcomp s i id) := by
  unfold processPubcomp
  extract_lets +onlyGivenNames c
  split
  rename_i c1 ok heq
  extract_lets +onlyGivenNames s1
  have hc1 : CG T c1 := by
    have := CG.flDelete (c := c) (h.objs i).incRecv.incSend id
    rw [heq] at this
    exact this
  have hs1 : SG T s1 := h.set i c1 hc1
  split
  · exact Gh.mk (hs1.upd rfl rfl rfl rfl) OKo.nil CodeOK.none
  · exact Gh.mk hs1 OKo.nil CodeOK.none

theorem mem_of_head? {α} {l : List α} {a : α} (h : l.head? = some a) : a ∈ l := by
  cases l with
  | nil => cases h
  | cons x xs => cases h; exact List.mem_cons_self

/-- `NextImmediate`: the released record is a stored in-flight record -/
theorem nextImmediate_g (s : Server) (i : Nat) (h : SG T s) : Gr T (nextImmediate s i) := by
  unfold nextImmediate
  extract_lets +onlyGivenNames c
  split
  · split
    · rename_i m hm
      have hmem : m ∈ c.inflight := (List.mem_filter.mp (mem_permuteBy _ _ _ (mem_of_head? hm))).1
      have hrec : Rec T m := (h.objs i).infl m hmem
      extract_lets +onlyGivenNames o
      have ho : OKo T o := writeMsg_g s i m (fun ht => by
        obtain ⟨a, b, c', d⟩ := hrec ht
        exact ⟨⟨ht, b, fun h0 => by omega, fun _ => c'⟩, d⟩)
      split
      rename_i c1 ok heq
      extract_lets +onlyGivenNames s1
      have hc1 : CG T c1 := by
        have := (h.objs i).flDelete m.id
        rw [heq] at this
        exact this
      have hs0 : SG T { s with nextSeed := s.nextSeed / 64 } := h.upd rfl rfl rfl rfl
      have hs1 : SG T s1 := hs0.set i _ hc1.decSend
      split
      · exact Gr.mk (hs1.upd rfl rfl rfl rfl) ho
      · exact Gr.mk hs1 ho
    · exact Gr.mk h OKo.nil
  · exact Gr.mk h OKo.nil

theorem processDisconnect_g (s : Server) (i rc : Nat) (sei : Option Nat) (h : SG T s) :
    Gh T (processDisconnect s i rc sei) := by
  unfold processDisconnect
  extract_lets +onlyGivenNames c r
  have hr : ∀ s' c', r = some (s', c') → s' = s ∧ CG T c' := by
    intro s' c' h'
    simp only [r] at h'
    split at h'
    · split at h'
      · cases h'
      · cases h'; exact ⟨rfl, (h.objs i).of_eq rfl rfl rfl⟩
    · cases h'; exact ⟨rfl, h.objs i⟩
  generalize r = r' at hr
  split
  · exact Gh.mk h OKo.nil (CodeOK.disc dc82)
  · rename_i s' c'
    obtain ⟨rfl, hc'⟩ := hr s' c' rfl
    extract_lets +onlyGivenNames s1
    have hs1 : SG T s1 := SG.set (by assumption) i c' hc'
    split
    · exact Gh.mk hs1 OKo.nil (CodeOK.low (by decide))
    · extract_lets +onlyGivenNames s2
      have hs2 : SG T s2 := ⟨hs1.caps, hs1.objs, hs1.ret, fun e he => hs1.wd e (List.mem_filter.mp he).1⟩
      split
      rename_i s3 o hst
      have := stopClient_g s2 i hs2
      rw [hst] at this
      exact Gh.mk this.1 this.2 CodeOK.none

theorem processUnsubscribe_g (s : Server) (i id : Nat) (filters : List Str) (h : SG T s) :
    Gh T (processUnsubscribe s i id filters) := by
  unfold processUnsubscribe
  extract_lets +onlyGivenNames c inUse r
  have hr : SG T r.1 := by
    refine foldl_inv (fun (acc : Server × List Nat) => SG T acc.1) _ _ _ h ?_
    intro acc f ha
    split
    rename_i s' rcs
    split
    · exact ha
    · extract_lets rr src s1 s2
      show SG T s2
      have h1 : SG T s1 := SG.upd (s := s') ha rfl rfl rfl rfl
      exact h1.mod i _ ((h1.objs i).of_eq rfl rfl rfl)
  generalize r = r' at hr
  split
  rename_i s' rcs
  extract_lets c'
  split
  · exact Gh.mk hr OKo.nil (CodeOK.low (by decide))
  · exact Gh.mk hr (OKo.single trivial) CodeOK.none

theorem processSubscribe_g (hT : TOK T) (s : Server) (i id subId : Nat) (filters : List Sub) (h : SG T s) :
    Gh T (processSubscribe s i id subId filters) := by
  unfold processSubscribe
  extract_lets +onlyGivenNames c inUse fin r
  have hr : SG T r.1 := by
    refine foldl_inv (fun (acc : Server × List Nat × List Bool) => SG T acc.1) _ _ _ h ?_
    intro acc sub ha
    split
    rename_i s' rcs exs
    extract_lets +onlyGivenNames sub'
    split
    · exact ha
    · split
      · exact ha
      · split
        · exact ha
        · split
          · exact ha
          · extract_lets +onlyGivenNames rr src s1 s2
            show SG T s2
            have h1 : SG T s1 := SG.upd (s := s') ha rfl rfl rfl rfl
            exact h1.mod i _ ((h1.objs i).of_eq rfl rfl rfl)
  generalize r = r' at hr
  split
  rename_i s' rcs exs
  extract_lets +onlyGivenNames c'
  split
  · exact Gh.mk hr OKo.nil (CodeOK.low (by decide))
  · extract_lets +onlyGivenNames o1 z
    have h1 : OKo T o1 := OKo.single trivial
    have hz : Gr T z := by
      refine foldl_inv (fun (acc : Server × List Out) => Gr T acc) _ _ _ ⟨hr, OKo.nil⟩ ?_
      intro acc xk ha
      extract_lets +onlyGivenNames x
      split
      · exact ha
      · extract_lets +onlyGivenNames src sub'
        split
        rename_i s2 o heq
        have := publishRetainedToClient_g hT acc.1 i sub' x.2.2 xk.2 ha.1
        rw [heq] at this
        exact ⟨this.1, ha.2.append this.2⟩
    exact Gh.mk hz.1 (h1.append hz.2) CodeOK.none

theorem processPublish_g (hT : TOK T) (s : Server) (i : Nat) (qos : Nat) (dup retain : Bool) (id : Nat)
    (topic payload : Str) (msgExpiry : Nat) (alias : Option Nat) (h : SG T s) (htop : T topic) :
    Gh T (processPublish s i qos dup retain id topic payload msgExpiry alias) := by
  unfold processPublish
  extract_lets +onlyGivenNames c
  have early : ∀ code, DiscCode code → Gh T
      (if (qos == 0) = true then ((s, [], none) : HRes)
        else if (c.ver != 5) = true then
          match disconnectClient s i code with
          | (s, o) => (s, o, some code)
        else ackRes s i (if (qos == 2) = true then 5 else 4) id code) := by
    intro code hcode
    split
    · exact Gh.mk h OKo.nil CodeOK.none
    · split
      · split
        rename_i s' o heq
        have := disconnectClient_g s i code h hcode
        rw [heq] at this
        exact Gh.mk this.1 this.2 (CodeOK.disc hcode)
      · exact ackRes_g s i _ id code h (by split <;> decide)
  refine Gh.ite (fun _ => early _ dc90) (fun _ => ?_)
  refine Gh.ite (fun _ => ?_) (fun _ => ?_)
  · split
    rename_i s' o heq
    have := disconnectClient_g s i 0x93 h dc93
    rw [heq] at this
    exact Gh.mk this.1 this.2 (CodeOK.disc dc93)
  · refine Gh.ite (fun _ => early _ dc87) (fun _ => ?_)
    extract_lets +onlyGivenNames e pk pre
    have hpre : ∀ r, pre = some r → r = ackRes s i 5 id 0x91 := by
      intro r h'
      simp only [pre] at h'
      split at h'
      · cases h'
      · split at h'
        · split at h'
          · cases h'; rfl
          · cases h'
        · cases h'
    generalize pre = pre' at hpre
    split
    · rename_i r
      rw [hpre r rfl]
      exact ackRes_g s i 5 id 0x91 h (by decide)
    · clear hpre
      split
      rename_i s1 c1 heq
      have h1 : SG T s1 ∧ CG T c1 := by
        split at heq
        · cases heq
          exact ⟨(h.set i _ ((h.objs i).flDelete id)).upd rfl rfl rfl rfl, (h.objs i).flDelete id⟩
        · cases heq
          exact ⟨h, h.objs i⟩
      clear heq
      obtain ⟨hs1, ho1⟩ := h1
      split
      rename_i c2 pk2 heq
      have hc2 : CG T c2 ∧ T pk2.topic := by
        have hset : ∀ a, CG T { c1 with aliasIn := assocSet c1.aliasIn a topic } := fun a =>
          ⟨ho1.infl, ho1.will, fun e he => by
            rcases mem_assocSet _ _ _ _ he with he | he
            · exact ho1.alias e he
            · rw [he]; exact htop⟩
        split at heq
        · split at heq
          · split at heq
            · cases heq; exact ⟨ho1, htop⟩
            · split at heq
              · rename_i existing hex
                split at heq
                · cases heq; exact ⟨ho1, ho1.alias _ (assocGet_mem _ _ _ hex)⟩
                · cases heq; exact ⟨hset _, htop⟩
              · cases heq; exact ⟨hset _, htop⟩
          · cases heq; exact ⟨ho1, htop⟩
        · cases heq; exact ⟨ho1, htop⟩
      clear heq
      obtain ⟨hc2, ht2⟩ := hc2
      extract_lets +onlyGivenNames s2
      have hs2 : SG T s2 := hs1.set i c2 hc2
      split
      · split
        rename_i s' o heq
        have := disconnectClient_g s2 i 0x82 hs2 dc82
        rw [heq] at this
        exact Gh.mk this.1 this.2 (CodeOK.disc dc82)
      extract_lets +onlyGivenNames pk3 mode
      have ht3 : T pk3.topic := by
        simp only [pk3]
        split <;> exact ht2
      split
      · exact Gh.mk hs2 OKo.nil CodeOK.none
      · split
        · exact ackRes_g s2 i _ id 0x87 hs2 (by split <;> decide)
        · extract_lets +onlyGivenNames pk4 s3
          have ht4 : T pk4.topic := by
            simp only [pk4]
            split <;> exact ht3
          have hs3 : SG T s3 := by
            show SG T (if pk4.retain = true then retainMsg s2 pk4 else s2)
            split
            · exact retainMsg_sg s2 pk4 hs2 ht4
            · exact hs2
          split
          · split
            rename_i s4 o heq
            have := publishToSubscribers_g hT s3 pk4 hs3 ht4
            rw [heq] at this
            exact Gh.mk this.1 this.2 CodeOK.none
          · extract_lets +onlyGivenNames s4 ackT ackRC ack
            have hackT : ack.type ≠ 3 := by
              show ackT ≠ 3
              simp only [ackT]
              split <;> decide
            have hs4 : SG T s4 := hs3.mod i decRecv (hs3.objs i).decRecv
            split
            rename_i c5 isNew heq
            have hc5 : CG T c5 := by
              have := (hs4.objs i).flSet ack (fun ht => absurd ht hackT)
              rw [heq] at this
              exact this
            clear heq
            extract_lets +onlyGivenNames s5 src s6
            have hs5 : SG T s5 := hs4.set i c5 hc5
            have hs6 : SG T s6 := by
              show SG T (if isNew = true then _ else s5)
              split
              · exact hs5.upd rfl rfl rfl rfl
              · exact hs5
            split
            · exact Gh.mk hs6 OKo.nil (CodeOK.low (by decide))
            · extract_lets +onlyGivenNames o1 s7
              have hs7 : SG T s7 := by
                show SG T (if (pk4.qos == 1) = true then _ else s6)
                split
                · split
                  rename_i c6 ok heq
                  have hc6 : CG T c6 := by
                    have := (hs6.objs i).flDelete id
                    rw [heq] at this
                    exact this
                  extract_lets +onlyGivenNames s8
                  have hs8 : SG T s8 := hs6.set i _ hc6.incRecv
                  split
                  · exact hs8.upd rfl rfl rfl rfl
                  · exact hs8
                · exact hs6
              split
              rename_i s9 o2 heq
              have := publishToSubscribers_g hT s7 pk4 hs7 ht4
              rw [heq] at this
              exact Gh.mk this.1 ((writeMsg_g s6 i ack (fun ht => absurd ht hackT)).append this.2) CodeOK.none

/-! ### one inbound packet -/

theorem publishValidate_code (s : Server) (q id : Nat) (t : Str) (al : Option Nat) (code : Nat)
    (h : publishValidate s q id t al = some code) : DiscCode code := by
  unfold publishValidate at h
  repeat' split at h
  all_goals (cases h <;> first | exact dc82 | exact dc94)

theorem receivePacket_g (hT : TOK T) (s : Server) (i : Nat) (pk : InPk) (h : SG T s) : Gh T (receivePacket s i pk) := by
  unfold receivePacket
  extract_lets +onlyGivenNames c r
  have hr : Gh T r := by
    simp only [r]
    split
    · split
      · rename_i code hcode
        exact Gh.mk h OKo.nil (CodeOK.disc (publishValidate_code _ _ _ _ _ _ hcode))
      · rename_i hval
        exact processPublish_g hT _ _ _ _ _ _ _ _ _ _ h (hT.val _ _ _ _ _ hval)
    · split
      · exact Gh.mk h OKo.nil (CodeOK.disc dc82)
      · exact processSubscribe_g hT _ _ _ _ _ h
    · split
      · exact Gh.mk h OKo.nil (CodeOK.disc dc82)
      · exact processUnsubscribe_g _ _ _ _ h
    · exact processPuback_g _ _ _ h
    · exact processPubrec_g _ _ _ _ h
    · exact processPubrel_g _ _ _ _ h
    · exact processPubcomp_g _ _ _ h
    · split
      · exact Gh.mk h (OKo.single trivial) CodeOK.none
      · exact Gh.mk h OKo.nil (CodeOK.low (by decide))
    · exact processDisconnect_g _ _ _ _ h
  generalize r = r' at hr
  split
  · rename_i s1 o
    split
    rename_i s2 o2 heq
    have := nextImmediate_g s1 i hr.1
    rw [heq] at this
    exact Gh.mk this.1 (hr.2.1.append this.2) CodeOK.none
  · rename_i s1 o code
    split
    · rename_i hcond
      split
      rename_i s2 o2 heq
      have hcode : DiscCode code := by
        rcases hr.2.2 code rfl with hlt | hd
        · have hge : code ≥ 0x80 := by
            have := hcond
            simp only [Bool.and_eq_true, decide_eq_true_eq] at this
            exact this.2
          omega
        · exact hd
      have := disconnectClient_g s1 i code hr.1 hcode
      rw [heq] at this
      exact Gh.mk this.1 (hr.2.1.append this.2) (CodeOK.disc hcode)
    · exact Gh.mk hr.1 hr.2.1 hr.2.2

theorem detachA_g (hT : TOK T) (s : Server) (i : Nat) (withErr : Bool) (h : SG T s) : Gr T (detachA s i withErr) := by
  unfold detachA
  split
  · split
    rename_i s2 o2 h2
    split
    rename_i s3 o3 h3
    have a := sendLWT_g hT s i h
    rw [h2] at a
    have b := stopClient_g s2 i a.1
    rw [h3] at b
    exact Gr.mk b.1 (a.2.append b.2)
  · exact Gr.mk (h.mod i _ ⟨(h.objs i).infl, hT.nil, (h.objs i).alias⟩) OKo.nil

theorem detachB_sg (s : Server) (i : Nat) (h : SG T s) : SG T (detachB s i) := by
  unfold detachB
  extract_lets +onlyGivenNames c expire s3 s4 s2
  refine SG.upd (s := s2) ?_ rfl rfl rfl rfl
  show SG T (if (expire && !c.takenOver) = true then _ else s)
  split
  · have h3 : SG T s3 := clearInflights_sg s i h
    have h4 : SG T s4 := unsubscribeClient_sg s3 i h3
    exact h4.upd rfl rfl rfl rfl
  · exact h

theorem detach_g (hT : TOK T) (s : Server) (i : Nat) (withErr : Bool) (h : SG T s) : Gr T (detach s i withErr) := by
  unfold detach
  split
  rename_i s1 o1 heq
  have hs1 : Gr T (s1, o1) := by
    have := detachA_g hT s i withErr h
    rw [heq] at this
    exact this
  exact Gr.mk (detachB_sg s1 i hs1.1) hs1.2

theorem recvOn_g (hT : TOK T) (s : Server) (conn : Nat) (pk : InPk) (b : Bool) (h : SG T s) :
    Gr T (recvOn s conn pk b) := by
  unfold recvOn
  split
  · exact Gr.mk h OKo.nil
  · rename_i i hci
    split
    · exact Gr.mk h OKo.nil
    · split
      rename_i s1 o e heq
      have h1 : Gh T (s1, o, e) := by
        have := receivePacket_g hT s i pk h
        rw [heq] at this
        exact this
      split
      · split
        rename_i s2 o2 hd
        have := detach_g hT s1 i true h1.1
        rw [hd] at this
        exact Gr.mk this.1 (h1.2.1.append this.2)
      · split
        · split
          rename_i s2 o2 hd
          have := detach_g hT s1 i false h1.1
          rw [hd] at this
          exact Gr.mk this.1 (h1.2.1.append this.2)
        · split
          · split
            rename_i s2 o2 e2 heq2
            have h2 : Gh T (s2, o2, e2) := by
              have := receivePacket_g hT s1 i .pingreq h1.1
              rw [heq2] at this
              exact this
            extract_lets +onlyGivenNames o2f
            have h12 : OKo T (o ++ o2f) := h1.2.1.append (h2.2.1.filter _)
            split
            · split
              rename_i s3 o3 hd
              have := detach_g hT s2 i true h2.1
              rw [hd] at this
              exact Gr.mk this.1 (h12.append this.2)
            · exact Gr.mk h2.1 h12
          · exact Gr.mk h1.1 h1.2.1

/-! ### connecting -/

/-- the will topic of a CONNECT is in `T` (for `T := NoWild` this is what the broker does NOT check: F28b) -/
def WillT (T : Str → Prop) (k : Connect) : Prop := ∀ w, k.will = some w → T w.topic

theorem parseConnect_cg (hT : TOK T) (s : Server) (conn : Nat) (k : Connect) (hw : WillT T k) :
    CG T (parseConnect s conn k) := by
  unfold parseConnect
  extract_lets rmProp rmProp' will
  refine ⟨fun _ hx => absurd hx List.not_mem_nil, ?_, fun _ hx => absurd hx List.not_mem_nil⟩
  show T will.topic
  simp only [will]
  split
  · rename_i w hk
    exact hw w hk
  · exact hT.nil

theorem addObj_sg (hT : TOK T) (s : Server) (conn : Nat) (k : Connect) (h : SG T s) (hw : WillT T k) :
    SG T (W23.addObj s conn k) := by
  have ho : (W23.addObj s conn k).objs = s.objs ++ [parseConnect s conn k] := rfl
  refine ⟨h.caps, fun j => ?_, h.ret, h.wd⟩
  by_cases h1 : j < s.objs.length
  · rw [getObj_append_lt ho j h1]; exact h.objs j
  · by_cases h2 : j = s.objs.length
    · subst h2
      rw [W23.getObj_addObj_new]
      exact parseConnect_cg hT s conn k hw
    · rw [W23.getObj_ge _ j (by rw [ho]; simp; omega)]
      exact CG.default hT

theorem admitA_g (s : Server) (i : Nat) (k : Connect) (h : SG T s) :
    SG T (admitA s i k).1 ∧ OKo T (admitA s i k).2.1 := by
  unfold admitA
  extract_lets +onlyGivenNames src s0 exLive
  have hs0 : SG T s0 := h.upd rfl rfl rfl rfl
  split
  rename_i s' o1 present heq
  have h' : SG T s' ∧ OKo T o1 := by
    split at heq
    · rename_i e he
      extract_lets +onlyGivenNames ex at heq
      split at heq
      rename_i s1 o hd
      have hs1 : Gr T (s1, o) := by
        have := disconnectClient_g s0 e 0x8E hs0 dc8E
        rw [hd] at this
        exact this
      split at heq
      · extract_lets +onlyGivenNames s2 s3 at heq
        rw [← (Prod.mk.inj heq).1, ← (Prod.mk.inj (Prod.mk.inj heq).2).1]
        have h2 : SG T s2 := unsubscribeClient_sg s1 e hs1.1
        have h3 : SG T s3 := clearInflights_sg s2 e h2
        exact ⟨h3.mod e _ ((h3.objs e).of_eq rfl rfl rfl), hs1.2⟩
      · extract_lets +onlyGivenNames s2 ex2 rmx s2i src2 s3 s4 s5 s6 at heq
        rw [← (Prod.mk.inj heq).1, ← (Prod.mk.inj (Prod.mk.inj heq).2).1]
        have hs2 : SG T s2 := SG.mod (s := s1) hs1.1 e _ ((hs1.1.objs e).of_eq rfl rfl rfl)
        have hs2i : SG T s2i := hs2.mod i _ ⟨(hs2.objs e).infl, (hs2.objs i).will, (hs2.objs i).alias⟩
        have hs3 : SG T s3 := by
          show SG T (if ex2.inflight.length > 0 then _ else s2)
          split
          · exact hs2i.upd rfl rfl rfl rfl
          · exact hs2
        have hs4 : SG T s4 := by
          refine foldl_inv (fun (x : Server) => SG T x) _ _ _ hs3 ?_
          intro b fs hb
          extract_lets +onlyGivenNames rr src3 b1
          have hb1 : SG T b1 := SG.upd (s := b) hb rfl rfl rfl rfl
          exact hb1.mod i _ ((hb1.objs i).of_eq rfl rfl rfl)
        have hs5 : SG T s5 := unsubscribeClient_sg s4 e hs4
        exact ⟨clearInflights_sg s5 e hs5, hs1.2⟩
    · rw [← (Prod.mk.inj heq).1, ← (Prod.mk.inj (Prod.mk.inj heq).2).1]
      exact ⟨hs0, OKo.nil⟩
  exact ⟨h'.1.upd rfl rfl rfl rfl, h'.2⟩

theorem admitConnack_g (s : Server) (i conn : Nat) (present : Bool) (h : SG T s) :
    Gr T (admitConnack s i conn present) := by
  unfold admitConnack
  extract_lets +onlyGivenNames cl
  split
  rename_i s' seiOut heq
  have hk : SG T s' := by
    split at heq
    · rw [← (Prod.mk.inj heq).1]; exact h.mod i _ ((h.objs i).of_eq rfl rfl rfl)
    · rw [← (Prod.mk.inj heq).1]; exact h
  exact Gr.mk hk (OKo.connack _ _ _ _ _ _)

/-- `ResendInflightMessages`: every resent PUBLISH is a stored in-flight record with DUP set -/
theorem admitC_g (s : Server) (i : Nat) (k : Connect) (present : Bool) (h : SG T s) :
    Gr T (admitC s i k present) := by
  unfold admitC
  extract_lets +onlyGivenNames s1
  have hs1 : SG T s1 := ⟨h.caps, h.objs, h.ret, fun e he => h.wd e (List.mem_filter.mp he).1⟩
  split
  · refine foldl_inv_mem' (fun (acc : Server × List Out) => Gr T acc) _ _ _ ⟨hs1, OKo.nil⟩ ?_
    intro acc m hm ha
    have hrec : Rec T m := (hs1.objs i).infl m (mem_permuteBy _ _ _ hm)
    extract_lets +onlyGivenNames m' o s'
    have hm' : m'.type = m.type ∧ m'.qos = m.qos ∧ m'.id = m.id ∧ m'.topic = m.topic := by
      simp only [m']
      split <;> exact ⟨rfl, rfl, rfl, rfl⟩
    have ho : OKo T o := writeMsg_g acc.1 i m' (fun ht => by
      obtain ⟨e1, e2, e3, e4⟩ := hm'
      obtain ⟨a, b, c', d⟩ := hrec (by rw [← e1]; exact ht)
      refine ⟨⟨ht, ?_, ?_, ?_⟩, ?_⟩
      · rw [e2]; exact b
      · rw [e2]; intro h0; omega
      · rw [e3]; exact fun _ => c'
      · rw [e4]; exact d)
    have hs' : SG T s' := by
      show SG T (if (m.type == 4 || m.type == 7) = true then _ else acc.1)
      split
      · split
        rename_i c' ok heq
        extract_lets +onlyGivenNames s''
        have hc' : CG T c' := by
          have := (ha.1.objs i).flDelete m.id
          rw [heq] at this
          exact this
        have h3 : SG T s'' := ha.1.set i c' hc'
        split
        · exact h3.upd rfl rfl rfl rfl
        · exact h3
      · exact ha.1
    exact Gr.mk hs' (ha.2.append ho)
  · exact Gr.mk hs1 OKo.nil

theorem admitClient_g (hT : TOK T) (s : Server) (i conn : Nat) (k : Connect) (h : SG T s) :
    Gr T (admitClient s i conn k) := by
  unfold admitClient
  split
  rename_i s1 o1 present exLive h1
  have v1 : SG T s1 ∧ OKo T o1 := by
    have := admitA_g s i k h
    rw [h1] at this; exact this
  split
  rename_i s2 o2 h2
  have v2 : Gr T (s2, o2) := by
    have := admitConnack_g s1 i conn present v1.1
    rw [h2] at this; exact this
  split
  rename_i s3 o4 h3
  have v3 : Gr T (s3, o4) := by
    split at h3
    · rename_i e
      have := detach_g hT s2 e true v2.1
      rw [h3] at this; exact this
    · cases h3; exact Gr.mk v2.1 OKo.nil
  split
  rename_i s4 o3 h4
  have v4 : Gr T (s4, o3) := by
    have := admitC_g s3 i k present v3.1
    rw [h4] at this; exact this
  exact Gr.mk v4.1 (((v1.2.append v2.2).append v3.2).append v4.2)

theorem connect_g (hT : TOK T) (s : Server) (conn : Nat) (k : Connect) (h : SG T s) (hw : WillT T k) :
    Gr T (connect s conn k) := by
  unfold connect
  extract_lets +onlyGivenNames c i s1
  have hs1 : SG T s1 := addObj_sg hT s conn k h hw
  split
  · rename_i code hcode
    split
    rename_i s2 o2 h2
    have v2 : Gr T (s2, o2) := by
      have := stopClient_g s1 i hs1
      rw [h2] at this; exact this
    exact Gr.mk v2.1 ((OKo.connack _ _ _ _ _ _).append v2.2)
  · exact admitClient_g hT s1 i conn k hs1

theorem connectHold_g (hT : TOK T) (s : Server) (conn : Nat) (k : Connect) (stage : Nat) (h : SG T s)
    (hw : WillT T k) : Gr T (connectHold s conn k stage) := by
  unfold connectHold
  extract_lets +onlyGivenNames c i s1 dec
  have hs1 : SG T s1 := addObj_sg hT s conn k h hw
  clear_value dec
  split
  · rename_i code
    refine Gr.ite (fun _ => Gr.mk (hs1.upd rfl rfl rfl rfl) OKo.nil) (fun _ => ?_)
    · split
      rename_i s2 o2 h2
      have v2 : Gr T (s2, o2) := by
        have := stopClient_g s1 i hs1
        rw [h2] at this; exact this
      exact Gr.mk v2.1 ((OKo.connack _ _ _ _ _ _).append v2.2)
  · split
    · exact Gr.mk (hs1.upd rfl rfl rfl rfl) OKo.nil
    · split
      rename_i s2 o1 present exLive h1
      have v1 : SG T s2 ∧ OKo T o1 := by
        have := admitA_g s1 i k hs1
        rw [h1] at this; exact this
      split
      rename_i s3 o4 h3
      have v3 : Gr T (s3, o4) := by
        split at h3
        · rename_i e
          have := detach_g hT s2 e true v1.1
          rw [h3] at this; exact this
        · cases h3; exact Gr.mk v1.1 OKo.nil
      exact Gr.mk (v3.1.upd rfl rfl rfl rfl) (v1.2.append v3.2)

theorem connectRelease_g (hT : TOK T) (s : Server) (p : Pending) (h : SG T s) : Gr T (connectRelease s p) := by
  unfold connectRelease
  split
  · split
    · split
      rename_i s2 o2 h2
      have v2 : Gr T (s2, o2) := by
        have := stopClient_g s p.obj h
        rw [h2] at this; exact this
      exact Gr.mk v2.1 ((OKo.connack _ _ _ _ _ _).append v2.2)
    · exact admitClient_g hT s p.obj p.conn p.k h
  · split
    · exact Gr.mk (h.upd rfl rfl rfl rfl) OKo.nil
    · split
      rename_i s2 o2 h2
      have v2 : Gr T (s2, o2) := by
        have := admitConnack_g s p.obj p.conn p.present h
        rw [h2] at this; exact this
      split
      rename_i s3 o3 h3
      have v3 : Gr T (s3, o3) := by
        have := admitC_g s2 p.obj p.k p.present v2.1
        rw [h3] at this; exact this
      exact Gr.mk v3.1 (v2.2.append v3.2)

/-! ### housekeeping -/

theorem tickClients_g (s : Server) (dt : Int) (h : SG T s) : Gr T (tickClients s dt) := by
  unfold tickClients
  refine foldl_inv (fun (acc : Server × List Out) => Gr T acc) _ _ _ ⟨h, OKo.nil⟩ ?_
  intro acc e ha
  extract_lets +onlyGivenNames c
  split
  · extract_lets +onlyGivenNames s1 s2
    have h1 : SG T s1 := clearInflights_sg acc.1 e.2 ha.1
    have h2 : SG T s2 := unsubscribeClient_sg s1 e.2 h1
    exact Gr.mk (h2.upd rfl rfl rfl rfl) (ha.2.append (OKo.event _))
  · exact ha

theorem tickRetained_sg (s : Server) (now : Int) (h : SG T s) : SG T (tickRetained s now) := by
  unfold tickRetained
  extract_lets +onlyGivenNames s1
  refine SG.upd (s := s1) ?_ rfl rfl rfl rfl
  show SG T (tickRetained.tickRetainedLoop s now)
  unfold tickRetained.tickRetainedLoop
  refine foldl_inv (fun (x : Server) => SG T x) _ _ _ h ?_
  intro b e hb
  extract_lets +onlyGivenNames pk expired enforced
  split
  · exact ⟨hb.caps, hb.objs, fun x hx => hb.ret x (List.mem_filter.mp hx).1, hb.wd⟩
  · exact hb

theorem tickInflight_sg (s : Server) (now : Int) (h : SG T s) : SG T (tickInflight s now) := by
  unfold tickInflight
  refine foldl_inv (fun (x : Server) => SG T x) _ _ _ h ?_
  intro b e hb
  extract_lets +onlyGivenNames c
  refine foldl_inv (fun (x : Server) => SG T x) _ _ _ hb ?_
  intro b2 m h2
  extract_lets +onlyGivenNames expired enforced
  split
  · split
    rename_i c' ok heq
    extract_lets +onlyGivenNames s1
    have hc' : CG T c' := by
      have := (h2.objs e.2).flDelete m.id
      rw [heq] at this
      exact this
    have h3 : SG T s1 := h2.set e.2 c' hc'
    split
    · exact h3.upd rfl rfl rfl rfl
    · exact h3
  · exact h2

theorem tickWills_g (hT : TOK T) (s : Server) (dt : Int) (h : SG T s) : Gr T (tickWills s dt) := by
  unfold tickWills
  refine foldl_inv_mem' (fun (acc : Server × List Out) => Gr T acc) _ _ _ ⟨h, OKo.nil⟩ ?_
  intro acc e he ha
  have hte : T e.2.topic := h.wd e he
  split
  · split
    rename_i s1 o h1
    have g1 : Gr T (s1, o) := by
      have := publishToSubscribers_g hT acc.1 e.2 ha.1 hte
      rw [h1] at this
      exact this
    split
    rename_i s2 o2 h2
    have g2 : Gr T (s2, o2) := by
      split at h2
      · rename_i i _
        extract_lets +onlyGivenNames s3 at h2
        rw [← (Prod.mk.inj h2).1, ← (Prod.mk.inj h2).2]
        have g3 : SG T s3 := by
          show SG T (if e.2.retain = true then retainMsg s1 e.2 else s1)
          split
          · exact retainMsg_sg s1 e.2 g1.1 hte
          · exact g1.1
        exact Gr.mk (g3.mod i _ ⟨(g3.objs i).infl, hT.nil, (g3.objs i).alias⟩) (OKo.event _)
      · cases h2; exact Gr.mk g1.1 OKo.nil
    refine Gr.mk ⟨g2.1.caps, g2.1.objs, g2.1.ret, fun x hx => g2.1.wd x (List.mem_filter.mp hx).1⟩ ?_
    exact (ha.2.append g1.2).append g2.2
  · exact ha

/-! ### one op -/

/-- what is asked of an op: the will topic of a CONNECT is in `T` (nothing for `T := fun _ => True`) -/
def OpT (T : Str → Prop) : Op → Prop
  | .connect _ k => WillT T k
  | .connectHold _ k _ => WillT T k
  | _ => True

theorem step_g (hT : TOK T) (s : Server) (op : Op) (h : SG T s) (hop : OpT T op) : Gr T (step s op) := by
  cases op with
  | connect conn k =>
    rw [step]
    split
    rename_i s1 o h1
    have v1 : Gr T (s1, o) := by
      have := connect_g hT s conn k h hop
      rw [h1] at this; exact this
    split
    · split
      · split
        rename_i s2 o2 h2
        have := recvOn_g hT s1 conn .pingreq false v1.1
        rw [h2] at this
        exact Gr.mk this.1 (v1.2.append (this.2.filter _))
      · exact v1
    · exact v1
  | recv conn pk =>
    rw [step]
    exact recvOn_g hT s conn pk true h
  | drop conn =>
    rw [step]
    split
    · exact Gr.mk h OKo.nil
    · rename_i i hci
      split
      · exact Gr.mk h OKo.nil
      · extract_lets +onlyGivenNames s1
        have k1 : SG T s1 := h.mod i _ ((h.objs i).of_eq rfl rfl rfl)
        split
        rename_i s2 o h2
        have := detach_g hT s1 i true k1
        rw [h2] at this
        exact Gr.mk this.1 (this.2.filter _)
  | recvCut conn pk =>
    rw [step]
    split
    · exact Gr.mk h OKo.nil
    · rename_i i hci
      split
      · exact Gr.mk h OKo.nil
      · extract_lets +onlyGivenNames s1
        have k1 : SG T s1 := h.mod i _ ((h.objs i).of_eq rfl rfl rfl)
        split
        rename_i s2 o h2
        have v2 : Gr T (s2, o) := by
          have := recvOn_g hT s1 conn pk false k1
          rw [h2] at this; exact this
        split
        rename_i s3 o2 h3
        have v3 : Gr T (s3, o2) := by
          split at h3
          · cases h3; exact Gr.mk v2.1 OKo.nil
          · have := detach_g hT s2 i true v2.1
            rw [h3] at this; exact this
        exact Gr.mk v3.1 ((v2.2.append v3.2).filter _)
  | dropHold conn =>
    rw [step]
    split
    · exact Gr.mk h OKo.nil
    · rename_i i hci
      split
      · exact Gr.mk h OKo.nil
      · extract_lets +onlyGivenNames s1
        have k1 : SG T s1 := h.mod i _ ((h.objs i).of_eq rfl rfl rfl)
        split
        rename_i s2 o h2
        have := detachA_g hT s1 i true k1
        rw [h2] at this
        exact Gr.mk (this.1.upd rfl rfl rfl rfl) (this.2.filter _)
  | dropHoldEarly conn =>
    rw [step]
    split
    · exact Gr.mk h OKo.nil
    · rename_i i hci
      split
      · exact Gr.mk h OKo.nil
      · have k0 : SG T { s with parkedEarly := s.parkedEarly ++ [i] } := h.upd rfl rfl rfl rfl
        exact Gr.mk (k0.mod i _ ((k0.objs i).of_eq rfl rfl rfl)) OKo.nil
  | connectHold conn k stage =>
    rw [step]
    exact connectHold_g hT s conn k stage h hop
  | release conn =>
    rw [step]
    split
    · rename_i p hp
      have hs0 : SG T { s with pending := s.pending.filter (·.conn != conn) } := h.upd rfl rfl rfl rfl
      split
      rename_i s1 o h1
      have v1 : Gr T (s1, o) := by
        have := connectRelease_g hT _ p hs0
        rw [h1] at this; exact this
      split
      · split
        rename_i s2 o2 h2
        have := recvOn_g hT s1 conn .pingreq false v1.1
        rw [h2] at this
        exact Gr.mk this.1 (v1.2.append (this.2.filter _))
      · exact v1
    · split
      · exact Gr.mk h OKo.nil
      · rename_i i hci
        split
        · exact Gr.mk (detachB_sg _ i (h.upd rfl rfl rfl rfl)) OKo.nil
        · split
          · split
            rename_i s2 o h2
            have hs0 : SG T { s with parkedEarly := s.parkedEarly.filter (· != i) } := h.upd rfl rfl rfl rfl
            have := detach_g hT _ i true hs0
            rw [h2] at this
            exact Gr.mk this.1 (this.2.filter _)
          · exact Gr.mk h OKo.nil
  | tick kind t =>
    rw [step]
    split
    · exact tickClients_g s t h
    · split
      · exact Gr.mk (tickRetained_sg s t h) OKo.nil
      · split
        · exact Gr.mk (tickInflight_sg s t h) OKo.nil
        · split
          · exact tickWills_g hT s t h
          · exact Gr.mk h OKo.nil
  | inlinePublish topic payload retain qos =>
    rw [step]
    have := receivePacket_g hT s 0 (.publish qos false retain qos topic payload 0 none) h
    exact Gr.mk this.1 this.2.1
  | inlineSubscribe id filter =>
    rw [step]
    split
    · exact Gr.mk h OKo.nil
    · extract_lets +onlyGivenNames rr s1
      refine Gr.mk (h.upd rfl rfl rfl rfl) ?_
      intro x hx
      obtain ⟨a, _, rfl⟩ := List.mem_map.mp hx
      trivial
  | inlineUnsubscribe id filter =>
    rw [step]
    split
    · exact Gr.mk h OKo.nil
    · exact Gr.mk (h.upd rfl rfl rfl rfl) OKo.nil

/-- the invariant holds initially (whenever the configured maximum QoS is a QoS) -/
theorem SG_init (hT : TOK T) (caps : Caps) (hc : caps.maximumQos ≤ 2) : SG T (init caps) := by
  refine ⟨hc, fun k => ?_, fun _ hx => absurd hx List.not_mem_nil, fun _ hx => absurd hx List.not_mem_nil⟩
  by_cases hk : k = 0
  · subst hk
    exact ⟨fun _ hx => absurd hx List.not_mem_nil, hT.nil, fun _ hx => absurd hx List.not_mem_nil⟩
  · rw [W23.getObj_ge _ k (by show 1 ≤ k; omega)]
    exact CG.default hT

/-- … and in every state reached from `init` by ops whose CONNECT will topics are in `T` -/
theorem SG_run (hT : TOK T) (caps : Caps) (hc : caps.maximumQos ≤ 2) (ops : List Op) (hop : ∀ op ∈ ops, OpT T op) :
    SG T (run (init caps) ops) := by
  suffices ∀ (s : Server), SG T s → SG T (run s ops) from this _ (SG_init hT caps hc)
  induction ops with
  | nil => intro s h; exact h
  | cons op ops ih =>
    intro s h
    exact ih (fun o ho => hop o (List.mem_cons_of_mem _ ho)) _ (step_g hT s op h (hop op List.mem_cons_self)).1

/-! ### the instances -/

/-- the invariant of the shape theorems: the configured maximum QoS is at most 2; every in-flight record that is a
    PUBLISH has QoS 1 or 2 and a non-zero packet identifier -/
abbrev Inv (s : Server) : Prop := SG (fun _ => True) s

/-- the invariant of the topic theorem: `Inv`, and no wildcard in the topic of any in-flight PUBLISH record, retained
    message, pending delayed will, registered will, or inbound alias binding -/
abbrev InvNW (s : Server) : Prop := SG NoWild s

instance (k : Connect) : Decidable (WillT NoWild k) :=
  match h : k.will with
  | none => isTrue (fun w hw => by rw [h] at hw; cases hw)
  | some w =>
    if hn : NoWild w.topic then isTrue (fun w' hw => by rw [h] at hw; cases hw; exact hn)
    else isFalse (fun g => hn (g w h))

instance (op : Op) : Decidable (OpT NoWild op) := by
  cases op <;> simp only [OpT] <;> infer_instance

theorem OpT_true (op : Op) : OpT (fun _ => True) op := by
  cases op <;> first | exact True.intro | exact fun _ _ => True.intro

theorem InvNW.inv {s : Server} (h : InvNW s) : Inv s :=
  ⟨h.caps, fun k => ⟨fun m hm ht => by
      obtain ⟨a, b, c, _⟩ := (h.objs k).infl m hm ht
      exact ⟨a, b, c, trivial⟩, trivial, fun _ _ => trivial⟩, fun _ _ => trivial, fun _ _ => trivial⟩

end Mochi.Broker.P23
