import Mochi.Lemmas.CodecBounds
/-! No decode path of the model panics, and `Properties.Decode` never reports more bytes than it was
given. -/
namespace Mochi.Codec
open Mochi.Varint

theorem noPanic_map {α β} (f : α → β) (x : Dec α) (h : NoPanic x) : NoPanic (x.map f) := by
  cases x with
  | ok a => simp [Except.map, NoPanic]
  | error e => simp only [Except.map, NoPanic] at *; intro h'; injection h' with h'; exact h (by rw [h'])

theorem map_ok {α β} (f : α → β) (x : Dec α) (r : β) (h : x.map f = .ok r) : ∃ a, x = .ok a ∧ f a = r := by
  cases x with
  | ok a => simp [Except.map] at h; exact ⟨a, rfl, h⟩
  | error e => simp [Except.map] at h

/-- value decoding of one property: no panic, and the cursor moves forward inside the buffer -/
theorem decodePropValue_spec (k : Nat) (bt : Str) (off : Nat) (hoff : off ≤ bt.length) :
    NoPanic (decodePropValue k bt off) ∧
    ∀ v o, decodePropValue k bt off = .ok (v, o) → off ≤ o ∧ o ≤ bt.length := by
  unfold decodePropValue
  simp only []
  split
  · refine ⟨noPanic_map _ _ (decodeByte_np _ _), ?_⟩
    intro v o h
    obtain ⟨⟨a, b⟩, ha, hf⟩ := map_ok _ _ _ h
    injection hf with _ h2; subst h2
    have := decodeByte_ok _ _ _ _ ha; omega
  · split
    · refine ⟨noPanic_map _ _ (decodeUint32_np _ _), ?_⟩
      intro v o h
      obtain ⟨⟨a, b⟩, ha, hf⟩ := map_ok _ _ _ h
      injection hf with _ h2; subst h2
      have := decodeUint32_ok _ _ _ _ ha; omega
    · split
      · refine ⟨noPanic_map _ _ (decodeString_np _ _), ?_⟩
        intro v o h
        obtain ⟨⟨a, b⟩, ha, hf⟩ := map_ok _ _ _ h
        injection hf with _ h2; subst h2
        have := decodeString_ok _ _ _ _ ha; omega
      · split
        · refine ⟨noPanic_map _ _ (decodeBytes_np _ _), ?_⟩
          intro v o h
          obtain ⟨⟨a, b⟩, ha, hf⟩ := map_ok _ _ _ h
          injection hf with _ h2; subst h2
          have := decodeBytes_ok _ _ _ _ ha; omega
        · split
          · refine ⟨noPanic_map _ _ (decodeUint16_np _ _), ?_⟩
            intro v o h
            obtain ⟨⟨a, b⟩, ha, hf⟩ := map_ok _ _ _ h
            injection hf with _ h2; subst h2
            have := decodeUint16_ok _ _ _ _ ha; omega
          · split
            · -- subscription identifier: bt[offset:] then DecodeLength
              have hs : sliceFrom bt off = .ok (bt.drop off) := by unfold sliceFrom; simp [hoff]
              rw [hs]
              simp only []
              cases hd : decodeLength (bt.drop off) with
              | error e => simp [NoPanic, err]
              | ok r =>
                obtain ⟨n, bu⟩ := r
                simp only []
                refine ⟨noPanic_ok _, ?_⟩
                intro v o h
                injection h with h; injection h with _ h2; subst h2
                have := decodeLength_used _ _ _ hd
                simp only [List.length_drop] at this
                omega
            · split
              · cases h1 : decodeString bt off with
                | error e =>
                  simp only []
                  have := decodeString_np bt off; rw [h1] at this
                  refine ⟨by intro h'; injection h' with h'; exact this (by rw [h']), by intro v o h; simp at h⟩
                | ok r1 =>
                  obtain ⟨key, o1⟩ := r1
                  have b1 := decodeString_ok _ _ _ _ h1
                  simp only []
                  cases h2 : decodeString bt o1 with
                  | error e =>
                    simp only []
                    have := decodeString_np bt o1; rw [h2] at this
                    refine ⟨by intro h'; injection h' with h'; exact this (by rw [h']), by intro v o h; simp at h⟩
                  | ok r2 =>
                    obtain ⟨val, o2⟩ := r2
                    have b2 := decodeString_ok _ _ _ _ h2
                    simp only []
                    refine ⟨noPanic_ok _, ?_⟩
                    intro v o h
                    injection h with h; injection h with _ h2'; subst h2'
                    omega
              · refine ⟨noPanic_ok _, ?_⟩
                intro v o h
                injection h with h; injection h with _ h2; subst h2
                omega

/-- the property loop: no panic; on success the cursor reached the declared length and is still
    inside the buffer -/
theorem propsLoop_spec (pkt : Nat) (bt : Str) (n : Nat) (fuel off : Nat) (acc : List (Nat × PVal))
    (hoff : off ≤ bt.length) (hfuel : bt.length + 1 ≤ fuel + off) :
    NoPanic (propsLoop pkt bt n fuel off acc) ∧
    ∀ es o, propsLoop pkt bt n fuel off acc = .ok (es, o) → n ≤ o ∧ o ≤ bt.length := by
  induction fuel generalizing off acc with
  | zero => omega
  | succ fuel ih =>
    unfold propsLoop
    split
    · rename_i hlt
      cases h1 : decodeByte bt off with
      | error e =>
        simp only []
        have := decodeByte_np bt off; rw [h1] at this
        exact ⟨by intro h'; injection h' with h'; exact this (by rw [h']), by intro es o h; simp at h⟩
      | ok r1 =>
        obtain ⟨k, o1⟩ := r1
        have b1 := decodeByte_ok _ _ _ _ h1
        simp only []
        split
        · exact ⟨noPanic_err _, by intro es o h; simp [err] at h⟩
        · have hv := decodePropValue_spec k bt o1 b1.2
          cases h2 : decodePropValue k bt o1 with
          | error e =>
            simp only []
            have := hv.1; rw [h2] at this
            exact ⟨by intro h'; injection h' with h'; exact this (by rw [h']), by intro es o h; simp at h⟩
          | ok r2 =>
            obtain ⟨v, o2⟩ := r2
            have b2 := hv.2 v o2 h2
            simp only []
            exact ih o2 _ b2.2 (by omega)
    · refine ⟨noPanic_ok _, ?_⟩
      intro es o h
      injection h with h; injection h with _ h2; subst h2
      omega

/-- **`Properties.Decode` never overreads**: no panic, and the reported consumption `n + bu` is at
    most the number of bytes supplied. -/
theorem propsDecode_spec (pkt : Nat) (b : Str) (p0 : Props) :
    NoPanic (propsDecode pkt b p0) ∧ ∀ p m, propsDecode pkt b p0 = .ok (p, m) → m ≤ b.length := by
  unfold propsDecode
  cases hd : decodeLength b with
  | error e => exact ⟨noPanic_err _, by intro p m h; simp [err] at h⟩
  | ok r =>
    obtain ⟨n, bu⟩ := r
    have hu := decodeLength_used _ _ _ hd
    simp only []
    split
    · rename_i hn
      refine ⟨noPanic_ok _, ?_⟩
      intro p m h
      injection h with h; injection h with _ h2; subst h2
      have : n = 0 := by simpa using hn
      omega
    · have hl := propsLoop_spec pkt (b.drop bu) n ((b.drop bu).length + 1) 0 [] (by omega) (by omega)
      cases h2 : propsLoop pkt (b.drop bu) n ((b.drop bu).length + 1) 0 [] with
      | error e =>
        simp only []
        have := hl.1; rw [h2] at this
        exact ⟨by intro h'; injection h' with h'; exact this (by rw [h']), by intro p m h; simp at h⟩
      | ok r2 =>
        obtain ⟨es, o⟩ := r2
        have b2 := hl.2 es o h2
        simp only []
        refine ⟨noPanic_ok _, ?_⟩
        intro p m h
        injection h with h; injection h with _ h2'; subst h2'
        simp only [List.length_drop] at b2
        omega

end Mochi.Codec
