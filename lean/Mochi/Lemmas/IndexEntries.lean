import Mochi.Lemmas.Refine
/-!
# The subscription entries of the topic index, operation by operation

`plainAt x q c` / `sharedAt x q g c`: the subscription the particle at address `q` holds for client `c`
(in share group `g`) — the lookups `Subscribers` performs.  For each of the five mutating operations of
`Mochi/Model/Topics.lean` the lookups after the operation are characterised in terms of the lookups before
(no abstract model needed, unlike `Mochi/Lemmas/Refine.lean`), and the structural invariant `IdxOK`
(prefix-closed, every entry stored at the address its own filter determines) is shown to be kept.
-/
namespace Mochi.Topics

/-- the plain subscription held for client `c` by the particle at address `q` -/
def plainAt (x : Index) (q : Path) (c : Str) : Option Sub :=
  (getNode x.nodes q).bind (fun n => assocGet n.subs c)

/-- the shared subscription held for client `c` in group `g` by the particle at address `q` -/
def sharedAt (x : Index) (q : Path) (g c : Str) : Option Sub :=
  (getNode x.nodes q).bind (fun n => sharedGet n.shared g c)

/-- is the filter a `$share/…` filter as far as the index is concerned (case-insensitive first level) -/
def shareKey (f : Str) : Bool := isShare (isolate (splitLevels f) 0).1
/-- address of the particle a plain filter is stored at -/
def plainPath (f : Str) : Path := pathFrom (splitLevels f) 0
/-- address of the particle a shared filter is stored at -/
def sharePath (f : Str) : Path := pathFrom (splitLevels f) 2
/-- share group of a shared filter -/
def shareGroup (f : Str) : Str := (isolate (splitLevels f) 1).1

/-! ### what each operation does to a lookup -/

theorem seek_some {ns : List Node} {p : Path} {n : Node} (h : seek ns p = some n) : getNode ns p = some n := by
  unfold seek at h
  split at h
  · exact h
  · cases h

/-- `Subscribe` with a shared filter: a point update of the `shared` map of one particle -/
theorem subscribe_look_share (x : Index) (c : Str) (s : Sub) (hs : shareKey s.filter = true) :
    ∃ n : Node, (∀ {β : Type} (π : Node → Option β), DeadNone π → π n = (getNode x.nodes (sharePath s.filter)).bind π) ∧
      PointUpd x.nodes (subscribe x c s).1.nodes (sharePath s.filter)
        { n with shared := sharedAdd n.shared (shareGroup s.filter) c s } := by
  unfold shareKey at hs
  obtain ⟨n, hn⟩ := getNode_setPath_self x.nodes (pathFrom (splitLevels s.filter) 2) (pathFrom_ne_nil _ _)
  refine ⟨n, fun π hπ => old_setPath π hπ _ _ _ hn, ?_⟩
  have hu := pointUpd_setput x.nodes _ n
    { n with shared := sharedAdd n.shared (isolate (splitLevels s.filter) 1).1 c s } hn (getNode_path hn : n.path = _)
  unfold subscribe sharePath shareGroup
  simp only [hs, if_true, hn]
  exact hu

/-- `Subscribe` with a plain filter: a point update of the `subs` map of one particle -/
theorem subscribe_look_plain (x : Index) (c : Str) (s : Sub) (hs : shareKey s.filter = false) :
    ∃ n : Node, (∀ {β : Type} (π : Node → Option β), DeadNone π → π n = (getNode x.nodes (plainPath s.filter)).bind π) ∧
      PointUpd x.nodes (subscribe x c s).1.nodes (plainPath s.filter) { n with subs := assocSet n.subs c s } := by
  unfold shareKey at hs
  obtain ⟨n, hn⟩ := getNode_setPath_self x.nodes (pathFrom (splitLevels s.filter) 0) (pathFrom_ne_nil _ _)
  refine ⟨n, fun π hπ => old_setPath π hπ _ _ _ hn, ?_⟩
  have hu := pointUpd_setput x.nodes _ n { n with subs := assocSet n.subs c s } hn (getNode_path hn : n.path = _)
  unfold subscribe plainPath
  simp only [hs, Bool.false_eq_true, if_false, hn]
  exact hu

theorem plainAt_subscribe (x : Index) (c : Str) (s : Sub) (q : Path) (c' : Str) :
    plainAt (subscribe x c s).1 q c' =
      if shareKey s.filter = false ∧ q = plainPath s.filter ∧ c' = c then some s else plainAt x q c' := by
  unfold plainAt
  cases hs : shareKey s.filter with
  | true =>
    obtain ⟨n, hold, hu⟩ := subscribe_look_share x c s hs
    rw [look_unchanged _ (deadNone_subs c') hu (hold _ (deadNone_subs c')) rfl]
    simp
  | false =>
    obtain ⟨n, hold, hu⟩ := subscribe_look_plain x c s hs
    rw [hu _ _ (deadNone_subs c') q]
    by_cases hq : q = plainPath s.filter
    · subst hq
      simp only [if_true, true_and, assocGet_assocSet]
      rw [hold _ (deadNone_subs c')]
    · simp [hq]

theorem sharedAt_subscribe (x : Index) (c : Str) (s : Sub) (q : Path) (g c' : Str) :
    sharedAt (subscribe x c s).1 q g c' =
      if shareKey s.filter = true ∧ q = sharePath s.filter ∧ g = shareGroup s.filter ∧ c' = c then some s
      else sharedAt x q g c' := by
  unfold sharedAt
  cases hs : shareKey s.filter with
  | false =>
    obtain ⟨n, hold, hu⟩ := subscribe_look_plain x c s hs
    rw [look_unchanged _ (deadNone_shared g c') hu (hold _ (deadNone_shared g c')) rfl]
    simp
  | true =>
    obtain ⟨n, hold, hu⟩ := subscribe_look_share x c s hs
    rw [hu _ _ (deadNone_shared g c') q]
    by_cases hq : q = sharePath s.filter
    · subst hq
      simp only [if_true, true_and, sharedGet_sharedAdd]
      rw [hold _ (deadNone_shared g c')]
    · simp [hq]

/-- `Unsubscribe`: nothing, or a point update of one particle (followed by `trim`) -/
theorem unsubscribe_look (x : Index) (hpc : PrefixClosed x.nodes) (f c : Str) :
    ((unsubscribe x f c).1 = x ∧
      getNode x.nodes (if shareKey f = true then sharePath f else plainPath f) = none) ∨
    ∃ n : Node, getNode x.nodes (if shareKey f = true then sharePath f else plainPath f) = some n ∧
      PointUpd x.nodes (unsubscribe x f c).1.nodes (if shareKey f = true then sharePath f else plainPath f)
        (if shareKey f = true then { n with shared := sharedDel n.shared (shareGroup f) c }
         else { n with subs := assocDel n.subs c }) := by
  unfold unsubscribe shareKey sharePath plainPath shareGroup
  simp only [seek_eq_getNode _ hpc]
  by_cases hs : isShare (isolate (splitLevels f) 0).1 = true
  · simp only [hs, if_true]
    cases hg : getNode x.nodes (pathFrom (splitLevels f) 2) with
    | none => exact Or.inl ⟨rfl, rfl⟩
    | some n =>
      right
      refine ⟨n, rfl, ?_⟩
      exact pointUpd_trim _ _ _ _ (pointUpd_put x.nodes _ n
        { n with shared := sharedDel n.shared (isolate (splitLevels f) 1).1 c } hg (getNode_path hg : n.path = _)) _ _
  · simp only [hs, Bool.false_eq_true, if_false]
    cases hg : getNode x.nodes (pathFrom (splitLevels f) 0) with
    | none => exact Or.inl ⟨rfl, rfl⟩
    | some n =>
      right
      refine ⟨n, rfl, ?_⟩
      exact pointUpd_trim _ _ _ _ (pointUpd_put x.nodes _ n
        { n with subs := assocDel n.subs c } hg (getNode_path hg : n.path = _)) _ _

theorem plainAt_unsubscribe (x : Index) (hpc : PrefixClosed x.nodes) (f c : Str) (q : Path) (c' : Str) :
    plainAt (unsubscribe x f c).1 q c' =
      if shareKey f = false ∧ q = plainPath f ∧ c' = c then none else plainAt x q c' := by
  unfold plainAt
  rcases unsubscribe_look x hpc f c with ⟨he, hg⟩ | ⟨n, hg, hu⟩
  · rw [he]
    split
    · rename_i h
      obtain ⟨h1, h2, h3⟩ := h
      simp only [h1, Bool.false_eq_true, if_false] at hg
      rw [h2, hg]; rfl
    · rfl
  · cases hs : shareKey f with
    | true =>
      simp only [hs, if_true] at hg hu
      rw [look_unchanged (n := n) _ (deadNone_subs c') hu (old_get (fun n => assocGet n.subs c') _ _ _ hg) rfl]
      simp
    | false =>
      simp only [hs, Bool.false_eq_true, if_false] at hg hu
      rw [hu _ _ (deadNone_subs c') q]
      by_cases hq : q = plainPath f
      · subst hq
        simp only [if_true, true_and, assocGet_assocDel, hg, Option.bind_some]
      · simp [hq]

theorem sharedAt_unsubscribe (x : Index) (hpc : PrefixClosed x.nodes) (f c : Str) (q : Path) (g c' : Str) :
    sharedAt (unsubscribe x f c).1 q g c' =
      if shareKey f = true ∧ q = sharePath f ∧ g = shareGroup f ∧ c' = c then none else sharedAt x q g c' := by
  unfold sharedAt
  rcases unsubscribe_look x hpc f c with ⟨he, hg⟩ | ⟨n, hg, hu⟩
  · rw [he]
    split
    · rename_i h
      obtain ⟨h1, h2, h3⟩ := h
      simp only [h1, if_true] at hg
      rw [h2, hg]; rfl
    · rfl
  · cases hs : shareKey f with
    | false =>
      simp only [hs, Bool.false_eq_true, if_false] at hg hu
      rw [look_unchanged (n := n) _ (deadNone_shared g c') hu (old_get (fun n => sharedGet n.shared g c') _ _ _ hg) rfl]
      simp
    | true =>
      simp only [hs, if_true] at hg hu
      rw [hu _ _ (deadNone_shared g c') q]
      by_cases hq : q = sharePath f
      · subst hq
        simp only [if_true, true_and, sharedGet_sharedDel, hg, Option.bind_some]
      · simp [hq]

/-- the three operations that leave every plain and shared subscription alone -/
theorem inlineSubscribe_look (x : Index) (id : Nat) (s : Sub) {β : Type} (π : Node → Option β) (hπ : DeadNone π)
    (hsame : ∀ (n : Node) (v : List (Nat × Sub)), π { n with inline := v } = π n) (q : Path) :
    (getNode (inlineSubscribe x id s).1.nodes q).bind π = (getNode x.nodes q).bind π := by
  unfold inlineSubscribe
  simp only
  obtain ⟨n, hn⟩ := getNode_setPath_self x.nodes (pathFrom (splitLevels s.filter) 0) (pathFrom_ne_nil _ _)
  simp only [hn]
  have hu := pointUpd_setput x.nodes _ n { n with inline := assocSet n.inline id s } hn (getNode_path hn : n.path = _)
  exact look_unchanged π hπ hu (old_setPath π hπ _ _ _ hn) (hsame n _) q

theorem inlineUnsubscribe_look (x : Index) (id : Nat) (f : Str) {β : Type} (π : Node → Option β) (hπ : DeadNone π)
    (hsame : ∀ (n : Node) (v : List (Nat × Sub)), π { n with inline := v } = π n) (q : Path) :
    (getNode (inlineUnsubscribe x id f).1.nodes q).bind π = (getNode x.nodes q).bind π := by
  unfold inlineUnsubscribe
  simp only
  cases hsk : seek x.nodes (pathFrom (splitLevels f) 0) with
  | none => rfl
  | some n =>
    have hg := seek_some hsk
    have hu0 := pointUpd_put x.nodes _ n { n with inline := assocDel n.inline id } hg (getNode_path hg : n.path = _)
    simp only
    split
    · exact look_unchanged π hπ (pointUpd_trim _ _ _ _ hu0 _ _) (old_get π _ _ _ hg) (hsame n _) q
    · exact look_unchanged π hπ hu0 (old_get π _ _ _ hg) (hsame n _) q

theorem retainMessage_look (x : Index) (t p : Str) (fl : Bool) {β : Type} (π : Node → Option β) (hπ : DeadNone π)
    (hsame : ∀ (n : Node) (v : Str), π { n with retainPath := v } = π n) (q : Path) :
    (getNode (retainMessage x t p fl).1.nodes q).bind π = (getNode x.nodes q).bind π := by
  unfold retainMessage
  simp only
  obtain ⟨n, hn⟩ := getNode_setPath_self x.nodes (pathFrom (splitLevels t) 0) (pathFrom_ne_nil _ _)
  simp only [hn]
  split
  · have hu := pointUpd_setput x.nodes _ n { n with retainPath := t } hn (getNode_path hn : n.path = _)
    exact look_unchanged π hπ hu (old_setPath π hπ _ _ _ hn) (hsame n _) q
  · have hu := pointUpd_trim _ _ _ _
      (pointUpd_setput x.nodes _ n { n with retainPath := [] } hn (getNode_path hn : n.path = _))
      (pathFrom (splitLevels t) 0) (pathFrom (splitLevels t) 0).length
    exact look_unchanged π hπ hu (old_setPath π hπ _ _ _ hn) (hsame n _) q

theorem plainAt_inlineSubscribe (x : Index) (id : Nat) (s : Sub) (q : Path) (c : Str) :
    plainAt (inlineSubscribe x id s).1 q c = plainAt x q c :=
  inlineSubscribe_look x id s _ (deadNone_subs c) (fun _ _ => rfl) q
theorem sharedAt_inlineSubscribe (x : Index) (id : Nat) (s : Sub) (q : Path) (g c : Str) :
    sharedAt (inlineSubscribe x id s).1 q g c = sharedAt x q g c :=
  inlineSubscribe_look x id s _ (deadNone_shared g c) (fun _ _ => rfl) q
theorem plainAt_inlineUnsubscribe (x : Index) (id : Nat) (f : Str) (q : Path) (c : Str) :
    plainAt (inlineUnsubscribe x id f).1 q c = plainAt x q c :=
  inlineUnsubscribe_look x id f _ (deadNone_subs c) (fun _ _ => rfl) q
theorem sharedAt_inlineUnsubscribe (x : Index) (id : Nat) (f : Str) (q : Path) (g c : Str) :
    sharedAt (inlineUnsubscribe x id f).1 q g c = sharedAt x q g c :=
  inlineUnsubscribe_look x id f _ (deadNone_shared g c) (fun _ _ => rfl) q
theorem plainAt_retainMessage (x : Index) (t p : Str) (fl : Bool) (q : Path) (c : Str) :
    plainAt (retainMessage x t p fl).1 q c = plainAt x q c :=
  retainMessage_look x t p fl _ (deadNone_subs c) (fun _ _ => rfl) q
theorem sharedAt_retainMessage (x : Index) (t p : Str) (fl : Bool) (q : Path) (g c : Str) :
    sharedAt (retainMessage x t p fl).1 q g c = sharedAt x q g c :=
  retainMessage_look x t p fl _ (deadNone_shared g c) (fun _ _ => rfl) q

/-! ### the structural invariant -/

/-- every entry is stored at the address (and under the group) its own filter determines -/
structure Pos (x : Index) : Prop where
  plain : ∀ q c sub, plainAt x q c = some sub → shareKey sub.filter = false ∧ plainPath sub.filter = q
  shared : ∀ q g c sub, sharedAt x q g c = some sub →
    shareKey sub.filter = true ∧ sharePath sub.filter = q ∧ shareGroup sub.filter = g

structure IdxOK (x : Index) : Prop where
  pc : PrefixClosed x.nodes
  pos : Pos x

theorem idxOK_empty : IdxOK {} :=
  ⟨by intro p hp; simp [hasNode] at hp, ⟨fun _ _ _ h => by simp [plainAt, getNode_nil] at h,
    fun _ _ _ _ h => by simp [sharedAt, getNode_nil] at h⟩⟩

theorem idxOK_subscribe (x : Index) (h : IdxOK x) (c : Str) (s : Sub) : IdxOK (subscribe x c s).1 := by
  refine ⟨prefixClosed_applyOp x h.pc (.subscribe c s), ⟨?_, ?_⟩⟩
  · intro q c' sub hq
    rw [plainAt_subscribe] at hq
    split at hq
    · rename_i hc
      cases hq
      exact ⟨hc.1, hc.2.1.symm⟩
    · exact h.pos.plain q c' sub hq
  · intro q g c' sub hq
    rw [sharedAt_subscribe] at hq
    split at hq
    · rename_i hc
      cases hq
      exact ⟨hc.1, hc.2.1.symm, hc.2.2.1.symm⟩
    · exact h.pos.shared q g c' sub hq

theorem idxOK_unsubscribe (x : Index) (h : IdxOK x) (f c : Str) : IdxOK (unsubscribe x f c).1 := by
  refine ⟨prefixClosed_applyOp x h.pc (.unsubscribe f c), ⟨?_, ?_⟩⟩
  · intro q c' sub hq
    rw [plainAt_unsubscribe x h.pc] at hq
    split at hq
    · cases hq
    · exact h.pos.plain q c' sub hq
  · intro q g c' sub hq
    rw [sharedAt_unsubscribe x h.pc] at hq
    split at hq
    · cases hq
    · exact h.pos.shared q g c' sub hq

theorem idxOK_inlineSubscribe (x : Index) (h : IdxOK x) (id : Nat) (s : Sub) : IdxOK (inlineSubscribe x id s).1 :=
  ⟨prefixClosed_applyOp x h.pc (.inlineSubscribe id s),
   ⟨fun q c sub hq => h.pos.plain q c sub (by rw [← plainAt_inlineSubscribe x id s]; exact hq),
    fun q g c sub hq => h.pos.shared q g c sub (by rw [← sharedAt_inlineSubscribe x id s]; exact hq)⟩⟩

theorem idxOK_inlineUnsubscribe (x : Index) (h : IdxOK x) (id : Nat) (f : Str) : IdxOK (inlineUnsubscribe x id f).1 :=
  ⟨prefixClosed_applyOp x h.pc (.inlineUnsubscribe id f),
   ⟨fun q c sub hq => h.pos.plain q c sub (by rw [← plainAt_inlineUnsubscribe x id f]; exact hq),
    fun q g c sub hq => h.pos.shared q g c sub (by rw [← sharedAt_inlineUnsubscribe x id f]; exact hq)⟩⟩

theorem idxOK_retainMessage (x : Index) (h : IdxOK x) (t p : Str) (fl : Bool) : IdxOK (retainMessage x t p fl).1 :=
  ⟨prefixClosed_applyOp x h.pc (.retain t p fl),
   ⟨fun q c sub hq => h.pos.plain q c sub (by rw [← plainAt_retainMessage x t p fl]; exact hq),
    fun q g c sub hq => h.pos.shared q g c sub (by rw [← sharedAt_retainMessage x t p fl]; exact hq)⟩⟩

/-! ### entries -/

/-- the index holds a (plain or shared) subscription of client `c` whose filter is `f` -/
def Entry (x : Index) (c f : Str) : Prop :=
  (∃ q sub, plainAt x q c = some sub ∧ sub.filter = f) ∨ (∃ q g sub, sharedAt x q g c = some sub ∧ sub.filter = f)

theorem Entry.congr {x y : Index} (hp : ∀ q c, plainAt y q c = plainAt x q c)
    (hs : ∀ q g c, sharedAt y q g c = sharedAt x q g c) (c f : Str) : Entry y c f ↔ Entry x c f := by
  unfold Entry
  constructor
  · rintro (⟨q, sub, h, e⟩ | ⟨q, g, sub, h, e⟩)
    · exact Or.inl ⟨q, sub, by rw [← hp]; exact h, e⟩
    · exact Or.inr ⟨q, g, sub, by rw [← hs]; exact h, e⟩
  · rintro (⟨q, sub, h, e⟩ | ⟨q, g, sub, h, e⟩)
    · exact Or.inl ⟨q, sub, by rw [hp]; exact h, e⟩
    · exact Or.inr ⟨q, g, sub, by rw [hs]; exact h, e⟩

/-- an entry after `Subscribe` is the new one or was there before -/
theorem Entry.of_subscribe {x : Index} {c : Str} {s : Sub} {c' f : Str} (h : Entry (subscribe x c s).1 c' f) :
    Entry x c' f ∨ (c' = c ∧ f = s.filter) := by
  rcases h with ⟨q, sub, h, e⟩ | ⟨q, g, sub, h, e⟩
  · rw [plainAt_subscribe] at h
    split at h
    · rename_i hc
      cases h
      exact Or.inr ⟨hc.2.2, e.symm⟩
    · exact Or.inl (Or.inl ⟨q, sub, h, e⟩)
  · rw [sharedAt_subscribe] at h
    split at h
    · rename_i hc
      cases h
      exact Or.inr ⟨hc.2.2.2, e.symm⟩
    · exact Or.inl (Or.inr ⟨q, g, sub, h, e⟩)

/-- the new entry is there after `Subscribe` -/
theorem Entry.subscribe_self (x : Index) (c : Str) (s : Sub) : Entry (subscribe x c s).1 c s.filter := by
  cases hs : shareKey s.filter with
  | false =>
    refine Or.inl ⟨plainPath s.filter, s, ?_, rfl⟩
    rw [plainAt_subscribe]; simp [hs]
  | true =>
    refine Or.inr ⟨sharePath s.filter, shareGroup s.filter, s, ?_, rfl⟩
    rw [sharedAt_subscribe]; simp [hs]

/-- an entry after `Unsubscribe f c` was there before, and is not client `c`'s entry for `f` -/
theorem Entry.of_unsubscribe {x : Index} (hx : IdxOK x) {f c c' f' : Str} (h : Entry (unsubscribe x f c).1 c' f') :
    Entry x c' f' ∧ ¬ (c' = c ∧ f' = f) := by
  rcases h with ⟨q, sub, h, e⟩ | ⟨q, g, sub, h, e⟩
  · rw [plainAt_unsubscribe x hx.pc] at h
    split at h
    · cases h
    · rename_i hn
      refine ⟨Or.inl ⟨q, sub, h, e⟩, ?_⟩
      rintro ⟨rfl, rfl⟩
      obtain ⟨h1, h2⟩ := hx.pos.plain q c' sub h
      rw [e] at h1 h2
      exact hn ⟨h1, h2.symm, rfl⟩
  · rw [sharedAt_unsubscribe x hx.pc] at h
    split at h
    · cases h
    · rename_i hn
      refine ⟨Or.inr ⟨q, g, sub, h, e⟩, ?_⟩
      rintro ⟨rfl, rfl⟩
      obtain ⟨h1, h2, h3⟩ := hx.pos.shared q g c' sub h
      rw [e] at h1 h2 h3
      exact hn ⟨h1, h2.symm, h3.symm, rfl⟩

end Mochi.Topics
