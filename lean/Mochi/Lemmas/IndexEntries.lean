import Mochi.Lemmas.Refine
/-!
# The subscription entries of the topic index, operation by operation

`plainAt x q c` / `sharedAt x q g c`: the subscription the particle at address `q` holds for client `c`
(in share group `g`) — the lookups `Subscribers` performs.  For each of the five mutating operations of
`Mochi/Model/Topics.lean` the lookups after the operation are characterised in terms of the lookups before
(no abstract model needed, unlike `Mochi/Lemmas/Refine.lean`), and the structural invariant `IdxOK`
(prefix-closed, every entry stored at the address its own filter determines) is shown to be kept.
-/
namespace Mochi.Topics

/-- the plain subscription held for client `c` by the particle at address `q` -/
def plainAt (x : Index) (q : Path) (c : Str) : Option Sub :=
  (getNode x.nodes q).bind (fun n => assocGet n.subs c)

/-- the shared subscription held for client `c` in group `g` by the particle at address `q` -/
def sharedAt (x : Index) (q : Path) (g c : Str) : Option Sub :=
  (getNode x.nodes q).bind (fun n => sharedGet n.shared g c)

/-- is the filter a `$share/…` filter as far as the index is concerned (case-insensitive first level) -/
def shareKey (f : Str) : Bool := isShare (isolate (splitLevels f) 0).1
/-- address of the particle a plain filter is stored at -/
def plainPath (f : Str) : Path := pathFrom (splitLevels f) 0
/-- address of the particle a shared filter is stored at -/
def sharePath (f : Str) : Path := pathFrom (splitLevels f) 2
/-- share group of a shared filter -/
def shareGroup (f : Str) : Str := (isolate (splitLevels f) 1).1
/-- a shared filter without a topic part (`$share`, `$share/group`): `Unsubscribe` leaves the index alone -/
def shareBare (f : Str) : Bool := shareKey f && !(isolate (splitLevels f) 1).2

theorem shareBare_shareKey {f : Str} (h : shareBare f = true) : shareKey f = true := by
  unfold shareBare at h
  cases hs : shareKey f
  · rw [hs] at h; cases h
  · rfl

theorem shareBare_of_plain {f : Str} (h : shareKey f = false) : shareBare f = false := by
  unfold shareBare; rw [h]; rfl

/-! ### what each operation does to a lookup -/

theorem seek_some {ns : List Node} {p : Path} {n : Node} (h : seek ns p = some n) : getNode ns p = some n := by
  unfold seek at h
  split at h
  · exact h
  · cases h

/-- `Subscribe` with a shared filter: a point update of the `shared` map of one particle -/
theorem subscribe_look_share (x : Index) (c : Str) (s : Sub) (hs : shareKey s.filter = true) :
    ∃ n : Node, (∀ {β : Type} (π : Node → Option β), DeadNone π → π n = (getNode x.nodes (sharePath s.filter)).bind π) ∧
      PointUpd x.nodes (subscribe x c s).1.nodes (sharePath s.filter)
        { n with shared := sharedAdd n.shared (shareGroup s.filter) c s } := by
  unfold shareKey at hs
  obtain ⟨n, hn⟩ := getNode_setPath_self x.nodes (pathFrom (splitLevels s.filter) 2) (pathFrom_ne_nil _ _)
  refine ⟨n, fun π hπ => old_setPath π hπ _ _ _ hn, ?_⟩
  have hu := pointUpd_setput x.nodes _ n
    { n with shared := sharedAdd n.shared (isolate (splitLevels s.filter) 1).1 c s } hn (getNode_path hn : n.path = _)
  unfold subscribe sharePath shareGroup
  simp only [hs, if_true, hn]
  exact hu

/-- `Subscribe` with a plain filter: a point update of the `subs` map of one particle -/
theorem subscribe_look_plain (x : Index) (c : Str) (s : Sub) (hs : shareKey s.filter = false) :
    ∃ n : Node, (∀ {β : Type} (π : Node → Option β), DeadNone π → π n = (getNode x.nodes (plainPath s.filter)).bind π) ∧
      PointUpd x.nodes (subscribe x c s).1.nodes (plainPath s.filter) { n with subs := assocSet n.subs c s } := by
  unfold shareKey at hs
  obtain ⟨n, hn⟩ := getNode_setPath_self x.nodes (pathFrom (splitLevels s.filter) 0) (pathFrom_ne_nil _ _)
  refine ⟨n, fun π hπ => old_setPath π hπ _ _ _ hn, ?_⟩
  have hu := pointUpd_setput x.nodes _ n { n with subs := assocSet n.subs c s } hn (getNode_path hn : n.path = _)
  unfold subscribe plainPath
  simp only [hs, Bool.false_eq_true, if_false, hn]
  exact hu

theorem plainAt_subscribe (x : Index) (c : Str) (s : Sub) (q : Path) (c' : Str) :
    plainAt (subscribe x c s).1 q c' =
      if shareKey s.filter = false ∧ q = plainPath s.filter ∧ c' = c then some s else plainAt x q c' := by
  unfold plainAt
  cases hs : shareKey s.filter with
  | true =>
    obtain ⟨n, hold, hu⟩ := subscribe_look_share x c s hs
    rw [look_unchanged _ (deadNone_subs c') hu (hold _ (deadNone_subs c')) rfl]
    simp
  | false =>
    obtain ⟨n, hold, hu⟩ := subscribe_look_plain x c s hs
    rw [hu _ _ (deadNone_subs c') q]
    by_cases hq : q = plainPath s.filter
    · subst hq
      simp only [if_true, true_and, assocGet_assocSet]
      rw [hold _ (deadNone_subs c')]
    · simp [hq]

theorem sharedAt_subscribe (x : Index) (c : Str) (s : Sub) (q : Path) (g c' : Str) :
    sharedAt (subscribe x c s).1 q g c' =
      if shareKey s.filter = true ∧ q = sharePath s.filter ∧ g = shareGroup s.filter ∧ c' = c then some s
      else sharedAt x q g c' := by
  unfold sharedAt
  cases hs : shareKey s.filter with
  | false =>
    obtain ⟨n, hold, hu⟩ := subscribe_look_plain x c s hs
    rw [look_unchanged _ (deadNone_shared g c') hu (hold _ (deadNone_shared g c')) rfl]
    simp
  | true =>
    obtain ⟨n, hold, hu⟩ := subscribe_look_share x c s hs
    rw [hu _ _ (deadNone_shared g c') q]
    by_cases hq : q = sharePath s.filter
    · subst hq
      simp only [if_true, true_and, sharedGet_sharedAdd]
      rw [hold _ (deadNone_shared g c')]
    · simp [hq]

/-- `Unsubscribe` of a shared filter without a topic part: nothing -/
theorem unsubscribe_bare (x : Index) (f c : Str) (hb : shareBare f = true) : unsubscribe x f c = (x, false) := by
  unfold shareBare shareKey at hb
  unfold unsubscribe
  simp only [hb, if_true]

/-- `Unsubscribe` (of anything else): nothing, or a point update of one particle (followed by `trim`) -/
theorem unsubscribe_look (x : Index) (hpc : PrefixClosed x.nodes) (f c : Str) (hb : shareBare f = false) :
    ((unsubscribe x f c).1 = x ∧
      getNode x.nodes (if shareKey f = true then sharePath f else plainPath f) = none) ∨
    ∃ n : Node, getNode x.nodes (if shareKey f = true then sharePath f else plainPath f) = some n ∧
      PointUpd x.nodes (unsubscribe x f c).1.nodes (if shareKey f = true then sharePath f else plainPath f)
        (if shareKey f = true then { n with shared := sharedDel n.shared (shareGroup f) c }
         else { n with subs := assocDel n.subs c }) := by
  unfold shareBare shareKey at hb
  unfold unsubscribe shareKey sharePath plainPath shareGroup
  simp only [seek_eq_getNode _ hpc, hb, Bool.false_eq_true, if_false]
  by_cases hs : isShare (isolate (splitLevels f) 0).1 = true
  · simp only [hs, if_true]
    cases hg : getNode x.nodes (pathFrom (splitLevels f) 2) with
    | none => exact Or.inl ⟨rfl, rfl⟩
    | some n =>
      right
      refine ⟨n, rfl, ?_⟩
      exact pointUpd_trim _ _ _ _ (pointUpd_put x.nodes _ n
        { n with shared := sharedDel n.shared (isolate (splitLevels f) 1).1 c } hg (getNode_path hg : n.path = _)) _ _
  · simp only [hs, Bool.false_eq_true, if_false]
    cases hg : getNode x.nodes (pathFrom (splitLevels f) 0) with
    | none => exact Or.inl ⟨rfl, rfl⟩
    | some n =>
      right
      refine ⟨n, rfl, ?_⟩
      exact pointUpd_trim _ _ _ _ (pointUpd_put x.nodes _ n
        { n with subs := assocDel n.subs c } hg (getNode_path hg : n.path = _)) _ _

theorem plainAt_unsubscribe (x : Index) (hpc : PrefixClosed x.nodes) (f c : Str) (q : Path) (c' : Str) :
    plainAt (unsubscribe x f c).1 q c' =
      if shareKey f = false ∧ q = plainPath f ∧ c' = c then none else plainAt x q c' := by
  unfold plainAt
  cases hb : shareBare f with
  | true =>
    rw [unsubscribe_bare x f c hb]
    simp [shareBare_shareKey hb]
  | false =>
  rcases unsubscribe_look x hpc f c hb with ⟨he, hg⟩ | ⟨n, hg, hu⟩
  · rw [he]
    split
    · rename_i h
      obtain ⟨h1, h2, h3⟩ := h
      simp only [h1, Bool.false_eq_true, if_false] at hg
      rw [h2, hg]; rfl
    · rfl
  · cases hs : shareKey f with
    | true =>
      simp only [hs, if_true] at hg hu
      rw [look_unchanged (n := n) _ (deadNone_subs c') hu (old_get (fun n => assocGet n.subs c') _ _ _ hg) rfl]
      simp
    | false =>
      simp only [hs, Bool.false_eq_true, if_false] at hg hu
      rw [hu _ _ (deadNone_subs c') q]
      by_cases hq : q = plainPath f
      · subst hq
        simp only [if_true, true_and, assocGet_assocDel, hg, Option.bind_some]
      · simp [hq]

theorem sharedAt_unsubscribe (x : Index) (hpc : PrefixClosed x.nodes) (f c : Str) (q : Path) (g c' : Str) :
    sharedAt (unsubscribe x f c).1 q g c' =
      if (shareKey f = true ∧ shareBare f = false) ∧ q = sharePath f ∧ g = shareGroup f ∧ c' = c then none
      else sharedAt x q g c' := by
  unfold sharedAt
  cases hb : shareBare f with
  | true =>
    rw [unsubscribe_bare x f c hb]
    simp
  | false =>
  simp only [and_true]
  rcases unsubscribe_look x hpc f c hb with ⟨he, hg⟩ | ⟨n, hg, hu⟩
  · rw [he]
    split
    · rename_i h
      obtain ⟨h1, h2, h3⟩ := h
      simp only [h1, if_true] at hg
      rw [h2, hg]; rfl
    · rfl
  · cases hs : shareKey f with
    | false =>
      simp only [hs, Bool.false_eq_true, if_false] at hg hu
      rw [look_unchanged (n := n) _ (deadNone_shared g c') hu (old_get (fun n => sharedGet n.shared g c') _ _ _ hg) rfl]
      simp
    | true =>
      simp only [hs, if_true] at hg hu
      rw [hu _ _ (deadNone_shared g c') q]
      by_cases hq : q = sharePath f
      · subst hq
        simp only [if_true, true_and, sharedGet_sharedDel, hg, Option.bind_some]
      · simp [hq]

/-- the three operations that leave every plain and shared subscription alone -/
theorem inlineSubscribe_look (x : Index) (id : Nat) (s : Sub) {β : Type} (π : Node → Option β) (hπ : DeadNone π)
    (hsame : ∀ (n : Node) (v : List (Nat × Sub)), π { n with inline := v } = π n) (q : Path) :
    (getNode (inlineSubscribe x id s).1.nodes q).bind π = (getNode x.nodes q).bind π := by
  unfold inlineSubscribe
  simp only
  obtain ⟨n, hn⟩ := getNode_setPath_self x.nodes (pathFrom (splitLevels s.filter) 0) (pathFrom_ne_nil _ _)
  simp only [hn]
  have hu := pointUpd_setput x.nodes _ n { n with inline := assocSet n.inline id s } hn (getNode_path hn : n.path = _)
  exact look_unchanged π hπ hu (old_setPath π hπ _ _ _ hn) (hsame n _) q

theorem inlineUnsubscribe_look (x : Index) (id : Nat) (f : Str) {β : Type} (π : Node → Option β) (hπ : DeadNone π)
    (hsame : ∀ (n : Node) (v : List (Nat × Sub)), π { n with inline := v } = π n) (q : Path) :
    (getNode (inlineUnsubscribe x id f).1.nodes q).bind π = (getNode x.nodes q).bind π := by
  unfold inlineUnsubscribe
  simp only
  cases hsk : seek x.nodes (pathFrom (splitLevels f) 0) with
  | none => rfl
  | some n =>
    have hg := seek_some hsk
    have hu0 := pointUpd_put x.nodes _ n { n with inline := assocDel n.inline id } hg (getNode_path hg : n.path = _)
    simp only
    split
    · exact look_unchanged π hπ (pointUpd_trim _ _ _ _ hu0 _ _) (old_get π _ _ _ hg) (hsame n _) q
    · exact look_unchanged π hπ hu0 (old_get π _ _ _ hg) (hsame n _) q

theorem retainMessage_look (x : Index) (t p : Str) (fl : Bool) {β : Type} (π : Node → Option β) (hπ : DeadNone π)
    (hsame : ∀ (n : Node) (v : Str), π { n with retainPath := v } = π n) (q : Path) :
    (getNode (retainMessage x t p fl).1.nodes q).bind π = (getNode x.nodes q).bind π := by
  unfold retainMessage
  simp only
  obtain ⟨n, hn⟩ := getNode_setPath_self x.nodes (pathFrom (splitLevels t) 0) (pathFrom_ne_nil _ _)
  simp only [hn]
  split
  · have hu := pointUpd_setput x.nodes _ n { n with retainPath := t } hn (getNode_path hn : n.path = _)
    exact look_unchanged π hπ hu (old_setPath π hπ _ _ _ hn) (hsame n _) q
  · have hu := pointUpd_trim _ _ _ _
      (pointUpd_setput x.nodes _ n { n with retainPath := [] } hn (getNode_path hn : n.path = _))
      (pathFrom (splitLevels t) 0) (pathFrom (splitLevels t) 0).length
    exact look_unchanged π hπ hu (old_setPath π hπ _ _ _ hn) (hsame n _) q

theorem plainAt_inlineSubscribe (x : Index) (id : Nat) (s : Sub) (q : Path) (c : Str) :
    plainAt (inlineSubscribe x id s).1 q c = plainAt x q c :=
  inlineSubscribe_look x id s _ (deadNone_subs c) (fun _ _ => rfl) q
theorem sharedAt_inlineSubscribe (x : Index) (id : Nat) (s : Sub) (q : Path) (g c : Str) :
    sharedAt (inlineSubscribe x id s).1 q g c = sharedAt x q g c :=
  inlineSubscribe_look x id s _ (deadNone_shared g c) (fun _ _ => rfl) q
theorem plainAt_inlineUnsubscribe (x : Index) (id : Nat) (f : Str) (q : Path) (c : Str) :
    plainAt (inlineUnsubscribe x id f).1 q c = plainAt x q c :=
  inlineUnsubscribe_look x id f _ (deadNone_subs c) (fun _ _ => rfl) q
theorem sharedAt_inlineUnsubscribe (x : Index) (id : Nat) (f : Str) (q : Path) (g c : Str) :
    sharedAt (inlineUnsubscribe x id f).1 q g c = sharedAt x q g c :=
  inlineUnsubscribe_look x id f _ (deadNone_shared g c) (fun _ _ => rfl) q
theorem plainAt_retainMessage (x : Index) (t p : Str) (fl : Bool) (q : Path) (c : Str) :
    plainAt (retainMessage x t p fl).1 q c = plainAt x q c :=
  retainMessage_look x t p fl _ (deadNone_subs c) (fun _ _ => rfl) q
theorem sharedAt_retainMessage (x : Index) (t p : Str) (fl : Bool) (q : Path) (g c : Str) :
    sharedAt (retainMessage x t p fl).1 q g c = sharedAt x q g c :=
  retainMessage_look x t p fl _ (deadNone_shared g c) (fun _ _ => rfl) q

/-! ### the lists of the index are maps: distinct particle addresses, distinct keys -/

theorem assocSet_mem_cases {α β} [DecidableEq α] (m : List (α × β)) (k : α) (v : β) (e : α × β)
    (h : e ∈ assocSet m k v) : e ∈ m ∨ e = (k, v) := by
  induction m with
  | nil =>
    unfold assocSet at h
    exact Or.inr (List.mem_singleton.mp h)
  | cons x xs ih =>
    obtain ⟨a, b⟩ := x
    unfold assocSet at h
    split at h
    · rcases List.mem_cons.mp h with h | h
      · exact Or.inr h
      · exact Or.inl (List.mem_cons_of_mem _ h)
    · rcases List.mem_cons.mp h with h | h
      · exact Or.inl (h ▸ List.mem_cons_self)
      · rcases ih h with h | h
        · exact Or.inl (List.mem_cons_of_mem _ h)
        · exact Or.inr h

theorem assocSet_nodup_keys {α β} [DecidableEq α] (m : List (α × β)) (k : α) (v : β)
    (h : (m.map (·.1)).Nodup) : ((assocSet m k v).map (·.1)).Nodup := by
  induction m with
  | nil =>
    unfold assocSet
    exact List.nodup_cons.mpr ⟨List.not_mem_nil, List.nodup_nil⟩
  | cons x xs ih =>
    obtain ⟨a, b⟩ := x
    rw [List.map_cons, List.nodup_cons] at h
    unfold assocSet
    split
    · rename_i hak
      rw [List.map_cons, List.nodup_cons]
      exact ⟨hak ▸ h.1, h.2⟩
    · rename_i hak
      rw [List.map_cons, List.nodup_cons]
      refine ⟨?_, ih h.2⟩
      intro hmem
      obtain ⟨e, he, hea⟩ := List.mem_map.mp hmem
      rcases assocSet_mem_cases xs k v e he with h' | h'
      · exact h.1 (List.mem_map.mpr ⟨e, h', hea⟩)
      · subst h'
        exact hak hea.symm

theorem assocDel_nodup_keys {α β} [DecidableEq α] (m : List (α × β)) (k : α)
    (h : (m.map (·.1)).Nodup) : ((assocDel m k).map (·.1)).Nodup :=
  (List.filter_sublist.map _).nodup h

theorem assocGet_none_not_mem {α β} [DecidableEq α] (m : List (α × β)) (k : α) (h : assocGet m k = none) :
    k ∉ m.map (·.1) := by
  induction m with
  | nil => simp
  | cons x xs ih =>
    obtain ⟨a, b⟩ := x
    unfold assocGet at h
    split at h
    · cases h
    · rename_i hak
      rw [List.map_cons, List.mem_cons]
      rintro (e | e)
      · exact hak e.symm
      · exact ih h e

theorem assocGet_of_mem {α β} [DecidableEq α] (m : List (α × β)) (k : α) (v : β)
    (hnd : (m.map (·.1)).Nodup) (h : (k, v) ∈ m) : assocGet m k = some v := by
  induction m with
  | nil => cases h
  | cons x xs ih =>
    obtain ⟨a, b⟩ := x
    rw [List.map_cons, List.nodup_cons] at hnd
    unfold assocGet
    rcases List.mem_cons.mp h with h | h
    · cases h; simp
    · have : ¬ a = k := by
        intro e
        subst e
        exact hnd.1 (List.mem_map.mpr ⟨(a, v), h, rfl⟩)
      simp only [this, if_false]
      exact ih hnd.2 h

/-- the three association lists of a particle have distinct keys -/
structure NodeOK (n : Node) : Prop where
  subs : (n.subs.map (·.1)).Nodup
  shared : (n.shared.map (·.1)).Nodup
  members : ∀ gm ∈ n.shared, (gm.2.map (·.1)).Nodup

theorem nodeOK_fresh (q : Path) : NodeOK { path := q } :=
  ⟨List.nodup_nil, List.nodup_nil, fun _ h => by cases h⟩

theorem sharedAdd_ok (sh : List (Str × List (Str × Sub))) (g c : Str) (s : Sub)
    (h1 : (sh.map (·.1)).Nodup) (h2 : ∀ gm ∈ sh, (gm.2.map (·.1)).Nodup) :
    ((sharedAdd sh g c s).map (·.1)).Nodup ∧ ∀ gm ∈ sharedAdd sh g c s, (gm.2.map (·.1)).Nodup := by
  unfold sharedAdd
  cases hg : assocGet sh g with
  | none =>
    refine ⟨?_, ?_⟩
    · show ((sh ++ [(g, [(c, s)])]).map (·.1)).Nodup
      rw [List.map_append, List.nodup_append]
      refine ⟨h1, List.nodup_cons.mpr ⟨List.not_mem_nil, List.nodup_nil⟩, ?_⟩
      intro a ha b hb hab
      rw [List.map_cons, List.map_nil, List.mem_singleton] at hb
      subst hb; subst hab
      exact assocGet_none_not_mem sh _ hg ha
    · intro gm hgm
      replace hgm : gm ∈ sh ++ [(g, [(c, s)])] := hgm
      rcases List.mem_append.mp hgm with hgm | hgm
      · exact h2 gm hgm
      · rw [List.mem_singleton.mp hgm]
        exact List.nodup_cons.mpr ⟨List.not_mem_nil, List.nodup_nil⟩
  | some m =>
    refine ⟨assocSet_nodup_keys _ _ _ h1, ?_⟩
    intro gm hgm
    replace hgm : gm ∈ assocSet sh g (assocSet m c s) := hgm
    rcases assocSet_mem_cases _ _ _ _ hgm with hgm | hgm
    · exact h2 gm hgm
    · rw [hgm]
      exact assocSet_nodup_keys _ _ _ (h2 (g, m) (assocGet_mem sh g m hg))

theorem sharedDel_ok (sh : List (Str × List (Str × Sub))) (g c : Str)
    (h1 : (sh.map (·.1)).Nodup) (h2 : ∀ gm ∈ sh, (gm.2.map (·.1)).Nodup) :
    ((sharedDel sh g c).map (·.1)).Nodup ∧ ∀ gm ∈ sharedDel sh g c, (gm.2.map (·.1)).Nodup := by
  unfold sharedDel
  cases hg : assocGet sh g with
  | none => exact ⟨h1, h2⟩
  | some m =>
    simp only
    split
    · exact ⟨assocDel_nodup_keys _ _ h1, fun gm hgm => h2 gm (List.mem_filter.mp hgm).1⟩
    · refine ⟨assocSet_nodup_keys _ _ _ h1, ?_⟩
      intro gm hgm
      rcases assocSet_mem_cases _ _ _ _ hgm with hgm | hgm
      · exact h2 gm hgm
      · rw [hgm]
        exact assocDel_nodup_keys _ _ (h2 (g, m) (assocGet_mem sh g m hg))

def AllNodeOK (ns : List Node) : Prop := ∀ n ∈ ns, NodeOK n

theorem mem_putNode (ns : List Node) (n m : Node) (h : m ∈ putNode ns n) : m = n ∨ m ∈ ns := by
  unfold putNode at h
  obtain ⟨x, hx, e⟩ := List.mem_map.mp h
  split at e
  · exact Or.inl e.symm
  · exact Or.inr (e ▸ hx)

theorem mem_setPath (ns : List Node) (p : Path) (m : Node) (h : m ∈ setPath ns p) :
    m ∈ ns ∨ ∃ q, m = { path := q } := by
  unfold setPath at h
  generalize prefixes p = qs at h
  induction qs generalizing ns with
  | nil => exact Or.inl h
  | cons q rest ih =>
    rw [List.foldl_cons] at h
    rcases ih _ h with h' | h'
    · split at h'
      · exact Or.inl h'
      · rcases List.mem_append.mp h' with h' | h'
        · exact Or.inl h'
        · exact Or.inr ⟨q, List.mem_singleton.mp h'⟩
    · exact Or.inr h'

theorem allNodeOK_setPath (ns : List Node) (p : Path) (h : AllNodeOK ns) : AllNodeOK (setPath ns p) := by
  intro m hm
  rcases mem_setPath ns p m hm with hm | ⟨q, rfl⟩
  · exact h m hm
  · exact nodeOK_fresh q

theorem allNodeOK_putNode (ns : List Node) (n : Node) (h : AllNodeOK ns) (hn : NodeOK n) :
    AllNodeOK (putNode ns n) := by
  intro m hm
  rcases mem_putNode ns n m hm with rfl | hm
  · exact hn
  · exact h m hm

theorem allNodeOK_trim (ns : List Node) (p : Path) (fuel : Nat) (h : AllNodeOK ns) : AllNodeOK (trim ns p fuel) :=
  fun m hm => h m ((trim_sublist ns p fuel).subset hm)

theorem allNodeOK_applyOp (x : Index) (h : AllNodeOK x.nodes) (op : IOp) : AllNodeOK (applyOp x op).nodes := by
  cases op with
  | subscribe c s =>
    simp only [applyOp, subscribe]
    split
    · split
      · exact h
      · rename_i n hn
        have hno := allNodeOK_setPath _ _ h n (getNode_mem hn)
        have := sharedAdd_ok n.shared (isolate (splitLevels s.filter) 1).1 c s hno.shared hno.members
        exact allNodeOK_putNode _ _ (allNodeOK_setPath _ _ h) ⟨hno.subs, this.1, this.2⟩
    · split
      · exact h
      · rename_i n hn
        have hno := allNodeOK_setPath _ _ h n (getNode_mem hn)
        exact allNodeOK_putNode _ _ (allNodeOK_setPath _ _ h)
          ⟨assocSet_nodup_keys _ _ _ hno.subs, hno.shared, hno.members⟩
  | unsubscribe f c =>
    simp only [applyOp, unsubscribe]
    split
    · exact h
    split
    · exact h
    · rename_i n hn
      have hno := h n (getNode_mem (seek_some hn))
      split
      · have := sharedDel_ok n.shared (isolate (splitLevels f) 1).1 c hno.shared hno.members
        exact allNodeOK_trim _ _ _ (allNodeOK_putNode _ _ h ⟨hno.subs, this.1, this.2⟩)
      · exact allNodeOK_trim _ _ _ (allNodeOK_putNode _ _ h
          ⟨assocDel_nodup_keys _ _ hno.subs, hno.shared, hno.members⟩)
  | inlineSubscribe id s =>
    simp only [applyOp, inlineSubscribe]
    split
    · exact h
    · rename_i n hn
      have hno := allNodeOK_setPath _ _ h n (getNode_mem hn)
      exact allNodeOK_putNode _ _ (allNodeOK_setPath _ _ h) ⟨hno.subs, hno.shared, hno.members⟩
  | inlineUnsubscribe id f =>
    simp only [applyOp, inlineUnsubscribe]
    split
    · exact h
    · rename_i n hn
      have hno := h n (getNode_mem (seek_some hn))
      simp only
      split
      · exact allNodeOK_trim _ _ _ (allNodeOK_putNode _ _ h ⟨hno.subs, hno.shared, hno.members⟩)
      · exact allNodeOK_putNode _ _ h ⟨hno.subs, hno.shared, hno.members⟩
  | retain t p fl =>
    simp only [applyOp, retainMessage]
    split
    · exact h
    · rename_i n hn
      have hno := allNodeOK_setPath _ _ h n (getNode_mem hn)
      split
      · exact allNodeOK_putNode _ _ (allNodeOK_setPath _ _ h) ⟨hno.subs, hno.shared, hno.members⟩
      · exact allNodeOK_trim _ _ _
          (allNodeOK_putNode _ _ (allNodeOK_setPath _ _ h) ⟨hno.subs, hno.shared, hno.members⟩)

/-! ### the structural invariant -/

/-- every entry is stored at the address (and under the group) its own filter determines -/
structure Pos (x : Index) : Prop where
  plain : ∀ q c sub, plainAt x q c = some sub → shareKey sub.filter = false ∧ plainPath sub.filter = q
  shared : ∀ q g c sub, sharedAt x q g c = some sub →
    shareKey sub.filter = true ∧ sharePath sub.filter = q ∧ shareGroup sub.filter = g

structure IdxOK (x : Index) : Prop where
  pc : PrefixClosed x.nodes
  pos : Pos x
  paths : PathsOK (x.nodes.map (·.path))
  keys : AllNodeOK x.nodes

theorem idxOK_empty : IdxOK {} :=
  ⟨by intro p hp; simp [hasNode] at hp, ⟨fun _ _ _ h => by simp [plainAt, getNode_nil] at h,
    fun _ _ _ _ h => by simp [sharedAt, getNode_nil] at h⟩,
   ⟨List.nodup_nil, fun _ h => by simp at h⟩, fun _ h => by cases h⟩

theorem idxOK_subscribe (x : Index) (h : IdxOK x) (c : Str) (s : Sub) : IdxOK (subscribe x c s).1 := by
  refine ⟨prefixClosed_applyOp x h.pc (.subscribe c s), ⟨?_, ?_⟩, pathsOK_applyOp x h.paths (.subscribe c s),
    allNodeOK_applyOp x h.keys (.subscribe c s)⟩
  · intro q c' sub hq
    rw [plainAt_subscribe] at hq
    split at hq
    · rename_i hc
      cases hq
      exact ⟨hc.1, hc.2.1.symm⟩
    · exact h.pos.plain q c' sub hq
  · intro q g c' sub hq
    rw [sharedAt_subscribe] at hq
    split at hq
    · rename_i hc
      cases hq
      exact ⟨hc.1, hc.2.1.symm, hc.2.2.1.symm⟩
    · exact h.pos.shared q g c' sub hq

theorem idxOK_unsubscribe (x : Index) (h : IdxOK x) (f c : Str) : IdxOK (unsubscribe x f c).1 := by
  refine ⟨prefixClosed_applyOp x h.pc (.unsubscribe f c), ⟨?_, ?_⟩, pathsOK_applyOp x h.paths (.unsubscribe f c),
    allNodeOK_applyOp x h.keys (.unsubscribe f c)⟩
  · intro q c' sub hq
    rw [plainAt_unsubscribe x h.pc] at hq
    split at hq
    · cases hq
    · exact h.pos.plain q c' sub hq
  · intro q g c' sub hq
    rw [sharedAt_unsubscribe x h.pc] at hq
    split at hq
    · cases hq
    · exact h.pos.shared q g c' sub hq

theorem idxOK_inlineSubscribe (x : Index) (h : IdxOK x) (id : Nat) (s : Sub) : IdxOK (inlineSubscribe x id s).1 :=
  ⟨prefixClosed_applyOp x h.pc (.inlineSubscribe id s),
   ⟨fun q c sub hq => h.pos.plain q c sub (by rw [← plainAt_inlineSubscribe x id s]; exact hq),
    fun q g c sub hq => h.pos.shared q g c sub (by rw [← sharedAt_inlineSubscribe x id s]; exact hq)⟩,
   pathsOK_applyOp x h.paths (.inlineSubscribe id s), allNodeOK_applyOp x h.keys (.inlineSubscribe id s)⟩

theorem idxOK_inlineUnsubscribe (x : Index) (h : IdxOK x) (id : Nat) (f : Str) : IdxOK (inlineUnsubscribe x id f).1 :=
  ⟨prefixClosed_applyOp x h.pc (.inlineUnsubscribe id f),
   ⟨fun q c sub hq => h.pos.plain q c sub (by rw [← plainAt_inlineUnsubscribe x id f]; exact hq),
    fun q g c sub hq => h.pos.shared q g c sub (by rw [← sharedAt_inlineUnsubscribe x id f]; exact hq)⟩,
   pathsOK_applyOp x h.paths (.inlineUnsubscribe id f), allNodeOK_applyOp x h.keys (.inlineUnsubscribe id f)⟩

theorem idxOK_retainMessage (x : Index) (h : IdxOK x) (t p : Str) (fl : Bool) : IdxOK (retainMessage x t p fl).1 :=
  ⟨prefixClosed_applyOp x h.pc (.retain t p fl),
   ⟨fun q c sub hq => h.pos.plain q c sub (by rw [← plainAt_retainMessage x t p fl]; exact hq),
    fun q g c sub hq => h.pos.shared q g c sub (by rw [← sharedAt_retainMessage x t p fl]; exact hq)⟩,
   pathsOK_applyOp x h.paths (.retain t p fl), allNodeOK_applyOp x h.keys (.retain t p fl)⟩

/-! ### entries -/

/-- the index holds a (plain or shared) subscription of client `c` whose filter is `f` -/
def Entry (x : Index) (c f : Str) : Prop :=
  (∃ q sub, plainAt x q c = some sub ∧ sub.filter = f) ∨ (∃ q g sub, sharedAt x q g c = some sub ∧ sub.filter = f)

theorem Entry.congr {x y : Index} (hp : ∀ q c, plainAt y q c = plainAt x q c)
    (hs : ∀ q g c, sharedAt y q g c = sharedAt x q g c) (c f : Str) : Entry y c f ↔ Entry x c f := by
  unfold Entry
  constructor
  · rintro (⟨q, sub, h, e⟩ | ⟨q, g, sub, h, e⟩)
    · exact Or.inl ⟨q, sub, by rw [← hp]; exact h, e⟩
    · exact Or.inr ⟨q, g, sub, by rw [← hs]; exact h, e⟩
  · rintro (⟨q, sub, h, e⟩ | ⟨q, g, sub, h, e⟩)
    · exact Or.inl ⟨q, sub, by rw [hp]; exact h, e⟩
    · exact Or.inr ⟨q, g, sub, by rw [hs]; exact h, e⟩

/-- an entry after `Subscribe` is the new one or was there before -/
theorem Entry.of_subscribe {x : Index} {c : Str} {s : Sub} {c' f : Str} (h : Entry (subscribe x c s).1 c' f) :
    Entry x c' f ∨ (c' = c ∧ f = s.filter) := by
  rcases h with ⟨q, sub, h, e⟩ | ⟨q, g, sub, h, e⟩
  · rw [plainAt_subscribe] at h
    split at h
    · rename_i hc
      cases h
      exact Or.inr ⟨hc.2.2, e.symm⟩
    · exact Or.inl (Or.inl ⟨q, sub, h, e⟩)
  · rw [sharedAt_subscribe] at h
    split at h
    · rename_i hc
      cases h
      exact Or.inr ⟨hc.2.2.2, e.symm⟩
    · exact Or.inl (Or.inr ⟨q, g, sub, h, e⟩)

/-- the new entry is there after `Subscribe` -/
theorem Entry.subscribe_self (x : Index) (c : Str) (s : Sub) : Entry (subscribe x c s).1 c s.filter := by
  cases hs : shareKey s.filter with
  | false =>
    refine Or.inl ⟨plainPath s.filter, s, ?_, rfl⟩
    rw [plainAt_subscribe]; simp [hs]
  | true =>
    refine Or.inr ⟨sharePath s.filter, shareGroup s.filter, s, ?_, rfl⟩
    rw [sharedAt_subscribe]; simp [hs]

/-- an entry after `Unsubscribe f c` was there before, and is not client `c`'s entry for `f` -/
theorem Entry.of_unsubscribe {x : Index} (hx : IdxOK x) {f c c' f' : Str} (h : Entry (unsubscribe x f c).1 c' f') :
    Entry x c' f' ∧ ¬ (c' = c ∧ f' = f ∧ shareBare f = false) := by
  rcases h with ⟨q, sub, h, e⟩ | ⟨q, g, sub, h, e⟩
  · rw [plainAt_unsubscribe x hx.pc] at h
    split at h
    · cases h
    · rename_i hn
      refine ⟨Or.inl ⟨q, sub, h, e⟩, ?_⟩
      rintro ⟨rfl, rfl, _⟩
      obtain ⟨h1, h2⟩ := hx.pos.plain q c' sub h
      rw [e] at h1 h2
      exact hn ⟨h1, h2.symm, rfl⟩
  · rw [sharedAt_unsubscribe x hx.pc] at h
    split at h
    · cases h
    · rename_i hn
      refine ⟨Or.inr ⟨q, g, sub, h, e⟩, ?_⟩
      rintro ⟨rfl, rfl, hb⟩
      obtain ⟨h1, h2, h3⟩ := hx.pos.shared q g c' sub h
      rw [e] at h1 h2 h3
      exact hn ⟨⟨h1, hb⟩, h2.symm, h3.symm, rfl⟩

/-! ### the entries as a list -/

/-- the non-inline entries of the index, particle by particle: (client id, filter of the stored subscription),
    plain and shared -/
def indexEntries (x : Index) : List (Str × Str) :=
  x.nodes.flatMap fun n =>
    n.subs.map (fun cs => (cs.1, cs.2.filter)) ++
    n.shared.flatMap (fun gm => gm.2.map (fun cs => (cs.1, cs.2.filter)))

theorem mem_indexEntries {x : Index} {c f : Str} :
    (c, f) ∈ indexEntries x ↔ ∃ n ∈ x.nodes,
      (∃ sub, (c, sub) ∈ n.subs ∧ sub.filter = f) ∨ (∃ g m sub, (g, m) ∈ n.shared ∧ (c, sub) ∈ m ∧ sub.filter = f) := by
  unfold indexEntries
  simp only [List.mem_flatMap, List.mem_append, List.mem_map, Prod.mk.injEq, Prod.exists]
  constructor
  · rintro ⟨n, hn, h | h⟩
    · obtain ⟨a, b, hab, rfl, rfl⟩ := h
      exact ⟨n, hn, Or.inl ⟨b, hab, rfl⟩⟩
    · obtain ⟨g, m, hgm, a, b, hab, rfl, rfl⟩ := h
      exact ⟨n, hn, Or.inr ⟨g, m, b, hgm, hab, rfl⟩⟩
  · rintro ⟨n, hn, h | h⟩
    · obtain ⟨sub, hs, rfl⟩ := h
      exact ⟨n, hn, Or.inl ⟨c, sub, hs, rfl, rfl⟩⟩
    · obtain ⟨g, m, sub, hgm, hs, rfl⟩ := h
      exact ⟨n, hn, Or.inr ⟨g, m, hgm, c, sub, hs, rfl, rfl⟩⟩

/-- with distinct addresses and keys, the entries of the list are exactly what the lookups find -/
theorem Entry.of_mem {x : Index} (hx : IdxOK x) {c f : Str} (h : (c, f) ∈ indexEntries x) : Entry x c f := by
  obtain ⟨n, hn, h⟩ := mem_indexEntries.mp h
  have hg := getNode_of_mem x.nodes hx.paths.1 n hn
  have hno := hx.keys n hn
  rcases h with ⟨sub, hs, hf⟩ | ⟨g, m, sub, hgm, hs, hf⟩
  · refine Or.inl ⟨n.path, sub, ?_, hf⟩
    unfold plainAt
    rw [hg]
    exact assocGet_of_mem _ _ _ hno.subs hs
  · refine Or.inr ⟨n.path, g, sub, ?_, hf⟩
    unfold sharedAt
    rw [hg]
    show sharedGet n.shared g c = some sub
    unfold sharedGet
    rw [assocGet_of_mem _ _ _ hno.shared hgm]
    exact assocGet_of_mem _ _ _ (hno.members (g, m) hgm) hs

theorem Entry.mem {x : Index} {c f : Str} (h : Entry x c f) : (c, f) ∈ indexEntries x := by
  apply mem_indexEntries.mpr
  rcases h with ⟨q, sub, hq, hf⟩ | ⟨q, g, sub, hq, hf⟩
  · unfold plainAt at hq
    cases hg : getNode x.nodes q with
    | none => rw [hg] at hq; cases hq
    | some n =>
      rw [hg] at hq
      exact ⟨n, getNode_mem hg, Or.inl ⟨sub, assocGet_mem _ _ _ hq, hf⟩⟩
  · unfold sharedAt at hq
    cases hg : getNode x.nodes q with
    | none => rw [hg] at hq; cases hq
    | some n =>
      rw [hg] at hq
      have hq : sharedGet n.shared g c = some sub := hq
      unfold sharedGet at hq
      cases hm : assocGet n.shared g with
      | none => rw [hm] at hq; cases hq
      | some m =>
        rw [hm] at hq
        exact ⟨n, getNode_mem hg, Or.inr ⟨g, m, sub, assocGet_mem _ _ _ hm, assocGet_mem _ _ _ hq, hf⟩⟩

/-! ### the converse direction, for plain filters: the entry of a plain filter is at the address of the filter -/

/-- the index holds a plain subscription of client `c` at the address of filter `f` -/
def HasPlain (x : Index) (c f : Str) : Prop := (plainAt x (plainPath f) c).isSome = true

theorem plainPath_eq (f : Str) : plainPath f = splitLevels f :=
  pathFrom_zero _ (splitLevels_ne_nil f)

theorem plainPath_inj {f f' : Str} (h : plainPath f = plainPath f') : f = f' := by
  rw [plainPath_eq, plainPath_eq] at h
  exact splitLevels_inj h

theorem HasPlain.congr {x y : Index} (hp : ∀ q c, plainAt y q c = plainAt x q c) {c f : Str} (h : HasPlain x c f) :
    HasPlain y c f := by
  unfold HasPlain; rw [hp]; exact h

theorem HasPlain.subscribe_keep {x : Index} {c' f : Str} (h : HasPlain x c' f) (c : Str) (s : Sub) :
    HasPlain (subscribe x c s).1 c' f := by
  unfold HasPlain at h ⊢
  rw [plainAt_subscribe]
  split
  · rfl
  · exact h

theorem HasPlain.subscribe_self (x : Index) (c : Str) (s : Sub) (hs : shareKey s.filter = false) :
    HasPlain (subscribe x c s).1 c s.filter := by
  unfold HasPlain
  rw [plainAt_subscribe]
  simp [hs]

theorem HasPlain.unsubscribe_keep {x : Index} (hpc : PrefixClosed x.nodes) {c' f : Str} (h : HasPlain x c' f)
    (f0 c : Str) (hne : c' ≠ c ∨ f ≠ f0) : HasPlain (unsubscribe x f0 c).1 c' f := by
  unfold HasPlain at h ⊢
  rw [plainAt_unsubscribe x hpc]
  split
  · rename_i hc
    rcases hne with hne | hne
    · exact absurd hc.2.2 hne
    · exact absurd (plainPath_inj hc.2.1) hne
  · exact h

/-- the entry found at the address of a plain filter carries that filter -/
theorem HasPlain.mem {x : Index} (hx : IdxOK x) {c f : Str} (h : HasPlain x c f) : (c, f) ∈ indexEntries x := by
  unfold HasPlain at h
  cases hq : plainAt x (plainPath f) c with
  | none => rw [hq] at h; cases h
  | some sub =>
    have := (hx.pos.plain _ c sub hq).2
    exact Entry.mem (Or.inl ⟨_, sub, hq, plainPath_inj this⟩)

end Mochi.Topics
