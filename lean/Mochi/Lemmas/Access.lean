import Mochi.Model.Access
/-!
# M8 — soundness of the lockset checker

For **every** table, every role assignment and every role-compatibility relation `cc`:
* `exec_exclusive`: in the lock state after any execution, two different goroutines hold one key only if
  both hold it in read mode (the `sync.RWMutex` invariant of the semantics);
* `locksetOkWith_sound`: if the checker accepts the table then no execution leads to a `Race`;
* `locksetOkExceptWith_sound`: if the checker accepts the table up to the recorded findings then every
  `Race` any execution leads to is one of the recorded (location, roles) pairs.
-/
namespace Mochi.Access

/-- two different goroutines hold one key only in read mode -/
def Exclusive (H : Holds) : Prop :=
  ∀ i j k m m', (i, k, m) ∈ H → (j, k, m') ∈ H → i ≠ j → m = .R ∧ m' = .R

theorem exec_exclusive {tbl : List Access} {role : Nat → Nat} {tr : List (Nat × Ev)} {H : Holds}
    (h : Exec tbl role tr H) : Exclusive H := by
  induction h with
  | nil => intro i j k m m' hi; cases hi
  | @acq tr H i k m _ hg ih =>
    intro a b c x y ha hb hab
    rcases List.mem_cons.1 ha with ha | ha <;> rcases List.mem_cons.1 hb with hb | hb
    · cases ha; cases hb; exact absurd rfl hab
    · cases ha
      have := hg b y hb (fun e => hab e.symm)
      exact ⟨this.2, this.1⟩
    · cases hb
      exact hg a x ha hab
    · exact ih a b c x y ha hb hab
  | rel _ ih =>
    intro a b c x y ha hb hab
    exact ih a b c x y (List.mem_filter.1 ha).1 (List.mem_filter.1 hb).1 hab
  | access _ _ ih => exact ih

theorem commonLock_spec {a b : Access} (h : commonLock a b = true) :
    ∃ x ∈ a.held, ∃ y ∈ b.held, x.key = y.key ∧ (x.mode = .W ∨ y.mode = .W) := by
  simp only [commonLock, List.any_eq_true, Bool.and_eq_true, Bool.or_eq_true, beq_iff_eq] at h
  obtain ⟨x, hx, y, hy, hk, hm⟩ := h
  exact ⟨x, hx, y, hy, hk, hm⟩

/-- a pair the checker is content with for the reason "common lock" cannot be enabled on both sides -/
theorem no_race_of_commonLock {tbl : List Access} {role : Nat → Nat} {H : Holds} (hx : Exclusive H)
    {i j : Nat} {a b : Access} (hij : i ≠ j) (ha : Enabled tbl role H i a) (hb : Enabled tbl role H j b)
    (hc : commonLock a b = true) : False := by
  obtain ⟨x, hxa, y, hyb, hk, hm⟩ := commonLock_spec hc
  have h1 := ha.2.2 x hxa
  have h2 := hb.2.2 y hyb
  rw [hk] at h1
  have := hx i j y.key x.mode y.mode h1 h2 hij
  rcases hm with hm | hm
  · rw [this.1] at hm; cases hm
  · rw [this.2] at hm; cases hm

theorem pairOk_of_all {tbl : List Access} {P : Access → Access → Bool}
    (h : (tbl.all fun a => tbl.all fun b => P a b) = true) {a b : Access} (ha : a ∈ tbl) (hb : b ∈ tbl) :
    P a b = true := by
  rw [List.all_eq_true] at h
  have := h a ha
  rw [List.all_eq_true] at this
  exact this b hb

/-- what is left of `pairOk` for a racing pair: the common lock -/
theorem pairOk_race {cc : Nat → Nat → Bool} {a b : Access} (hp : pairOk cc a b = true)
    (hcc : cc a.role b.role = true) (hcf : conflict a b = true) (hat : (a.atomic && b.atomic) = false) :
    commonLock a b = true := by
  simp only [pairOk, hcc, hcf, hat, Bool.not_true, Bool.false_or] at hp
  exact hp

/-- **Soundness of the lockset check.**  If the checker accepts the table, then after no execution of
goroutines that take and release locks as recorded are two conflicting, not-both-atomic accesses of
concurrent roles enabled at the same time. -/
theorem locksetOkWith_sound (cc : Nat → Nat → Bool) (tbl : List Access)
    (h : locksetOkWith cc tbl = true) :
    ∀ role tr H, Exec tbl role tr H → ∀ a b, ¬ Race cc tbl role H a b := by
  intro role tr H hex a b ⟨i, j, hij, ha, hb, hcc, hcf, hat⟩
  simp only [locksetOkWith, Bool.and_eq_true] at h
  have hp : pairOk cc a b = true := pairOk_of_all (P := pairOk cc) h.2 ha.1 hb.1
  have hcc' : cc a.role b.role = true := by rw [ha.2.1, hb.2.1]; exact hcc
  exact no_race_of_commonLock (exec_exclusive hex) hij ha hb (pairOk_race hp hcc' hcf hat)

/-- **Soundness up to the recorded findings.**  Every race any execution leads to is one of the recorded
(location, roles) pairs. -/
theorem locksetOkExceptWith_sound (cc : Nat → Nat → Bool) (tbl : List Access) (known : List Known)
    (h : locksetOkExceptWith cc tbl known = true) :
    ∀ role tr H, Exec tbl role tr H → ∀ a b, Race cc tbl role H a b → excused known a b = true := by
  intro role tr H hex a b ⟨i, j, hij, ha, hb, hcc, hcf, hat⟩
  simp only [locksetOkExceptWith, Bool.and_eq_true] at h
  have hp : (pairOk cc a b || excused known a b) = true :=
    pairOk_of_all (P := fun a b => pairOk cc a b || excused known a b) h.2 ha.1 hb.1
  rw [Bool.or_eq_true] at hp
  rcases hp with hp | hp
  · have hcc' : cc a.role b.role = true := by rw [ha.2.1, hb.2.1]; exact hcc
    exact (no_race_of_commonLock (exec_exclusive hex) hij ha hb (pairOk_race hp hcc' hcf hat)).elim
  · exact hp

theorem locksetOk_sound (tbl : List Access) (h : locksetOk tbl = true) :
    ∀ role tr H, Exec tbl role tr H → ∀ a b, ¬ Race conc tbl role H a b :=
  locksetOkWith_sound conc tbl h

theorem locksetOkExcept_sound (tbl : List Access) (known : List Known)
    (h : locksetOkExcept tbl known = true) :
    ∀ role tr H, Exec tbl role tr H → ∀ a b, Race conc tbl role H a b → excused known a b = true :=
  locksetOkExceptWith_sound conc tbl known h

/-! ## the grouped check is the flat check -/

theorem mem_rowsOf {gs : List LocGroup} {a : Access} (h : a ∈ rowsOf gs) :
    ∃ g ∈ gs, ∃ x ∈ g.actors, a = g.row x := by
  simp only [rowsOf, List.mem_flatMap, LocGroup.rows, List.mem_map] at h
  obtain ⟨g, hg, x, hx, rfl⟩ := h
  exact ⟨g, hg, x, hx, rfl⟩

theorem conflict_false_of_groups {g h : LocGroup} {x y : Actor} (hov : groupsOverlap g h = false) :
    conflict (g.row x) (h.row y) = false := by
  simp only [conflict, overlap, LocGroup.row]
  simp only [groupsOverlap] at hov
  rw [hov]
  rfl

/-- if the grouped check accepts, the flat check accepts the flattened table -/
theorem groupedOkExceptWith_rows (cc : Nat → Nat → Bool) (gs : List LocGroup) (known : List Known)
    (h : groupedOkExceptWith cc gs known = true) : locksetOkExceptWith cc (rowsOf gs) known = true := by
  simp only [groupedOkExceptWith, Bool.and_eq_true] at h
  obtain ⟨hu, hp⟩ := h
  simp only [locksetOkExceptWith, Bool.and_eq_true]
  refine ⟨?_, ?_⟩
  · rw [List.all_eq_true]
    intro a ha
    obtain ⟨g, hg, x, hx, rfl⟩ := mem_rowsOf ha
    rw [List.all_eq_true] at hu
    have := hu g hg
    rw [List.all_eq_true] at this
    exact this x hx
  · rw [List.all_eq_true]
    intro a ha
    rw [List.all_eq_true]
    intro b hb
    obtain ⟨g, hg, x, hx, rfl⟩ := mem_rowsOf ha
    obtain ⟨k, hk, y, hy, rfl⟩ := mem_rowsOf hb
    rw [List.all_eq_true] at hp
    have h1 := hp g hg
    rw [List.all_eq_true] at h1
    have h2 := h1 k hk
    cases hov : groupsOverlap g k with
    | false =>
      have hc : conflict (g.row x) (k.row y) = false := conflict_false_of_groups hov
      simp [pairOk, hc]
    | true =>
      rw [hov] at h2
      simp only [Bool.not_true, Bool.false_or] at h2
      rw [List.all_eq_true] at h2
      have h3 := h2 x hx
      rw [List.all_eq_true] at h3
      exact h3 y hy

theorem groupedOkExcept_rows (gs : List LocGroup) (known : List Known)
    (h : groupedOkExcept gs known = true) : locksetOkExcept (rowsOf gs) known = true :=
  groupedOkExceptWith_rows conc gs known h

/-- with no recorded finding the two checks coincide -/
theorem locksetOkExceptWith_nil (cc : Nat → Nat → Bool) (tbl : List Access) :
    locksetOkExceptWith cc tbl [] = locksetOkWith cc tbl := by
  simp [locksetOkExceptWith, locksetOkWith, excused]

/-- an excused pair really is a recorded finding about the pair's enclosing location and its two roles -/
theorem excused_spec {known : List Known} {a b : Access} (h : excused known a b = true) :
    ∃ k ∈ known, k.obj = a.obj ∧ k.path = pairPath a b ∧
      ((k.r1 = a.role ∧ k.r2 = b.role) ∨ (k.r1 = b.role ∧ k.r2 = a.role)) := by
  simp only [excused, List.any_eq_true, Bool.and_eq_true, Bool.or_eq_true, beq_iff_eq] at h
  obtain ⟨k, hk, ⟨ho, hp⟩, hr⟩ := h
  exact ⟨k, hk, ho, hp, hr⟩

end Mochi.Access
