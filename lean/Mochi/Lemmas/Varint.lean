import Mochi.Spec.Varint
namespace Mochi.Varint

theorem lor_shl32 (x y k : Nat) (hx : x < 2 ^ k) (hy : y * 2 ^ k < 4294967296) :
    x ||| shl32 y k = x + y * 2 ^ k := by
  unfold shl32
  rw [Nat.mod_eq_of_lt hy]
  have := Nat.shiftLeft_add_eq_or_of_lt hx y
  rw [Nat.shiftLeft_eq] at this
  rw [Nat.or_comm]; omega

theorem step1 (a : Nat) : 0 ||| shl32 (a % 128) 0 = a % 128 := by
  unfold shl32; simp; omega

theorem step2 (x b : Nat) (hx : x < 128) : x ||| shl32 (b % 128) 7 = x + 128 * (b % 128) := by
  rw [lor_shl32 x (b % 128) 7 (by omega) (by omega)]; omega

theorem step3 (x c : Nat) (hx : x < 16384) : x ||| shl32 (c % 128) 14 = x + 16384 * (c % 128) := by
  rw [lor_shl32 x (c % 128) 14 (by omega) (by omega)]; omega

theorem step4 (x d : Nat) (hx : x < 2097152) : x ||| shl32 (d % 128) 21 = x + 2097152 * (d % 128) := by
  rw [lor_shl32 x (d % 128) 21 (by omega) (by omega)]; omega

end Mochi.Varint
