import Mochi.Lemmas.BrokerSyncStep
/-!
# The topic index and the sessions agree in every history (C15 / C14 / C03)

`IndexSync s` (a): every non-inline subscription entry `(cid, filter)` of the topic index — plain or shared —
belongs to a REGISTERED client: some `(cid, i) ∈ s.clients` whose object holds a subscription for `filter`.
"No orphan index entries: the index never delivers because of a session that no longer exists."

`IndexSync_init`, `IndexSync_step`, `IndexSync_run`: for every history from `init caps` whose ops respect
`OpFresh` (connection numbers are fresh, as in `WF_run`) and `SchedOK` (the discipline of the schedule ops — see
there; ops without schedule ops satisfy it trivially: `SeqOps`).
-/
namespace Mochi.Broker
open Mochi.Topics

/-! ### the discipline of the schedule ops -/

/-- no handler parked by a schedule op belongs to the object of connection `conn` -/
def FreeConn (s : Server) (conn : Nat) : Prop :=
  match assocGet s.connOf conn with
  | some i => Free s i
  | none => True

instance (s : Server) (i : Nat) : Decidable (Free s i) := by unfold Free; infer_instance
instance (s : Server) (conn : Nat) : Decidable (FreeConn s conn) := by
  unfold FreeConn; split <;> infer_instance

/-- what a history with schedule ops must respect for the index and the sessions to agree:
* an op on a connection (`recv`, `recvCut`, `drop`, `dropHold`, `dropHoldEarly`) is not applied to a connection
  whose handler is parked (`dropHold`, `dropHoldEarly`, `connectHold`) — a parked handler does not read;
* a `clients` tick does not expire a session whose handler is parked before its clean-up. -/
def SchedOK (s : Server) : Op → Prop
  | .recv conn _ => FreeConn s conn
  | .recvCut conn _ => FreeConn s conn
  | .drop conn => FreeConn s conn
  | .dropHold conn => FreeConn s conn
  | .dropHoldEarly conn => FreeConn s conn
  | .tick kind t => kind = "clients" →
      ∀ e ∈ s.clients, sessionDue s.caps (getObj s e.2) t = true → e.2 ∉ s.parked ∧ e.2 ∉ s.parkedEarly
  | _ => True

instance (s : Server) (op : Op) : Decidable (SchedOK s op) := by
  cases op <;> unfold SchedOK <;> infer_instance

theorem FreeConn.free {s : Server} {conn i : Nat} (h : FreeConn s conn) (hc : assocGet s.connOf conn = some i) :
    Free s i := by
  unfold FreeConn at h
  rw [hc] at h
  exact h

/-! ### the ops, one by one -/

/-- the PINGREQ barrier after a connection is established -/
theorem barrier_inv {s1 : Server} {o : List Out} (conn : Nat) (b : Bool) (h1 : SyncInv s1) (w1 : WF s1)
    (hfree : ∀ i, assocGet s1.connOf conn = some i → Free s1 i) :
    SyncInv (if b = true then
          match recvOn s1 conn InPk.pingreq false with
          | (s, o2) => (s, o ++ o2.filter (fun x => match x with | .wrote _ .pingresp => false | _ => true))
        else (s1, o)).1 := by
  split
  · split
    rename_i s2 o2 h2
    have := (recvOn_inv h1 w1 conn .pingreq false (fun i hi => ⟨hfree i hi, fun x => x⟩)).1
    rw [h2] at this
    exact this
  · exact h1

theorem step_connect_inv {s : Server} (h : SyncInv s) (hw : WF s) (conn : Nat) (k : Connect)
    (hf : conn ∉ s.connOf.map (·.1)) : SyncInv (step s (.connect conn k)).1 := by
  rw [step]
  split
  rename_i s1 o h1
  obtain ⟨a1, l1, p1, c1, _⟩ := connect_inv h hw conn k hf
  have w1 := connect_wf s conn k hw hf
  rw [h1] at a1 l1 p1 c1 w1
  replace a1 : SyncInv s1 := a1
  replace l1 : Lst s s1 := l1
  replace p1 : s1.pending = s.pending := p1
  replace c1 : s1.connOf = s.connOf ++ [(conn, s.objs.length)] := c1
  replace w1 : WF s1 := w1
  split
  · refine barrier_inv conn _ a1 w1 ?_
    intro i hi
    rw [c1, assocGet_append_fresh _ _ _ hf] at hi
    cases hi
    refine ⟨?_, ?_, ?_⟩
    · rw [l1.parked]; exact fun hm => Nat.lt_irrefl _ (h.parkedLt _ (Or.inl hm))
    · rw [l1.parkedEarly]; exact fun hm => Nat.lt_irrefl _ (h.parkedLt _ (Or.inr hm))
    · rw [p1]
      intro p hp e
      have := (hw.pending_valid p hp).1
      rw [e] at this
      exact Nat.lt_irrefl _ this
  · exact a1

theorem step_recv_inv {s : Server} (h : SyncInv s) (hw : WF s) (conn : Nat) (pk : InPk) (hok : FreeConn s conn) :
    SyncInv (step s (.recv conn pk)).1 := by
  rw [step]
  exact (recvOn_inv h hw conn pk true (fun i hi => ⟨hok.free hi, fun x => x⟩)).1

theorem step_drop_inv {s : Server} (h : SyncInv s) (hw : WF s) (conn : Nat) (hok : FreeConn s conn) :
    SyncInv (step s (.drop conn)).1 := by
  rw [step]
  split
  · exact h
  · rename_i i hc
    split
    · exact h
    · rename_i hst
      have hlive : (getObj s i).stopped = false := by simpa using hst
      extract_lets +onlyGivenNames s1
      have q1 : Quiet s s1 := (Quiet.refl s).mod i _ (by qc_rfl)
      have hi : i < s.objs.length := hw.conn_valid conn i (assocGet_mem _ _ _ hc)
      have hfr := hok.free hc
      have hreg := h.reg_or_taken hi hfr (fun x => x) hlive
      split
      rename_i s2 o h2
      have := detach_inv (h.of_quiet q1) (hw.of_good ((Good.refl s).mod i _ (by cw_rfl))) i
        (by rw [q1.len]; exact hi) true (fun x => by cases x) (by rw [q1.parked]; exact hfr.1)
        (by rw [q1.parkedEarly]; exact hfr.2.1)
        (by rw [(q1.obj i).takenOver, (q1.obj i).id, q1.clients]; exact hreg)
      rw [h2] at this
      exact this

theorem step_recvCut_inv {s : Server} (h : SyncInv s) (hw : WF s) (conn : Nat) (pk : InPk)
    (hok : FreeConn s conn) : SyncInv (step s (.recvCut conn pk)).1 := by
  rw [step]
  split
  · exact h
  · rename_i i hc
    split
    · exact h
    · extract_lets +onlyGivenNames s1
      have q1 : Quiet s s1 := (Quiet.refl s).mod i _ (by qc_rfl)
      have w1 : WF s1 := hw.of_good ((Good.refl s).mod i _ (by cw_rfl))
      have hi : i < s.objs.length := hw.conn_valid conn i (assocGet_mem _ _ _ hc)
      have hfr := hok.free hc
      have hfr1 : Free s1 i := hfr.of_eq q1.parked q1.parkedEarly q1.pending
      split
      rename_i s2 o h2
      have r2 := recvOn_inv (h.of_quiet q1) w1 conn pk false (fun i' hi' => by
        have hi' : assocGet s.connOf conn = some i' := hi'
        rw [hc] at hi'
        cases hi'
        exact ⟨hfr1, fun x => x⟩)
      have g2 := recvOn_good s1 conn pk false
      have w2 := recvOn_wf s1 conn pk false w1
      rw [h2] at r2 g2 w2
      obtain ⟨a2, l2⟩ := r2
      replace a2 : SyncInv s2 := a2
      replace l2 : Lst s1 s2 := l2
      replace g2 : Good s1 s2 := g2
      replace w2 : WF s2 := w2
      split
      rename_i s3 o2 h3
      show SyncInv s3
      split at h3
      · cases h3; exact a2
      · rename_i hst
        have hlive : (getObj s2 i).stopped = false := by simpa using hst
        have hi2 : i < s2.objs.length := by rw [g2.len, q1.len]; exact hi
        have hfr2 : Free s2 i := hfr1.of_eq l2.parked l2.parkedEarly g2.pending
        have := detach_inv a2 w2 i hi2 true (fun x => by cases x) hfr2.1 hfr2.2.1
          (a2.reg_or_taken hi2 hfr2 (fun x => x) hlive)
        rw [h3] at this
        exact this

theorem step_dropHold_inv {s : Server} (h : SyncInv s) (hw : WF s) (conn : Nat) (hok : FreeConn s conn) :
    SyncInv (step s (.dropHold conn)).1 := by
  rw [step]
  split
  · exact h
  · rename_i i hc
    split
    · exact h
    · rename_i hst
      have hlive : (getObj s i).stopped = false := by simpa using hst
      extract_lets +onlyGivenNames s1
      have q1 : Quiet s s1 := (Quiet.refl s).mod i _ (by qc_rfl)
      have hi : i < s.objs.length := hw.conn_valid conn i (assocGet_mem _ _ _ hc)
      have hfr := hok.free hc
      have hreg := h.reg_or_taken hi hfr (fun x => x) hlive
      split
      rename_i s2 o h2
      have q2 : Quiet s1 s2 := by
        have := detachA_quiet s1 i true
        rw [h2] at this; exact this
      have q := q1.trans q2
      have hst2 : (getObj s2 i).stopped = true := by
        have := detachA_true_stopped s1 i (by rw [q1.len]; exact hi)
        rw [h2] at this; exact this
      exact SyncInv.park (h.of_quiet q) i (by rw [q.len]; exact hi) hst2 (hfr.of_eq q.parked q.parkedEarly q.pending)
        (by rw [(q.obj i).takenOver, (q.obj i).id, q.clients]; exact hreg)

theorem step_dropHoldEarly_inv {s : Server} (h : SyncInv s) (hw : WF s) (conn : Nat) (hok : FreeConn s conn) :
    SyncInv (step s (.dropHoldEarly conn)).1 := by
  rw [step]
  split
  · exact h
  · rename_i i hc
    split
    · exact h
    · rename_i hst
      have hlive : (getObj s i).stopped = false := by simpa using hst
      have hi : i < s.objs.length := hw.conn_valid conn i (assocGet_mem _ _ _ hc)
      have hfr := hok.free hc
      have hp := h.parkEarly i hi hlive hfr
      exact hp.of_quiet ((Quiet.refl _).mod i (fun c => { c with peerGone := true }) (by qc_rfl))

theorem step_tick_inv {s : Server} (h : SyncInv s) (hw : WF s) (kind : String) (t : Int)
    (hok : SchedOK s (.tick kind t)) : SyncInv (step s (.tick kind t)).1 := by
  rw [step]
  split
  · rename_i hk
    have hk : kind = "clients" := by simpa using hk
    exact tickClients_inv h hw t (hok hk)
  · split
    · exact h.of_quiet (tickRetained_quiet s t)
    · split
      · exact h.of_quiet (tickInflight_quiet s t)
      · split
        · exact h.of_quiet (tickWills_quiet s t)
        · exact h

theorem step_inlinePublish_inv {s : Server} (h : SyncInv s) (topic payload : Str) (retain : Bool) (qos : Nat) :
    SyncInv (step s (.inlinePublish topic payload retain qos)).1 := by
  rw [step]
  exact h.of_quiet (receivePacket_quiet s 0 _ rfl)

theorem step_inlineSubscribe_inv {s : Server} (h : SyncInv s) (id : Nat) (filter : Str) :
    SyncInv (step s (.inlineSubscribe id filter)).1 := by
  rw [step]
  split
  · exact h
  · exact h.of_quiet ⟨rfl, rfl, rfl, rfl, rfl, rfl, rfl, fun _ => QC.refl _,
      fun hx => idxOK_inlineSubscribe _ hx _ _, fun q c => plainAt_inlineSubscribe _ _ _ q c,
      fun q g c => sharedAt_inlineSubscribe _ _ _ q g c⟩

theorem step_inlineUnsubscribe_inv {s : Server} (h : SyncInv s) (id : Nat) (filter : Str) :
    SyncInv (step s (.inlineUnsubscribe id filter)).1 := by
  rw [step]
  split
  · exact h
  · exact h.of_quiet ⟨rfl, rfl, rfl, rfl, rfl, rfl, rfl, fun _ => QC.refl _,
      fun hx => idxOK_inlineUnsubscribe _ hx _ _, fun q c => plainAt_inlineUnsubscribe _ _ _ q c,
      fun q g c => sharedAt_inlineUnsubscribe _ _ _ q g c⟩

theorem step_connectHold_inv {s : Server} (h : SyncInv s) (hw : WF s) (conn : Nat) (k : Connect) (stage : Nat)
    (hf : conn ∉ s.connOf.map (·.1)) : SyncInv (step s (.connectHold conn k stage)).1 := by
  rw [step]
  exact connectHold_inv h hw conn k stage hf

theorem step_release_inv {s : Server} (h : SyncInv s) (hw : WF s) (conn : Nat) :
    SyncInv (step s (.release conn)).1 := by
  rw [step]
  split
  · rename_i p hp
    have hmem : p ∈ s.pending := List.mem_of_find?_eq_some hp
    have hpc : p.conn = conn := by
      have := List.find?_some hp
      simpa using this
    have hv := hw.pending_valid p hmem
    have w0 : WF { s with pending := s.pending.filter (·.conn != conn) } := hw.filterPending _
    have h0 := SyncInv.filterPending h p hmem conn hpc
    have hpf := h.pendFree p hmem
    have hpi : ∀ q ∈ s.pending.filter (·.conn != conn), q.obj ≠ p.obj := by
      intro q hq e
      obtain ⟨hq1, hq2⟩ := List.mem_filter.mp hq
      have := eq_of_nodup_map (·.obj) s.pending h.pendNodup q p hq1 hmem e
      rw [this, hpc] at hq2
      simp at hq2
    have hns1 : p.stage ≠ 1 → ¬ Stage1 s p.obj := by
      rintro hs ⟨q, hq, a, b⟩
      have := eq_of_nodup_map (·.obj) s.pending h.pendNodup q p hq hmem b
      rw [this] at a
      exact hs a
    split
    rename_i s1 o h1
    have r1 := connectRelease_inv p h0 w0 hv.1 hv.2 hpf.1 hpf.2 hpi (h.st1 p hmem) (by
      intro hs
      refine h0.weaken ?_
      intro k hk hx _ ha ht _
      have hx : k = p.obj := hx
      subst hx
      exact h.reg _ hk ha ht (fun x => x) (hns1 hs))
    have wk := connectRelease_wf _ p w0 hv.1 hv.2
    rw [h1] at r1 wk
    obtain ⟨a1, l1⟩ := r1
    obtain ⟨w1, k1⟩ := wk
    replace a1 : SyncInv s1 := a1
    replace l1 : Lst { s with pending := s.pending.filter (·.conn != conn) } s1 := l1
    replace w1 : WF s1 := w1
    replace k1 : Keep { s with pending := s.pending.filter (·.conn != conn) } s1 := k1
    refine barrier_inv conn _ a1 w1 ?_
    intro i hi
    rw [k1.connOf] at hi
    have hi : assocGet s.connOf conn = some i := hi
    have hc := h.pendConn p hmem
    rw [hpc, hi] at hc
    cases hc
    refine ⟨?_, ?_, ?_⟩
    · rw [l1.parked]; exact hpf.1
    · rw [l1.parkedEarly]; exact hpf.2
    · rw [k1.pending]; exact hpi
  · split
    · exact h
    · rename_i i hc
      split
      · rename_i hpk
        have hm : i ∈ s.parked := List.contains_iff_mem.mp hpk
        have hi := h.parkedLt i (Or.inl hm)
        have a0 : SyncInv { s with parked := s.parked.filter (· != i) } :=
          SyncInv.unpark h _ s.parkedEarly (fun k hk => (List.mem_filter.mp hk).1) (fun _ x => x)
        have w0 : WF { s with parked := s.parked.filter (· != i) } := hw.upd rfl rfl rfl rfl
        refine detachB_inv a0 w0 i hi (h.parkedStopped i hm) ?_ (h.disj i hm) ?_
        · intro hx
          have := (List.mem_filter.mp hx).2
          simp at this
        · cases hto : (getObj s i).takenOver with
          | true => exact Or.inl hto
          | false =>
            right
            refine h.reg i hi (Or.inr (Or.inl hm)) hto (fun x => x) ?_
            rintro ⟨q, hq, _, b⟩
            exact (h.pendFree q hq).1 (b ▸ hm)
      · rename_i hnpk
        have hnm : i ∉ s.parked := fun x => hnpk (List.contains_iff_mem.mpr x)
        split
        · rename_i hpe
          have hm : i ∈ s.parkedEarly := List.contains_iff_mem.mp hpe
          have hi := h.parkedLt i (Or.inr hm)
          have a0 : SyncInv { s with parkedEarly := s.parkedEarly.filter (· != i) } :=
            SyncInv.unpark h s.parked _ (fun _ x => x) (fun k hk => (List.mem_filter.mp hk).1)
          have w0 : WF { s with parkedEarly := s.parkedEarly.filter (· != i) } := hw.upd rfl rfl rfl rfl
          split
          rename_i s1 o h1
          have := detach_inv a0 w0 i hi true (fun x => by cases x) hnm (by
              intro hx
              have := (List.mem_filter.mp hx).2
              simp at this) (by
              cases hto : (getObj s i).takenOver with
              | true => exact Or.inl hto
              | false =>
                right
                refine h.reg i hi (Or.inr (Or.inr hm)) hto (fun x => x) ?_
                rintro ⟨q, hq, _, b⟩
                exact (h.pendFree q hq).2 (b ▸ hm))
          rw [h1] at this
          exact this
        · exact h

/-! ### `init`, `step`, `run` -/

theorem SyncInv_init (caps : Caps) : SyncInv (init caps) := by
  refine ⟨idxOK_empty, ?_, ?_, ?_, ?_, ?_, ?_, ?_, ?_, ?_, ?_, ?_, ?_, List.nodup_nil, ?_⟩
  · rintro c f (⟨q, sub, hq, _⟩ | ⟨q, g, sub, hq, _⟩)
    · simp [plainAt, init, getNode_nil] at hq
    · simp [sharedAt, init, getNode_nil] at hq
  · intro c k hk f hf _
    have hk : assocGet [(inlineID, 0)] c = some k := hk
    simp only [assocGet] at hk
    split at hk
    · cases hk
      have hf : f ∈ subKeys (getObj (init caps) 0) := hf
      cases hf
    · cases hk
  · intro k fs hfs
    have hs : (getObj (init caps) k).subs = [] := by
      match k with
      | 0 => rfl
      | k + 1 => rfl
    rw [hs] at hfs; cases hfs
  · intro k
    match k with
    | 0 => rfl
    | k + 1 => rfl
  · intro k hk
    match k with
    | 0 => cases hk
    | k + 1 => cases hk
  · intro k hk _ _ _ _
    have hk : k < 1 := hk
    have : k = 0 := by omega
    subst this
    rfl
  · intro c k hk
    have hk : assocGet [(inlineID, 0)] c = some k := hk
    simp only [assocGet] at hk
    split at hk
    · cases hk; rfl
    · cases hk
  · intro k hk
    rcases hk with hk | hk <;> cases hk
  · intro k hk; cases hk
  · intro k hk; cases hk
  · intro p hp; cases hp
  · intro p hp; cases hp
  · intro p hp; cases hp

/-- **the invariant is kept by every op** that is fresh and respects the discipline of the schedule ops -/
theorem SyncInv_step (s : Server) (op : Op) (h : SyncInv s) (hw : WF s) (hfresh : OpFresh s op)
    (hok : SchedOK s op) : SyncInv (step s op).1 := by
  cases op with
  | connect conn k => exact step_connect_inv h hw conn k hfresh
  | recv conn pk => exact step_recv_inv h hw conn pk hok
  | drop conn => exact step_drop_inv h hw conn hok
  | recvCut conn pk => exact step_recvCut_inv h hw conn pk hok
  | dropHold conn => exact step_dropHold_inv h hw conn hok
  | release conn => exact step_release_inv h hw conn
  | dropHoldEarly conn => exact step_dropHoldEarly_inv h hw conn hok
  | connectHold conn k stage => exact step_connectHold_inv h hw conn k stage hfresh
  | tick kind t => exact step_tick_inv h hw kind t hok
  | inlinePublish topic payload retain qos => exact step_inlinePublish_inv h topic payload retain qos
  | inlineSubscribe id filter => exact step_inlineSubscribe_inv h id filter
  | inlineUnsubscribe id filter => exact step_inlineUnsubscribe_inv h id filter

/-- every op of the history respects the discipline of the schedule ops in the state it is applied to -/
def OpsSchedOK (s : Server) : List Op → Prop
  | [] => True
  | op :: ops => SchedOK s op ∧ OpsSchedOK (step s op).1 ops

instance instDecidableOpsSchedOK (s : Server) (ops : List Op) : Decidable (OpsSchedOK s ops) :=
  match ops with
  | [] => isTrue trivial
  | op :: ops =>
    match (inferInstance : Decidable (SchedOK s op)) with
    | isFalse h => isFalse (fun g => h g.1)
    | isTrue h =>
      match instDecidableOpsSchedOK (step s op).1 ops with
      | isFalse g => isFalse (fun g' => g g'.2)
      | isTrue g => isTrue ⟨h, g⟩

theorem SyncInv_run_from (s : Server) (ops : List Op) (h : SyncInv s) (hw : WF s) (hf : OpsFresh s ops)
    (hok : OpsSchedOK s ops) : SyncInv (run s ops) := by
  induction ops generalizing s with
  | nil => exact h
  | cons op ops ih =>
    show SyncInv (run (step s op).1 ops)
    exact ih _ (SyncInv_step s op h hw hf.1 hok.1) (WF_step s op hw hf.1) hf.2 hok.2

theorem SyncInv_run (caps : Caps) (ops : List Op) (hf : OpsFresh (init caps) ops)
    (hok : OpsSchedOK (init caps) ops) : SyncInv (run (init caps) ops) :=
  SyncInv_run_from _ ops (SyncInv_init caps) (WF_init caps) hf hok

/-! ### `IndexSync` -/

/-- **(a) no orphan index entries**: every non-inline subscription entry `(cid, filter)` of the topic index
    (plain or shared) belongs to a registered client — some `(cid, i)` of the Clients map whose object holds a
    subscription for `filter` -/
def IndexSync (s : Server) : Prop :=
  ∀ e ∈ indexEntries s.topics, ∃ ci ∈ s.clients, ci.1 = e.1 ∧ e.2 ∈ subKeys (getObj s ci.2)

instance (s : Server) : Decidable (IndexSync s) := by unfold IndexSync; infer_instance

/-- the form of the brief -/
theorem IndexSync_iff (s : Server) : IndexSync s ↔
    ∀ cid filter, (cid, filter) ∈ indexEntries s.topics →
      ∃ i, (cid, i) ∈ s.clients ∧ filter ∈ ((getObj s i).subs.map (·.1)) := by
  constructor
  · intro h cid f hm
    obtain ⟨ci, hci, h1, h2⟩ := h (cid, f) hm
    obtain ⟨c, i⟩ := ci
    have h1 : c = cid := h1
    subst h1
    exact ⟨i, hci, h2⟩
  · intro h e he
    obtain ⟨cid, f⟩ := e
    obtain ⟨i, hi, hf⟩ := h cid f he
    exact ⟨(cid, i), hi, rfl, hf⟩

theorem SyncInv.indexSync {s : Server} (h : SyncInv s) : IndexSync s := by
  intro e he
  obtain ⟨cid, f⟩ := e
  obtain ⟨i, hi, hf⟩ := h.own cid f (Entry.of_mem h.idx he)
  exact ⟨(cid, i), assocGet_mem _ _ _ hi, rfl, hf⟩

theorem IndexSync_init (caps : Caps) : IndexSync (init caps) := (SyncInv_init caps).indexSync

/-- one op: `SyncInv` is the inductive strengthening of `IndexSync` (`SyncInv_step` keeps it) -/
theorem IndexSync_step (s : Server) (op : Op) (h : SyncInv s) (hw : WF s) (hfresh : OpFresh s op)
    (hok : SchedOK s op) : IndexSync (step s op).1 :=
  (SyncInv_step s op h hw hfresh hok).indexSync

/-- **(a) holds after every history that respects `OpFresh` and the discipline of the schedule ops** -/
theorem IndexSync_run_partial (caps : Caps) (ops : List Op) (hf : OpsFresh (init caps) ops)
    (hok : OpsSchedOK (init caps) ops) : IndexSync (run (init caps) ops) :=
  (SyncInv_run caps ops hf hok).indexSync

/-- the unrestricted statement (false: `IndexSync_all_histories_false` below) -/
def IndexSync_all_histories : Prop :=
  ∀ (caps : Caps) (ops : List Op), OpsFresh (init caps) ops → IndexSync (run (init caps) ops)

/-! ### histories without schedule ops -/

/-- no schedule op: only `connect`, `recv`, `recvCut`, `drop`, ticks and the inline API -/
def Op.isSeq : Op → Bool
  | .dropHold _ => false
  | .dropHoldEarly _ => false
  | .connectHold .. => false
  | .release _ => false
  | _ => true

def SeqOps (ops : List Op) : Prop := ∀ op ∈ ops, op.isSeq = true

instance (ops : List Op) : Decidable (SeqOps ops) := by unfold SeqOps; infer_instance

/-- no handler is parked -/
def NoSched (s : Server) : Prop := s.parked = [] ∧ s.parkedEarly = [] ∧ s.pending = []

theorem NoSched.schedOK {s : Server} (h : NoSched s) (op : Op) : SchedOK s op := by
  obtain ⟨h1, h2, h3⟩ := h
  have hfree : ∀ conn, FreeConn s conn := by
    intro conn
    unfold FreeConn
    split
    · unfold Free
      rw [h1, h2, h3]
      exact ⟨List.not_mem_nil, List.not_mem_nil, fun _ hp => by cases hp⟩
    · trivial
  cases op <;> unfold SchedOK <;> first | exact hfree _ | trivial | skip
  intro _ e _ _
  rw [h1, h2]
  exact ⟨List.not_mem_nil, List.not_mem_nil⟩

theorem tickClients_lst (s : Server) (dt : Int) : Lst s (tickClients s dt).1 := by
  unfold tickClients
  refine foldl_inv (fun (acc : Server × List Out) => Lst s acc.1) _ _ _ (Lst.refl s) ?_
  intro acc e h
  extract_lets +onlyGivenNames c
  split
  · extract_lets +onlyGivenNames s1 s2
    have h2 : Lst s s2 := (h.trans (clearInflights_quiet acc.1 e.2).lst).trans (unsubscribeClient_lst s1 e.2)
    exact ⟨h2.parked, h2.parkedEarly⟩
  · exact h

/-- an op that is not a schedule op parks and releases no handler -/
theorem step_seq_lists {s : Server} (op : Op) (hseq : op.isSeq = true) (h : SyncInv s) (hw : WF s)
    (hfresh : OpFresh s op) (hok : SchedOK s op) :
    Lst s (step s op).1 ∧ (step s op).1.pending = s.pending := by
  cases op with
  | connect conn k =>
    have hf : conn ∉ s.connOf.map (·.1) := hfresh
    rw [step]
    split
    rename_i s1 o h1
    obtain ⟨a1, l1, p1, c1, _⟩ := connect_inv h hw conn k hf
    have w1 := connect_wf s conn k hw hf
    rw [h1] at a1 l1 p1 c1 w1
    replace a1 : SyncInv s1 := a1
    replace l1 : Lst s s1 := l1
    replace p1 : s1.pending = s.pending := p1
    replace c1 : s1.connOf = s.connOf ++ [(conn, s.objs.length)] := c1
    replace w1 : WF s1 := w1
    split
    · split
      · split
        rename_i s2 o2 h2
        have r := recvOn_inv a1 w1 conn .pingreq false (by
          intro i hi
          rw [c1, assocGet_append_fresh _ _ _ hf] at hi
          cases hi
          refine ⟨⟨?_, ?_, ?_⟩, fun x => x⟩
          · rw [l1.parked]; exact fun hm => Nat.lt_irrefl _ (h.parkedLt _ (Or.inl hm))
          · rw [l1.parkedEarly]; exact fun hm => Nat.lt_irrefl _ (h.parkedLt _ (Or.inr hm))
          · rw [p1]
            intro p hp e
            have := (hw.pending_valid p hp).1
            rw [e] at this
            exact Nat.lt_irrefl _ this)
        have g := recvOn_good s1 conn .pingreq false
        rw [h2] at r g
        exact ⟨l1.trans r.2, g.pending.trans p1⟩
      · exact ⟨l1, p1⟩
    · exact ⟨l1, p1⟩
  | recv conn pk =>
    have hok : FreeConn s conn := hok
    rw [step]
    exact ⟨(recvOn_inv h hw conn pk true (fun i hi => ⟨hok.free hi, fun x => x⟩)).2, (recvOn_good s conn pk true).pending⟩
  | drop conn =>
    rw [step]
    split
    · exact ⟨Lst.refl s, rfl⟩
    · rename_i i hc
      split
      · exact ⟨Lst.refl s, rfl⟩
      · extract_lets +onlyGivenNames s1
        have q1 : Quiet s s1 := (Quiet.refl s).mod i _ (by qc_rfl)
        split
        rename_i s2 o h2
        have l := detach_lst s1 i true
        have g := detach_good s1 i true
        rw [h2] at l g
        exact ⟨q1.lst.trans l, g.pending.trans q1.pending⟩
  | recvCut conn pk =>
    have hok : FreeConn s conn := hok
    rw [step]
    split
    · exact ⟨Lst.refl s, rfl⟩
    · rename_i i hc
      split
      · exact ⟨Lst.refl s, rfl⟩
      · extract_lets +onlyGivenNames s1
        have q1 : Quiet s s1 := (Quiet.refl s).mod i _ (by qc_rfl)
        have w1 : WF s1 := hw.of_good ((Good.refl s).mod i _ (by cw_rfl))
        have hfr1 : Free s1 i := (hok.free hc).of_eq q1.parked q1.parkedEarly q1.pending
        split
        rename_i s2 o h2
        have r2 := recvOn_inv (h.of_quiet q1) w1 conn pk false (fun i' hi' => by
          have hi' : assocGet s.connOf conn = some i' := hi'
          rw [hc] at hi'
          cases hi'
          exact ⟨hfr1, fun x => x⟩)
        have g2 := recvOn_good s1 conn pk false
        rw [h2] at r2 g2
        split
        rename_i s3 o2 h3
        show Lst s s3 ∧ s3.pending = s.pending
        split at h3
        · cases h3
          exact ⟨q1.lst.trans r2.2, g2.pending.trans q1.pending⟩
        · have l := detach_lst s2 i true
          have g := detach_good s2 i true
          rw [h3] at l g
          exact ⟨(q1.lst.trans r2.2).trans l, (g.pending.trans g2.pending).trans q1.pending⟩
  | tick kind t =>
    rw [step]
    split
    · exact ⟨tickClients_lst s t, (tickClients_good s t).pending⟩
    · split
      · exact ⟨(tickRetained_quiet s t).lst, (tickRetained_quiet s t).pending⟩
      · split
        · exact ⟨(tickInflight_quiet s t).lst, (tickInflight_quiet s t).pending⟩
        · split
          · exact ⟨(tickWills_quiet s t).lst, (tickWills_quiet s t).pending⟩
          · exact ⟨Lst.refl s, rfl⟩
  | inlinePublish topic payload retain qos =>
    rw [step]
    have q := receivePacket_quiet s 0 (.publish qos false retain qos topic payload 0 none) rfl
    exact ⟨q.lst, q.pending⟩
  | inlineSubscribe id filter =>
    rw [step]
    split
    · exact ⟨Lst.refl s, rfl⟩
    · exact ⟨⟨rfl, rfl⟩, rfl⟩
  | inlineUnsubscribe id filter =>
    rw [step]
    split
    · exact ⟨Lst.refl s, rfl⟩
    · exact ⟨⟨rfl, rfl⟩, rfl⟩
  | dropHold conn => cases hseq
  | dropHoldEarly conn => cases hseq
  | connectHold conn k stage => cases hseq
  | release conn => cases hseq

theorem SyncInv_run_seq_from (s : Server) (ops : List Op) (h : SyncInv s) (hw : WF s) (hn : NoSched s)
    (hseq : SeqOps ops) (hf : OpsFresh s ops) : SyncInv (run s ops) ∧ OpsSchedOK s ops := by
  induction ops generalizing s with
  | nil => exact ⟨h, trivial⟩
  | cons op ops ih =>
    have hok := hn.schedOK op
    have hs := hseq op List.mem_cons_self
    obtain ⟨l, p⟩ := step_seq_lists op hs h hw hf.1 hok
    have hn' : NoSched (step s op).1 := ⟨l.parked.trans hn.1, l.parkedEarly.trans hn.2.1, p.trans hn.2.2⟩
    obtain ⟨a, b⟩ := ih _ (SyncInv_step s op h hw hf.1 hok) (WF_step s op hw hf.1) hn'
      (fun o ho => hseq o (List.mem_cons_of_mem _ ho)) hf.2
    exact ⟨a, hok, b⟩

/-- a history without schedule ops respects the discipline of the schedule ops -/
theorem SeqOps.schedOK (caps : Caps) (ops : List Op) (hseq : SeqOps ops) (hf : OpsFresh (init caps) ops) :
    OpsSchedOK (init caps) ops :=
  (SyncInv_run_seq_from _ ops (SyncInv_init caps) (WF_init caps) ⟨rfl, rfl, rfl⟩ hseq hf).2

/-- **(a) holds after every history without schedule ops** -/
theorem IndexSync_run_seq (caps : Caps) (ops : List Op) (hseq : SeqOps ops) (hf : OpsFresh (init caps) ops) :
    IndexSync (run (init caps) ops) :=
  IndexSync_run_partial caps ops hf (hseq.schedOK caps ops hf)

/-! ### consequences: sessions without subscriptions have no entries -/

/-- an id nobody is registered under has no entry in the index -/
theorem IndexSync.no_entry_of_unregistered {s : Server} (h : IndexSync s) (cid : Str)
    (hu : ∀ i, (cid, i) ∉ s.clients) (f : Str) : (cid, f) ∉ indexEntries s.topics := by
  intro hm
  obtain ⟨i, hi, _⟩ := (IndexSync_iff s).mp h cid f hm
  exact hu i hi

/-- an id whose registered session holds no subscription has no entry in the index -/
theorem IndexSync.no_entry_of_no_subs {s : Server} (h : IndexSync s) (cid : Str)
    (hs : ∀ i, (cid, i) ∈ s.clients → (getObj s i).subs = []) (f : Str) : (cid, f) ∉ indexEntries s.topics := by
  intro hm
  obtain ⟨i, hi, hf⟩ := (IndexSync_iff s).mp h cid f hm
  rw [hs i hi] at hf
  cases hf

theorem detachB_subs_nil (s : Server) (i : Nat) (hi : i < s.objs.length) (h : (getObj s i).subs = []) :
    (getObj (detachB s i) i).subs = [] := by
  unfold detachB
  extract_lets +onlyGivenNames c expire s3 s4 s2
  show (getObj s2 i).subs = []
  show (getObj (if (expire && !c.takenOver) = true then _ else s) i).subs = []
  split
  · show (getObj (unsubscribeClient (clearInflights s i) i) i).subs = []
    exact unsubscribeClient_subs _ i (by rw [(clearInflights_quiet s i).len]; exact hi)
  · exact h

theorem detach_subs_nil (s : Server) (i : Nat) (b : Bool) (hi : i < s.objs.length) (h : (getObj s i).subs = []) :
    (getObj (detach s i b).1 i).subs = [] := by
  unfold detach
  split
  rename_i s1 o1 heq
  have q1 : Quiet s s1 := by
    have := detachA_quiet s i b
    rw [heq] at this; exact this
  exact detachB_subs_nil s1 i (by rw [q1.len]; exact hi) (by rw [(q1.obj i).subs]; exact h)

theorem recvOn_pingreq_subs_nil (s : Server) (conn i : Nat) (hc : assocGet s.connOf conn = some i)
    (hi : i < s.objs.length) (h : (getObj s i).subs = []) :
    (getObj (recvOn s conn .pingreq false).1 i).subs = [] := by
  unfold recvOn
  split
  · exact h
  · rename_i i' hc'
    rw [hc] at hc'
    cases hc'
    split
    · exact h
    · split
      rename_i s1 o e heq
      have q1 : Quiet s s1 := by
        have := receivePacket_quiet s i .pingreq rfl
        rw [heq] at this; exact this
      have hi1 : i < s1.objs.length := by rw [q1.len]; exact hi
      have h1 : (getObj s1 i).subs = [] := by rw [(q1.obj i).subs]; exact h
      split
      · split
        rename_i s2 o2 hd
        have := detach_subs_nil s1 i true hi1 h1
        rw [hd] at this; exact this
      · split
        · split
          rename_i s2 o2 hd
          have := detach_subs_nil s1 i false hi1 h1
          rw [hd] at this; exact this
        · split
          · rename_i hb; cases hb
          · exact h1

/-- a connection with Clean Start starts with no subscription (whether admitted or refused) -/
theorem step_connect_clean_subs {s : Server} (h : SyncInv s) (hw : WF s) (conn : Nat) (k : Connect)
    (hf : conn ∉ s.connOf.map (·.1)) (hcl : k.clean = true) :
    (getObj (step s (.connect conn k)).1 s.objs.length).subs = [] := by
  rw [step]
  split
  rename_i s1 o h1
  obtain ⟨_, _, _, c1, n1⟩ := connect_inv h hw conn k hf
  have g1 := connect_wf s conn k hw hf
  rw [h1] at c1 n1 g1
  replace c1 : s1.connOf = s.connOf ++ [(conn, s.objs.length)] := c1
  replace n1 : (getObj s1 s.objs.length).subs = [] := n1 hcl
  have hc : assocGet s1.connOf conn = some s.objs.length := by rw [c1]; exact assocGet_append_fresh _ _ _ hf
  split
  · rename_i i' hc'
    rw [hc] at hc'
    cases hc'
    split
    · split
      rename_i s2 o2 h2
      have := recvOn_pingreq_subs_nil s1 conn s.objs.length hc
        (g1.conn_valid conn _ (assocGet_mem _ _ _ hc)) n1
      rw [h2] at this
      exact this
    · exact n1
  · exact n1

/-! ### histories that end with a given op -/

theorem run_append (s : Server) (ops : List Op) (op : Op) : run s (ops ++ [op]) = (step (run s ops) op).1 := by
  unfold run
  rw [List.foldl_append]
  rfl

theorem OpsFresh_append {s : Server} {ops : List Op} {op : Op} (h : OpsFresh s (ops ++ [op])) :
    OpsFresh s ops ∧ OpFresh (run s ops) op := by
  induction ops generalizing s with
  | nil => exact ⟨trivial, h.1⟩
  | cons o rest ih =>
    obtain ⟨a, b⟩ := ih h.2
    exact ⟨⟨h.1, a⟩, b⟩

theorem OpsSchedOK_append {s : Server} {ops : List Op} {op : Op} (h : OpsSchedOK s (ops ++ [op])) :
    OpsSchedOK s ops ∧ SchedOK (run s ops) op := by
  induction ops generalizing s with
  | nil => exact ⟨trivial, h.1⟩
  | cons o rest ih =>
    obtain ⟨a, b⟩ := ih h.2
    exact ⟨⟨h.1, a⟩, b⟩

/-! ### (b) the converse: the subscriptions of a registered session are in the index -/

/-- **(b)**, unrestricted: every filter in the `subs` of a registered client object has its entry under that client
    id in the index.  FALSE for `$share` filters, already without schedule ops (`IndexSyncConv_seq_false`). -/
def IndexSyncConv (s : Server) : Prop :=
  ∀ ci ∈ s.clients, ∀ f ∈ subKeys (getObj s ci.2), (ci.1, f) ∈ indexEntries s.topics

instance (s : Server) : Decidable (IndexSyncConv s) := by unfold IndexSyncConv; infer_instance

/-- **(b) for plain filters** (first level not `$share`, in any spelling) -/
def IndexSyncPlain (s : Server) : Prop :=
  ∀ ci ∈ s.clients, ∀ f ∈ subKeys (getObj s ci.2), shareKey f = false → (ci.1, f) ∈ indexEntries s.topics

instance (s : Server) : Decidable (IndexSyncPlain s) := by unfold IndexSyncPlain; infer_instance

theorem SyncInv.indexSyncPlain {s : Server} (h : SyncInv s) (hw : WF s) : IndexSyncPlain s := by
  intro ci hci f hf hs
  obtain ⟨c, i⟩ := ci
  exact (h.ownB c i (assocGet_of_mem_nodup _ _ _ hw.clients_nodup hci) f hf hs).mem h.idx

theorem IndexSyncPlain_step (s : Server) (op : Op) (h : SyncInv s) (hw : WF s) (hfresh : OpFresh s op)
    (hok : SchedOK s op) : IndexSyncPlain (step s op).1 :=
  (SyncInv_step s op h hw hfresh hok).indexSyncPlain (WF_step s op hw hfresh)

theorem IndexSyncPlain_run_partial (caps : Caps) (ops : List Op) (hf : OpsFresh (init caps) ops)
    (hok : OpsSchedOK (init caps) ops) : IndexSyncPlain (run (init caps) ops) :=
  (SyncInv_run caps ops hf hok).indexSyncPlain (WF_run caps ops hf)

theorem IndexSyncPlain_run_seq (caps : Caps) (ops : List Op) (hseq : SeqOps ops) (hf : OpsFresh (init caps) ops) :
    IndexSyncPlain (run (init caps) ops) :=
  IndexSyncPlain_run_partial caps ops hf (hseq.schedOK caps ops hf)

/-- the unrestricted (b), for every history without schedule ops: false -/
def IndexSyncConv_seq_histories : Prop :=
  ∀ (caps : Caps) (ops : List Op), SeqOps ops → OpsFresh (init caps) ops → IndexSyncConv (run (init caps) ops)

/-- `$share/g/a`, `$SHARE/g/a`: two keys of the session's subscription map, ONE entry of the index (the first level
    is compared case-insensitively); UNSUBSCRIBE of the first spelling removes the entry, the session keeps the second -/
def aliasHistory : List Op :=
  [.connect 1 { ver := 5, id := [120], sei := some 100 },
   .recv 1 (.subscribe 1 0 [{ filter := [36, 115, 104, 97, 114, 101, 47, 103, 47, 97] }]),
   .recv 1 (.subscribe 2 0 [{ filter := [36, 83, 72, 65, 82, 69, 47, 103, 47, 97] }]),
   .recv 1 (.unsubscribe 3 [[36, 115, 104, 97, 114, 101, 47, 103, 47, 97]])]

theorem IndexSyncConv_alias_counterexample : ¬ IndexSyncConv (run (init {}) aliasHistory) := by decide

theorem IndexSyncConv_seq_false : ¬ IndexSyncConv_seq_histories :=
  fun h => IndexSyncConv_alias_counterexample (h {} aliasHistory (by decide) (by decide))

/-- the index holds nothing, the session still lists `$SHARE/g/a` … -/
example : indexEntries (run (init {}) aliasHistory).topics = [] := by decide
example : subKeys (getObj (run (init {}) aliasHistory) 1) = [[36, 83, 72, 65, 82, 69, 47, 103, 47, 97]] := by decide
/-- … and a resumed session (Clean Start 0) subscribes to it again -/
example : indexEntries (run (init {}) (aliasHistory ++
    [.connect 2 { ver := 5, id := [120], clean := false, sei := some 100 }])).topics =
    [([120], [36, 83, 72, 65, 82, 69, 47, 103, 47, 97])] := by decide

/-- UNSUBSCRIBE does not validate its filters: `$share/g` (no topic filter after the group) used to address the
    entry of `$share/g/g`, remove it and be answered with reason code 0x00 while the session kept `$share/g/g`
    (defect F06d).  With the fix of `TopicsIndex.Unsubscribe` the index is left alone and the answer is 0x11
    (no subscription existed): session and index both keep `$share/g/g`. -/
def shortShareHistory : List Op :=
  [.connect 1 { ver := 5, id := [120], sei := some 100 },
   .recv 1 (.subscribe 1 0 [{ filter := [36, 115, 104, 97, 114, 101, 47, 103, 47, 103] }]),
   .recv 1 (.unsubscribe 3 [[36, 115, 104, 97, 114, 101, 47, 103]])]

example : IndexSyncConv (run (init {}) shortShareHistory) := by decide
example : indexEntries (run (init {}) shortShareHistory).topics =
    [([120], [36, 115, 104, 97, 114, 101, 47, 103, 47, 103])] := by decide
example : subKeys (getObj (run (init {}) shortShareHistory) 1) = [[36, 115, 104, 97, 114, 101, 47, 103, 47, 103]] := by
  decide
example : (step (run (init {}) (shortShareHistory.take 2)) (.recv 1 (.unsubscribe 3 [[36, 115, 104, 97, 114, 101, 47, 103]]))).2 =
    [.wrote 1 (.unsuback 5 3 [17])] := by decide
/-- (a) is not affected -/
example : IndexSync (run (init {}) aliasHistory) := by decide
example : IndexSync (run (init {}) shortShareHistory) := by decide

end Mochi.Broker
