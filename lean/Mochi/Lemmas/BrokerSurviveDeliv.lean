import Mochi.Lemmas.BrokerSurviveDefs
/-!
# C09 — the delivery family keeps every in-flight record (`Surv`), and the walk through SUBSCRIBE / UNSUBSCRIBE /
PUBLISH (`SurvW`)

A delivery to an object assigns a FRESH packet identifier (`nextPacketID_fresh`): the record it writes never replaces
the record of exchange `k`.
-/
namespace Mochi.Broker
open Mochi.Topics

/-! ### the packet identifier of a new delivery is not in use -/

theorem nextPacketIDLoop_fresh_sv (c : Client) (maxID started : Nat) (fuel i : Nat) (ov : Bool) (pid : Nat)
    (h : nextPacketIDLoop c maxID started fuel i ov = some pid) : flGet c pid = none := by
  induction fuel generalizing i ov with
  | zero => unfold nextPacketIDLoop at h; cases h
  | succ n ih =>
    unfold nextPacketIDLoop at h
    split at h
    · cases h
    · split at h
      · exact ih _ _ h
      · extract_lets i' at h
        split at h
        · rename_i hn
          rw [← Option.some.inj h]
          exact Option.isNone_iff_eq_none.mp hn
        · exact ih _ _ h

theorem nextPacketID_fresh (c : Client) (maxID pid : Nat) (h : nextPacketID c maxID = some pid) :
    flGet c pid = none :=
  nextPacketIDLoop_fresh_sv c maxID c.packetID _ _ _ pid h

/-! ### the delivery family -/

theorem publishToClientCore_surv (k : Nat) (s : Server) (i : Nat) (sub : Sub) (f : Bool) (pk : Msg) :
    Surv k s (publishToClientCore s i sub f pk).1 := by
  unfold publishToClientCore
  extract_lets c out
  split
  rename_i c1 out1 heq
  have hc1 : RK k c c1 := by
    split at heq
    · split at heq
      rename_i c' a ex h2
      have h3 := RK.aliasOutSet' k c pk.topic
      rw [h2] at h3
      split at heq <;> (cases heq; exact h3)
    · cases heq; exact RK.refl k _
  clear heq
  extract_lets s1
  have hs1 : Surv k s s1 := (Surv.refl k s).set i c1 hc1
  split
  · split
    · exact hs1.upd rfl
    · split
      · exact hs1.upd rfl
      · rename_i pid hpid
        have hfresh : flGet c1 pid = none := nextPacketID_fresh c1 _ pid hpid
        have hm : ∀ p, Rec c k p → pid ≠ k := fun p r => (hc1.keep p r).ne_of_none hfresh
        extract_lets c2 out2 sentQuota
        have hc2 : RK k c c2 := hc1.trans (by rk_rfl)
        split
        rename_i c3 isNew hfl
        have hc3 : RK k c c3 := by
          have := hc2.flSet_if out2 hm
          rw [hfl] at this
          exact this
        extract_lets c4 s2 src s3
        have hc4 : RK k c c4 := by
          show RK k c (if isNew = true then decSend c3 else c3)
          split
          · exact hc3.decSend
          · exact hc3
        have hs2 : Surv k s s2 := hs1.set i c4 hc4
        have hs3 : Surv k s s3 := by
          show Surv k s (if isNew = true then _ else _)
          split
          · exact hs2.upd rfl
          · exact hs2
        split
        · exact hs3.set i _ (hc4.flSet_if _ hm)
        · split <;> exact hs3
  · split <;> exact hs1

theorem publishToClient_surv (k : Nat) (s : Server) (i : Nat) (sub : Sub) (f : Bool) (pk : Msg) :
    Surv k s (publishToClient s i sub f pk).1 := by
  unfold publishToClient
  split
  · exact Surv.refl k s
  · split
    · exact Surv.refl k s
    · exact publishToClientCore_surv k s i sub f pk

theorem publishToSubscribers_surv (k : Nat) (s : Server) (pk : Msg) : Surv k s (publishToSubscribers s pk).1 := by
  unfold publishToSubscribers
  split
  · exact Surv.refl k s
  · extract_lets e pk' r subsMap inl
    refine foldl_inv (fun (acc : Server × List Out) => Surv k s acc.1) _ _ _ (Surv.refl k s) ?_
    intro acc cs h
    split
    · exact h
    · rename_i j _
      split
      rename_i s' o heq
      have := publishToClient_surv k acc.1 j cs.2 false pk'
      rw [heq] at this
      exact h.trans this

theorem publishRetainedToClient_surv (k : Nat) (s : Server) (i : Nat) (sub : Sub) (ex : Bool) (n : Nat) :
    Surv k s (publishRetainedToClient s i sub ex n).1 := by
  unfold publishRetainedToClient
  split
  · exact Surv.refl k s
  · split
    · exact Surv.refl k s
    · extract_lets sub'
      refine foldl_inv (fun (acc : Server × List Out) => Surv k s acc.1) _ _ _ (Surv.refl k s) ?_
      intro acc r h
      split
      · exact h
      · rename_i m _
        split
        rename_i s' o heq
        have := publishToClient_surv k acc.1 i sub' true m
        rw [heq] at this
        exact h.trans this

theorem retainMsg_surv (k : Nat) (s : Server) (pk : Msg) : Surv k s (retainMsg s pk) := by
  unfold retainMsg
  split
  · exact Surv.refl k s
  · exact (Surv.refl k s).upd rfl

/-! ### closing the acting object's connection -/

theorem stopClient_surv (k : Nat) (s : Server) (i : Nat) : Surv k s (stopClient s i).1 := by
  unfold stopClient
  extract_lets +onlyGivenNames c
  split
  · exact Surv.refl k s
  · exact (Surv.refl k s).set i _ (by rk_rfl)

theorem disconnectClient_surv (k : Nat) (s : Server) (i code : Nat) : Surv k s (disconnectClient s i code).1 := by
  unfold disconnectClient
  extract_lets +onlyGivenNames c w
  split
  rename_i s' o heq
  have := stopClient_surv k s i
  rw [heq] at this
  exact this

/-! ### SUBSCRIBE / UNSUBSCRIBE: the acting object's in-flight list is never touched -/

theorem processUnsubscribe_surv (k : Nat) (s : Server) (i id : Nat) (filters : List Str) :
    SurvW i k True s (processUnsubscribe s i id filters).1 := by
  unfold processUnsubscribe
  extract_lets +onlyGivenNames c inUse r
  have hr : SurvW i k True s r.1 := by
    refine foldl_inv (fun (acc : Server × List Nat) => SurvW i k True s acc.1) _ _ _ (SurvW.refl i k True s) ?_
    intro acc f h
    split
    rename_i s' rcs
    split
    · exact h
    · extract_lets rr src s1 s2
      show SurvW i k True s s2
      refine (h.upd (s' := s1) rfl).mod _ (fun _ => ?_)
      rk_rfl
  generalize r = r' at hr
  split
  rename_i s' rcs
  extract_lets c'
  split <;> exact hr

theorem processSubscribe_surv (k : Nat) (s : Server) (i id subId : Nat) (filters : List Sub) :
    SurvW i k True s (processSubscribe s i id subId filters).1 := by
  unfold processSubscribe
  extract_lets +onlyGivenNames c inUse fin r
  have hr : SurvW i k True s r.1 := by
    refine foldl_inv (fun (acc : Server × List Nat × List Bool) => SurvW i k True s acc.1) _ _ _
      (SurvW.refl i k True s) ?_
    intro acc sub h
    split
    rename_i s' rcs exs
    extract_lets +onlyGivenNames sub'
    split
    · exact h
    · split
      · exact h
      · split
        · exact h
        · split
          · exact h
          · extract_lets +onlyGivenNames rr src s1 s2
            show SurvW i k True s s2
            refine (h.upd (s' := s1) rfl).mod _ (fun _ => ?_)
            rk_rfl
  generalize r = r' at hr
  split
  rename_i s' rcs exs
  extract_lets +onlyGivenNames c'
  split
  · exact hr
  · extract_lets +onlyGivenNames o1 z
    show SurvW i k True s z.1
    refine foldl_inv (fun (acc : Server × List Out) => SurvW i k True s acc.1) _ _ _ hr ?_
    intro acc xk h
    extract_lets +onlyGivenNames x
    split
    · exact h
    · extract_lets +onlyGivenNames src sub'
      split
      rename_i s2 o heq
      have := publishRetainedToClient_surv k acc.1 i sub' x.2.2 xk.2
      rw [heq] at this
      exact h.surv this

/-! ### PUBLISH: the acting object's record under the packet's OWN identifier may go (F10) — no other -/

theorem processPublish_surv (k : Nat) (s : Server) (i : Nat) (qos : Nat) (dup retain : Bool) (id : Nat)
    (topic payload : Str) (msgExpiry : Nat) (alias : Option Nat) :
    SurvW i k (id ≠ k) s (processPublish s i qos dup retain id topic payload msgExpiry alias).1 := by
  unfold processPublish
  extract_lets +onlyGivenNames c
  -- the three early exits share one shape
  have early : ∀ code, SurvW i k (id ≠ k) s
      (if (qos == 0) = true then ((s, [], none) : HRes)
        else if (c.ver != 5) = true then
          match disconnectClient s i code with
          | (s, o) => (s, o, some code)
        else ackRes s i (if (qos == 2) = true then 5 else 4) id code).1 := by
    intro code
    split
    · exact SurvW.refl i k _ s
    · split
      · split
        rename_i s' o heq
        have := disconnectClient_surv k s i code
        rw [heq] at this
        exact this.w i _
      · rw [ackRes_fst]; exact SurvW.refl i k _ s
  refine SurvW.ite_res (fun _ => early _) (fun _ => ?_)
  · refine SurvW.ite_res (fun _ => ?_) (fun _ => ?_)
    · split
      rename_i s' o heq
      have := disconnectClient_surv k s i 0x93
      rw [heq] at this
      exact this.w i _
    · refine SurvW.ite_res (fun _ => early _) (fun _ => ?_)
      · extract_lets +onlyGivenNames e pk pre
        have hpre : ∀ r, pre = some r → r.1 = s := by
          intro r h
          simp only [pre] at h
          split at h
          · cases h
          · split at h
            · split at h
              · cases h; exact ackRes_fst s i 5 id 0x91
              · cases h
            · cases h
        generalize pre = pre' at hpre
        split
        · rename_i r
          rw [hpre r rfl]
          exact SurvW.refl i k _ s
        · clear hpre
          split
          rename_i s1 c1 heq
          have h1 : SurvW i k (id ≠ k) s s1 ∧ (id ≠ k → RK k (getObj s1 i) c1) := by
            split at heq
            · cases heq
              exact ⟨((SurvW.refl i k _ s).set _ (fun hne => RK.flDelete_ne' k c id hne)).upd rfl,
                     fun hne => RK.get_set (RK.flDelete_ne' k c id hne) (RK.refl k _)⟩
            · cases heq
              exact ⟨SurvW.refl i k _ s, fun _ => RK.refl k _⟩
          clear heq
          obtain ⟨hs1, ho1⟩ := h1
          split
          rename_i c2 pk2 heq
          have hc2 : RK k c1 c2 := by
            split at heq
            · split at heq
              · split at heq
                · cases heq; exact RK.refl k _
                · split at heq
                  · split at heq
                    · cases heq; exact RK.refl k _
                    · cases heq; rk_rfl
                  · cases heq; rk_rfl
              · cases heq; exact RK.refl k _
            · cases heq; exact RK.refl k _
          clear heq
          extract_lets +onlyGivenNames s2
          have hs2 : SurvW i k (id ≠ k) s s2 := hs1.set c2 (fun hne => (ho1 hne).trans hc2)
          split
          · split
            rename_i s' o heq
            have := disconnectClient_surv k s2 i 0x82
            rw [heq] at this
            exact hs2.surv this
          extract_lets +onlyGivenNames pk3 mode
          split
          · exact hs2
          · split
            · rw [ackRes_fst]; exact hs2
            · extract_lets +onlyGivenNames pk4 s3
              have hs3 : SurvW i k (id ≠ k) s s3 := by
                show SurvW i k (id ≠ k) s (if pk4.retain = true then retainMsg s2 pk4 else s2)
                split
                · exact hs2.surv (retainMsg_surv k s2 pk4)
                · exact hs2
              split
              · split
                rename_i s4 o heq
                have := publishToSubscribers_surv k s3 pk4
                rw [heq] at this
                exact hs3.surv this
              · extract_lets +onlyGivenNames s4 ackT ackRC ack
                have hs4 : SurvW i k (id ≠ k) s s4 := hs3.mod decRecv (fun _ => RK.decRecv' k _)
                split
                rename_i c5 isNew heq
                have hc5 : id ≠ k → RK k (getObj s4 i) c5 := by
                  intro hne
                  have := RK.flSet_ne' k (getObj s4 i) ack hne
                  rw [heq] at this
                  exact this
                clear heq
                extract_lets +onlyGivenNames s5 src s6
                have hs5 : SurvW i k (id ≠ k) s s5 := hs4.set c5 hc5
                have hs6 : SurvW i k (id ≠ k) s s6 := by
                  show SurvW i k (id ≠ k) s (if isNew = true then _ else s5)
                  split
                  · exact hs5.upd rfl
                  · exact hs5
                split
                · exact hs6
                · extract_lets +onlyGivenNames o1 s7
                  have hs7 : SurvW i k (id ≠ k) s s7 := by
                    show SurvW i k (id ≠ k) s (if (pk4.qos == 1) = true then _ else s6)
                    split
                    · split
                      rename_i c6 ok heq
                      have hc6 : id ≠ k → RK k (getObj s6 i) c6 := by
                        intro hne
                        have := RK.flDelete_ne' k (getObj s6 i) id hne
                        rw [heq] at this
                        exact this
                      extract_lets +onlyGivenNames s8
                      have hs8 : SurvW i k (id ≠ k) s s8 := hs6.set _ (fun hne => (hc6 hne).incRecv)
                      split
                      · exact hs8.upd rfl
                      · exact hs8
                    · exact hs6
                  split
                  rename_i s9 o2 heq
                  have := publishToSubscribers_surv k s7 pk4
                  rw [heq] at this
                  exact hs7.surv this

end Mochi.Broker
