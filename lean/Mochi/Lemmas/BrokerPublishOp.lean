import Mochi.Lemmas.BrokerDelivery
/-!
# From the inbound PUBLISH op to the call of `publishToSubscribers` (C03, end to end)

`step s (.recv conn (.publish …))` runs `recvOn` → `receivePacket` → `publishValidate` → `processPublish` → (gates)
→ `publishToSubscribers`, then the release of a deferred message (`nextImmediate`) and the harness's barrier PINGREQ.
This file proves that for an ACCEPTED publish the whole op is that one call, in an explicit state with an explicit
message (`inboundMsg`, `retainedState`).
-/
namespace Mochi.Broker
open Mochi.Topics

/-- the message `processPublish` builds from an inbound PUBLISH of client object `i` (no topic alias) -/
def inboundMsg (s : Server) (i : Nat) (qos : Nat) (dup retain : Bool) (id : Nat) (topic payload : Str)
    (msgExpiry : Nat) : Msg :=
  { type := 3, id := id, qos := qos, dup := dup, retain := retain, topic := topic, payload := payload,
    origin := (getObj s i).id, created := NOW,
    expiry := if minimumNZ s.caps.maxMessageExpiry msgExpiry > 0 then NOW + minimumNZ s.caps.maxMessageExpiry msgExpiry else 0,
    ver := (getObj s i).ver, msgExpiry := msgExpiry }

/-- the state in which an accepted publish is routed: the retained store updated when the message has the retain flag -/
def retainedState (s : Server) (pk : Msg) : Server := if pk.retain then retainMsg s pk else s

theorem setObj_getObj_self (s : Server) (i : Nat) : setObj s i (getObj s i) = s := by
  unfold setObj getObj
  have : s.objs.set i (s.objs.getD i {}) = s.objs := by
    by_cases h : i < s.objs.length
    · rw [List.getD_eq_getElem?_getD, List.getElem?_eq_getElem h]
      exact List.set_getElem_self h
    · exact List.set_eq_of_length_le (Nat.le_of_not_lt h)
  rw [this]

/-- **Item 1, QoS 0.**  An accepted QoS 0 publish of a network client IS the call of `publishToSubscribers` in the
    state with the retained store updated, for the explicit message `inboundMsg`. -/
theorem processPublish_accepted_shape (s : Server) (i : Nat) (dup retain : Bool) (id : Nat) (topic payload : Str)
    (me : Nat)
    (hin : (getObj s i).inline = false) (hv : isValidFilter topic true = true)
    (hrq : (getObj s i).recvQuota ≠ 0) (hacl : aclOk s (getObj s i).id topic true = true)
    (hfl : flGet (getObj s i) id = none) (hne : topic ≠ [])
    (hhook : assocGet s.pubHook topic = none) :
    processPublish s i 0 dup retain id topic payload me none =
      ((publishToSubscribers (retainedState s (inboundMsg s i 0 dup retain id topic payload me))
          (inboundMsg s i 0 dup retain id topic payload me)).1,
       (publishToSubscribers (retainedState s (inboundMsg s i 0 dup retain id topic payload me))
          (inboundMsg s i 0 dup retain id topic payload me)).2, none) := by
  have hrq' : ((getObj s i).recvQuota == 0) = false := by simpa using hrq
  have hne' : topic.isEmpty = false := by cases topic <;> simp_all
  unfold processPublish
  simp only [hin, hv, hacl, hrq', hfl, Bool.not_false, Bool.not_true, Bool.true_and,
    Bool.false_eq_true, if_false, Option.isSome_none, setObj_getObj_self, hne']
  have h0 : ¬ (0 > s.caps.maximumQos) := Nat.not_lt_zero _
  have hr : ((none : Option String) == some "reject") = false := by decide
  have he : ((none : Option String) == some "err") = false := by decide
  have hi : ((none : Option String) == some "ignore") = false := by decide
  simp only [h0, if_false, hhook, hr, he, hi, Bool.false_and, Bool.false_eq_true]
  rw [if_pos (by decide)]
  rfl

/-- the PUBACK record `processPublish` files (and, for QoS 1, removes again) for an inbound QoS 1 publish -/
def pubackMsg (s : Server) (id : Nat) : Msg :=
  { type := 4, id := id, reasonCode := 1, created := NOW, expiry := NOW + s.caps.maxMessageExpiry }

/-- the state in which the PUBACK of an accepted QoS 1 publish is written: receive quota taken, the PUBACK filed as
    an in-flight record of the publisher (`s0`: the state with the retained store updated) -/
def pubackFiled (s0 : Server) (i id : Nat) : Server :=
  let s2 := modObj s0 i decRecv
  let r := flSet (getObj s2 i) (pubackMsg s2 id)
  let s3 := setObj s2 i r.1
  if r.2 then { s3 with info := { s3.info with inflight := s3.info.inflight + 1 } } else s3

/-- … and the state in which the QoS 1 message is then routed: the record removed, the quota returned -/
def pubackDone (s4 : Server) (i id : Nat) : Server :=
  let r := flDelete (getObj s4 i) id
  let s5 := setObj s4 i (incRecv r.1)
  if r.2 then { s5 with info := { s5.info with inflight := s5.info.inflight - 1 } } else s5

/-- **Item 1, QoS 1.**  An accepted QoS 1 publish: the PUBACK is written first (`o1`), then the message is routed by
    `publishToSubscribers`; the outputs are `o1 ++ o2`.  Extra hypotheses: the broker grants QoS 1
    (`maximumQos ≥ 1`, else the message is downgraded to QoS 0) and the publisher's connection is alive (else the
    handler's own write fails and nothing is routed). -/
theorem processPublish_accepted_shape_qos1 (s : Server) (i : Nat) (dup retain : Bool) (id : Nat) (topic payload : Str)
    (me : Nat)
    (hin : (getObj s i).inline = false) (hv : isValidFilter topic true = true)
    (hrq : (getObj s i).recvQuota ≠ 0) (hacl : aclOk s (getObj s i).id topic true = true)
    (hfl : flGet (getObj s i) id = none) (hne : topic ≠ [])
    (hhook : assocGet s.pubHook topic = none) (hmq : 1 ≤ s.caps.maximumQos)
    (hlive : dead (getObj (pubackFiled (retainedState s (inboundMsg s i 1 dup retain id topic payload me)) i id) i) = false) :
    processPublish s i 1 dup retain id topic payload me none =
      ((publishToSubscribers
          (pubackDone (pubackFiled (retainedState s (inboundMsg s i 1 dup retain id topic payload me)) i id) i id)
          (inboundMsg s i 1 dup retain id topic payload me)).1,
       writeMsg (pubackFiled (retainedState s (inboundMsg s i 1 dup retain id topic payload me)) i id) i
          (pubackMsg (retainedState s (inboundMsg s i 1 dup retain id topic payload me)) id) ++
       (publishToSubscribers
          (pubackDone (pubackFiled (retainedState s (inboundMsg s i 1 dup retain id topic payload me)) i id) i id)
          (inboundMsg s i 1 dup retain id topic payload me)).2, none) := by
  have hrq' : ((getObj s i).recvQuota == 0) = false := by simpa using hrq
  have hne' : topic.isEmpty = false := by cases topic <;> simp_all
  unfold processPublish
  simp only [hin, hv, hacl, hrq', hfl, Bool.not_false, Bool.not_true, Bool.true_and,
    Bool.false_eq_true, if_false, Option.isSome_none, setObj_getObj_self, hne']
  have h0 : ¬ (1 > s.caps.maximumQos) := by omega
  have hr : ((none : Option String) == some "reject") = false := by decide
  have he : ((none : Option String) == some "err") = false := by decide
  have hi : ((none : Option String) == some "ignore") = false := by decide
  simp only [h0, if_false, hhook, hr, he, hi, Bool.false_and, Bool.false_eq_true]
  rw [if_neg (by decide)]
  have hl : ¬ (dead (getObj (pubackFiled (retainedState s (inboundMsg s i 1 dup retain id topic payload me)) i id) i)
      = true) := by rw [hlive]; exact Bool.false_ne_true
  refine (if_neg hl).trans ?_
  rfl

end Mochi.Broker
