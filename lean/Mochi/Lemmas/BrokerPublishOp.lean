import Mochi.Lemmas.BrokerDelivery
import Mochi.Lemmas.ScanMsgs
/-!
# From the inbound PUBLISH op to the call of `publishToSubscribers` (C03, end to end)

`step s (.recv conn (.publish …))` runs `recvOn` → `receivePacket` → `publishValidate` → `processPublish` → (gates)
→ `publishToSubscribers`, then the release of a deferred message (`nextImmediate`) and the harness's barrier PINGREQ.
This file proves that for an ACCEPTED publish the whole op is that one call, in an explicit state with an explicit
message (`inboundMsg`, `retainedState`):

* `processPublish_accepted_shape` (QoS 0), `processPublish_accepted_shape_record` (a non-PUBREC in-flight record under
  the packet id is dropped first), `processPublish_accepted_shape_qos1` / `processPublish_accepted_qos1` (QoS 1: the
  PUBACK first, then the same call in the same state — `pubackDone_pubackFiled`), `processPublish_inline_shape`;
* `publishToSubscribers_q0_keep`: routing a message that is QoS 0 after shaping files nothing (in-flight records and
  send quota of every object kept) — so `nextImmediate` after it sees the publisher's in-flight records of before;
* `nextImmediate_none`, `nextImmediate_out`, `nextImmediate_after`: when and what a release writes;
* `step_recv_publish_accepted`, `step_inlinePublish_accepted`: **the op is the call**;
  `step_recv_publish_outputs`, `step_recv_publish_releases`: the op in general (with the release tail);
* `subscribers_shared_retainMessage`, `retainedState_shared`, `retainedState_inv`, `entitledF03_retainedState`:
  retaining the message changes neither "no shared subscription matches the topic", nor the invariants, nor who is
  entitled — so everything can be stated in the state BEFORE the op.
The delivery theorems built on these are in `Mochi/Props/C03.lean` (`recv_publish_delivery_exact`, …).
-/
namespace Mochi.Topics

/-! ### retaining a message does not change which shared subscriptions a topic matches -/

/-- the particle holds a shared subscription -/
def pShared (n : Node) : Option Unit := if sharedLen n.shared = 0 then none else some ()

theorem deadNone_pShared : DeadNone pShared := by
  intro n hd
  unfold pShared
  rw [if_pos hd.2.2.1]

theorem assocSet_ne_nil {α β} [DecidableEq α] (m : List (α × β)) (k : α) (v : β) : assocSet m k v ≠ [] := by
  cases m with
  | nil => simp [assocSet]
  | cons x xs =>
    obtain ⟨a, b⟩ := x
    unfold assocSet
    split <;> simp

theorem gatherSharedOne_ne_nil (m : List (Str × List (Str × Sub))) (cs : Str × Sub) : gatherSharedOne m cs ≠ [] := by
  unfold gatherSharedOne
  split
  · simp
  · exact assocSet_ne_nil _ _ _

theorem sharedInner_nil (g : List (Str × Sub)) (m : List (Str × List (Str × Sub))) :
    g.foldl gatherSharedOne m = [] ↔ m = [] ∧ g = [] := by
  induction g generalizing m with
  | nil => simp
  | cons c rest ih =>
    rw [List.foldl_cons, ih]
    constructor
    · rintro ⟨h, _⟩; exact absurd h (gatherSharedOne_ne_nil m c)
    · rintro ⟨_, h⟩; cases h

theorem sharedOuter_nil (sh : List (Str × List (Str × Sub))) (m : List (Str × List (Str × Sub))) :
    sh.foldl (fun m g => g.2.foldl gatherSharedOne m) m = [] ↔ m = [] ∧ sharedLen sh = 0 := by
  induction sh generalizing m with
  | nil => simp [sharedLen]
  | cons g rest ih =>
    rw [List.foldl_cons, ih, sharedInner_nil]
    have : sharedLen (g :: rest) = g.2.length + sharedLen rest := by simp [sharedLen]
    rw [this]
    constructor
    · rintro ⟨⟨h1, h2⟩, h3⟩
      exact ⟨h1, by rw [h2, h3]; rfl⟩
    · rintro ⟨h1, h2⟩
      exact ⟨⟨h1, List.eq_nil_of_length_eq_zero (by omega)⟩, by omega⟩

theorem pShared_none_iff (n : Node) : pShared n = none ↔ sharedLen n.shared = 0 := by
  unfold pShared
  split <;> simp_all

/-- gathering along a visit list finds no shared subscription iff none of the visited particles (that the `$` rule
    does not skip) holds one -/
theorem shared_fold_nil (ns : List Node) (topic : Str) (L : List Gather) (acc : Subscribers) :
    (L.foldl (gatherStep ns topic) acc).shared = [] ↔
      acc.shared = [] ∧ ∀ q, Gather.shared q ∈ L → (topicDollar topic && wildStart q) = false →
        (getNode ns q).bind pShared = none := by
  induction L generalizing acc with
  | nil => simp
  | cons g rest ih =>
    rw [List.foldl_cons, ih]
    cases g with
    | subs p =>
      have : (gatherStep ns topic acc (Gather.subs p)).shared = acc.shared := by
        simp only [gatherStep]; cases getNode ns p <;> rfl
      rw [this]
      constructor
      · rintro ⟨h1, h2⟩
        refine ⟨h1, fun q hq => ?_⟩
        rcases List.mem_cons.mp hq with h | h
        · cases h
        · exact h2 q h
      · rintro ⟨h1, h2⟩
        exact ⟨h1, fun q hq => h2 q (List.mem_cons_of_mem _ hq)⟩
    | inline p =>
      have : (gatherStep ns topic acc (Gather.inline p)).shared = acc.shared := by
        simp only [gatherStep]; cases getNode ns p <;> simp only <;> split <;> rfl
      rw [this]
      constructor
      · rintro ⟨h1, h2⟩
        refine ⟨h1, fun q hq => ?_⟩
        rcases List.mem_cons.mp hq with h | h
        · cases h
        · exact h2 q h
      · rintro ⟨h1, h2⟩
        exact ⟨h1, fun q hq => h2 q (List.mem_cons_of_mem _ hq)⟩
    | shared p =>
      have key : (gatherStep ns topic acc (Gather.shared p)).shared = [] ↔
          acc.shared = [] ∧ ((topicDollar topic && wildStart p) = false → (getNode ns p).bind pShared = none) := by
        simp only [gatherStep]
        cases hn : getNode ns p with
        | none => simp
        | some n =>
          simp only [Option.bind_some]
          by_cases hd : (topicDollar topic && wildStart p) = true
          · rw [if_pos hd]; simp [hd]
          · have hd' : (topicDollar topic && wildStart p) = false := by simpa using hd
            rw [if_neg hd]
            show n.shared.foldl _ acc.shared = [] ↔ _
            rw [sharedOuter_nil, pShared_none_iff]
            simp [hd']
      rw [key]
      constructor
      · rintro ⟨⟨h1, h0⟩, h2⟩
        refine ⟨h1, fun q hq => ?_⟩
        rcases List.mem_cons.mp hq with h | h
        · injection h with h; subst h; exact h0
        · exact h2 q h
      · rintro ⟨h1, h2⟩
        exact ⟨⟨h1, h2 p List.mem_cons_self⟩, fun q hq => h2 q (List.mem_cons_of_mem _ hq)⟩

/-- **no shared subscription matches the topic**, in terms of the particles: no particle whose address matches the
    topic (and that the `$` rule does not skip) holds a shared subscription -/
theorem subscribers_shared_nil_iff (x : Index) (hpc : PrefixClosed x.nodes) (topic : Str)
    (hne : topic ≠ []) (hnh : ∀ t ∈ splitLevels topic, t ≠ [hash]) :
    (subscribers x topic).shared = [] ↔
      ∀ q, matchLv q (splitLevels topic) = true → (topicDollar topic && wildStart q) = false →
        (getNode x.nodes q).bind pShared = none := by
  unfold subscribers
  have : topic.isEmpty = false := by cases topic <;> simp_all
  simp only [this, Bool.false_eq_true, if_false]
  rw [shared_fold_nil]
  have hscan : ∀ q, Gather.shared q ∈ scanVisits x.nodes [] (splitLevels topic) ↔
      hasNode x.nodes q = true ∧ matchLv q (splitLevels topic) = true := by
    intro q
    rw [scan_iff Gather.shared mem_gatherAll_shared _ hpc _ (splitLevels_ne_nil topic) hnh]
    simp
  constructor
  · rintro ⟨_, h⟩ q hm hd
    cases hn : getNode x.nodes q with
    | none => rfl
    | some n =>
      rw [← hn]
      refine h q ((hscan q).mpr ⟨?_, hm⟩) hd
      rw [hasNode_iff]
      exact ⟨n, getNode_mem hn, getNode_path hn⟩
  · intro h
    exact ⟨rfl, fun q hq hd => h q ((hscan q).mp hq).2 hd⟩

/-- retaining (or clearing) a message leaves "no shared subscription matches `topic`" as it was -/
theorem subscribers_shared_retainMessage (x : Index) (hx : IdxOK x) (t p : Str) (fl : Bool) (topic : Str)
    (hne : topic ≠ []) (hnh : ∀ t ∈ splitLevels topic, t ≠ [hash]) :
    (subscribers (retainMessage x t p fl).1 topic).shared = [] ↔ (subscribers x topic).shared = [] := by
  rw [subscribers_shared_nil_iff _ (idxOK_retainMessage x hx t p fl).pc topic hne hnh,
    subscribers_shared_nil_iff x hx.pc topic hne hnh]
  constructor
  · intro h q hm hd
    rw [← retainMessage_look x t p fl pShared deadNone_pShared (fun _ _ => rfl) q]
    exact h q hm hd
  · intro h q hm hd
    rw [retainMessage_look x t p fl pShared deadNone_pShared (fun _ _ => rfl) q]
    exact h q hm hd

end Mochi.Topics

namespace Mochi.Broker
open Mochi.Topics

/-- the message `processPublish` builds from an inbound PUBLISH of client object `i` (no topic alias) -/
def inboundMsg (s : Server) (i : Nat) (qos : Nat) (dup retain : Bool) (id : Nat) (topic payload : Str)
    (msgExpiry : Nat) : Msg :=
  { type := 3, id := id, qos := qos, dup := dup, retain := retain, topic := topic, payload := payload,
    origin := (getObj s i).id, created := NOW,
    expiry := if minimumNZ s.caps.maxMessageExpiry msgExpiry > 0 then NOW + minimumNZ s.caps.maxMessageExpiry msgExpiry else 0,
    ver := (getObj s i).ver, msgExpiry := msgExpiry }

/-- the state in which an accepted publish is routed: the retained store updated when the message has the retain flag -/
def retainedState (s : Server) (pk : Msg) : Server := if pk.retain then retainMsg s pk else s

theorem retainMsg_objs (s : Server) (pk : Msg) : (retainMsg s pk).objs = s.objs := by
  unfold retainMsg; split <;> rfl

theorem retainedState_objs (s : Server) (pk : Msg) : (retainedState s pk).objs = s.objs := by
  unfold retainedState; split
  · exact retainMsg_objs s pk
  · rfl

theorem getObj_retainedState (s : Server) (pk : Msg) (k : Nat) : getObj (retainedState s pk) k = getObj s k :=
  getObj_of_objs_eq (retainedState_objs s pk) k

theorem setObj_getObj_self (s : Server) (i : Nat) : setObj s i (getObj s i) = s := by
  unfold setObj getObj
  have : s.objs.set i (s.objs.getD i {}) = s.objs := by
    by_cases h : i < s.objs.length
    · rw [List.getD_eq_getElem?_getD, List.getElem?_eq_getElem h]
      exact List.set_getElem_self h
    · exact List.set_eq_of_length_le (Nat.le_of_not_lt h)
  rw [this]

/-- **Item 1, QoS 0.**  An accepted QoS 0 publish of a network client IS the call of `publishToSubscribers` in the
    state with the retained store updated, for the explicit message `inboundMsg`. -/
theorem processPublish_accepted_shape (s : Server) (i : Nat) (dup retain : Bool) (id : Nat) (topic payload : Str)
    (me : Nat)
    (hin : (getObj s i).inline = false) (hv : isValidFilter topic true = true)
    (hrq : (getObj s i).recvQuota ≠ 0) (hacl : aclOk s (getObj s i).id topic true = true)
    (hfl : flGet (getObj s i) id = none) (hne : topic ≠ [])
    (hhook : assocGet s.pubHook topic = none) :
    processPublish s i 0 dup retain id topic payload me none =
      ((publishToSubscribers (retainedState s (inboundMsg s i 0 dup retain id topic payload me))
          (inboundMsg s i 0 dup retain id topic payload me)).1,
       (publishToSubscribers (retainedState s (inboundMsg s i 0 dup retain id topic payload me))
          (inboundMsg s i 0 dup retain id topic payload me)).2, none) := by
  have hrq' : ((getObj s i).recvQuota == 0) = false := by simpa using hrq
  have hne' : topic.isEmpty = false := by cases topic <;> simp_all
  unfold processPublish
  simp only [hin, hv, hacl, hrq', hfl, Bool.not_false, Bool.not_true, Bool.true_and,
    Bool.false_eq_true, if_false, Option.isSome_none, setObj_getObj_self, hne']
  have h0 : ¬ (0 > s.caps.maximumQos) := Nat.not_lt_zero _
  have hr : ((none : Option String) == some "reject") = false := by decide
  have he : ((none : Option String) == some "err") = false := by decide
  have hi : ((none : Option String) == some "ignore") = false := by decide
  simp only [h0, if_false, hhook, hr, he, hi, Bool.false_and, Bool.false_eq_true]
  rw [if_pos (by decide)]
  rfl

/-- the state after `processPublish` dropped the in-flight record the client held under the packet id of its new
    PUBLISH (a record that is not a PUBREC: the id is being reused) -/
def recordDropped (s : Server) (i id : Nat) : Server :=
  setObj { setObj s i (flDelete (getObj s i) id).1 with info := { s.info with inflight := s.info.inflight - 1 } } i
    (flDelete (getObj s i) id).1

/-- **Item 1, QoS 0, with an in-flight record under the packet id** that is not a PUBREC: the record is dropped
    first, then the message is routed as in `processPublish_accepted_shape` -/
theorem processPublish_accepted_shape_record (s : Server) (i : Nat) (dup retain : Bool) (id : Nat) (topic payload : Str)
    (me : Nat) (pki : Msg)
    (hin : (getObj s i).inline = false) (hv : isValidFilter topic true = true)
    (hrq : (getObj s i).recvQuota ≠ 0) (hacl : aclOk s (getObj s i).id topic true = true)
    (hfl : flGet (getObj s i) id = some pki) (hty : pki.type ≠ 5) (hne : topic ≠ [])
    (hhook : assocGet s.pubHook topic = none) :
    processPublish s i 0 dup retain id topic payload me none =
      ((publishToSubscribers (retainedState (recordDropped s i id) (inboundMsg s i 0 dup retain id topic payload me))
          (inboundMsg s i 0 dup retain id topic payload me)).1,
       (publishToSubscribers (retainedState (recordDropped s i id) (inboundMsg s i 0 dup retain id topic payload me))
          (inboundMsg s i 0 dup retain id topic payload me)).2, none) := by
  have hrq' : ((getObj s i).recvQuota == 0) = false := by simpa using hrq
  have hne' : topic.isEmpty = false := by cases topic <;> simp_all
  have hty' : (pki.type == 5) = false := by simpa using hty
  unfold processPublish
  simp only [hin, hv, hacl, hrq', hfl, hty', Bool.not_false, Bool.not_true, Bool.true_and,
    Bool.false_eq_true, if_false, if_true, Option.isSome_some, hne']
  have h0 : ¬ (0 > s.caps.maximumQos) := Nat.not_lt_zero _
  have hr : ((none : Option String) == some "reject") = false := by decide
  have he : ((none : Option String) == some "err") = false := by decide
  have hi : ((none : Option String) == some "ignore") = false := by decide
  have hh : assocGet (recordDropped s i id).pubHook topic = none := hhook
  have hS : setObj { setObj s i (flDelete (getObj s i) id).1 with
      info := { s.info with inflight := s.info.inflight - 1 } } i (flDelete (getObj s i) id).1 = recordDropped s i id := rfl
  simp only [Bool.and_false, Bool.false_eq_true, if_false, hS, gt_iff_lt, Nat.not_lt_zero, hh, hr, he, hi,
    Bool.false_and]
  rw [if_pos (by rfl)]
  rfl

/-- the PUBACK record `processPublish` files (and, for QoS 1, removes again) for an inbound QoS 1 publish -/
def pubackMsg (s : Server) (id : Nat) : Msg :=
  { type := 4, id := id, reasonCode := 1, created := NOW, expiry := NOW + s.caps.maxMessageExpiry }

/-- the state in which the PUBACK of an accepted QoS 1 publish is written: receive quota taken, the PUBACK filed as
    an in-flight record of the publisher (`s0`: the state with the retained store updated) -/
def pubackFiled (s0 : Server) (i id : Nat) : Server :=
  let s2 := modObj s0 i decRecv
  let r := flSet (getObj s2 i) (pubackMsg s2 id)
  let s3 := setObj s2 i r.1
  if r.2 then { s3 with info := { s3.info with inflight := s3.info.inflight + 1 } } else s3

/-- … and the state in which the QoS 1 message is then routed: the record removed, the quota returned -/
def pubackDone (s4 : Server) (i id : Nat) : Server :=
  let r := flDelete (getObj s4 i) id
  let s5 := setObj s4 i (incRecv r.1)
  if r.2 then { s5 with info := { s5.info with inflight := s5.info.inflight - 1 } } else s5

/-- **Item 1, QoS 1.**  An accepted QoS 1 publish: the PUBACK is written first (`o1`), then the message is routed by
    `publishToSubscribers`; the outputs are `o1 ++ o2`.  Extra hypotheses: the broker grants QoS 1
    (`maximumQos ≥ 1`, else the message is downgraded to QoS 0) and the publisher's connection is alive (else the
    handler's own write fails and nothing is routed). -/
theorem processPublish_accepted_shape_qos1 (s : Server) (i : Nat) (dup retain : Bool) (id : Nat) (topic payload : Str)
    (me : Nat)
    (hin : (getObj s i).inline = false) (hv : isValidFilter topic true = true)
    (hrq : (getObj s i).recvQuota ≠ 0) (hacl : aclOk s (getObj s i).id topic true = true)
    (hfl : flGet (getObj s i) id = none) (hne : topic ≠ [])
    (hhook : assocGet s.pubHook topic = none) (hmq : 1 ≤ s.caps.maximumQos)
    (hlive : dead (getObj (pubackFiled (retainedState s (inboundMsg s i 1 dup retain id topic payload me)) i id) i) = false) :
    processPublish s i 1 dup retain id topic payload me none =
      ((publishToSubscribers
          (pubackDone (pubackFiled (retainedState s (inboundMsg s i 1 dup retain id topic payload me)) i id) i id)
          (inboundMsg s i 1 dup retain id topic payload me)).1,
       writeMsg (pubackFiled (retainedState s (inboundMsg s i 1 dup retain id topic payload me)) i id) i
          (pubackMsg (retainedState s (inboundMsg s i 1 dup retain id topic payload me)) id) ++
       (publishToSubscribers
          (pubackDone (pubackFiled (retainedState s (inboundMsg s i 1 dup retain id topic payload me)) i id) i id)
          (inboundMsg s i 1 dup retain id topic payload me)).2, none) := by
  have hrq' : ((getObj s i).recvQuota == 0) = false := by simpa using hrq
  have hne' : topic.isEmpty = false := by cases topic <;> simp_all
  unfold processPublish
  simp only [hin, hv, hacl, hrq', hfl, Bool.not_false, Bool.not_true, Bool.true_and,
    Bool.false_eq_true, if_false, Option.isSome_none, setObj_getObj_self, hne']
  have h0 : ¬ (1 > s.caps.maximumQos) := by omega
  have hr : ((none : Option String) == some "reject") = false := by decide
  have he : ((none : Option String) == some "err") = false := by decide
  have hi : ((none : Option String) == some "ignore") = false := by decide
  simp only [h0, if_false, hhook, hr, he, hi, Bool.false_and, Bool.false_eq_true]
  rw [if_neg (by decide)]
  have hl : ¬ (dead (getObj (pubackFiled (retainedState s (inboundMsg s i 1 dup retain id topic payload me)) i id) i)
      = true) := by rw [hlive]; exact Bool.false_ne_true
  refine (if_neg hl).trans ?_
  rfl

theorem lt_of_recvQuota_ne_zero (s : Server) (i : Nat) (h : (getObj s i).recvQuota ≠ 0) : i < s.objs.length := by
  apply Classical.byContradiction
  intro hn
  apply h
  unfold getObj
  rw [List.getD_eq_getElem?_getD, List.getElem?_eq_none (Nat.le_of_not_lt hn)]
  rfl

theorem filter_id_of_flGet_none (c : Client) (id : Nat) (h : flGet c id = none) :
    c.inflight.filter (fun m => m.id != id) = c.inflight := by
  rw [List.filter_eq_self]
  intro m hm
  unfold flGet at h
  have := List.find?_eq_none.mp h m hm
  simpa using this

/-- the QoS 1 bookkeeping cancels: PUBACK filed and removed, quota taken and returned -/
theorem pubackDone_pubackFiled (s0 : Server) (i id : Nat) (hfl : flGet (getObj s0 i) id = none)
    (hq : (getObj s0 i).recvQuota ≠ 0) (hm : (getObj s0 i).recvQuota ≤ (getObj s0 i).maxRecv) :
    pubackDone (pubackFiled s0 i id) i id = s0 := by
  have hlt := lt_of_recvQuota_ne_zero s0 i hq
  have hpos : (getObj s0 i).recvQuota > 0 := Nat.pos_of_ne_zero hq
  have hdec : decRecv (getObj s0 i) = { getObj s0 i with recvQuota := (getObj s0 i).recvQuota - 1 } := by
    unfold decRecv; rw [if_pos hpos]
  have h2 : getObj (modObj s0 i decRecv) i = { getObj s0 i with recvQuota := (getObj s0 i).recvQuota - 1 } := by
    unfold modObj; rw [getObj_setObj_eq s0 i _ hlt, hdec]
  have hfl2 : flGet ({ getObj s0 i with recvQuota := (getObj s0 i).recvQuota - 1 } : Client) id = none := hfl
  have hset : flSet ({ getObj s0 i with recvQuota := (getObj s0 i).recvQuota - 1 } : Client) (pubackMsg (modObj s0 i decRecv) id) =
      ({ getObj s0 i with recvQuota := (getObj s0 i).recvQuota - 1,
                          inflight := (getObj s0 i).inflight ++ [pubackMsg (modObj s0 i decRecv) id] }, true) := by
    unfold flSet
    have : (pubackMsg (modObj s0 i decRecv) id).id = id := rfl
    rw [this, hfl2]
    rfl
  have hF : pubackFiled s0 i id =
      { s0 with
        objs := s0.objs.set i
          { getObj s0 i with
            recvQuota := (getObj s0 i).recvQuota - 1,
            inflight := (getObj s0 i).inflight ++ [pubackMsg (modObj s0 i decRecv) id] },
        info := { s0.info with inflight := s0.info.inflight + 1 } } := by
    unfold pubackFiled
    simp only [h2, hset, if_true]
    simp only [setObj, modObj, List.set_set]
  have hG : getObj (pubackFiled s0 i id) i =
      { getObj s0 i with
        recvQuota := (getObj s0 i).recvQuota - 1,
        inflight := (getObj s0 i).inflight ++ [pubackMsg (modObj s0 i decRecv) id] } := by
    rw [hF]
    simp only [getObj, List.getD_eq_getElem?_getD]
    rw [List.getElem?_set_self hlt]; rfl
  have hfilt : ((getObj s0 i).inflight ++ [pubackMsg (modObj s0 i decRecv) id]).filter (fun m => m.id != id) =
      (getObj s0 i).inflight := by
    rw [List.filter_append, filter_id_of_flGet_none _ _ hfl]
    have : (pubackMsg (modObj s0 i decRecv) id).id = id := rfl
    simp [this]
  have hfind : (((getObj s0 i).inflight ++ [pubackMsg (modObj s0 i decRecv) id]).find? (fun m => m.id == id)).isSome
      = true := by
    rw [List.find?_append]
    have : (pubackMsg (modObj s0 i decRecv) id).id = id := rfl
    simp [this]
  have hfinal : incRecv { getObj s0 i with recvQuota := (getObj s0 i).recvQuota - 1 } = getObj s0 i := by
    unfold incRecv
    have h1 : (getObj s0 i).recvQuota - 1 < (getObj s0 i).maxRecv := by omega
    have h2 : (getObj s0 i).recvQuota - 1 + 1 = (getObj s0 i).recvQuota := by omega
    simp only [h1, if_true, h2]
  unfold pubackDone
  rw [hG]
  simp only [flDelete, flGet, hfilt, hfind, if_true]
  rw [show incRecv _ = getObj s0 i from hfinal, hF]
  simp only [setObj, List.set_set]
  have ho : s0.objs.set i (getObj s0 i) = s0.objs := congrArg Server.objs (setObj_getObj_self s0 i)
  have hi : s0.info.inflight + 1 - 1 = s0.info.inflight := by omega
  rw [ho, hi]


/-- the publisher's liveness, connection and version are what they were when the PUBACK is written -/
theorem pubackFiled_obj (s0 : Server) (i id : Nat) :
    (getObj (pubackFiled s0 i id) i).isOpen = (getObj s0 i).isOpen ∧
    (getObj (pubackFiled s0 i id) i).peerGone = (getObj s0 i).peerGone ∧
    (getObj (pubackFiled s0 i id) i).inline = (getObj s0 i).inline ∧
    (getObj (pubackFiled s0 i id) i).conn = (getObj s0 i).conn ∧
    (getObj (pubackFiled s0 i id) i).ver = (getObj s0 i).ver := by
  have h1 : ∀ c : Client, (decRecv c).isOpen = c.isOpen ∧ (decRecv c).peerGone = c.peerGone ∧
      (decRecv c).inline = c.inline ∧ (decRecv c).conn = c.conn ∧ (decRecv c).ver = c.ver := by
    intro c; unfold decRecv; split <;> exact ⟨rfl, rfl, rfl, rfl, rfl⟩
  have h2 : ∀ (c : Client) (m : Msg), (flSet c m).1.isOpen = c.isOpen ∧ (flSet c m).1.peerGone = c.peerGone ∧
      (flSet c m).1.inline = c.inline ∧ (flSet c m).1.conn = c.conn ∧ (flSet c m).1.ver = c.ver := by
    intro c m; unfold flSet; split <;> exact ⟨rfl, rfl, rfl, rfl, rfl⟩
  have h3 : (getObj (modObj s0 i decRecv) i).isOpen = (getObj s0 i).isOpen ∧
      (getObj (modObj s0 i decRecv) i).peerGone = (getObj s0 i).peerGone ∧
      (getObj (modObj s0 i decRecv) i).inline = (getObj s0 i).inline ∧
      (getObj (modObj s0 i decRecv) i).conn = (getObj s0 i).conn ∧
      (getObj (modObj s0 i decRecv) i).ver = (getObj s0 i).ver := by
    unfold modObj
    rcases getObj_setObj_self_cases s0 i (decRecv (getObj s0 i)) with e | e <;> rw [e]
    · exact h1 _
    · exact ⟨rfl, rfl, rfl, rfl, rfl⟩
  unfold pubackFiled
  extract_lets s2 r s3
  have h4 : (getObj s3 i).isOpen = (getObj s0 i).isOpen ∧ (getObj s3 i).peerGone = (getObj s0 i).peerGone ∧
      (getObj s3 i).inline = (getObj s0 i).inline ∧ (getObj s3 i).conn = (getObj s0 i).conn ∧
      (getObj s3 i).ver = (getObj s0 i).ver := by
    rcases getObj_setObj_self_cases s2 i r.1 with e | e
    · show (getObj (setObj s2 i r.1) i).isOpen = _ ∧ _
      rw [e]
      obtain ⟨a1, a2, a3, a4, a5⟩ := h2 (getObj s2 i) (pubackMsg s2 id)
      obtain ⟨b1, b2, b3, b4, b5⟩ := h3
      exact ⟨a1.trans b1, a2.trans b2, a3.trans b3, a4.trans b4, a5.trans b5⟩
    · show (getObj (setObj s2 i r.1) i).isOpen = _ ∧ _
      rw [e]; exact h3
  split
  · exact h4
  · exact h4

/-- **Item 1, QoS 1, in plain terms.**  An accepted QoS 1 publish of a live network client whose receive quota is
    within its maximum: the PUBACK (reason code from `QosCodes[1]`) is written to the publisher, then the message is
    routed by `publishToSubscribers` — in the SAME state as for QoS 0 (the retained store updated): filing and
    removing the PUBACK record and taking and returning the receive quota cancel. -/
theorem processPublish_accepted_qos1 (s : Server) (i : Nat) (dup retain : Bool) (id : Nat) (topic payload : Str)
    (me : Nat)
    (hopen : (getObj s i).isOpen = true) (hpeer : (getObj s i).peerGone = false)
    (hin : (getObj s i).inline = false) (hv : isValidFilter topic true = true)
    (hrq : (getObj s i).recvQuota ≠ 0) (hmax : (getObj s i).recvQuota ≤ (getObj s i).maxRecv)
    (hacl : aclOk s (getObj s i).id topic true = true)
    (hfl : flGet (getObj s i) id = none) (hne : topic ≠ [])
    (hhook : assocGet s.pubHook topic = none) (hmq : 1 ≤ s.caps.maximumQos) :
    processPublish s i 1 dup retain id topic payload me none =
      ((publishToSubscribers (retainedState s (inboundMsg s i 1 dup retain id topic payload me))
          (inboundMsg s i 1 dup retain id topic payload me)).1,
       [Out.wrote (getObj s i).conn (.ack (getObj s i).ver 4 id 1)] ++
       (publishToSubscribers (retainedState s (inboundMsg s i 1 dup retain id topic payload me))
          (inboundMsg s i 1 dup retain id topic payload me)).2, none) := by
  obtain ⟨a1, a2, a3, a4, a5⟩ := pubackFiled_obj (retainedState s (inboundMsg s i 1 dup retain id topic payload me)) i id
  rw [getObj_retainedState] at a1 a2 a3 a4 a5
  have hlive : dead (getObj (pubackFiled (retainedState s (inboundMsg s i 1 dup retain id topic payload me)) i id) i)
      = false := dead_of_live (a1.trans hopen) (a2.trans hpeer)
  rw [processPublish_accepted_shape_qos1 s i dup retain id topic payload me hin hv hrq hacl hfl hne hhook hmq hlive,
    pubackDone_pubackFiled _ i id (by rw [getObj_retainedState]; exact hfl) (by rw [getObj_retainedState]; exact hrq)
      (by rw [getObj_retainedState]; exact hmax)]
  have hw : writeMsg (pubackFiled (retainedState s (inboundMsg s i 1 dup retain id topic payload me)) i id) i
      (pubackMsg (retainedState s (inboundMsg s i 1 dup retain id topic payload me)) id) =
      [Out.wrote (getObj s i).conn (.ack (getObj s i).ver 4 id 1)] := by
    unfold writeMsg
    simp only [a1, a2, a3, a4, a5, hopen, hpeer, hin]
    rfl
  rw [hw]

/-! ### a QoS 0 delivery files nothing: in-flight records and send quota of every object are kept -/

theorem aliasOutSet_keep (c : Client) (t : Str) :
    (aliasOutSet c t).1.inflight = c.inflight ∧ (aliasOutSet c t).1.sendQuota = c.sendQuota := by
  unfold aliasOutSet
  split
  · exact ⟨rfl, rfl⟩
  · split
    · exact ⟨rfl, rfl⟩
    · split <;> exact ⟨rfl, rfl⟩

theorem publishToClientCore_q0_keep (s : Server) (i : Nat) (sub : Sub) (f : Bool) (pk : Msg)
    (hq : pk.qos = 0 ∨ sub.qos = 0) (k : Nat) :
    (getObj (publishToClientCore s i sub f pk).1 k).inflight = (getObj s k).inflight ∧
    (getObj (publishToClientCore s i sub f pk).1 k).sendQuota = (getObj s k).sendQuota := by
  unfold publishToClientCore
  extract_lets c out
  split
  rename_i c1 out1 heq
  have hout : out.qos = 0 := shapeQos_zero_of s.caps sub pk.qos hq
  have h1 : (c1.inflight = c.inflight ∧ c1.sendQuota = c.sendQuota) ∧ out1.qos = 0 := by
    split at heq
    · split at heq
      rename_i c' a ex h2
      have h3 := aliasOutSet_keep c pk.topic
      rw [h2] at h3
      split at heq
      · cases heq; exact ⟨h3, hout⟩
      · cases heq; exact ⟨h3, hout⟩
    · cases heq; exact ⟨⟨rfl, rfl⟩, hout⟩
  clear heq
  have hz : ¬ out1.qos > 0 := by rw [h1.2]; exact Nat.lt_irrefl 0
  simp only [hz, if_false]
  have e : (if (!c1.isOpen) = true then (setObj s i c1, ([] : List Out)) else (setObj s i c1, writeMsg (setObj s i c1) i out1)).1
      = setObj s i c1 := by split <;> rfl
  rw [e]
  by_cases hk : k = i
  · subst hk
    rcases getObj_setObj_self_cases s k c1 with e' | e'
    · rw [e']; exact h1.1
    · rw [e']; exact ⟨rfl, rfl⟩
  · rw [getObj_setObj_ne s i k c1 hk]; exact ⟨rfl, rfl⟩

theorem publishToClient_q0_keep (s : Server) (i : Nat) (sub : Sub) (f : Bool) (pk : Msg)
    (hq : pk.qos = 0 ∨ sub.qos = 0) (k : Nat) :
    (getObj (publishToClient s i sub f pk).1 k).inflight = (getObj s k).inflight ∧
    (getObj (publishToClient s i sub f pk).1 k).sendQuota = (getObj s k).sendQuota := by
  unfold publishToClient
  split
  · exact ⟨rfl, rfl⟩
  · split
    · exact ⟨rfl, rfl⟩
    · exact publishToClientCore_q0_keep s i sub f pk hq k

theorem fold_q0_keep (pk : Msg) (L : List (Str × Sub)) (hq : pk.qos = 0 ∨ ∀ cs ∈ L, cs.2.qos = 0) (k : Nat) :
    ∀ acc : Server × List Out,
      (getObj (L.foldl (deliverStep pk) acc).1 k).inflight = (getObj acc.1 k).inflight ∧
      (getObj (L.foldl (deliverStep pk) acc).1 k).sendQuota = (getObj acc.1 k).sendQuota := by
  induction L with
  | nil => intro acc; exact ⟨rfl, rfl⟩
  | cons cs rest ih =>
    have hq1 : pk.qos = 0 ∨ cs.2.qos = 0 := hq.imp id (fun h => h cs List.mem_cons_self)
    replace ih := ih (hq.imp id (fun h c hc => h c (List.mem_cons_of_mem _ hc)))
    intro acc
    rw [List.foldl_cons]
    obtain ⟨a, b⟩ := ih (deliverStep pk acc cs)
    have hs : (getObj (deliverStep pk acc cs).1 k).inflight = (getObj acc.1 k).inflight ∧
        (getObj (deliverStep pk acc cs).1 k).sendQuota = (getObj acc.1 k).sendQuota := by
      unfold deliverStep
      split
      · exact ⟨rfl, rfl⟩
      · rename_i j _
        exact publishToClient_q0_keep acc.1 j cs.2 false pk hq1 k
    exact ⟨a.trans hs.1, b.trans hs.2⟩

/-- a message that is QoS 0 after shaping, no shared subscription matching: `publishToSubscribers` leaves the
    in-flight records and the send quota of every client object alone -/
theorem publishToSubscribers_q0_keep (s : Server) (pk : Msg) (hig : pk.ignore = false)
    (hq : pk.qos = 0 ∨ ∀ cs ∈ (subscribers s.topics pk.topic).subs, cs.2.qos = 0)
    (hsh : (subscribers s.topics pk.topic).shared = []) (k : Nat) :
    (getObj (publishToSubscribers s pk).1 k).inflight = (getObj s k).inflight ∧
    (getObj (publishToSubscribers s pk).1 k).sendQuota = (getObj s k).sendQuota := by
  rw [publishToSubscribers_eq_fold s pk hig hsh]
  exact fold_q0_keep (stamped s pk) _ (hq.imp (fun h => (stamped_fields s pk).2.2.1.trans h) id) k _

/-! ### the tail of `processPacket`: nothing is released when the client has no deferred message -/

theorem permuteBy_nil {α} (seed : Nat) : permuteBy seed ([] : List α) = [] := rfl

/-- `nextImmediate` releases a message only if the client holds a DEFERRED in-flight message (`expiry < 0`: queued
    by `publishToClientCore` when the send quota was exhausted) and has send quota -/
theorem nextImmediate_none (s : Server) (i : Nat) (h : ∀ m ∈ (getObj s i).inflight, 0 ≤ m.expiry) :
    nextImmediate s i = (s, []) := by
  have hf : (getObj s i).inflight.filter (fun m => decide (m.expiry < 0)) = [] := by
    rw [List.filter_eq_nil_iff]
    intro m hm
    have := h m hm
    simp only [decide_eq_true_eq]
    omega
  unfold nextImmediate
  simp only [hf, permuteBy_nil, List.head?_nil]
  split <;> rfl

/-! ### the op -/

/-- a topic name acceptable to `IsValidFilter(topic, true)` contains no wildcard character -/
theorem isValidFilter_pub_no_wild (topic : Str) (hv : isValidFilter topic true = true) :
    (topic.contains plus || topic.contains hash) = false := by
  cases h : (topic.contains plus || topic.contains hash)
  · rfl
  · unfold isValidFilter at hv
    simp at hv h
    rcases h with h | h
    · exact absurd h hv.2.1
    · exact absurd h hv.2.2

theorem publishValidate_accepted (s : Server) (topic : Str) (hv : isValidFilter topic true = true) (hne : topic ≠ []) :
    publishValidate s 0 0 topic none = none := by
  have hw := isValidFilter_pub_no_wild topic hv
  have hne' : topic.isEmpty = false := by cases topic <;> simp_all
  simp at hw
  unfold publishValidate
  simp [hw, hne']

/-- the gates an inbound QoS 0 PUBLISH of client object `i` has to pass to be routed: all decidable, all on the
    state before the op -/
structure PublishGates (s : Server) (i : Nat) (topic : Str) : Prop where
  /-- the client is a network client whose connection is alive -/
  isOpen : (getObj s i).isOpen = true
  peer : (getObj s i).peerGone = false
  notInline : (getObj s i).inline = false
  /-- `IsValidFilter(topic, true)`: no wildcard, not `$SYS/…`; the topic is not empty (no alias) -/
  valid : isValidFilter topic true = true
  nonempty : topic ≠ []
  /-- receive quota left (else: DISCONNECT 0x93) -/
  quota : (getObj s i).recvQuota ≠ 0
  /-- write permission on the topic (else: silently dropped) -/
  acl : aclOk s (getObj s i).id topic true = true
  /-- no in-flight record under packet id 0 -/
  noRecord : flGet (getObj s i) 0 = none
  /-- `OnPublish` hook mode of the topic: none -/
  hook : assocGet s.pubHook topic = none

/-- the hypotheses under which an inbound QoS 0 PUBLISH of client object `i` is ACCEPTED and nothing else happens
    in the op: the gates, and the publisher itself holds no deferred in-flight message (`nextImmediate` would release
    one, to the publisher) -/
structure AcceptedQ0 (s : Server) (i : Nat) (topic : Str) : Prop extends PublishGates s i topic where
  noDeferred : ∀ m ∈ (getObj s i).inflight, 0 ≤ m.expiry

theorem receivePacket_publish_accepted (s : Server) (i : Nat) (dup retain : Bool) (topic payload : Str) (me : Nat)
    (h : AcceptedQ0 s i topic)
    (hsh : (subscribers (retainedState s (inboundMsg s i 0 dup retain 0 topic payload me)).topics topic).shared = []) :
    receivePacket s i (.publish 0 dup retain 0 topic payload me none) =
      ((publishToSubscribers (retainedState s (inboundMsg s i 0 dup retain 0 topic payload me))
          (inboundMsg s i 0 dup retain 0 topic payload me)).1,
       (publishToSubscribers (retainedState s (inboundMsg s i 0 dup retain 0 topic payload me))
          (inboundMsg s i 0 dup retain 0 topic payload me)).2, none) := by
  have hk := publishToSubscribers_q0_keep (retainedState s (inboundMsg s i 0 dup retain 0 topic payload me))
    (inboundMsg s i 0 dup retain 0 topic payload me) rfl (Or.inl rfl) hsh i
  have hn := nextImmediate_none (publishToSubscribers (retainedState s (inboundMsg s i 0 dup retain 0 topic payload me))
    (inboundMsg s i 0 dup retain 0 topic payload me)).1 i (by
      rw [hk.1, getObj_retainedState]; exact h.noDeferred)
  unfold receivePacket
  simp only [publishValidate_accepted s topic h.valid h.nonempty,
    processPublish_accepted_shape s i dup retain 0 topic payload me h.notInline h.valid h.quota h.acl h.noRecord
      h.nonempty h.hook, hn, List.append_nil]

/-- the harness's barrier PINGREQ on a live connection without deferred messages: a PINGRESP, nothing else -/
theorem receivePacket_pingreq_quiet (s : Server) (i : Nat) (ho : (getObj s i).isOpen = true)
    (hp : (getObj s i).peerGone = false) (hd : ∀ m ∈ (getObj s i).inflight, 0 ≤ m.expiry) :
    receivePacket s i .pingreq = (s, [.wrote (getObj s i).conn .pingresp], none) := by
  unfold receivePacket
  simp only [dead_of_live ho hp, Bool.not_false, if_true, nextImmediate_none s i hd, List.append_nil]

/-- **the op is the call.**  `step s (.recv conn (PUBLISH QoS 0 …))` for an accepted publish on the connection of
    client object `i`, no shared subscription matching the topic: state and outputs of the whole op (`recvOn`:
    `receivePacket`, release of a deferred message, barrier PINGREQ and its release) are those of
    `publishToSubscribers` in the state with the retained store updated. -/
theorem step_recv_publish_accepted (s : Server) (conn i : Nat) (dup retain : Bool) (topic payload : Str) (me : Nat)
    (hc : assocGet s.connOf conn = some i) (h : AcceptedQ0 s i topic)
    (hsh : (subscribers (retainedState s (inboundMsg s i 0 dup retain 0 topic payload me)).topics topic).shared = []) :
    step s (.recv conn (.publish 0 dup retain 0 topic payload me none)) =
      publishToSubscribers (retainedState s (inboundMsg s i 0 dup retain 0 topic payload me))
        (inboundMsg s i 0 dup retain 0 topic payload me) := by
  have hk := publishToSubscribers_q0_keep (retainedState s (inboundMsg s i 0 dup retain 0 topic payload me))
    (inboundMsg s i 0 dup retain 0 topic payload me) rfl (Or.inl rfl) hsh i
  have hd := (publishToSubscribers_deliv (retainedState s (inboundMsg s i 0 dup retain 0 topic payload me))
    (inboundMsg s i 0 dup retain 0 topic payload me)).all i
  rw [getObj_retainedState] at hd
  have ho := hd.isOpen.symm.trans h.isOpen
  have hp := hd.peerGone.symm.trans h.peer
  have hping := receivePacket_pingreq_quiet _ i ho hp (by
    rw [hk.1, getObj_retainedState]; exact h.noDeferred)
  rw [step]
  unfold recvOn
  simp only [hc, h.isOpen, receivePacket_publish_accepted s i dup retain topic payload me h hsh, ho, hping,
    Bool.not_true, Bool.false_eq_true, if_false, if_true, List.filter_cons, List.filter_nil, List.append_nil]

/-! ### … and when the publisher does hold deferred messages: what else the op writes

Without `noDeferred` the op is the call of `publishToSubscribers` followed by two calls of `nextImmediate` for the
publisher (the tail of `processPacket` for the PUBLISH, and for the harness's barrier PINGREQ).  Each releases at
most one message: one of the publisher's own in-flight messages that was DEFERRED (`expiry < 0`), and only if the
publisher has send quota; it is written to the publisher's connection. -/

theorem mem_permuteFuel {α} : ∀ (fuel seed : Nat) (l : List α) (x : α), x ∈ permuteFuel fuel seed l → x ∈ l := by
  intro fuel
  induction fuel with
  | zero => intro seed l x h; simpa [permuteFuel] using h
  | succ f ih =>
    intro seed l x h
    cases l with
    | nil => simp [permuteFuel] at h
    | cons a as =>
      simp only [permuteFuel] at h
      split at h
      · rename_i y hy
        rcases List.mem_cons.mp h with h | h
        · rw [h]; exact List.mem_of_getElem? hy
        · exact List.mem_of_mem_eraseIdx (ih _ _ _ h)
      · exact h

theorem mem_permuteBy {α} (seed : Nat) (l : List α) (x : α) (h : x ∈ permuteBy seed l) : x ∈ l :=
  mem_permuteFuel _ _ _ _ h

/-- what the acting client's object looks like to a write after a release: connection, liveness, version kept; the
    in-flight records and the send quota only shrink -/
structure AfterRelease (a b : Client) : Prop where
  isOpen : b.isOpen = a.isOpen
  peerGone : b.peerGone = a.peerGone
  inline : b.inline = a.inline
  conn : b.conn = a.conn
  ver : b.ver = a.ver
  quota : b.sendQuota ≤ a.sendQuota
  infl : ∀ m ∈ b.inflight, m ∈ a.inflight

theorem AfterRelease.refl (a : Client) : AfterRelease a a := ⟨rfl, rfl, rfl, rfl, rfl, Nat.le_refl _, fun _ h => h⟩

theorem writeMsg_length_le_one (s : Server) (i : Nat) (m : Msg) : (writeMsg s i m).length ≤ 1 := by
  unfold writeMsg
  simp only []
  split
  · simp
  · split <;> simp

theorem writeMsg_congr {s t : Server} {i : Nat} (m : Msg) (ho : (getObj t i).isOpen = (getObj s i).isOpen)
    (hp : (getObj t i).peerGone = (getObj s i).peerGone) (hi : (getObj t i).inline = (getObj s i).inline)
    (hc : (getObj t i).conn = (getObj s i).conn) (hv : (getObj t i).ver = (getObj s i).ver) :
    writeMsg t i m = writeMsg s i m := by
  unfold writeMsg
  simp only [ho, hp, hi, hc, hv]

/-- `nextImmediate`: nothing is written, or the client has send quota and ONE of its deferred in-flight messages is
    written to it -/
theorem nextImmediate_out (s : Server) (i : Nat) :
    (nextImmediate s i).2 = [] ∨
    ((getObj s i).sendQuota > 0 ∧ ∃ m ∈ (getObj s i).inflight, m.expiry < 0 ∧ (nextImmediate s i).2 = writeMsg s i m) := by
  unfold nextImmediate
  extract_lets c
  split
  · rename_i hc
    split
    · rename_i m hm
      right
      have hq : c.sendQuota > 0 := by
        simp only [Bool.and_eq_true, decide_eq_true_eq] at hc
        exact hc.2
      have hmem : m ∈ c.inflight.filter (fun m => decide (m.expiry < 0)) :=
        mem_permuteBy _ _ _ (List.mem_of_mem_head? hm)
      rw [List.mem_filter] at hmem
      refine ⟨hq, m, hmem.1, of_decide_eq_true hmem.2, ?_⟩
      extract_lets o
      split
      rfl
    · exact Or.inl rfl
  · exact Or.inl rfl

theorem nextImmediate_after (s : Server) (i : Nat) : AfterRelease (getObj s i) (getObj (nextImmediate s i).1 i) := by
  unfold nextImmediate
  extract_lets c
  split
  · split
    · rename_i m hm
      extract_lets o
      split
      rename_i c1 ok heq
      have hc1 : c1 = { c with inflight := c.inflight.filter (fun x => x.id != m.id) } := by
        unfold flDelete at heq
        cases heq; rfl
      extract_lets s1
      have key : AfterRelease c (getObj s1 i) := by
        rcases getObj_setObj_self_cases { s with nextSeed := s.nextSeed / 64 } i (decSend c1) with e | e
        · show AfterRelease c (getObj (setObj { s with nextSeed := s.nextSeed / 64 } i (decSend c1)) i)
          rw [e, hc1]
          unfold decSend
          split
          · exact ⟨rfl, rfl, rfl, rfl, rfl, Nat.sub_le _ _, fun x hx => (List.mem_filter.mp hx).1⟩
          · exact ⟨rfl, rfl, rfl, rfl, rfl, Nat.le_refl _, fun x hx => (List.mem_filter.mp hx).1⟩
        · show AfterRelease c (getObj (setObj { s with nextSeed := s.nextSeed / 64 } i (decSend c1)) i)
          rw [e]
          exact AfterRelease.refl _
      split
      · exact key
      · exact key
    · exact AfterRelease.refl _
  · exact AfterRelease.refl _

/-- an output of a release is a PUBLISH or an ack (not the barrier's PINGRESP) -/
theorem nextImmediate_out_shape (s : Server) (i : Nat) : ∀ x ∈ (nextImmediate s i).2,
    (∃ n ver m me, x = Out.wrote n (.publish ver m me)) ∨ (∃ n ver t id rc, x = Out.wrote n (.ack ver t id rc)) := by
  intro x hx
  rcases nextImmediate_out s i with h | ⟨_, m, _, _, h⟩
  · rw [h] at hx; cases hx
  · rw [h] at hx
    unfold writeMsg at hx
    simp only at hx
    split at hx
    · cases hx
    · split at hx
      · rw [List.mem_singleton] at hx; exact Or.inl ⟨_, _, _, _, hx⟩
      · rw [List.mem_singleton] at hx; exact Or.inr ⟨_, _, _, _, _, hx⟩

theorem receivePacket_pingreq_live (s : Server) (i : Nat) (ho : (getObj s i).isOpen = true)
    (hp : (getObj s i).peerGone = false) :
    receivePacket s i .pingreq =
      ((nextImmediate s i).1, [.wrote (getObj s i).conn .pingresp] ++ (nextImmediate s i).2, none) := by
  unfold receivePacket
  simp only [dead_of_live ho hp, Bool.not_false, if_true]

theorem receivePacket_publish_gates (s : Server) (i : Nat) (dup retain : Bool) (topic payload : Str) (me : Nat)
    (h : PublishGates s i topic) :
    receivePacket s i (.publish 0 dup retain 0 topic payload me none) =
      ((nextImmediate (publishToSubscribers (retainedState s (inboundMsg s i 0 dup retain 0 topic payload me))
          (inboundMsg s i 0 dup retain 0 topic payload me)).1 i).1,
       (publishToSubscribers (retainedState s (inboundMsg s i 0 dup retain 0 topic payload me))
          (inboundMsg s i 0 dup retain 0 topic payload me)).2 ++
       (nextImmediate (publishToSubscribers (retainedState s (inboundMsg s i 0 dup retain 0 topic payload me))
          (inboundMsg s i 0 dup retain 0 topic payload me)).1 i).2, none) := by
  unfold receivePacket
  simp only [publishValidate_accepted s topic h.valid h.nonempty,
    processPublish_accepted_shape s i dup retain 0 topic payload me h.notInline h.valid h.quota h.acl h.noRecord
      h.nonempty h.hook]

/-- **the op, in general**: an inbound QoS 0 PUBLISH that passes the gates writes what `publishToSubscribers`
    writes, then what two releases for the publisher write (`nextImmediate` after the PUBLISH and after the barrier
    PINGREQ) -/
theorem step_recv_publish_outputs (s : Server) (conn i : Nat) (dup retain : Bool) (topic payload : Str) (me : Nat)
    (hc : assocGet s.connOf conn = some i) (h : PublishGates s i topic) :
    (step s (.recv conn (.publish 0 dup retain 0 topic payload me none))).2 =
      (publishToSubscribers (retainedState s (inboundMsg s i 0 dup retain 0 topic payload me))
        (inboundMsg s i 0 dup retain 0 topic payload me)).2 ++
      (nextImmediate (publishToSubscribers (retainedState s (inboundMsg s i 0 dup retain 0 topic payload me))
        (inboundMsg s i 0 dup retain 0 topic payload me)).1 i).2 ++
      (nextImmediate (nextImmediate (publishToSubscribers (retainedState s (inboundMsg s i 0 dup retain 0 topic payload me))
        (inboundMsg s i 0 dup retain 0 topic payload me)).1 i).1 i).2 := by
  have hd := (publishToSubscribers_deliv (retainedState s (inboundMsg s i 0 dup retain 0 topic payload me))
    (inboundMsg s i 0 dup retain 0 topic payload me)).all i
  rw [getObj_retainedState] at hd
  have ha := nextImmediate_after (publishToSubscribers (retainedState s (inboundMsg s i 0 dup retain 0 topic payload me))
    (inboundMsg s i 0 dup retain 0 topic payload me)).1 i
  have ho := (ha.isOpen.trans hd.isOpen.symm).trans h.isOpen
  have hp := (ha.peerGone.trans hd.peerGone.symm).trans h.peer
  have hping := receivePacket_pingreq_live _ i ho hp
  rw [step]
  unfold recvOn
  simp only [hc, h.isOpen, receivePacket_publish_gates s i dup retain topic payload me h, ho, hping,
    Bool.not_true, Bool.false_eq_true, if_false, if_true, List.filter_cons, List.filter_append,
    List.filter_nil, List.nil_append, List.append_assoc]
  rw [List.filter_eq_self.mpr]
  intro x hx
  rcases nextImmediate_out_shape _ i x hx with ⟨_, _, _, _, e⟩ | ⟨_, _, _, _, _, e⟩ <;> rw [e]

/-- **what else the op can write, precisely.**  Every output of the op that does not come from
    `publishToSubscribers` is the release of a deferred message of the PUBLISHER: the publisher has send quota and
    holds (in the state before the op — when the message is QoS 0 after shaping its own in-flight records are not
    touched by the routing) an in-flight message `m` with `expiry < 0`, and the output is what `writeMsg` writes for
    `m` on the publisher's connection.  There are at most two such outputs. -/
theorem step_recv_publish_releases (s : Server) (conn i : Nat) (dup retain : Bool) (topic payload : Str) (me : Nat)
    (hc : assocGet s.connOf conn = some i) (h : PublishGates s i topic)
    (hsh : (subscribers (retainedState s (inboundMsg s i 0 dup retain 0 topic payload me)).topics topic).shared = []) :
    ∃ r, (step s (.recv conn (.publish 0 dup retain 0 topic payload me none))).2 =
        (publishToSubscribers (retainedState s (inboundMsg s i 0 dup retain 0 topic payload me))
          (inboundMsg s i 0 dup retain 0 topic payload me)).2 ++ r ∧ r.length ≤ 2 ∧
      ∀ x ∈ r, (getObj s i).sendQuota > 0 ∧ ∃ m ∈ (getObj s i).inflight, m.expiry < 0 ∧ x ∈ writeMsg s i m := by
  have hk := publishToSubscribers_q0_keep (retainedState s (inboundMsg s i 0 dup retain 0 topic payload me))
    (inboundMsg s i 0 dup retain 0 topic payload me) rfl (Or.inl rfl) hsh i
  rw [getObj_retainedState] at hk
  have hd := (publishToSubscribers_deliv (retainedState s (inboundMsg s i 0 dup retain 0 topic payload me))
    (inboundMsg s i 0 dup retain 0 topic payload me)).all i
  rw [getObj_retainedState] at hd
  have ha := nextImmediate_after (publishToSubscribers (retainedState s (inboundMsg s i 0 dup retain 0 topic payload me))
    (inboundMsg s i 0 dup retain 0 topic payload me)).1 i
  refine ⟨_, by rw [step_recv_publish_outputs s conn i dup retain topic payload me hc h, List.append_assoc], ?_, ?_⟩
  · rw [List.length_append]
    have l1 : ∀ t : Server, (nextImmediate t i).2.length ≤ 1 := by
      intro t
      rcases nextImmediate_out t i with e | ⟨_, m, _, _, e⟩ <;> rw [e]
      · exact Nat.zero_le _
      · exact writeMsg_length_le_one t i m
    have := l1 (publishToSubscribers (retainedState s (inboundMsg s i 0 dup retain 0 topic payload me))
      (inboundMsg s i 0 dup retain 0 topic payload me)).1
    have := l1 (nextImmediate (publishToSubscribers (retainedState s (inboundMsg s i 0 dup retain 0 topic payload me))
      (inboundMsg s i 0 dup retain 0 topic payload me)).1 i).1
    omega
  · intro x hx
    rcases List.mem_append.mp hx with hx | hx
    · rcases nextImmediate_out _ i with e | ⟨q, m, hm, he, e⟩
      · rw [e] at hx; cases hx
      · rw [e] at hx
        rw [hk.2] at q
        rw [hk.1] at hm
        rw [writeMsg_congr m hd.isOpen.symm hd.peerGone.symm hd.inline.symm hd.conn.symm hd.ver.symm] at hx
        exact ⟨q, m, hm, he, hx⟩
    · rcases nextImmediate_out _ i with e | ⟨q, m, hm, he, e⟩
      · rw [e] at hx; cases hx
      · rw [e] at hx
        have q' := Nat.lt_of_lt_of_le q ha.quota
        rw [hk.2] at q'
        have hm' := ha.infl m hm
        rw [hk.1] at hm'
        rw [writeMsg_congr m (ha.isOpen.trans hd.isOpen.symm) (ha.peerGone.trans hd.peerGone.symm)
          (ha.inline.trans hd.inline.symm) (ha.conn.trans hd.conn.symm) (ha.ver.trans hd.ver.symm)] at hx
        exact ⟨q', m, hm', he, hx⟩

/-! ### the state with the retained store updated: same tables, same entitlement -/

theorem retainedState_quiet (s : Server) (pk : Msg) : Quiet s (retainedState s pk) := by
  unfold retainedState; split
  · exact retainMsg_quiet s pk
  · exact Quiet.refl s

theorem retainMsg_aclDeny (s : Server) (pk : Msg) : (retainMsg s pk).aclDeny = s.aclDeny := by
  unfold retainMsg; split <;> rfl

theorem retainedState_aclDeny (s : Server) (pk : Msg) : (retainedState s pk).aclDeny = s.aclDeny := by
  unfold retainedState; split
  · exact retainMsg_aclDeny s pk
  · rfl

/-- the three invariants of the delivery theorem hold in the state in which the accepted publish is routed -/
theorem retainedState_inv {s : Server} (pk : Msg) (hs : SyncInv s) (hw : WF s) (hcm : ConnMap s) :
    SyncInv (retainedState s pk) ∧ WF (retainedState s pk) ∧ ConnMap (retainedState s pk) := by
  refine ⟨hs.of_quiet (retainedState_quiet s pk), ?_,
    hcm.of_ck (CK.of_objs (retainedState_objs s pk) (retainedState_quiet s pk).connOf)⟩
  unfold retainedState; split
  · exact retainMsg_wf s pk hw
  · exact hw

theorem retainedState_shared (s : Server) (pk0 : Msg) (hx : IdxOK s.topics) (topic : Str)
    (hne : topic ≠ []) (hnh : ∀ t ∈ splitLevels topic, t ≠ [hash]) :
    (subscribers (retainedState s pk0).topics topic).shared = [] ↔ (subscribers s.topics topic).shared = [] := by
  unfold retainedState; split
  · unfold retainMsg; split
    · exact Iff.rfl
    · exact subscribers_shared_retainMessage s.topics hx _ _ _ topic hne hnh
  · exact Iff.rfl

theorem matchingSub_congr {x y : Index} (hp : ∀ q c, plainAt y q c = plainAt x q c) (topic c : Str) (sub : Sub) :
    MatchingSub y topic c sub ↔ MatchingSub x topic c sub := by
  unfold MatchingSub; rw [hp]

theorem aclOk_congr {s s' : Server} (ha : s'.aclDeny = s.aclDeny) (cid topic : Str) (w : Bool) :
    aclOk s' cid topic w = aclOk s cid topic w := by
  unfold aclOk; rw [ha]

/-- entitlement reads `objs`, `clients`, `aclDeny` and the plain subscriptions of the index: nothing else -/
theorem entitledF03_congr {s s' : Server} (ho : s'.objs = s.objs) (hc : s'.clients = s.clients)
    (ha : s'.aclDeny = s.aclDeny) (hp : ∀ q c, plainAt s'.topics q c = plainAt s.topics q c) (pk : Msg) (n : Nat) :
    EntitledF03 s' pk n ↔ EntitledF03 s pk n := by
  unfold EntitledF03
  simp only [hc, getObj_of_objs_eq ho, aclOk_congr ha, matchingSub_congr hp]

theorem entitledSession_congr {s s' : Server} (ho : s'.objs = s.objs) (hc : s'.clients = s.clients)
    (ha : s'.aclDeny = s.aclDeny) (hp : ∀ q c, plainAt s'.topics q c = plainAt s.topics q c) (pk : Msg) (n : Nat) :
    EntitledSession s' pk n ↔ EntitledSession s pk n := by
  unfold EntitledSession
  simp only [hc, getObj_of_objs_eq ho, aclOk_congr ha, matchingSub_congr hp]

theorem entitledF03_retainedState (s : Server) (pk0 pk : Msg) (n : Nat) :
    EntitledF03 (retainedState s pk0) pk n ↔ EntitledF03 s pk n :=
  entitledF03_congr (retainedState_objs s pk0) (retainedState_quiet s pk0).clients (retainedState_aclDeny s pk0)
    (retainedState_quiet s pk0).plain pk n

theorem entitledSession_retainedState (s : Server) (pk0 pk : Msg) (n : Nat) :
    EntitledSession (retainedState s pk0) pk n ↔ EntitledSession s pk n :=
  entitledSession_congr (retainedState_objs s pk0) (retainedState_quiet s pk0).clients (retainedState_aclDeny s pk0)
    (retainedState_quiet s pk0).plain pk n

/-- a topic name without wildcard character has no level `#` -/
theorem no_hash_level_of_noWild (topic : Str) (hw : (topic.contains plus || topic.contains hash) = false) :
    ∀ t ∈ splitLevels topic, t ≠ [hash] := by
  intro t ht e
  have : hash ∈ topic := mem_splitLevels topic t ht hash (by rw [e]; exact List.mem_singleton.mpr rfl)
  simp at hw
  exact hw.2 this

theorem no_hash_level (topic : Str) (hv : isValidFilter topic true = true) : ∀ t ∈ splitLevels topic, t ≠ [hash] :=
  no_hash_level_of_noWild topic (isValidFilter_pub_no_wild topic hv)

/-! ### the inline API: `Server.Publish` -/

/-- the message an inline publish routes: built by `processPublish` for the inline client (object 0; the packet id of
    the model's inline packet is its QoS), QoS capped at the broker's maximum -/
def inlineMsg (s : Server) (topic payload : Str) (retain : Bool) (qos : Nat) : Msg :=
  inboundMsg s 0 (if qos > s.caps.maximumQos then s.caps.maximumQos else qos) false retain qos topic payload 0

/-- the hypotheses under which an inline publish is routed and nothing else happens in the op.  The inline client
    passes the topic-validity and write-ACL gates of `processPublish` unexamined; `PublishValidate` (no wildcard, no
    empty topic) and the receive-quota test apply to it as to everyone. -/
structure AcceptedInline (s : Server) (topic : Str) : Prop where
  /-- object 0 is the inline client (`init`; kept by every op) -/
  inline0 : (getObj s 0).inline = true
  noWild : (topic.contains plus || topic.contains hash) = false
  nonempty : topic ≠ []
  /-- the inline client's receive quota (2147483647 at `init`, never taken: its publishes are routed at once) -/
  quota : (getObj s 0).recvQuota ≠ 0
  hook : assocGet s.pubHook topic = none
  noDeferred : ∀ m ∈ (getObj s 0).inflight, 0 ≤ m.expiry

theorem processPublish_inline_shape (s : Server) (topic payload : Str) (retain : Bool) (qos : Nat)
    (h : AcceptedInline s topic) :
    processPublish s 0 qos false retain qos topic payload 0 none =
      ((publishToSubscribers (retainedState s (inlineMsg s topic payload retain qos))
          (inlineMsg s topic payload retain qos)).1,
       (publishToSubscribers (retainedState s (inlineMsg s topic payload retain qos))
          (inlineMsg s topic payload retain qos)).2, none) := by
  have hrq' : ((getObj s 0).recvQuota == 0) = false := by simpa using h.quota
  have hr : ((none : Option String) == some "reject") = false := by decide
  have he : ((none : Option String) == some "err") = false := by decide
  have hi : ((none : Option String) == some "ignore") = false := by decide
  unfold processPublish
  simp only [h.inline0, hrq', Bool.not_true, Bool.false_and, Bool.false_eq_true, if_false, if_true,
    setObj_getObj_self]
  by_cases hq : qos > s.caps.maximumQos
  · simp only [hq, if_true, h.hook, hr, he, hi, Bool.false_and, Bool.false_eq_true, if_false, Bool.or_true]
    unfold inlineMsg
    rw [if_pos hq]
    rfl
  · simp only [hq, if_false, h.hook, hr, he, hi, Bool.false_and, Bool.false_eq_true, Bool.or_true, if_true]
    unfold inlineMsg
    rw [if_neg hq]
    rfl

theorem publishValidate_inline (s : Server) (topic : Str) (qos : Nat)
    (hw : (topic.contains plus || topic.contains hash) = false) (hne : topic ≠ []) :
    publishValidate s qos qos topic none = none := by
  have hne' : topic.isEmpty = false := by cases topic <;> simp_all
  have h1 : (decide (qos > 0) && qos == 0) = false := by
    cases qos <;> simp
  have h2 : (qos == 0 && decide (qos > 0)) = false := by
    cases qos <;> simp
  unfold publishValidate
  simp only [h1, h2, hw, hne', Bool.false_eq_true, if_false, Option.getD_none, Nat.not_lt_zero, gt_iff_lt,
    Bool.false_and]
  rfl

theorem inlineMsg_fields (s : Server) (topic payload : Str) (retain : Bool) (qos : Nat) :
    (inlineMsg s topic payload retain qos).topic = topic ∧ (inlineMsg s topic payload retain qos).payload = payload ∧
    (inlineMsg s topic payload retain qos).type = 3 ∧ (inlineMsg s topic payload retain qos).ignore = false ∧
    (inlineMsg s topic payload retain qos).origin = (getObj s 0).id ∧
    (qos = 0 → (inlineMsg s topic payload retain qos).qos = 0) := by
  refine ⟨rfl, rfl, rfl, rfl, rfl, fun h => ?_⟩
  subst h
  show (if 0 > s.caps.maximumQos then s.caps.maximumQos else 0) = 0
  rw [if_neg (Nat.not_lt_zero _)]

/-- **the inline op is the call** -/
theorem step_inlinePublish_accepted (s : Server) (topic payload : Str) (retain : Bool) (qos : Nat)
    (h : AcceptedInline s topic)
    (hq : (inlineMsg s topic payload retain qos).qos = 0 ∨
      ∀ cs ∈ (subscribers (retainedState s (inlineMsg s topic payload retain qos)).topics topic).subs, cs.2.qos = 0)
    (hsh : (subscribers (retainedState s (inlineMsg s topic payload retain qos)).topics topic).shared = []) :
    step s (.inlinePublish topic payload retain qos) =
      publishToSubscribers (retainedState s (inlineMsg s topic payload retain qos))
        (inlineMsg s topic payload retain qos) := by
  have hk := publishToSubscribers_q0_keep (retainedState s (inlineMsg s topic payload retain qos))
    (inlineMsg s topic payload retain qos) rfl hq hsh 0
  have hn := nextImmediate_none (publishToSubscribers (retainedState s (inlineMsg s topic payload retain qos))
    (inlineMsg s topic payload retain qos)).1 0 (by
      rw [hk.1, getObj_retainedState]; exact h.noDeferred)
  rw [step]
  unfold receivePacket
  simp only [publishValidate_inline s topic qos h.noWild h.nonempty,
    processPublish_inline_shape s topic payload retain qos h, hn, List.append_nil]

end Mochi.Broker

#print axioms Mochi.Broker.processPublish_accepted_shape
#print axioms Mochi.Broker.processPublish_accepted_shape_record
#print axioms Mochi.Broker.processPublish_accepted_shape_qos1
#print axioms Mochi.Broker.processPublish_accepted_qos1
#print axioms Mochi.Broker.step_recv_publish_accepted
#print axioms Mochi.Broker.step_recv_publish_outputs
#print axioms Mochi.Broker.step_recv_publish_releases
#print axioms Mochi.Broker.step_inlinePublish_accepted
#print axioms Mochi.Topics.subscribers_shared_retainMessage
