import Mochi.Lemmas.BrokerOwn
/-!
# The inductive invariant behind `IndexSync` (`Mochi/Lemmas/BrokerIndexSync.lean`)

`SyncInvX X s` — `X` = the objects whose handler is between its creation and `Clients.Add` in the current
step (exempt from "a live session is registered"):

* `own`  every (plain or shared) entry of the topic index under client id `c` with filter `f` has an owner: the
         object registered under `c` holds a subscription for `f`;
* `reg`  every object whose handler can still run the session clean-up (not stopped, or parked by `dropHold` /
         `dropHoldEarly`) and that was not taken over is the object registered under its id;
* and the bookkeeping these two need (`isOpen = !stopped`, taken over ⇒ stopped, registered ⇒ not taken over,
  parked handlers, handlers parked inside `attachClient`).
-/
namespace Mochi.Broker
open Mochi.Topics

/-- the handler of object `k` may still run the session clean-up at the end of `attachClient` -/
def Active (s : Server) (k : Nat) : Prop :=
  (getObj s k).stopped = false ∨ k ∈ s.parked ∨ k ∈ s.parkedEarly

/-- object `k` belongs to a handler parked in the authentication hook (before `Clients.Add`) -/
def Stage1 (s : Server) (k : Nat) : Prop := ∃ p ∈ s.pending, p.stage = 1 ∧ p.obj = k

structure SyncInvX (X : Nat → Prop) (s : Server) : Prop where
  idx : IdxOK s.topics
  own : ∀ c f, Entry s.topics c f → ∃ i, assocGet s.clients c = some i ∧ f ∈ subKeys (getObj s i)
  /-- conversely, every PLAIN filter of a registered session has its entry in the index -/
  ownB : ∀ c i, assocGet s.clients c = some i → ∀ f ∈ subKeys (getObj s i), shareKey f = false →
    HasPlain s.topics c f
  key : ∀ k, KeyOK (getObj s k)
  os : ∀ k, (getObj s k).isOpen = !(getObj s k).stopped
  ts : ∀ k, (getObj s k).takenOver = true → (getObj s k).stopped = true
  reg : ∀ k, k < s.objs.length → Active s k → (getObj s k).takenOver = false → ¬ X k → ¬ Stage1 s k →
    assocGet s.clients (getObj s k).id = some k
  regTO : ∀ c k, assocGet s.clients c = some k → (getObj s k).takenOver = false
  parkedLt : ∀ k, k ∈ s.parked ∨ k ∈ s.parkedEarly → k < s.objs.length
  disj : ∀ k, k ∈ s.parked → k ∉ s.parkedEarly
  parkedStopped : ∀ k, k ∈ s.parked → (getObj s k).stopped = true
  pendFree : ∀ p ∈ s.pending, p.obj ∉ s.parked ∧ p.obj ∉ s.parkedEarly
  st1 : ∀ p ∈ s.pending, p.stage = 1 →
    (∀ c, assocGet s.clients c ≠ some p.obj) ∧ (getObj s p.obj).takenOver = false ∧ (getObj s p.obj).subs = []
  pendNodup : (s.pending.map (·.obj)).Nodup
  pendConn : ∀ p ∈ s.pending, assocGet s.connOf p.conn = some p.obj

abbrev SyncInv (s : Server) : Prop := SyncInvX (fun _ => False) s

theorem bool_false_of_imp {a b : Bool} (h : a = true → b = true) (hb : b = false) : a = false := by
  cases a
  · rfl
  · rw [h rfl] at hb; cases hb

theorem Active.mono {s s' : Server} {k : Nat} (hpk : s'.parked = s.parked) (hpe : s'.parkedEarly = s.parkedEarly)
    (hstop : (getObj s k).stopped = true → (getObj s' k).stopped = true) (h : Active s' k) : Active s k := by
  rcases h with h | h | h
  · exact Or.inl (bool_false_of_imp hstop h)
  · exact Or.inr (Or.inl (hpk ▸ h))
  · exact Or.inr (Or.inr (hpe ▸ h))

/-- the frame under which everything except `own` is kept -/
theorem SyncInvX.transfer {X : Nat → Prop} {s s' : Server} (h : SyncInvX X s)
    (hlen : s'.objs.length = s.objs.length) (hconn : s'.connOf = s.connOf) (hcl : s'.clients = s.clients)
    (hpend : s'.pending = s.pending) (hpk : s'.parked = s.parked) (hpe : s'.parkedEarly = s.parkedEarly)
    (hid : ∀ k, (getObj s' k).id = (getObj s k).id)
    (hto : ∀ k, (getObj s' k).takenOver = (getObj s k).takenOver)
    (hstop : ∀ k, (getObj s k).stopped = true → (getObj s' k).stopped = true)
    (hos : ∀ k, (getObj s k).isOpen = (!(getObj s k).stopped) → (getObj s' k).isOpen = !(getObj s' k).stopped)
    (hkey : ∀ k, KeyOK (getObj s k) → KeyOK (getObj s' k))
    (hidx : IdxOK s'.topics)
    (hown : ∀ c f, Entry s'.topics c f → ∃ i, assocGet s.clients c = some i ∧ f ∈ subKeys (getObj s' i))
    (hownB : ∀ c i, assocGet s.clients c = some i → ∀ f ∈ subKeys (getObj s' i), shareKey f = false →
      HasPlain s'.topics c f)
    (hsubs1 : ∀ p ∈ s.pending, p.stage = 1 → (getObj s' p.obj).subs = (getObj s p.obj).subs) :
    SyncInvX X s' := by
  refine ⟨hidx, ?_, ?_, fun k => hkey k (h.key k), fun k => hos k (h.os k), ?_, ?_, ?_, ?_, ?_, ?_, ?_, ?_, ?_, ?_⟩
  · intro c f he
    rw [hcl]; exact hown c f he
  · intro c i hi
    rw [hcl] at hi
    exact hownB c i hi
  · intro k hk
    rw [hto] at hk
    exact hstop k (h.ts k hk)
  · intro k hk ha ht hx hs1
    rw [hlen] at hk
    rw [hto] at ht
    rw [hcl, hid]
    refine h.reg k hk (Active.mono hpk hpe (hstop k) ha) ht hx ?_
    rintro ⟨p, hp, h1, h2⟩
    exact hs1 ⟨p, by rw [hpend]; exact hp, h1, h2⟩
  · intro c k hk
    rw [hcl] at hk
    rw [hto]; exact h.regTO c k hk
  · intro k hk
    rw [hpk, hpe] at hk
    rw [hlen]; exact h.parkedLt k hk
  · intro k hk
    rw [hpk] at hk
    rw [hpe]; exact h.disj k hk
  · intro k hk
    rw [hpk] at hk
    exact hstop k (h.parkedStopped k hk)
  · intro p hp
    rw [hpend] at hp
    rw [hpk, hpe]; exact h.pendFree p hp
  · intro p hp h1
    rw [hpend] at hp
    rw [hcl, hto, hsubs1 p hp h1]; exact h.st1 p hp h1
  · rw [hpend]; exact h.pendNodup
  · intro p hp
    rw [hpend] at hp
    rw [hconn]; exact h.pendConn p hp

theorem SyncInvX.of_quiet {X : Nat → Prop} {s s' : Server} (h : SyncInvX X s) (g : Quiet s s') : SyncInvX X s' := by
  refine h.transfer g.len g.connOf g.clients g.pending g.parked g.parkedEarly (fun k => (g.obj k).id)
    (fun k => (g.obj k).takenOver) (fun k => (g.obj k).stop) (fun k => (g.obj k).os) ?_ (g.idx h.idx) ?_ ?_
    (fun p _ _ => (g.obj p.obj).subs)
  · intro k hk
    unfold KeyOK; rw [(g.obj k).subs]; exact hk
  · intro c f he
    obtain ⟨i, hi, hf⟩ := h.own c f ((Entry.congr g.plain g.shared c f).mp he)
    refine ⟨i, hi, ?_⟩
    unfold subKeys; rw [(g.obj i).subs]; exact hf
  · intro c i hi f hf hs
    have hf' : f ∈ subKeys (getObj s i) := by unfold subKeys at hf ⊢; rw [← (g.obj i).subs]; exact hf
    exact (h.ownB c i hi f hf' hs).congr g.plain

/-- a handler acting for a registered session keeps the invariant -/
theorem SyncInvX.of_own {X : Nat → Prop} {s s' : Server} {i : Nat} (h : SyncInvX X s) (hw : WF s) (g : Own i s s')
    (hreg : assocGet s.clients (getObj s i).id = some i) : SyncInvX X s' := by
  have hobj : ∀ k, k ≠ i → QC (getObj s k) (getObj s' k) := g.other
  have hreg_own : ∀ c j, assocGet s.clients c = some j → c ≠ (getObj s i).id → j ≠ i := by
    intro c j hj hc e
    subst e
    exact hc (hw.clients_valid c j (assocGet_mem _ _ _ hj)).2.symm
  refine h.transfer g.len g.connOf g.clients g.pending g.parked g.parkedEarly ?_ ?_ ?_ ?_ ?_ (g.idx h.idx) ?_ ?_ ?_
  rotate_right 2
  · intro c j hj f hf hs
    by_cases hc : c = (getObj s i).id
    · subst hc
      rw [hreg] at hj
      cases hj
      exact g.hp_own h.idx (h.ownB _ i hreg) f hf hs
    · have hji := hreg_own c j hj hc
      have hf' : f ∈ subKeys (getObj s j) := by unfold subKeys at hf ⊢; rw [← (hobj j hji).subs]; exact hf
      exact g.hp_other h.idx c f hc (h.ownB c j hj f hf' hs)
  · intro p hp h1
    have hpi : p.obj ≠ i := by
      intro e
      exact (h.st1 p hp h1).1 _ (e ▸ hreg)
    exact (hobj p.obj hpi).subs
  · intro k
    by_cases hk : k = i
    · subst hk; exact g.id
    · exact (hobj k hk).id
  · intro k
    by_cases hk : k = i
    · subst hk; exact g.takenOver
    · exact (hobj k hk).takenOver
  · intro k
    by_cases hk : k = i
    · subst hk; exact g.stop
    · exact (hobj k hk).stop
  · intro k
    by_cases hk : k = i
    · subst hk; exact g.os
    · exact (hobj k hk).os
  · intro k
    by_cases hk : k = i
    · subst hk; exact g.key
    · intro hko; unfold KeyOK; rw [(hobj k hk).subs]; exact hko
  · intro c f he
    by_cases hc : c = (getObj s i).id
    · subst hc
      refine ⟨i, hreg, ?_⟩
      rcases g.ent_own h.idx (h.key i) f he with ⟨e0, k0⟩ | k1
      · obtain ⟨j, hj, hf⟩ := h.own _ f e0
        rw [hreg] at hj
        cases hj
        exact k0 hf
      · exact k1
    · obtain ⟨j, hj, hf⟩ := h.own c f (g.ent_other h.idx c f hc he)
      refine ⟨j, hj, ?_⟩
      have hji : j ≠ i := by
        intro e
        subst e
        exact hc (hw.clients_valid c j (assocGet_mem _ _ _ hj)).2.symm
      unfold subKeys; rw [(hobj j hji).subs]; exact hf

/-- dropping an exemption that is no longer needed -/
theorem SyncInvX.weaken {X Y : Nat → Prop} {s : Server} (h : SyncInvX X s)
    (hxy : ∀ k, k < s.objs.length → X k → ¬ Y k → Active s k → (getObj s k).takenOver = false → ¬ Stage1 s k →
      assocGet s.clients (getObj s k).id = some k) : SyncInvX Y s :=
  ⟨h.idx, h.own, h.ownB, h.key, h.os, h.ts,
   fun k hk ha ht hy hs1 => by
     by_cases hx : X k
     · exact hxy k hk hx hy ha ht hs1
     · exact h.reg k hk ha ht hx hs1,
   h.regTO, h.parkedLt, h.disj, h.parkedStopped, h.pendFree, h.st1, h.pendNodup, h.pendConn⟩

theorem SyncInv.toX {X : Nat → Prop} {s : Server} (h : SyncInv s) : SyncInvX X s :=
  h.weaken (fun _ _ hx => absurd hx (fun x => x))

/-! ### the session clean-up -/

/-- `Clients.Delete` of a stopped session without subscriptions whose handler is not parked -/
theorem SyncInvX.unregister {X : Nat → Prop} {s : Server} (h : SyncInvX X s) (i : Nat) (cid : Str)
    (hst : (getObj s i).stopped = true) (hnp : i ∉ s.parked) (hne : i ∉ s.parkedEarly)
    (hreg : assocGet s.clients cid = some i) (hsubs : (getObj s i).subs = []) :
    SyncInvX X { s with clients := assocDel s.clients cid } := by
  refine ⟨h.idx, ?_, ?_, h.key, h.os, h.ts, ?_, ?_, h.parkedLt, h.disj, h.parkedStopped, h.pendFree, ?_, h.pendNodup,
    h.pendConn⟩
  rotate_left 1
  · intro c k hk
    have hk' : assocGet (assocDel s.clients cid) c = some k := hk
    rw [Mochi.Topics.assocGet_assocDel] at hk'
    split at hk'
    · cases hk'
    · exact h.ownB c k hk'
  rotate_right 1
  · intro c f he
    obtain ⟨j, hj, hf⟩ := h.own c f he
    by_cases hc : c = cid
    · subst hc
      rw [hreg] at hj
      cases hj
      unfold subKeys at hf
      rw [hsubs] at hf
      cases hf
    · exact ⟨j, by show assocGet (assocDel s.clients cid) c = some j; rw [assocGet_assocDel_ne _ _ _ hc]; exact hj, hf⟩
  · intro k hk ha ht hx hs1
    have ha : Active s k := ha
    have hold := h.reg k hk ha ht hx hs1
    by_cases hc : (getObj s k).id = cid
    · rw [hc, hreg] at hold
      cases hold
      rcases ha with ha | ha | ha
      · rw [hst] at ha; cases ha
      · exact absurd ha hnp
      · exact absurd ha hne
    · show assocGet (assocDel s.clients cid) (getObj s k).id = some k
      rw [assocGet_assocDel_ne _ _ _ hc]; exact hold
  · intro c k hk
    have hk' : assocGet (assocDel s.clients cid) c = some k := hk
    rw [Mochi.Topics.assocGet_assocDel] at hk'
    split at hk'
    · cases hk'
    · exact h.regTO c k hk'
  · intro p hp h1
    refine ⟨fun c hc => ?_, (h.st1 p hp h1).2⟩
    have hc' : assocGet (assocDel s.clients cid) c = some p.obj := hc
    rw [Mochi.Topics.assocGet_assocDel] at hc'
    split at hc'
    · cases hc'
    · exact (h.st1 p hp h1).1 c hc'

theorem unsubscribeClient_objs (s : Server) (i : Nat) :
    (unsubscribeClient s i).objs = (setObj s i { getObj s i with subs := [] }).objs := by
  unfold unsubscribeClient
  extract_lets +onlyGivenNames c s1
  split
  · rfl
  · obtain ⟨t, n, he, _⟩ := unsubFold_spec c.id c.subs s1
    rw [he]

theorem unsubscribeClient_subs (s : Server) (i : Nat) (hi : i < s.objs.length) :
    (getObj (unsubscribeClient s i) i).subs = [] := by
  rw [getObj_of_objs_eq (unsubscribeClient_objs s i) i, getObj_setObj_eq s i _ hi]

/-- what the clean-up at the end of `attachClient` and `clearExpiredClients` do to one session:
    `ClearInflights`, `UnsubscribeClient`, `Clients.Delete` -/
theorem SyncInvX.cleanup {X : Nat → Prop} {s : Server} (h : SyncInvX X s) (hw : WF s) (i : Nat)
    (hi : i < s.objs.length) (hst : (getObj s i).stopped = true) (hnp : i ∉ s.parked) (hne : i ∉ s.parkedEarly)
    (hreg : assocGet s.clients (getObj s i).id = some i) :
    SyncInvX X { unsubscribeClient (clearInflights s i) i with
      clients := assocDel (unsubscribeClient (clearInflights s i) i).clients (getObj s i).id } := by
  have q3 := clearInflights_quiet s i
  have h3 : SyncInvX X (clearInflights s i) := h.of_quiet q3
  have w3 : WF (clearInflights s i) := clearInflights_wf s i hw
  have hid3 : (getObj (clearInflights s i) i).id = (getObj s i).id := (q3.obj i).id
  have hto3 : (getObj (clearInflights s i) i).takenOver = false := by
    rw [(q3.obj i).takenOver]; exact h.regTO _ _ hreg
  have hreg3 : assocGet (clearInflights s i).clients (getObj (clearInflights s i) i).id = some i := by
    rw [q3.clients, hid3]; exact hreg
  have o4 := unsubscribeClient_own (clearInflights s i) i hto3
  have h4 : SyncInvX X (unsubscribeClient (clearInflights s i) i) := h3.of_own w3 o4 hreg3
  have hi3 : i < (clearInflights s i).objs.length := by rw [q3.len]; exact hi
  refine h4.unregister i _ (o4.stop ((q3.obj i).stop hst)) ?_ ?_ ?_ (unsubscribeClient_subs _ i hi3)
  · rw [o4.parked, q3.parked]; exact hnp
  · rw [o4.parkedEarly, q3.parkedEarly]; exact hne
  · rw [o4.clients, q3.clients]; exact hreg

/-! ### the lists of parked handlers are only changed by the schedule ops -/

structure Lst (s s' : Server) : Prop where
  parked : s'.parked = s.parked
  parkedEarly : s'.parkedEarly = s.parkedEarly

theorem Lst.refl (s : Server) : Lst s s := ⟨rfl, rfl⟩
theorem Lst.trans {s s1 s2 : Server} (h : Lst s s1) (g : Lst s1 s2) : Lst s s2 :=
  ⟨g.parked.trans h.parked, g.parkedEarly.trans h.parkedEarly⟩
theorem Quiet.lst {s s' : Server} (h : Quiet s s') : Lst s s' := ⟨h.parked, h.parkedEarly⟩
theorem Own.lst {i : Nat} {s s' : Server} (h : Own i s s') : Lst s s' := ⟨h.parked, h.parkedEarly⟩

theorem unsubscribeClient_lst (s : Server) (i : Nat) : Lst s (unsubscribeClient s i) := by
  unfold unsubscribeClient
  extract_lets +onlyGivenNames c s1
  split
  · exact ⟨rfl, rfl⟩
  · obtain ⟨t, n, he, _⟩ := unsubFold_spec c.id c.subs s1
    rw [he]
    exact ⟨rfl, rfl⟩

theorem detachB_lst (s : Server) (i : Nat) : Lst s (detachB s i) := by
  unfold detachB
  extract_lets +onlyGivenNames c expire s3 s4 s2
  show Lst s { s2 with info := _ }
  have h2 : Lst s s2 := by
    show Lst s (if (expire && !c.takenOver) = true then _ else s)
    split
    · have h3 : Lst s s3 := (clearInflights_quiet s i).lst
      have h4 : Lst s s4 := h3.trans (unsubscribeClient_lst s3 i)
      exact ⟨h4.parked, h4.parkedEarly⟩
    · exact Lst.refl s
  exact ⟨h2.parked, h2.parkedEarly⟩

theorem detach_lst (s : Server) (i : Nat) (b : Bool) : Lst s (detach s i b).1 := by
  unfold detach
  split
  rename_i s1 o1 heq
  have hs1 : Lst s s1 := by
    have := (detachA_quiet s i b).lst
    rw [heq] at this
    exact this
  exact hs1.trans (detachB_lst s1 i)

/-! ### leaving the read loop -/

theorem stopClient_stopped (s : Server) (i : Nat) (hi : i < s.objs.length) :
    (getObj (stopClient s i).1 i).stopped = true := by
  unfold stopClient
  extract_lets +onlyGivenNames c
  split
  · rename_i h; exact h
  · show (getObj (setObj s i _) i).stopped = true
    rw [getObj_setObj_eq s i _ hi]

theorem detachA_true_stopped (s : Server) (i : Nat) (hi : i < s.objs.length) :
    (getObj (detachA s i true).1 i).stopped = true := by
  unfold detachA
  simp only [if_true]
  have hlen := (sendLWT_good s i).len
  exact stopClient_stopped (sendLWT s i).1 i (by rw [hlen]; exact hi)

/-- the session clean-up at the end of `attachClient`, for a stopped session whose handler is not (or no longer)
    parked and that is still the registered one unless it was taken over -/
theorem detachB_inv {X : Nat → Prop} {s : Server} (h : SyncInvX X s) (hw : WF s) (i : Nat)
    (hi : i < s.objs.length) (hst : (getObj s i).stopped = true) (hnp : i ∉ s.parked) (hne : i ∉ s.parkedEarly)
    (hreg : (getObj s i).takenOver = true ∨ assocGet s.clients (getObj s i).id = some i) :
    SyncInvX X (detachB s i) := by
  unfold detachB
  extract_lets +onlyGivenNames c expire s3 s4 s2
  have h2 : SyncInvX X s2 := by
    show SyncInvX X (if (expire && !c.takenOver) = true then _ else s)
    split
    · rename_i hcond
      have hto : (getObj s i).takenOver = false := by
        have : c.takenOver = false := by
          rw [Bool.and_eq_true] at hcond
          simpa using hcond.2
        exact this
      rcases hreg with hr | hr
      · rw [hto] at hr; cases hr
      · exact h.cleanup hw i hi hst hnp hne hr
    · exact h
  exact h2.of_quiet ((Quiet.refl s2).upd8)

theorem detach_inv {X : Nat → Prop} {s : Server} (h : SyncInvX X s) (hw : WF s) (i : Nat)
    (hi : i < s.objs.length) (b : Bool) (hb : b = false → (getObj s i).stopped = true)
    (hnp : i ∉ s.parked) (hne : i ∉ s.parkedEarly)
    (hreg : (getObj s i).takenOver = true ∨ assocGet s.clients (getObj s i).id = some i) :
    SyncInvX X (detach s i b).1 := by
  unfold detach
  split
  rename_i s1 o1 heq
  have q1 : Quiet s s1 := by
    have := detachA_quiet s i b
    rw [heq] at this; exact this
  have w1 : WF s1 := by
    have := detachA_wf s i b hw
    rw [heq] at this; exact this
  have hst1 : (getObj s1 i).stopped = true := by
    cases b with
    | true =>
      have := detachA_true_stopped s i hi
      rw [heq] at this; exact this
    | false => exact (q1.obj i).stop (hb rfl)
  refine detachB_inv (h.of_quiet q1) w1 i (by rw [q1.len]; exact hi) hst1 (by rw [q1.parked]; exact hnp)
    (by rw [q1.parkedEarly]; exact hne) ?_
  rw [(q1.obj i).takenOver, (q1.obj i).id, q1.clients]
  exact hreg

/-! ### one inbound packet on a connection -/

/-- no handler parked by a schedule op belongs to object `i` -/
def Free (s : Server) (i : Nat) : Prop := i ∉ s.parked ∧ i ∉ s.parkedEarly ∧ ∀ p ∈ s.pending, p.obj ≠ i

theorem Free.not_stage1 {s : Server} {i : Nat} (h : Free s i) : ¬ Stage1 s i := by
  rintro ⟨p, hp, _, h2⟩
  exact h.2.2 p hp h2

theorem Free.of_eq {s s' : Server} {i : Nat} (h : Free s i) (hpk : s'.parked = s.parked)
    (hpe : s'.parkedEarly = s.parkedEarly) (hp : s'.pending = s.pending) : Free s' i := by
  unfold Free; rw [hpk, hpe, hp]; exact h

theorem SyncInvX.registered_of_live {X : Nat → Prop} {s : Server} {i : Nat} (h : SyncInvX X s)
    (hi : i < s.objs.length) (hfree : Free s i) (hx : ¬ X i) (hlive : (getObj s i).stopped = false) :
    assocGet s.clients (getObj s i).id = some i := by
  have hto : (getObj s i).takenOver = false := by
    cases hto : (getObj s i).takenOver with
    | false => rfl
    | true => rw [h.ts i hto] at hlive; cases hlive
  exact h.reg i hi (Or.inl hlive) hto hx hfree.not_stage1

/-- taken over, or still the registered session: what `detach` needs -/
theorem SyncInvX.reg_or_taken {X : Nat → Prop} {s : Server} {i : Nat} (h : SyncInvX X s)
    (hi : i < s.objs.length) (hfree : Free s i) (hx : ¬ X i) (hlive : (getObj s i).stopped = false) :
    (getObj s i).takenOver = true ∨ assocGet s.clients (getObj s i).id = some i :=
  Or.inr (h.registered_of_live hi hfree hx hlive)

theorem recvOn_inv {X : Nat → Prop} {s : Server} (h : SyncInvX X s) (hw : WF s) (conn : Nat) (pk : InPk) (b : Bool)
    (hfree : ∀ i, assocGet s.connOf conn = some i → Free s i ∧ ¬ X i) :
    SyncInvX X (recvOn s conn pk b).1 ∧ Lst s (recvOn s conn pk b).1 := by
  unfold recvOn
  split
  · exact ⟨h, Lst.refl s⟩
  · rename_i i hc
    obtain ⟨hfr, hx⟩ := hfree i hc
    have hi : i < s.objs.length := hw.conn_valid conn i (assocGet_mem _ _ _ hc)
    split
    · exact ⟨h, Lst.refl s⟩
    · rename_i hop
      have hopen : (getObj s i).isOpen = true := by simpa using hop
      have hlive : (getObj s i).stopped = false := by
        have := h.os i
        rw [hopen] at this
        cases hs : (getObj s i).stopped with
        | false => rfl
        | true => rw [hs] at this; cases this
      have hreg := h.registered_of_live hi hfr hx hlive
      split
      rename_i s1 o e heq
      have o1 : Own i s s1 := by
        have := receivePacket_own s i hi pk
        rw [heq] at this; exact this
      have w1 : WF s1 := by
        have := receivePacket_wf s i pk hw
        rw [heq] at this; exact this
      have h1 : SyncInvX X s1 := h.of_own hw o1 hreg
      have hi1 : i < s1.objs.length := by rw [o1.len]; exact hi
      have hnp1 : i ∉ s1.parked := by rw [o1.parked]; exact hfr.1
      have hne1 : i ∉ s1.parkedEarly := by rw [o1.parkedEarly]; exact hfr.2.1
      have hreg1 : (getObj s1 i).takenOver = true ∨ assocGet s1.clients (getObj s1 i).id = some i := by
        right; rw [o1.clients, o1.id]; exact hreg
      split
      · split
        rename_i s2 o2 hd
        have := detach_inv h1 w1 i hi1 true (fun e => by cases e) hnp1 hne1 hreg1
        have hl := detach_lst s1 i true
        rw [hd] at this hl
        exact ⟨this, o1.lst.trans hl⟩
      · split
        · rename_i hcl
          split
          rename_i s2 o2 hd
          have hst1 : (getObj s1 i).stopped = true := by
            have := h1.os i
            have hcl' : (getObj s1 i).isOpen = false := by simpa using hcl
            rw [hcl'] at this
            cases hs : (getObj s1 i).stopped with
            | true => rfl
            | false => rw [hs] at this; cases this
          have := detach_inv h1 w1 i hi1 false (fun _ => hst1) hnp1 hne1 hreg1
          have hl := detach_lst s1 i false
          rw [hd] at this hl
          exact ⟨this, o1.lst.trans hl⟩
        · split
          · split
            rename_i s2 o2 e2 heq2
            have q2 : Quiet s1 s2 := by
              have := receivePacket_quiet s1 i .pingreq rfl
              rw [heq2] at this; exact this
            have w2 : WF s2 := by
              have := receivePacket_wf s1 i .pingreq w1
              rw [heq2] at this; exact this
            have h2 : SyncInvX X s2 := h1.of_quiet q2
            extract_lets +onlyGivenNames o2f
            split
            · split
              rename_i s3 o3 hd
              have := detach_inv h2 w2 i (by rw [q2.len]; exact hi1) true (fun e => by cases e)
                (by rw [q2.parked]; exact hnp1) (by rw [q2.parkedEarly]; exact hne1)
                (by rw [(q2.obj i).takenOver, (q2.obj i).id, q2.clients]; exact hreg1)
              have hl := detach_lst s2 i true
              rw [hd] at this hl
              exact ⟨this, (o1.lst.trans q2.lst).trans hl⟩
            · exact ⟨h2, o1.lst.trans q2.lst⟩
          · exact ⟨h1, o1.lst⟩

/-! ### `Clients.Add` -/

theorem WF.reg_unique {s : Server} (hw : WF s) {c c' : Str} {k : Nat} (h : assocGet s.clients c = some k)
    (h' : assocGet s.clients c' = some k) : c = c' := by
  have a := (hw.clients_valid c k (assocGet_mem _ _ _ h)).2
  have b := (hw.clients_valid c' k (assocGet_mem _ _ _ h')).2
  exact a.symm.trans b

/-- the end of `inheritClientSession` + `Clients.Add`: `s1` is the state in which the previous session under
    `cid` (if any) is still registered, `G` the state in which the connecting object `i` has inherited or the old
    session was discarded -/
theorem SyncInvX.register {s1 G : Server} {i : Nat} {cid : Str} (h : SyncInvX (· = i) s1) (hw : WF s1)
    (hunreg : ∀ c, assocGet s1.clients c ≠ some i)
    (hpi : ∀ p ∈ s1.pending, p.obj ≠ i)
    (hlen : G.objs.length = s1.objs.length) (hconn : G.connOf = s1.connOf) (hcl : G.clients = s1.clients)
    (hpend : G.pending = s1.pending) (hpk : G.parked = s1.parked) (hpe : G.parkedEarly = s1.parkedEarly)
    (hoth : ∀ k, k ≠ i → assocGet s1.clients cid ≠ some k → QC (getObj s1 k) (getObj G k))
    (he : ∀ e, assocGet s1.clients cid = some e → (getObj G e).stopped = true ∧ (getObj G e).takenOver = true ∧
      (getObj G e).subs = [] ∧ (getObj G e).isOpen = false)
    (hiG : (getObj G i).id = cid ∧ (getObj G i).takenOver = false ∧
      (getObj G i).isOpen = (!(getObj G i).stopped) ∧ KeyOK (getObj G i) ∧
      ((getObj s1 i).stopped = true → (getObj G i).stopped = true))
    (hidx : IdxOK G.topics)
    (hent1 : ∀ c f, c ≠ cid → Entry G.topics c f → Entry s1.topics c f)
    (hent2 : ∀ f, Entry G.topics cid f → f ∈ subKeys (getObj G i))
    (hentB1 : ∀ c f, c ≠ cid → HasPlain s1.topics c f → HasPlain G.topics c f)
    (hentB2 : ∀ f ∈ subKeys (getObj G i), shareKey f = false → HasPlain G.topics cid f) :
    SyncInv { G with clients := assocSet G.clients cid i } := by
  have hcases : ∀ k, k = i ∨ (k ≠ i ∧ assocGet s1.clients cid = some k) ∨ (k ≠ i ∧ assocGet s1.clients cid ≠ some k) := by
    intro k
    by_cases h1 : k = i
    · exact Or.inl h1
    · by_cases h2 : assocGet s1.clients cid = some k
      · exact Or.inr (Or.inl ⟨h1, h2⟩)
      · exact Or.inr (Or.inr ⟨h1, h2⟩)
  have hget : ∀ c, assocGet (assocSet G.clients cid i) c = if c = cid then some i else assocGet s1.clients c := by
    intro c; rw [Mochi.Topics.assocGet_assocSet, hcl]
  -- an object registered under another id is neither `i` nor the previous session under `cid`
  have hother : ∀ c k, c ≠ cid → assocGet s1.clients c = some k → k ≠ i ∧ assocGet s1.clients cid ≠ some k := by
    intro c k hc hk
    exact ⟨fun e => hunreg c (e ▸ hk), fun hk' => hc (hw.reg_unique hk hk')⟩
  refine ⟨hidx, ?_, ?_, ?_, ?_, ?_, ?_, ?_, ?_, ?_, ?_, ?_, ?_, ?_, ?_⟩
  rotate_left 1
  · intro c j hj f hf hs
    replace hj : assocGet (assocSet G.clients cid i) c = some j := hj
    replace hf : f ∈ subKeys (getObj G j) := hf
    show HasPlain G.topics c f
    rw [hget] at hj
    split at hj
    · rename_i hc
      cases hj
      rw [hc]
      exact hentB2 f hf hs
    · rename_i hc
      obtain ⟨h1, h2⟩ := hother c j hc hj
      have hf' : f ∈ subKeys (getObj s1 j) := by unfold subKeys at hf ⊢; rw [← (hoth j h1 h2).subs]; exact hf
      exact hentB1 c f hc (h.ownB c j hj f hf' hs)
  rotate_right 1
  · intro c f hcf
    show ∃ j, assocGet (assocSet G.clients cid i) c = some j ∧ f ∈ subKeys (getObj G j)
    by_cases hc : c = cid
    · subst hc
      exact ⟨i, by rw [hget]; simp, hent2 f hcf⟩
    · obtain ⟨j, hj, hf⟩ := h.own c f (hent1 c f hc hcf)
      obtain ⟨h1, h2⟩ := hother c j hc hj
      refine ⟨j, by rw [hget, if_neg hc]; exact hj, ?_⟩
      unfold subKeys; rw [(hoth j h1 h2).subs]; exact hf
  · intro k
    show KeyOK (getObj G k)
    rcases hcases k with rfl | ⟨_, h2⟩ | ⟨h1, h2⟩
    · exact hiG.2.2.2.1
    · intro fs hfs
      rw [(he k h2).2.2.1] at hfs; cases hfs
    · unfold KeyOK; rw [(hoth k h1 h2).subs]; exact h.key k
  · intro k
    show (getObj G k).isOpen = !(getObj G k).stopped
    rcases hcases k with rfl | ⟨_, h2⟩ | ⟨h1, h2⟩
    · exact hiG.2.2.1
    · rw [(he k h2).1, (he k h2).2.2.2]; rfl
    · exact (hoth k h1 h2).os (h.os k)
  · intro k hk
    replace hk : (getObj G k).takenOver = true := hk
    show (getObj G k).stopped = true
    rcases hcases k with rfl | ⟨_, h2⟩ | ⟨h1, h2⟩
    · rw [hiG.2.1] at hk; cases hk
    · exact (he k h2).1
    · rw [(hoth k h1 h2).takenOver] at hk
      exact (hoth k h1 h2).stop (h.ts k hk)
  · intro k hk ha ht _ hs1
    replace hk : k < G.objs.length := hk
    replace ha : Active G k := ha
    replace ht : (getObj G k).takenOver = false := ht
    replace hs1 : ¬ Stage1 G k := hs1
    show assocGet (assocSet G.clients cid i) (getObj G k).id = some k
    rcases hcases k with rfl | ⟨_, h2⟩ | ⟨h1, h2⟩
    · rw [hget, if_pos hiG.1]
    · rw [(he k h2).2.1] at ht; cases ht
    · have q := hoth k h1 h2
      rw [q.takenOver] at ht
      rw [hlen] at hk
      have hold := h.reg k hk (Active.mono hpk hpe q.stop ha) ht h1
        (fun ⟨p, hp, a, b⟩ => hs1 ⟨p, by rw [hpend]; exact hp, a, b⟩)
      rw [q.id, hget]
      have hne : (getObj s1 k).id ≠ cid := fun e => h2 (e ▸ hold)
      rw [if_neg hne]; exact hold
  · intro c k hk
    replace hk : assocGet (assocSet G.clients cid i) c = some k := hk
    show (getObj G k).takenOver = false
    rw [hget] at hk
    split at hk
    · cases hk; exact hiG.2.1
    · rename_i hc
      obtain ⟨h1, h2⟩ := hother c k hc hk
      rw [(hoth k h1 h2).takenOver]; exact h.regTO c k hk
  · intro k hk
    show k < G.objs.length
    replace hk : k ∈ G.parked ∨ k ∈ G.parkedEarly := hk
    rw [hpk, hpe] at hk
    rw [hlen]; exact h.parkedLt k hk
  · intro k hk
    replace hk : k ∈ G.parked := hk
    show k ∉ G.parkedEarly
    rw [hpk] at hk
    rw [hpe]; exact h.disj k hk
  · intro k hk
    replace hk : k ∈ G.parked := hk
    show (getObj G k).stopped = true
    rw [hpk] at hk
    have hold := h.parkedStopped k hk
    rcases hcases k with rfl | ⟨_, h2⟩ | ⟨h1, h2⟩
    · exact hiG.2.2.2.2 hold
    · exact (he k h2).1
    · exact (hoth k h1 h2).stop hold
  · intro p hp
    replace hp : p ∈ G.pending := hp
    show p.obj ∉ G.parked ∧ p.obj ∉ G.parkedEarly
    rw [hpend] at hp
    rw [hpk, hpe]; exact h.pendFree p hp
  · intro p hp hs
    replace hp : p ∈ G.pending := hp
    rw [hpend] at hp
    obtain ⟨a, b, b'⟩ := h.st1 p hp hs
    refine ⟨fun c hc => ?_, ?_, ?_⟩
    · replace hc : assocGet (assocSet G.clients cid i) c = some p.obj := hc
      rw [hget] at hc
      split at hc
      · cases hc; exact hpi p hp rfl
      · exact a c hc
    · show (getObj G p.obj).takenOver = false
      rw [(hoth p.obj (hpi p hp) (a cid)).takenOver]; exact b
    · show (getObj G p.obj).subs = []
      rw [(hoth p.obj (hpi p hp) (a cid)).subs]; exact b'
  · show (G.pending.map (·.obj)).Nodup
    rw [hpend]; exact h.pendNodup
  · intro p hp
    replace hp : p ∈ G.pending := hp
    show assocGet G.connOf p.conn = some p.obj
    rw [hpend] at hp
    rw [hconn]; exact h.pendConn p hp

/-! ### `inheritClientSession` -/

/-- the server fields the invariant reads besides the objects and the topic index -/
structure Same (s s' : Server) : Prop where
  len : s'.objs.length = s.objs.length
  connOf : s'.connOf = s.connOf
  clients : s'.clients = s.clients
  pending : s'.pending = s.pending
  parked : s'.parked = s.parked
  parkedEarly : s'.parkedEarly = s.parkedEarly

theorem Same.refl (s : Server) : Same s s := ⟨rfl, rfl, rfl, rfl, rfl, rfl⟩
theorem Same.trans {s s1 s2 : Server} (h : Same s s1) (g : Same s1 s2) : Same s s2 :=
  ⟨g.len.trans h.len, g.connOf.trans h.connOf, g.clients.trans h.clients, g.pending.trans h.pending,
   g.parked.trans h.parked, g.parkedEarly.trans h.parkedEarly⟩
theorem Quiet.same {s s' : Server} (h : Quiet s s') : Same s s' :=
  ⟨h.len, h.connOf, h.clients, h.pending, h.parked, h.parkedEarly⟩
theorem Own.same {i : Nat} {s s' : Server} (h : Own i s s') : Same s s' :=
  ⟨h.len, h.connOf, h.clients, h.pending, h.parked, h.parkedEarly⟩
theorem same_setObj (s : Server) (e : Nat) (c : Client) : Same s (setObj s e c) :=
  ⟨setObj_length s e c, rfl, rfl, rfl, rfl, rfl⟩

theorem disconnectClient_stopped (s : Server) (e code : Nat) (he : e < s.objs.length) :
    (getObj (disconnectClient s e code).1 e).stopped = true := by
  unfold disconnectClient
  extract_lets +onlyGivenNames c w
  split
  rename_i s' o heq
  have := stopClient_stopped s e he
  rw [heq] at this
  exact this

/-- one iteration of the loop of `inheritClientSession` that re-subscribes the new object `i` -/
def inheritStep (cid : Str) (i : Nat) (s : Server) (fs : Str × Sub) : Server :=
  let rr := subscribe s.topics cid fs.2
  let s := { s with topics := rr.1, info := if rr.2 then { s.info with subs := s.info.subs + 1 } else s.info }
  modObj s i (fun x => { x with subs := assocSet x.subs fs.2.filter fs.2 })

theorem inheritStep_eq (cid : Str) (i : Nat) (b : Server) (fs : Str × Sub) :
    ∃ n, inheritStep cid i b fs = modObj { b with topics := (subscribe b.topics cid fs.2).1, info := n } i
      (fun x => { x with subs := assocSet x.subs fs.2.filter fs.2 }) := ⟨_, rfl⟩

/-- the loop of `inheritClientSession` that re-subscribes the new object `i` to the old session's filters -/
theorem inheritFold_spec (cid : Str) (i : Nat) (l : List (Str × Sub)) (b : Server) (hi : i < b.objs.length)
    (hid : (getObj b i).id = cid) (hnb : ∀ fs ∈ l, shareBare fs.2.filter = false) :
    Own i b (l.foldl (inheritStep cid i) b) ∧
    (∀ f ∈ subKeys (getObj b i), f ∈ subKeys (getObj (l.foldl (inheritStep cid i) b) i)) ∧
    (∀ fs ∈ l, fs.2.filter ∈ subKeys (getObj (l.foldl (inheritStep cid i) b) i)) := by
  induction l generalizing b with
  | nil => exact ⟨Own.refl i b, fun f hf => hf, fun fs hfs => by cases hfs⟩
  | cons fs rest ih =>
    rw [List.foldl_cons]
    obtain ⟨n0, hn0⟩ := inheritStep_eq cid i b fs
    rw [hn0]
    have key : Own i b (modObj { b with topics := (subscribe b.topics cid fs.2).1, info := n0 } i
        (fun x => { x with subs := assocSet x.subs fs.2.filter fs.2 })) := by
      have := subscribeStep_own b i hi fs.2 n0 (hnb fs (List.mem_cons_self ..))
      rw [hid] at this
      exact this
    have hself : getObj (modObj { b with topics := (subscribe b.topics cid fs.2).1, info := n0 } i
        (fun x => { x with subs := assocSet x.subs fs.2.filter fs.2 })) i =
        { getObj b i with subs := assocSet (getObj b i).subs fs.2.filter fs.2 } :=
      getObj_setObj_eq { b with topics := (subscribe b.topics cid fs.2).1, info := n0 } i _ hi
    obtain ⟨o, hk, hl⟩ := ih _ (by rw [key.len]; exact hi) (by rw [key.id]; exact hid)
      (fun fs' hfs' => hnb fs' (List.mem_cons_of_mem _ hfs'))
    refine ⟨key.trans o, fun f hf => hk f ?_, fun fs' hfs' => ?_⟩
    · rw [hself]
      exact mem_keys_assocSet_of_mem _ _ _ _ hf
    · rcases List.mem_cons.mp hfs' with e | e
      · subst e
        apply hk
        rw [hself]
        exact mem_keys_assocSet_self _ _ _
      · exact hl fs' e

theorem unsubscribeClient_of_takenOver (s : Server) (e : Nat) (h : (getObj s e).takenOver = true) :
    unsubscribeClient s e = setObj s e { getObj s e with subs := [] } := by
  unfold unsubscribeClient
  simp only [h, if_true]

theorem isOpen_false_of {c : Client} (hos : c.isOpen = !c.stopped) (hst : c.stopped = true) : c.isOpen = false := by
  rw [hos, hst]; rfl

/-- `attachClient` from the point the client is admitted up to and including `Clients.Add` -/
theorem admitA_inv {s : Server} {i : Nat} {k : Connect} (h : SyncInvX (· = i) s) (hw : WF s)
    (hi : i < s.objs.length) (hid : (getObj s i).id = k.id) (hunreg : ∀ c, assocGet s.clients c ≠ some i)
    (hpi : ∀ p ∈ s.pending, p.obj ≠ i) (hto : (getObj s i).takenOver = false)
    (hsubs : (getObj s i).subs = []) :
    SyncInv (admitA s i k).1 ∧ Lst s (admitA s i k).1 ∧
      (∀ e, assocGet s.clients k.id = some e → (getObj (admitA s i k).1 e).takenOver = true) ∧
      (k.clean = true → (getObj (admitA s i k).1 i).subs = (getObj s i).subs) := by
  unfold admitA
  extract_lets +onlyGivenNames src s0 exLive
  have q0 : Quiet s s0 := (Quiet.refl s).upd8
  have w0 : WF s0 := hw.upd rfl rfl rfl rfl
  have h0 : SyncInvX (· = i) s0 := h.of_quiet q0
  split
  rename_i s' o1 present heq
  show SyncInv { s' with clients := assocSet s'.clients k.id i } ∧
    Lst s { s' with clients := assocSet s'.clients k.id i } ∧
    (∀ e, assocGet s.clients k.id = some e → (getObj s' e).takenOver = true) ∧
    (k.clean = true → (getObj s' i).subs = (getObj s i).subs)
  split at heq
  · rename_i e hce
    have hce : assocGet s.clients k.id = some e := hce
    extract_lets +onlyGivenNames ex at heq
    split at heq
    rename_i sD o hd
    have qD : Quiet s sD := by
      have := disconnectClient_quiet s0 e 0x8E
      rw [hd] at this
      exact q0.trans this
    have wD : WF sD := by
      have := disconnectClient_wf s0 e 0x8E w0
      rw [hd] at this; exact this
    have hD : SyncInvX (· = i) sD := h.of_quiet qD
    have he_lt : e < s.objs.length := (hw.clients_valid k.id e (assocGet_mem _ _ _ hce)).1
    have hei : e ≠ i := fun x => hunreg k.id (x ▸ hce)
    have hstD : (getObj sD e).stopped = true := by
      have := disconnectClient_stopped s0 e 0x8E he_lt
      rw [hd] at this; exact this
    have hregD : assocGet sD.clients k.id = some e := by rw [qD.clients]; exact hce
    have htoD : (getObj sD e).takenOver = false := hD.regTO _ _ hregD
    have hidD : (getObj sD e).id = k.id := (wD.clients_valid k.id e (assocGet_mem _ _ _ hregD)).2
    have hunregD : ∀ c, assocGet sD.clients c ≠ some i := by rw [qD.clients]; exact hunreg
    have hpiD : ∀ p ∈ sD.pending, p.obj ≠ i := by rw [qD.pending]; exact hpi
    have hiD : i < sD.objs.length := by rw [qD.len]; exact hi
    have heD : e < sD.objs.length := by rw [qD.len]; exact he_lt
    have hne_iff : ∀ k', assocGet sD.clients k.id ≠ some k' → k' ≠ e := fun k' hk' x => hk' (x ▸ hregD)
    split at heq
    · -- Clean Start (or the old session was an MQTT 3 clean session): the old session is discarded
      extract_lets +onlyGivenNames s2 s3 at heq
      cases heq
      have o2 : Own e sD s2 := unsubscribeClient_own sD e htoD
      have q3 : Quiet s2 s3 := clearInflights_quiet s2 e
      have o3 : Own e sD s3 := o2.quiet q3
      have he3 : e < s3.objs.length := by rw [o3.len]; exact heD
      have hGe : getObj (modObj s3 e (fun x => { x with takenOver := true })) e =
          { getObj s3 e with takenOver := true } := getObj_setObj_eq s3 e _ he3
      have hGk : ∀ k', k' ≠ e → getObj (modObj s3 e (fun x => { x with takenOver := true })) k' = getObj s3 k' :=
        fun k' hk' => getObj_setObj_ne s3 e k' _ hk'
      have hsubs3 : (getObj s3 e).subs = [] := by
        rw [(q3.obj e).subs]; exact unsubscribeClient_subs sD e heD
      have sm : Same sD (modObj s3 e (fun x => { x with takenOver := true })) := o3.same.trans (same_setObj s3 e _)
      refine ⟨SyncInvX.register hD wD hunregD hpiD sm.len sm.connOf sm.clients sm.pending sm.parked sm.parkedEarly
        ?hoth ?he ?hiG (o3.idx hD.idx) ?hent1 ?hent2 ?hentB1 ?hentB2, ⟨?lp, ?le⟩, ?hto, ?hcs⟩
      case hcs =>
        intro _
        rw [hGk i hei.symm, (o3.other i hei.symm).subs, (qD.obj i).subs]
      case hentB1 =>
        intro c f hc hp
        exact o3.hp_other hD.idx c f (by rw [hidD]; exact hc) hp
      case hentB2 =>
        intro f hf _
        rw [hGk i hei.symm] at hf
        unfold subKeys at hf
        rw [(o3.other i hei.symm).subs, (qD.obj i).subs, hsubs] at hf
        cases hf
      case hto =>
        intro e' he'
        rw [hce] at he'
        cases he'
        rw [hGe]
      case hoth =>
        intro k' hk'i hk'
        rw [hGk k' (hne_iff k' hk')]
        exact o3.other k' (hne_iff k' hk')
      case he =>
        intro e' he'
        rw [hregD] at he'
        cases he'
        rw [hGe]
        exact ⟨o3.stop hstD, rfl, hsubs3, isOpen_false_of (o3.os (hD.os e)) (o3.stop hstD)⟩
      case hiG =>
        rw [hGk i hei.symm]
        have q := o3.other i hei.symm
        refine ⟨q.id.trans ((qD.obj i).id.trans hid), q.takenOver.trans ((qD.obj i).takenOver.trans hto),
          q.os (hD.os i), ?_, q.stop⟩
        unfold KeyOK; rw [q.subs]; exact hD.key i
      case hent1 =>
        intro c f hc hcf
        exact o3.ent_other hD.idx c f (by rw [hidD]; exact hc) hcf
      case hent2 =>
        intro f hcf
        have hcf' : Entry s3.topics (getObj sD e).id f := by rw [hidD]; exact hcf
        exfalso
        rcases o3.ent_own hD.idx (hD.key e) f hcf' with ⟨e0, k0⟩ | k1
        · rw [hidD] at e0
          obtain ⟨j, hj, hf⟩ := hD.own _ f e0
          rw [hregD] at hj
          cases hj
          have := k0 hf
          unfold subKeys at this
          rw [hsubs3] at this
          cases this
        · unfold subKeys at k1
          rw [hsubs3] at k1
          cases k1
      case lp =>
        show (modObj s3 e (fun x => { x with takenOver := true })).parked = s.parked
        rw [sm.parked, qD.parked]
      case le =>
        show (modObj s3 e (fun x => { x with takenOver := true })).parkedEarly = s.parkedEarly
        rw [sm.parkedEarly, qD.parkedEarly]
    · -- the session is inherited
      rename_i hcond
      extract_lets +onlyGivenNames s2 ex2 rmx s2i src2 s3 s4 s5 s6 at heq
      rw [← (Prod.mk.inj heq).1]
      -- s2: the old object is marked taken over
      have hs2e : getObj s2 e = { getObj sD e with takenOver := true } := getObj_setObj_eq sD e _ heD
      have hs2k : ∀ k', k' ≠ e → getObj s2 k' = getObj sD k' := fun k' hk' => getObj_setObj_ne sD e k' _ hk'
      have sm2 : Same sD s2 := same_setObj sD e _
      have hex2 : ex2.subs = (getObj sD e).subs := by
        show (getObj s2 e).subs = _
        rw [hs2e]
      -- s3: the in-flight messages are copied
      have q23 : Quiet s2 s3 := by
        show Quiet s2 (if ex2.inflight.length > 0 then _ else s2)
        split
        · have q2i : Quiet s2 s2i := (Quiet.refl s2).mod i _ (by qc_rfl)
          exact q2i.upd8
        · exact Quiet.refl s2
      have hi3 : i < s3.objs.length := by rw [q23.len, sm2.len]; exact hiD
      have hid3 : (getObj s3 i).id = k.id := by
        rw [(q23.obj i).id, hs2k i hei.symm, (qD.obj i).id]; exact hid
      -- s4: the subscriptions are copied
      obtain ⟨o34, _, hkeys⟩ := inheritFold_spec k.id i ex2.subs s3 hi3 hid3 (by
        intro fs hfs
        rw [hex2] at hfs
        have hko := hD.key e fs hfs
        rw [hko.1]; exact hko.2)
      have hs4 : s4 = ex2.subs.foldl (inheritStep k.id i) s3 := rfl
      rw [← hs4] at o34 hkeys
      -- s5, s6: the old object is emptied
      have hto4 : (getObj s4 e).takenOver = true := by
        rw [(o34.other e hei).takenOver, (q23.obj e).takenOver, hs2e]
      have hs5 : s5 = setObj s4 e { getObj s4 e with subs := [] } := unsubscribeClient_of_takenOver s4 e hto4
      have he4 : e < s4.objs.length := by rw [o34.len, q23.len, sm2.len]; exact heD
      have hs5e : getObj s5 e = { getObj s4 e with subs := [] } := by rw [hs5]; exact getObj_setObj_eq s4 e _ he4
      have hs5k : ∀ k', k' ≠ e → getObj s5 k' = getObj s4 k' := by
        intro k' hk'; rw [hs5]; exact getObj_setObj_ne s4 e k' _ hk'
      have sm5 : Same s4 s5 := by rw [hs5]; exact same_setObj s4 e _
      have ht5 : s5.topics = s4.topics := by rw [hs5]; rfl
      have q56 : Quiet s5 s6 := clearInflights_quiet s5 e
      have sm : Same sD s6 := ((sm2.trans q23.same).trans o34.same).trans (sm5.trans q56.same)
      -- the old object through the chain
      have hst4 : (getObj s4 e).stopped = true := by
        apply (o34.other e hei).stop
        apply (q23.obj e).stop
        rw [hs2e]; exact hstD
      have hos4 : (getObj s4 e).isOpen = !(getObj s4 e).stopped := by
        apply (o34.other e hei).os
        apply (q23.obj e).os
        rw [hs2e]; exact hD.os e
      -- the new object through the chain
      have hi_id4 : (getObj s4 i).id = k.id := o34.id.trans hid3
      have hi_to4 : (getObj s4 i).takenOver = false := by
        rw [o34.takenOver, (q23.obj i).takenOver, hs2k i hei.symm, (qD.obj i).takenOver]; exact hto
      have hi_os4 : (getObj s4 i).isOpen = !(getObj s4 i).stopped := by
        apply o34.os
        apply (q23.obj i).os
        rw [hs2k i hei.symm]; exact hD.os i
      have hi_key4 : KeyOK (getObj s4 i) := by
        apply o34.key
        unfold KeyOK
        rw [(q23.obj i).subs, hs2k i hei.symm]; exact hD.key i
      have hi_stop4 : (getObj sD i).stopped = true → (getObj s4 i).stopped = true := by
        intro x
        apply o34.stop
        apply (q23.obj i).stop
        rw [hs2k i hei.symm]; exact x
      have q6i := q56.obj i
      have hidx4 : IdxOK s4.topics := o34.idx (q23.idx hD.idx)
      have hent6 : ∀ c f, Entry s6.topics c f → Entry s4.topics c f := by
        intro c f hcf
        have := (Entry.congr q56.plain q56.shared c f).mp hcf
        rw [ht5] at this; exact this
      have hent3 : ∀ c f, Entry s3.topics c f → Entry sD.topics c f := by
        intro c f hcf
        exact (Entry.congr q23.plain q23.shared c f).mp hcf
      refine ⟨SyncInvX.register hD wD hunregD hpiD sm.len sm.connOf sm.clients sm.pending sm.parked sm.parkedEarly
        ?hoth ?he ?hiG ?hidx ?hent1 ?hent2 ?hentB1 ?hentB2, ⟨?lp, ?le⟩, ?hto, ?hcs⟩
      case hcs =>
        intro hcl
        exfalso
        apply hcond
        rw [hcl]; rfl
      case hentB1 =>
        intro c f hc hp
        have h3 : HasPlain s3.topics c f := hp.congr q23.plain
        have h4 := o34.hp_other (q23.idx hD.idx) c f (by rw [hid3]; exact hc) h3
        rw [← ht5] at h4
        exact h4.congr q56.plain
      case hentB2 =>
        intro f hf hs
        have hk6 : subKeys (getObj s6 i) = subKeys (getObj s4 i) := by
          unfold subKeys
          rw [(q56.obj i).subs, hs5k i hei.symm]
        rw [hk6] at hf
        have hs3 : (getObj s3 i).subs = [] := by
          rw [(q23.obj i).subs, hs2k i hei.symm, (qD.obj i).subs]; exact hsubs
        have h4 := o34.hp_own (q23.idx hD.idx) (by
          intro f' hf' _
          unfold subKeys at hf'
          rw [hs3] at hf'
          cases hf') f hf hs
        rw [hid3, ← ht5] at h4
        exact h4.congr q56.plain
      case hto =>
        intro e' he'
        rw [hce] at he'
        cases he'
        rw [(q56.obj e).takenOver, hs5e]; exact hto4
      case hoth =>
        intro k' hk'i hk'
        have hk'e := hne_iff k' hk'
        refine ((QC.of_eq (hs2k k' hk'e).symm).trans (q23.obj k')).trans ?_
        refine (o34.other k' hk'i).trans ?_
        exact (QC.of_eq (hs5k k' hk'e).symm).trans (q56.obj k')
      case he =>
        intro e' he'
        rw [hregD] at he'
        cases he'
        have q := q56.obj e
        have hst5 : (getObj s5 e).stopped = true := by rw [hs5e]; exact hst4
        have hos5 : (getObj s5 e).isOpen = !(getObj s5 e).stopped := by rw [hs5e]; exact hos4
        refine ⟨q.stop hst5, ?_, ?_, isOpen_false_of (q.os hos5) (q.stop hst5)⟩
        · rw [q.takenOver, hs5e]; exact hto4
        · rw [q.subs, hs5e]
      case hiG =>
        rw [show getObj s5 i = getObj s4 i from hs5k i hei.symm] at q6i
        refine ⟨q6i.id.trans hi_id4, q6i.takenOver.trans hi_to4, q6i.os hi_os4, ?_, fun x => q6i.stop (hi_stop4 x)⟩
        unfold KeyOK; rw [q6i.subs]; exact hi_key4
      case hidx => exact q56.idx (by rw [ht5]; exact hidx4)
      case hent1 =>
        intro c f hc hcf
        exact hent3 c f (o34.ent_other (q23.idx hD.idx) c f (by rw [hid3]; exact hc) (hent6 c f hcf))
      case hent2 =>
        intro f hcf
        have h4 : Entry s4.topics (getObj s3 i).id f := by rw [hid3]; exact hent6 _ f hcf
        have hk6 : subKeys (getObj s6 i) = subKeys (getObj s4 i) := by
          unfold subKeys
          rw [(q56.obj i).subs, hs5k i hei.symm]
        rw [hk6]
        have hi_key3 : KeyOK (getObj s3 i) := by
          unfold KeyOK
          rw [(q23.obj i).subs, hs2k i hei.symm]; exact hD.key i
        rcases o34.ent_own (q23.idx hD.idx) hi_key3 f h4 with ⟨e0, _⟩ | k1
        · rw [hid3] at e0
          obtain ⟨j, hj, hf⟩ := hD.own _ f (hent3 _ f e0)
          rw [hregD] at hj
          cases hj
          obtain ⟨fs, hfs, hfk⟩ := List.mem_map.mp hf
          have hko := (hD.key e fs hfs).1
          rw [← hfk, ← hko]
          exact hkeys fs (by rw [hex2]; exact hfs)
        · exact k1
      case lp =>
        show s6.parked = s.parked
        rw [sm.parked, qD.parked]
      case le =>
        show s6.parkedEarly = s.parkedEarly
        rw [sm.parkedEarly, qD.parkedEarly]
  · -- no session under that id
    rename_i hce
    have hce : assocGet s.clients k.id = none := hce
    cases heq
    refine ⟨SyncInvX.register h0 w0 hunreg hpi rfl rfl rfl rfl rfl rfl (fun k' _ _ => QC.refl _) ?he ?hiG h0.idx
      (fun c f _ hcf => hcf) ?hent2 (fun c f _ hp => hp) ?hentB2, ⟨rfl, rfl⟩, ?hto, fun _ => rfl⟩
    case hentB2 =>
      intro f hf _
      have hf : f ∈ subKeys (getObj s i) := hf
      unfold subKeys at hf
      rw [hsubs] at hf
      cases hf
    case hto =>
      intro e' he'
      rw [hce] at he'; cases he'
    case he =>
      intro e' he'
      have : assocGet s.clients k.id = some e' := he'
      rw [hce] at this; cases this
    case hiG => exact ⟨hid, hto, h.os i, h.key i, fun x => x⟩
    case hent2 =>
      intro f hcf
      obtain ⟨j, hj, _⟩ := h.own _ f hcf
      rw [hce] at hj; cases hj

end Mochi.Broker
