import Mochi.Lemmas.BrokerOwn
/-!
# The inductive invariant behind `IndexSync` (`Mochi/Lemmas/BrokerIndexSync.lean`)

`SyncInvX X s` — `X` = the objects whose handler is between its creation and `Clients.Add` in the current
step (exempt from "a live session is registered"):

* `own`  every (plain or shared) entry of the topic index under client id `c` with filter `f` has an owner: the
         object registered under `c` holds a subscription for `f`;
* `reg`  every object whose handler can still run the session clean-up (not stopped, or parked by `dropHold` /
         `dropHoldEarly`) and that was not taken over is the object registered under its id;
* and the bookkeeping these two need (`isOpen = !stopped`, taken over ⇒ stopped, registered ⇒ not taken over,
  parked handlers, handlers parked inside `attachClient`).
-/
namespace Mochi.Broker
open Mochi.Topics

/-- the handler of object `k` may still run the session clean-up at the end of `attachClient` -/
def Active (s : Server) (k : Nat) : Prop :=
  (getObj s k).stopped = false ∨ k ∈ s.parked ∨ k ∈ s.parkedEarly

/-- object `k` belongs to a handler parked in the authentication hook (before `Clients.Add`) -/
def Stage1 (s : Server) (k : Nat) : Prop := ∃ p ∈ s.pending, p.stage = 1 ∧ p.obj = k

structure SyncInvX (X : Nat → Prop) (s : Server) : Prop where
  idx : IdxOK s.topics
  own : ∀ c f, Entry s.topics c f → ∃ i, assocGet s.clients c = some i ∧ f ∈ subKeys (getObj s i)
  key : ∀ k, KeyOK (getObj s k)
  os : ∀ k, (getObj s k).isOpen = !(getObj s k).stopped
  ts : ∀ k, (getObj s k).takenOver = true → (getObj s k).stopped = true
  reg : ∀ k, k < s.objs.length → Active s k → (getObj s k).takenOver = false → ¬ X k → ¬ Stage1 s k →
    assocGet s.clients (getObj s k).id = some k
  regTO : ∀ c k, assocGet s.clients c = some k → (getObj s k).takenOver = false
  parkedLt : ∀ k, k ∈ s.parked ∨ k ∈ s.parkedEarly → k < s.objs.length
  disj : ∀ k, k ∈ s.parked → k ∉ s.parkedEarly
  parkedStopped : ∀ k, k ∈ s.parked → (getObj s k).stopped = true
  pendFree : ∀ p ∈ s.pending, p.obj ∉ s.parked ∧ p.obj ∉ s.parkedEarly
  st1 : ∀ p ∈ s.pending, p.stage = 1 →
    (∀ c, assocGet s.clients c ≠ some p.obj) ∧ (getObj s p.obj).takenOver = false
  pendNodup : (s.pending.map (·.obj)).Nodup
  pendConn : ∀ p ∈ s.pending, assocGet s.connOf p.conn = some p.obj

abbrev SyncInv (s : Server) : Prop := SyncInvX (fun _ => False) s

theorem bool_false_of_imp {a b : Bool} (h : a = true → b = true) (hb : b = false) : a = false := by
  cases a
  · rfl
  · rw [h rfl] at hb; cases hb

theorem Active.mono {s s' : Server} {k : Nat} (hpk : s'.parked = s.parked) (hpe : s'.parkedEarly = s.parkedEarly)
    (hstop : (getObj s k).stopped = true → (getObj s' k).stopped = true) (h : Active s' k) : Active s k := by
  rcases h with h | h | h
  · exact Or.inl (bool_false_of_imp hstop h)
  · exact Or.inr (Or.inl (hpk ▸ h))
  · exact Or.inr (Or.inr (hpe ▸ h))

/-- the frame under which everything except `own` is kept -/
theorem SyncInvX.transfer {X : Nat → Prop} {s s' : Server} (h : SyncInvX X s)
    (hlen : s'.objs.length = s.objs.length) (hconn : s'.connOf = s.connOf) (hcl : s'.clients = s.clients)
    (hpend : s'.pending = s.pending) (hpk : s'.parked = s.parked) (hpe : s'.parkedEarly = s.parkedEarly)
    (hid : ∀ k, (getObj s' k).id = (getObj s k).id)
    (hto : ∀ k, (getObj s' k).takenOver = (getObj s k).takenOver)
    (hstop : ∀ k, (getObj s k).stopped = true → (getObj s' k).stopped = true)
    (hos : ∀ k, (getObj s k).isOpen = (!(getObj s k).stopped) → (getObj s' k).isOpen = !(getObj s' k).stopped)
    (hkey : ∀ k, KeyOK (getObj s k) → KeyOK (getObj s' k))
    (hidx : IdxOK s'.topics)
    (hown : ∀ c f, Entry s'.topics c f → ∃ i, assocGet s.clients c = some i ∧ f ∈ subKeys (getObj s' i)) :
    SyncInvX X s' := by
  refine ⟨hidx, ?_, fun k => hkey k (h.key k), fun k => hos k (h.os k), ?_, ?_, ?_, ?_, ?_, ?_, ?_, ?_, ?_, ?_⟩
  · intro c f he
    rw [hcl]; exact hown c f he
  · intro k hk
    rw [hto] at hk
    exact hstop k (h.ts k hk)
  · intro k hk ha ht hx hs1
    rw [hlen] at hk
    rw [hto] at ht
    rw [hcl, hid]
    refine h.reg k hk (Active.mono hpk hpe (hstop k) ha) ht hx ?_
    rintro ⟨p, hp, h1, h2⟩
    exact hs1 ⟨p, by rw [hpend]; exact hp, h1, h2⟩
  · intro c k hk
    rw [hcl] at hk
    rw [hto]; exact h.regTO c k hk
  · intro k hk
    rw [hpk, hpe] at hk
    rw [hlen]; exact h.parkedLt k hk
  · intro k hk
    rw [hpk] at hk
    rw [hpe]; exact h.disj k hk
  · intro k hk
    rw [hpk] at hk
    exact hstop k (h.parkedStopped k hk)
  · intro p hp
    rw [hpend] at hp
    rw [hpk, hpe]; exact h.pendFree p hp
  · intro p hp h1
    rw [hpend] at hp
    rw [hcl, hto]; exact h.st1 p hp h1
  · rw [hpend]; exact h.pendNodup
  · intro p hp
    rw [hpend] at hp
    rw [hconn]; exact h.pendConn p hp

theorem SyncInvX.of_quiet {X : Nat → Prop} {s s' : Server} (h : SyncInvX X s) (g : Quiet s s') : SyncInvX X s' := by
  refine h.transfer g.len g.connOf g.clients g.pending g.parked g.parkedEarly (fun k => (g.obj k).id)
    (fun k => (g.obj k).takenOver) (fun k => (g.obj k).stop) (fun k => (g.obj k).os) ?_ (g.idx h.idx) ?_
  · intro k hk
    unfold KeyOK; rw [(g.obj k).subs]; exact hk
  · intro c f he
    obtain ⟨i, hi, hf⟩ := h.own c f ((Entry.congr g.plain g.shared c f).mp he)
    refine ⟨i, hi, ?_⟩
    unfold subKeys; rw [(g.obj i).subs]; exact hf

/-- a handler acting for a registered session keeps the invariant -/
theorem SyncInvX.of_own {X : Nat → Prop} {s s' : Server} {i : Nat} (h : SyncInvX X s) (hw : WF s) (g : Own i s s')
    (hreg : assocGet s.clients (getObj s i).id = some i) : SyncInvX X s' := by
  have hobj : ∀ k, k ≠ i → QC (getObj s k) (getObj s' k) := g.other
  refine h.transfer g.len g.connOf g.clients g.pending g.parked g.parkedEarly ?_ ?_ ?_ ?_ ?_ (g.idx h.idx) ?_
  · intro k
    by_cases hk : k = i
    · subst hk; exact g.id
    · exact (hobj k hk).id
  · intro k
    by_cases hk : k = i
    · subst hk; exact g.takenOver
    · exact (hobj k hk).takenOver
  · intro k
    by_cases hk : k = i
    · subst hk; exact g.stop
    · exact (hobj k hk).stop
  · intro k
    by_cases hk : k = i
    · subst hk; exact g.os
    · exact (hobj k hk).os
  · intro k
    by_cases hk : k = i
    · subst hk; exact g.key
    · intro hko; unfold KeyOK; rw [(hobj k hk).subs]; exact hko
  · intro c f he
    by_cases hc : c = (getObj s i).id
    · subst hc
      refine ⟨i, hreg, ?_⟩
      rcases g.ent_own h.idx f he with ⟨e0, k0⟩ | k1
      · obtain ⟨j, hj, hf⟩ := h.own _ f e0
        rw [hreg] at hj
        cases hj
        exact k0 hf
      · exact k1
    · obtain ⟨j, hj, hf⟩ := h.own c f (g.ent_other h.idx c f hc he)
      refine ⟨j, hj, ?_⟩
      have hji : j ≠ i := by
        intro e
        subst e
        exact hc (hw.clients_valid c j (assocGet_mem _ _ _ hj)).2.symm
      unfold subKeys; rw [(hobj j hji).subs]; exact hf

/-- dropping an exemption that is no longer needed -/
theorem SyncInvX.weaken {X Y : Nat → Prop} {s : Server} (h : SyncInvX X s)
    (hxy : ∀ k, k < s.objs.length → X k → ¬ Y k → Active s k → (getObj s k).takenOver = false → ¬ Stage1 s k →
      assocGet s.clients (getObj s k).id = some k) : SyncInvX Y s :=
  ⟨h.idx, h.own, h.key, h.os, h.ts,
   fun k hk ha ht hy hs1 => by
     by_cases hx : X k
     · exact hxy k hk hx hy ha ht hs1
     · exact h.reg k hk ha ht hx hs1,
   h.regTO, h.parkedLt, h.disj, h.parkedStopped, h.pendFree, h.st1, h.pendNodup, h.pendConn⟩

theorem SyncInv.toX {X : Nat → Prop} {s : Server} (h : SyncInv s) : SyncInvX X s :=
  h.weaken (fun _ _ hx => absurd hx (fun x => x))

/-! ### the session clean-up -/

/-- `Clients.Delete` of a stopped session without subscriptions whose handler is not parked -/
theorem SyncInvX.unregister {X : Nat → Prop} {s : Server} (h : SyncInvX X s) (i : Nat) (cid : Str)
    (hst : (getObj s i).stopped = true) (hnp : i ∉ s.parked) (hne : i ∉ s.parkedEarly)
    (hreg : assocGet s.clients cid = some i) (hsubs : (getObj s i).subs = []) :
    SyncInvX X { s with clients := assocDel s.clients cid } := by
  refine ⟨h.idx, ?_, h.key, h.os, h.ts, ?_, ?_, h.parkedLt, h.disj, h.parkedStopped, h.pendFree, ?_, h.pendNodup,
    h.pendConn⟩
  · intro c f he
    obtain ⟨j, hj, hf⟩ := h.own c f he
    by_cases hc : c = cid
    · subst hc
      rw [hreg] at hj
      cases hj
      unfold subKeys at hf
      rw [hsubs] at hf
      cases hf
    · exact ⟨j, by show assocGet (assocDel s.clients cid) c = some j; rw [assocGet_assocDel_ne _ _ _ hc]; exact hj, hf⟩
  · intro k hk ha ht hx hs1
    have ha : Active s k := ha
    have hold := h.reg k hk ha ht hx hs1
    by_cases hc : (getObj s k).id = cid
    · rw [hc, hreg] at hold
      cases hold
      rcases ha with ha | ha | ha
      · rw [hst] at ha; cases ha
      · exact absurd ha hnp
      · exact absurd ha hne
    · show assocGet (assocDel s.clients cid) (getObj s k).id = some k
      rw [assocGet_assocDel_ne _ _ _ hc]; exact hold
  · intro c k hk
    have hk' : assocGet (assocDel s.clients cid) c = some k := hk
    rw [Mochi.Topics.assocGet_assocDel] at hk'
    split at hk'
    · cases hk'
    · exact h.regTO c k hk'
  · intro p hp h1
    refine ⟨fun c hc => ?_, (h.st1 p hp h1).2⟩
    have hc' : assocGet (assocDel s.clients cid) c = some p.obj := hc
    rw [Mochi.Topics.assocGet_assocDel] at hc'
    split at hc'
    · cases hc'
    · exact (h.st1 p hp h1).1 c hc'

theorem unsubscribeClient_objs (s : Server) (i : Nat) :
    (unsubscribeClient s i).objs = (setObj s i { getObj s i with subs := [] }).objs := by
  unfold unsubscribeClient
  extract_lets +onlyGivenNames c s1
  split
  · rfl
  · obtain ⟨t, n, he, _⟩ := unsubFold_spec c.id c.subs s1
    rw [he]

theorem unsubscribeClient_subs (s : Server) (i : Nat) (hi : i < s.objs.length) :
    (getObj (unsubscribeClient s i) i).subs = [] := by
  rw [getObj_of_objs_eq (unsubscribeClient_objs s i) i, getObj_setObj_eq s i _ hi]

/-- what the clean-up at the end of `attachClient` and `clearExpiredClients` do to one session:
    `ClearInflights`, `UnsubscribeClient`, `Clients.Delete` -/
theorem SyncInvX.cleanup {X : Nat → Prop} {s : Server} (h : SyncInvX X s) (hw : WF s) (i : Nat)
    (hi : i < s.objs.length) (hst : (getObj s i).stopped = true) (hnp : i ∉ s.parked) (hne : i ∉ s.parkedEarly)
    (hreg : assocGet s.clients (getObj s i).id = some i) :
    SyncInvX X { unsubscribeClient (clearInflights s i) i with
      clients := assocDel (unsubscribeClient (clearInflights s i) i).clients (getObj s i).id } := by
  have q3 := clearInflights_quiet s i
  have h3 : SyncInvX X (clearInflights s i) := h.of_quiet q3
  have w3 : WF (clearInflights s i) := clearInflights_wf s i hw
  have hid3 : (getObj (clearInflights s i) i).id = (getObj s i).id := (q3.obj i).id
  have hto3 : (getObj (clearInflights s i) i).takenOver = false := by
    rw [(q3.obj i).takenOver]; exact h.regTO _ _ hreg
  have hreg3 : assocGet (clearInflights s i).clients (getObj (clearInflights s i) i).id = some i := by
    rw [q3.clients, hid3]; exact hreg
  have o4 := unsubscribeClient_own (clearInflights s i) i hto3
  have h4 : SyncInvX X (unsubscribeClient (clearInflights s i) i) := h3.of_own w3 o4 hreg3
  have hi3 : i < (clearInflights s i).objs.length := by rw [q3.len]; exact hi
  refine h4.unregister i _ (o4.stop ((q3.obj i).stop hst)) ?_ ?_ ?_ (unsubscribeClient_subs _ i hi3)
  · rw [o4.parked, q3.parked]; exact hnp
  · rw [o4.parkedEarly, q3.parkedEarly]; exact hne
  · rw [o4.clients, q3.clients]; exact hreg

/-! ### the lists of parked handlers are only changed by the schedule ops -/

structure Lst (s s' : Server) : Prop where
  parked : s'.parked = s.parked
  parkedEarly : s'.parkedEarly = s.parkedEarly

theorem Lst.refl (s : Server) : Lst s s := ⟨rfl, rfl⟩
theorem Lst.trans {s s1 s2 : Server} (h : Lst s s1) (g : Lst s1 s2) : Lst s s2 :=
  ⟨g.parked.trans h.parked, g.parkedEarly.trans h.parkedEarly⟩
theorem Quiet.lst {s s' : Server} (h : Quiet s s') : Lst s s' := ⟨h.parked, h.parkedEarly⟩
theorem Own.lst {i : Nat} {s s' : Server} (h : Own i s s') : Lst s s' := ⟨h.parked, h.parkedEarly⟩

theorem unsubscribeClient_lst (s : Server) (i : Nat) : Lst s (unsubscribeClient s i) := by
  unfold unsubscribeClient
  extract_lets +onlyGivenNames c s1
  split
  · exact ⟨rfl, rfl⟩
  · obtain ⟨t, n, he, _⟩ := unsubFold_spec c.id c.subs s1
    rw [he]
    exact ⟨rfl, rfl⟩

theorem detachB_lst (s : Server) (i : Nat) : Lst s (detachB s i) := by
  unfold detachB
  extract_lets +onlyGivenNames c expire s3 s4 s2
  show Lst s { s2 with info := _ }
  have h2 : Lst s s2 := by
    show Lst s (if (expire && !c.takenOver) = true then _ else s)
    split
    · have h3 : Lst s s3 := (clearInflights_quiet s i).lst
      have h4 : Lst s s4 := h3.trans (unsubscribeClient_lst s3 i)
      exact ⟨h4.parked, h4.parkedEarly⟩
    · exact Lst.refl s
  exact ⟨h2.parked, h2.parkedEarly⟩

theorem detach_lst (s : Server) (i : Nat) (b : Bool) : Lst s (detach s i b).1 := by
  unfold detach
  split
  rename_i s1 o1 heq
  have hs1 : Lst s s1 := by
    have := (detachA_quiet s i b).lst
    rw [heq] at this
    exact this
  exact hs1.trans (detachB_lst s1 i)

/-! ### leaving the read loop -/

theorem stopClient_stopped (s : Server) (i : Nat) (hi : i < s.objs.length) :
    (getObj (stopClient s i).1 i).stopped = true := by
  unfold stopClient
  extract_lets +onlyGivenNames c
  split
  · rename_i h; exact h
  · show (getObj (setObj s i _) i).stopped = true
    rw [getObj_setObj_eq s i _ hi]

theorem detachA_true_stopped (s : Server) (i : Nat) (hi : i < s.objs.length) :
    (getObj (detachA s i true).1 i).stopped = true := by
  unfold detachA
  simp only [if_true]
  have hlen := (sendLWT_good s i).len
  exact stopClient_stopped (sendLWT s i).1 i (by rw [hlen]; exact hi)

/-- the session clean-up at the end of `attachClient`, for a stopped session whose handler is not (or no longer)
    parked and that is still the registered one unless it was taken over -/
theorem detachB_inv {X : Nat → Prop} {s : Server} (h : SyncInvX X s) (hw : WF s) (i : Nat)
    (hi : i < s.objs.length) (hst : (getObj s i).stopped = true) (hnp : i ∉ s.parked) (hne : i ∉ s.parkedEarly)
    (hreg : (getObj s i).takenOver = true ∨ assocGet s.clients (getObj s i).id = some i) :
    SyncInvX X (detachB s i) := by
  unfold detachB
  extract_lets +onlyGivenNames c expire s3 s4 s2
  have h2 : SyncInvX X s2 := by
    show SyncInvX X (if (expire && !c.takenOver) = true then _ else s)
    split
    · rename_i hcond
      have hto : (getObj s i).takenOver = false := by
        have : c.takenOver = false := by
          rw [Bool.and_eq_true] at hcond
          simpa using hcond.2
        exact this
      rcases hreg with hr | hr
      · rw [hto] at hr; cases hr
      · exact h.cleanup hw i hi hst hnp hne hr
    · exact h
  exact h2.of_quiet ((Quiet.refl s2).upd8)

theorem detach_inv {X : Nat → Prop} {s : Server} (h : SyncInvX X s) (hw : WF s) (i : Nat)
    (hi : i < s.objs.length) (b : Bool) (hb : b = false → (getObj s i).stopped = true)
    (hnp : i ∉ s.parked) (hne : i ∉ s.parkedEarly)
    (hreg : (getObj s i).takenOver = true ∨ assocGet s.clients (getObj s i).id = some i) :
    SyncInvX X (detach s i b).1 := by
  unfold detach
  split
  rename_i s1 o1 heq
  have q1 : Quiet s s1 := by
    have := detachA_quiet s i b
    rw [heq] at this; exact this
  have w1 : WF s1 := by
    have := detachA_wf s i b hw
    rw [heq] at this; exact this
  have hst1 : (getObj s1 i).stopped = true := by
    cases b with
    | true =>
      have := detachA_true_stopped s i hi
      rw [heq] at this; exact this
    | false => exact (q1.obj i).stop (hb rfl)
  refine detachB_inv (h.of_quiet q1) w1 i (by rw [q1.len]; exact hi) hst1 (by rw [q1.parked]; exact hnp)
    (by rw [q1.parkedEarly]; exact hne) ?_
  rw [(q1.obj i).takenOver, (q1.obj i).id, q1.clients]
  exact hreg

/-! ### one inbound packet on a connection -/

/-- no handler parked by a schedule op belongs to object `i` -/
def Free (s : Server) (i : Nat) : Prop := i ∉ s.parked ∧ i ∉ s.parkedEarly ∧ ∀ p ∈ s.pending, p.obj ≠ i

theorem Free.not_stage1 {s : Server} {i : Nat} (h : Free s i) : ¬ Stage1 s i := by
  rintro ⟨p, hp, _, h2⟩
  exact h.2.2 p hp h2

theorem Free.of_eq {s s' : Server} {i : Nat} (h : Free s i) (hpk : s'.parked = s.parked)
    (hpe : s'.parkedEarly = s.parkedEarly) (hp : s'.pending = s.pending) : Free s' i := by
  unfold Free; rw [hpk, hpe, hp]; exact h

theorem SyncInvX.registered_of_live {X : Nat → Prop} {s : Server} {i : Nat} (h : SyncInvX X s)
    (hi : i < s.objs.length) (hfree : Free s i) (hx : ¬ X i) (hlive : (getObj s i).stopped = false) :
    assocGet s.clients (getObj s i).id = some i := by
  have hto : (getObj s i).takenOver = false := by
    cases hto : (getObj s i).takenOver with
    | false => rfl
    | true => rw [h.ts i hto] at hlive; cases hlive
  exact h.reg i hi (Or.inl hlive) hto hx hfree.not_stage1

/-- taken over, or still the registered session: what `detach` needs -/
theorem SyncInvX.reg_or_taken {X : Nat → Prop} {s : Server} {i : Nat} (h : SyncInvX X s)
    (hi : i < s.objs.length) (hfree : Free s i) (hx : ¬ X i) (hlive : (getObj s i).stopped = false) :
    (getObj s i).takenOver = true ∨ assocGet s.clients (getObj s i).id = some i :=
  Or.inr (h.registered_of_live hi hfree hx hlive)

theorem recvOn_inv {X : Nat → Prop} {s : Server} (h : SyncInvX X s) (hw : WF s) (conn : Nat) (pk : InPk) (b : Bool)
    (hfree : ∀ i, assocGet s.connOf conn = some i → Free s i ∧ ¬ X i) :
    SyncInvX X (recvOn s conn pk b).1 ∧ Lst s (recvOn s conn pk b).1 := by
  unfold recvOn
  split
  · exact ⟨h, Lst.refl s⟩
  · rename_i i hc
    obtain ⟨hfr, hx⟩ := hfree i hc
    have hi : i < s.objs.length := hw.conn_valid conn i (assocGet_mem _ _ _ hc)
    split
    · exact ⟨h, Lst.refl s⟩
    · rename_i hop
      have hopen : (getObj s i).isOpen = true := by simpa using hop
      have hlive : (getObj s i).stopped = false := by
        have := h.os i
        rw [hopen] at this
        cases hs : (getObj s i).stopped with
        | false => rfl
        | true => rw [hs] at this; cases this
      have hreg := h.registered_of_live hi hfr hx hlive
      split
      rename_i s1 o e heq
      have o1 : Own i s s1 := by
        have := receivePacket_own s i hi pk
        rw [heq] at this; exact this
      have w1 : WF s1 := by
        have := receivePacket_wf s i pk hw
        rw [heq] at this; exact this
      have h1 : SyncInvX X s1 := h.of_own hw o1 hreg
      have hi1 : i < s1.objs.length := by rw [o1.len]; exact hi
      have hnp1 : i ∉ s1.parked := by rw [o1.parked]; exact hfr.1
      have hne1 : i ∉ s1.parkedEarly := by rw [o1.parkedEarly]; exact hfr.2.1
      have hreg1 : (getObj s1 i).takenOver = true ∨ assocGet s1.clients (getObj s1 i).id = some i := by
        right; rw [o1.clients, o1.id]; exact hreg
      split
      · split
        rename_i s2 o2 hd
        have := detach_inv h1 w1 i hi1 true (fun e => by cases e) hnp1 hne1 hreg1
        have hl := detach_lst s1 i true
        rw [hd] at this hl
        exact ⟨this, o1.lst.trans hl⟩
      · split
        · rename_i hcl
          split
          rename_i s2 o2 hd
          have hst1 : (getObj s1 i).stopped = true := by
            have := h1.os i
            have hcl' : (getObj s1 i).isOpen = false := by simpa using hcl
            rw [hcl'] at this
            cases hs : (getObj s1 i).stopped with
            | true => rfl
            | false => rw [hs] at this; cases this
          have := detach_inv h1 w1 i hi1 false (fun _ => hst1) hnp1 hne1 hreg1
          have hl := detach_lst s1 i false
          rw [hd] at this hl
          exact ⟨this, o1.lst.trans hl⟩
        · split
          · split
            rename_i s2 o2 e2 heq2
            have q2 : Quiet s1 s2 := by
              have := receivePacket_quiet s1 i .pingreq rfl
              rw [heq2] at this; exact this
            have w2 : WF s2 := by
              have := receivePacket_wf s1 i .pingreq w1
              rw [heq2] at this; exact this
            have h2 : SyncInvX X s2 := h1.of_quiet q2
            extract_lets +onlyGivenNames o2f
            split
            · split
              rename_i s3 o3 hd
              have := detach_inv h2 w2 i (by rw [q2.len]; exact hi1) true (fun e => by cases e)
                (by rw [q2.parked]; exact hnp1) (by rw [q2.parkedEarly]; exact hne1)
                (by rw [(q2.obj i).takenOver, (q2.obj i).id, q2.clients]; exact hreg1)
              have hl := detach_lst s2 i true
              rw [hd] at this hl
              exact ⟨this, (o1.lst.trans q2.lst).trans hl⟩
            · exact ⟨h2, o1.lst.trans q2.lst⟩
          · exact ⟨h1, o1.lst⟩

end Mochi.Broker
