import Mochi.Lemmas.BrokerResendDefs
/-!
# C09 — what a resumption resends: the delivery family and the closing family keep the record under `k` EXACTLY

The walk of `Mochi/Lemmas/BrokerSurviveDeliv.lean` / `Mochi/Lemmas/BrokerSurvive.lean`, for the relations `XK` / `SurvX` /
`SurvXW` of `Mochi/Lemmas/BrokerResendDefs.lean`: a delivery assigns a FRESH packet identifier (`nextPacketID_fresh`),
so the record it writes never replaces the record under `k`; closing a connection and the session clean-up only touch
the acting object.
-/
namespace Mochi.Broker
open Mochi.Topics

/-! ### the delivery family -/

theorem publishToClientCore_survx (k : Nat) (s : Server) (i : Nat) (sub : Sub) (f : Bool) (pk : Msg) :
    SurvX k s (publishToClientCore s i sub f pk).1 := by
  unfold publishToClientCore
  extract_lets c out
  split
  rename_i c1 out1 heq
  have hc1 : XK k c c1 := by
    split at heq
    · split at heq
      rename_i c' a ex h2
      have h3 := XK.aliasOutSet' k c pk.topic
      rw [h2] at h3
      split at heq <;> (cases heq; exact h3)
    · cases heq; exact XK.refl k _
  clear heq
  extract_lets s1
  have hs1 : SurvX k s s1 := (SurvX.refl k s).set i c1 hc1
  split
  · split
    · exact hs1.upd rfl
    · split
      · exact hs1.upd rfl
      · rename_i pid hpid
        have hfresh : flGet c1 pid = none := nextPacketID_fresh c1 _ pid hpid
        have hm : ∀ m0, flGet c k = some m0 → pid ≠ k := fun m0 r => flGet_ne_of_none (hc1.keep m0 r) hfresh
        extract_lets c2 out2 sentQuota
        have hc2 : XK k c c2 := hc1.trans (by xk_rfl)
        split
        rename_i c3 isNew hfl
        have hc3 : XK k c c3 := by
          have := hc2.flSet_if out2 hm
          rw [hfl] at this
          exact this
        extract_lets c4 s2 src s3
        have hc4 : XK k c c4 := by
          show XK k c (if isNew = true then decSend c3 else c3)
          split
          · exact hc3.decSend
          · exact hc3
        have hs2 : SurvX k s s2 := hs1.set i c4 hc4
        have hs3 : SurvX k s s3 := by
          show SurvX k s (if isNew = true then _ else _)
          split
          · exact hs2.upd rfl
          · exact hs2
        split
        · exact hs3.set i _ (hc4.flSet_if _ hm)
        · split <;> exact hs3
  · split <;> exact hs1

theorem publishToClient_survx (k : Nat) (s : Server) (i : Nat) (sub : Sub) (f : Bool) (pk : Msg) :
    SurvX k s (publishToClient s i sub f pk).1 := by
  unfold publishToClient
  split
  · exact SurvX.refl k s
  · split
    · exact SurvX.refl k s
    · exact publishToClientCore_survx k s i sub f pk

theorem publishToSubscribers_survx (k : Nat) (s : Server) (pk : Msg) : SurvX k s (publishToSubscribers s pk).1 := by
  unfold publishToSubscribers
  split
  · exact SurvX.refl k s
  · extract_lets e pk' r subsMap inl
    refine foldl_inv (fun (acc : Server × List Out) => SurvX k s acc.1) _ _ _ (SurvX.refl k s) ?_
    intro acc cs h
    split
    · exact h
    · rename_i j _
      split
      rename_i s' o heq
      have := publishToClient_survx k acc.1 j cs.2 false pk'
      rw [heq] at this
      exact h.trans this

theorem publishRetainedToClient_survx (k : Nat) (s : Server) (i : Nat) (sub : Sub) (ex : Bool) (n : Nat) :
    SurvX k s (publishRetainedToClient s i sub ex n).1 := by
  unfold publishRetainedToClient
  split
  · exact SurvX.refl k s
  · split
    · exact SurvX.refl k s
    · extract_lets sub'
      refine foldl_inv (fun (acc : Server × List Out) => SurvX k s acc.1) _ _ _ (SurvX.refl k s) ?_
      intro acc r h
      split
      · exact h
      · rename_i m _
        split
        rename_i s' o heq
        have := publishToClient_survx k acc.1 i sub' true m
        rw [heq] at this
        exact h.trans this

theorem retainMsg_survx (k : Nat) (s : Server) (pk : Msg) : SurvX k s (retainMsg s pk) := by
  unfold retainMsg
  split
  · exact SurvX.refl k s
  · exact (SurvX.refl k s).upd rfl

/-! ### the Will -/

theorem same_setObj_x (k : Nat) (s : Server) (i : Nat) (a : Client) (h : XK k (getObj s i) a) :
    SurvX k s (setObj s i a) := (SurvX.refl k s).set i a h

theorem sendLWT_survx (k : Nat) (s : Server) (i : Nat) : SurvX k s (sendLWT s i).1 := by
  unfold sendLWT
  extract_lets +onlyGivenNames c
  split
  · exact SurvX.refl k s
  · extract_lets +onlyGivenNames pk
    split
    · exact (SurvX.refl k s).upd rfl
    · extract_lets +onlyGivenNames s1
      have hs1 : SurvX k s s1 := by
        show SurvX k s (if pk.retain = true then retainMsg s pk else s)
        split
        · exact retainMsg_survx k s pk
        · exact SurvX.refl k s
      split
      rename_i s2 o heq
      have := publishToSubscribers_survx k s1 pk
      rw [heq] at this
      have h2 : SurvX k s s2 := hs1.trans this
      show SurvX k s (modObj s2 i _)
      exact h2.trans (same_setObj_x k s2 i _ (by xk_rfl))

/-! ### closing the acting object's connection: its `isOpen` changes, every OTHER object is as it was -/

theorem stopClient_survxw (k : Nat) (s : Server) (i : Nat) : SurvXW i k s (stopClient s i).1 := by
  unfold stopClient
  extract_lets +onlyGivenNames c
  split
  · exact SurvXW.refl i k s
  · exact (SurvXW.refl i k s).set _

theorem disconnectClient_survxw (k : Nat) (s : Server) (i code : Nat) :
    SurvXW i k s (disconnectClient s i code).1 := by
  unfold disconnectClient
  extract_lets +onlyGivenNames c w
  split
  rename_i s' o heq
  have := stopClient_survxw k s i
  rw [heq] at this
  exact this

/-! ### the session clean-up -/

theorem unsubscribeClient_survxw (k : Nat) (s : Server) (i : Nat) : SurvXW i k s (unsubscribeClient s i) := by
  unfold unsubscribeClient
  extract_lets +onlyGivenNames c s1
  have h1 : SurvXW i k s s1 := (SurvXW.refl i k s).set _
  split
  · exact h1
  · refine foldl_inv (fun (x : Server) => SurvXW i k s x) _ _ _ h1 ?_
    intro b a h
    exact h.upd rfl

theorem clearInflights_survxw (k : Nat) (s : Server) (i : Nat) : SurvXW i k s (clearInflights s i) := by
  unfold clearInflights
  extract_lets +onlyGivenNames c n
  exact ((SurvXW.refl i k s).set _).upd rfl

theorem detachB_survxw (k : Nat) (s : Server) (i : Nat) : SurvXW i k s (detachB s i) := by
  unfold detachB
  extract_lets +onlyGivenNames c expire s3 s4 s2
  refine SurvXW.upd (s := s2) ?_ rfl
  show SurvXW i k s (if (expire && !c.takenOver) = true then _ else s)
  split
  · have h3 : SurvXW i k s s3 := clearInflights_survxw k s i
    exact (h3.trans (unsubscribeClient_survxw k s3 i)).upd rfl
  · exact SurvXW.refl i k s

/-! ### leaving the read loop -/

theorem detachA_survxw (k : Nat) (s : Server) (i : Nat) (withErr : Bool) : SurvXW i k s (detachA s i withErr).1 := by
  unfold detachA
  split
  · split
    rename_i s2 o2 h2
    split
    rename_i s3 o3 h3
    have a := sendLWT_survx k s i
    rw [h2] at a
    have b := stopClient_survxw k s2 i
    rw [h3] at b
    exact (a.w i).trans b
  · exact (SurvXW.refl i k s).mod _

theorem detach_survxw (k : Nat) (s : Server) (i : Nat) (withErr : Bool) : SurvXW i k s (detach s i withErr).1 := by
  unfold detach
  split
  rename_i s1 o1 heq
  have hs1 : SurvXW i k s s1 := by
    have := detachA_survxw k s i withErr
    rw [heq] at this
    exact this
  exact hs1.trans (detachB_survxw k s1 i)

end Mochi.Broker
