import Mochi.Lemmas.BrokerFrame
/-!
# A well-formedness invariant of the broker model, for ALL histories (`Mochi/Model/Broker.lean`)

`WF s`: every client object has at most one in-flight record per packet identifier and quotas within
their maxima; every entry of the Clients map and of the connection table points at an existing object
(and the Clients-map key is that object's id); the keys of both tables are duplicate-free.

Proved by induction over `step`: `WF_init`, `WF_step`, `WF_run`.

Structure (mirrors `Mochi/Lemmas/BrokerFrame.lean`):
* `CW a b` — client level: `b` keeps `a`'s id and is well-formed if `a` is;
* `Good s s'` — server level: no object created or removed, ids kept, `connOf`/`pending` kept, the
  Clients map only shrinks, well-formedness of the objects is kept.  Reflexive and transitive, so every
  handler that neither registers a client nor creates an object is handled by one `X_good` lemma;
* the few places that extend a table (`admitA`: `Clients.Add`; `connect`/`connectHold`: new object, new
  connection, new parked handler) are handled on `WF` directly.
-/
namespace Mochi.Broker
open Mochi.Topics

/-! ### the invariant -/

structure ObjWF (c : Client) : Prop where
  /-- one in-flight record per packet identifier -/
  ids_nodup : (c.inflight.map (·.id)).Nodup
  /-- quotas never exceed their maxima -/
  send_le : c.sendQuota ≤ c.maxSend
  recv_le : c.recvQuota ≤ c.maxRecv

structure WF (s : Server) : Prop where
  objs : ∀ c ∈ s.objs, ObjWF c
  clients_valid : ∀ id i, (id, i) ∈ s.clients → i < s.objs.length ∧ (getObj s i).id = id
  conn_valid : ∀ n i, (n, i) ∈ s.connOf → i < s.objs.length
  /-- a handler parked inside `attachClient` belongs to an existing object with the CONNECT's client id -/
  pending_valid : ∀ p ∈ s.pending, p.obj < s.objs.length ∧ (getObj s p.obj).id = p.k.id
  /-- the Clients map is a map: one entry per client id -/
  clients_nodup : (s.clients.map (·.1)).Nodup
  /-- the connection table is a map: one entry per connection number (needs `OpFresh`) -/
  conn_nodup : (s.connOf.map (·.1)).Nodup

/-- a `connect` / `connectHold` op uses a connection number not yet in the connection table (the harness
    numbers connections 1, 2, 3, …) -/
def OpFresh (s : Server) : Op → Prop
  | .connect conn _ => conn ∉ s.connOf.map (·.1)
  | .connectHold conn _ _ => conn ∉ s.connOf.map (·.1)
  | _ => True

instance (s : Server) (op : Op) : Decidable (OpFresh s op) := by
  cases op <;> unfold OpFresh <;> infer_instance

def run (s : Server) (ops : List Op) : Server := ops.foldl (fun s op => (step s op).1) s

/-- every op of the history is fresh in the state it is applied to -/
def OpsFresh (s : Server) : List Op → Prop
  | [] => True
  | op :: ops => OpFresh s op ∧ OpsFresh (step s op).1 ops

instance instDecidableOpsFresh (s : Server) (ops : List Op) : Decidable (OpsFresh s ops) :=
  match ops with
  | [] => isTrue trivial
  | op :: ops =>
    match (inferInstance : Decidable (OpFresh s op)) with
    | isFalse h => isFalse (fun g => h g.1)
    | isTrue h =>
      match instDecidableOpsFresh (step s op).1 ops with
      | isFalse g => isFalse (fun g' => g g'.2)
      | isTrue g => isTrue ⟨h, g⟩

/-! ### client level -/

theorem ObjWF_default : ObjWF ({} : Client) := ⟨List.nodup_nil, Nat.le_refl _, Nat.le_refl _⟩

/-- `b` keeps `a`'s id and is well-formed if `a` is -/
structure CW (a b : Client) : Prop where
  id : b.id = a.id
  wf : ObjWF a → ObjWF b

/-- closes `CW a b` when `b` is `a` with fields other than `id`, `inflight` and the quotas rewritten -/
macro "cw_rfl" : tactic => `(tactic| exact ⟨rfl, fun h => ⟨h.1, h.2, h.3⟩⟩)

theorem CW.refl (a : Client) : CW a a := ⟨rfl, fun h => h⟩
theorem CW.trans {a b c : Client} (h : CW a b) (g : CW b c) : CW a c := ⟨g.id.trans h.id, fun x => g.wf (h.wf x)⟩
theorem CW.of_eq {a b : Client} (h : a = b) : CW a b := h ▸ CW.refl a

theorem flSet_ids (c : Client) (m : Msg) (h : (c.inflight.map (·.id)).Nodup) :
    ((flSet c m).1.inflight.map (·.id)).Nodup := by
  unfold flSet
  split
  · show ((c.inflight.map (fun x => if x.id == m.id then m else x)).map (·.id)).Nodup
    have : (c.inflight.map (fun x => if x.id == m.id then m else x)).map (·.id) = c.inflight.map (·.id) := by
      rw [List.map_map]
      apply List.map_congr_left
      intro x _
      simp only [Function.comp]
      split
      · rename_i hx
        exact (beq_iff_eq.mp hx).symm
      · rfl
    rw [this]; exact h
  · rename_i hn
    show ((c.inflight ++ [m]).map (·.id)).Nodup
    rw [List.map_append, List.nodup_append]
    refine ⟨h, List.nodup_cons.mpr ⟨List.not_mem_nil, List.nodup_nil⟩, ?_⟩
    intro a ha b hb
    rw [List.map_cons, List.map_nil, List.mem_singleton] at hb
    subst hb
    intro hab
    subst hab
    obtain ⟨x, hx, hxa⟩ := List.mem_map.mp ha
    apply hn
    unfold flGet
    rw [List.find?_isSome]
    exact ⟨x, hx, by simp only [hxa, beq_self_eq_true]⟩

theorem flDelete_ids (c : Client) (id : Nat) (h : (c.inflight.map (·.id)).Nodup) :
    ((flDelete c id).1.inflight.map (·.id)).Nodup :=
  (List.filter_sublist.map _).nodup h

theorem CW.flSet' (c : Client) (m : Msg) : CW c (flSet c m).1 := by
  refine ⟨?_, fun h => ⟨flSet_ids c m h.1, ?_, ?_⟩⟩
  · unfold Mochi.Broker.flSet; split <;> rfl
  · unfold Mochi.Broker.flSet; split <;> exact h.2
  · unfold Mochi.Broker.flSet; split <;> exact h.3

theorem CW.flDelete' (c : Client) (id : Nat) : CW c (flDelete c id).1 :=
  ⟨rfl, fun h => ⟨flDelete_ids c id h.1, h.2, h.3⟩⟩

theorem CW.decSend' (c : Client) : CW c (decSend c) := by
  unfold Mochi.Broker.decSend
  split
  · exact ⟨rfl, fun h => ⟨h.1, Nat.le_trans (Nat.sub_le _ _) h.2, h.3⟩⟩
  · exact CW.refl c

theorem CW.decRecv' (c : Client) : CW c (decRecv c) := by
  unfold Mochi.Broker.decRecv
  split
  · exact ⟨rfl, fun h => ⟨h.1, h.2, Nat.le_trans (Nat.sub_le _ _) h.3⟩⟩
  · exact CW.refl c

theorem CW.incSend' (c : Client) : CW c (incSend c) := by
  unfold Mochi.Broker.incSend
  split
  · rename_i hlt
    exact ⟨rfl, fun h => ⟨h.1, hlt, h.3⟩⟩
  · exact CW.refl c

theorem CW.incRecv' (c : Client) : CW c (incRecv c) := by
  unfold Mochi.Broker.incRecv
  split
  · rename_i hlt
    exact ⟨rfl, fun h => ⟨h.1, h.2, hlt⟩⟩
  · exact CW.refl c

theorem CW.aliasOutSet' (c : Client) (t : Str) : CW c (aliasOutSet c t).1 := by
  unfold Mochi.Broker.aliasOutSet
  split
  · exact CW.refl c
  · split
    · exact CW.refl c
    · split
      · exact CW.refl c
      · cw_rfl

theorem CW.flSet {a b : Client} (h : CW a b) (m : Msg) : CW a (flSet b m).1 := h.trans (CW.flSet' b m)
theorem CW.flDelete {a b : Client} (h : CW a b) (id : Nat) : CW a (flDelete b id).1 := h.trans (CW.flDelete' b id)
theorem CW.decSend {a b : Client} (h : CW a b) : CW a (decSend b) := h.trans (CW.decSend' b)
theorem CW.decRecv {a b : Client} (h : CW a b) : CW a (decRecv b) := h.trans (CW.decRecv' b)
theorem CW.incSend {a b : Client} (h : CW a b) : CW a (incSend b) := h.trans (CW.incSend' b)
theorem CW.incRecv {a b : Client} (h : CW a b) : CW a (incRecv b) := h.trans (CW.incRecv' b)

/-- the per-handler names asked for -/
theorem flSet_wf (c : Client) (m : Msg) (h : ObjWF c) : ObjWF (flSet c m).1 := (CW.flSet' c m).wf h
theorem flDelete_wf (c : Client) (id : Nat) (h : ObjWF c) : ObjWF (flDelete c id).1 := (CW.flDelete' c id).wf h
theorem decSend_wf (c : Client) (h : ObjWF c) : ObjWF (decSend c) := (CW.decSend' c).wf h
theorem incSend_wf (c : Client) (h : ObjWF c) : ObjWF (incSend c) := (CW.incSend' c).wf h
theorem decRecv_wf (c : Client) (h : ObjWF c) : ObjWF (decRecv c) := (CW.decRecv' c).wf h
theorem incRecv_wf (c : Client) (h : ObjWF c) : ObjWF (incRecv c) := (CW.incRecv' c).wf h

theorem CW.get_set {s : Server} {i : Nat} {c d : Client} (h1 : CW (getObj s i) c) (h2 : CW c d) :
    CW (getObj (setObj s i c) i) d := by
  rcases getObj_setObj_self_cases s i c with e | e
  · rw [e]; exact h2
  · rw [e]; exact h1.trans h2

/-! ### server level -/

/-- every object slot (the out-of-range default included) is well-formed -/
def AllWF (s : Server) : Prop := ∀ k, ObjWF (getObj s k)

theorem AllWF_iff (s : Server) : AllWF s ↔ ∀ c ∈ s.objs, ObjWF c := by
  constructor
  · intro h c hc
    obtain ⟨i, hi⟩ := List.mem_iff_getElem?.mp hc
    have := h i
    simp only [getObj, List.getD_eq_getElem?_getD, hi, Option.getD_some] at this
    exact this
  · intro h k
    simp only [getObj, List.getD_eq_getElem?_getD]
    cases hk : s.objs[k]? with
    | none => exact ObjWF_default
    | some c => exact h c (List.mem_of_getElem? hk)

/-- `s'` results from `s` without creating or removing an object, without changing an id, the connection
    table or the parked handlers; the Clients map at most lost entries; well-formed objects stay so -/
structure Good (s s' : Server) : Prop where
  len : s'.objs.length = s.objs.length
  connOf : s'.connOf = s.connOf
  pending : s'.pending = s.pending
  clients : s'.clients.Sublist s.clients
  ids : ∀ k, (getObj s' k).id = (getObj s k).id
  wf : AllWF s → AllWF s'

theorem Good.refl (s : Server) : Good s s := ⟨rfl, rfl, rfl, List.Sublist.refl _, fun _ => rfl, fun h => h⟩

theorem Good.trans {s s1 s2 : Server} (h : Good s s1) (g : Good s1 s2) : Good s s2 :=
  ⟨g.len.trans h.len, g.connOf.trans h.connOf, g.pending.trans h.pending, g.clients.trans h.clients,
   fun k => (g.ids k).trans (h.ids k), fun x => g.wf (h.wf x)⟩

/-- a change to server fields other than `objs`, `clients`, `connOf`, `pending` -/
theorem Good.upd {s0 s s' : Server} (h : Good s0 s) (ho : s'.objs = s.objs) (hc : s'.clients = s.clients)
    (hn : s'.connOf = s.connOf) (hp : s'.pending = s.pending) : Good s0 s' :=
  ⟨by rw [ho]; exact h.len, hn.trans h.connOf, hp.trans h.pending, by rw [hc]; exact h.clients,
   fun k => by rw [getObj_of_objs_eq ho k]; exact h.ids k,
   fun x k => by rw [getObj_of_objs_eq ho k]; exact h.wf x k⟩

/-- writing an object that keeps the id of, and is well-formed if the whole server was -/
theorem Good.setG {s0 s : Server} (h : Good s0 s) (i : Nat) (c : Client) (hid : c.id = (getObj s i).id)
    (hwf : AllWF s → ObjWF c) : Good s0 (setObj s i c) := by
  refine h.trans ⟨setObj_length s i c, rfl, rfl, List.Sublist.refl _, fun k => ?_, fun x k => ?_⟩
  · by_cases hk : k = i
    · subst hk
      rcases getObj_setObj_self_cases s k c with e | e <;> rw [e]
      exact hid
    · rw [getObj_setObj_ne s i k c hk]
  · by_cases hk : k = i
    · subst hk
      rcases getObj_setObj_self_cases s k c with e | e <;> rw [e]
      · exact hwf x
      · exact x k
    · rw [getObj_setObj_ne s i k c hk]; exact x k

/-- writing an object `CW`-related to what was there -/
theorem Good.set {s0 s : Server} (h : Good s0 s) (i : Nat) (c : Client) (hc : CW (getObj s i) c) :
    Good s0 (setObj s i c) :=
  h.setG i c hc.id (fun x => hc.wf (x i))

theorem Good.mod {s0 s : Server} (h : Good s0 s) (i : Nat) (f : Client → Client)
    (hf : CW (getObj s i) (f (getObj s i))) : Good s0 (modObj s i f) := h.set i _ hf

/-- a Clients-map entry is removed -/
theorem Good.delClient {s0 s : Server} (h : Good s0 s) (cid : Str) :
    Good s0 { s with clients := assocDel s.clients cid } :=
  h.trans ⟨rfl, rfl, rfl, List.filter_sublist, fun _ => rfl, fun x => x⟩

theorem Good.fst_mk {α} {s0 x : Server} {y : α} (h : Good s0 x) : Good s0 (x, y).1 := h


/-! ### the delivery family -/

theorem publishToClientCore_good (s : Server) (i : Nat) (sub : Sub) (f : Bool) (pk : Msg) :
    Good s (publishToClientCore s i sub f pk).1 := by
  unfold publishToClientCore
  extract_lets c out
  split
  rename_i c1 out1 heq
  have hc1 : CW c c1 := by
    split at heq
    · split at heq
      rename_i c' a ex h2
      have h3 := CW.aliasOutSet' c pk.topic
      rw [h2] at h3
      split at heq <;> (cases heq; exact h3)
    · cases heq; exact CW.refl _
  clear heq
  extract_lets s1
  have hs1 : Good s s1 := (Good.refl s).set i c1 hc1
  have hg1 : CW (getObj s1 i) c1 := CW.get_set hc1 (CW.refl _)
  split
  · split
    · exact hs1.upd rfl rfl rfl rfl
    · split
      · exact hs1.upd rfl rfl rfl rfl
      · rename_i pid _
        extract_lets c2 out2 sentQuota
        have hc2 : CW c1 c2 := by cw_rfl
        split
        rename_i c3 isNew hfl
        have hc3 : CW c1 c3 := by
          have := CW.flSet' c2 out2
          rw [hfl] at this
          exact hc2.trans this
        extract_lets c4 s2 src s3
        have hc4 : CW c1 c4 := by
          show CW c1 (if isNew = true then decSend c3 else c3)
          split
          · exact hc3.decSend
          · exact hc3
        have hs2 : Good s s2 := hs1.set i c4 (hg1.trans hc4)
        have hg2 : CW (getObj s2 i) c4 := CW.get_set (hg1.trans hc4) (CW.refl _)
        have hs3 : Good s s3 := by
          show Good s (if isNew = true then _ else _)
          split
          · exact hs2.upd rfl rfl rfl rfl
          · exact hs2
        have hg3 : CW (getObj s3 i) c4 := by
          show CW (getObj (if isNew = true then _ else _) i) c4
          split
          · exact hg2
          · exact hg2
        split
        · exact hs3.set i _ (hg3.flSet _)
        · split <;> exact hs3
  · split <;> exact hs1

theorem publishToClient_good (s : Server) (i : Nat) (sub : Sub) (f : Bool) (pk : Msg) :
    Good s (publishToClient s i sub f pk).1 := by
  unfold publishToClient
  split
  · exact Good.refl s
  · split
    · exact Good.refl s
    · exact publishToClientCore_good s i sub f pk

theorem publishToSubscribers_good (s : Server) (pk : Msg) : Good s (publishToSubscribers s pk).1 := by
  unfold publishToSubscribers
  split
  · exact Good.refl s
  · extract_lets e pk' r subsMap inl
    refine foldl_inv (fun (acc : Server × List Out) => Good s acc.1) _ _ _ (Good.refl s) ?_
    intro acc cs h
    split
    · exact h
    · rename_i k _
      split
      rename_i s' o heq
      have := publishToClient_good acc.1 k cs.2 false pk'
      rw [heq] at this
      exact h.trans this

theorem publishRetainedToClient_good (s : Server) (i : Nat) (sub : Sub) (ex : Bool) (k : Nat) :
    Good s (publishRetainedToClient s i sub ex k).1 := by
  unfold publishRetainedToClient
  split
  · exact Good.refl s
  · split
    · exact Good.refl s
    · extract_lets sub'
      refine foldl_inv (fun (acc : Server × List Out) => Good s acc.1) _ _ _ (Good.refl s) ?_
      intro acc r h
      split
      · exact h
      · rename_i m _
        split
        rename_i s' o heq
        have := publishToClient_good acc.1 i sub' true m
        rw [heq] at this
        exact h.trans this

theorem retainMsg_good (s : Server) (pk : Msg) : Good s (retainMsg s pk) := by
  unfold retainMsg
  split
  · exact Good.refl s
  · exact (Good.refl s).upd rfl rfl rfl rfl

/-! ### work on the acting object -/

theorem stopClient_good (s : Server) (i : Nat) : Good s (stopClient s i).1 := by
  unfold stopClient
  extract_lets +onlyGivenNames c
  split
  · exact Good.refl s
  · exact (Good.refl s).set i _ (by cw_rfl)

theorem disconnectClient_good (s : Server) (i : Nat) (code : Nat) : Good s (disconnectClient s i code).1 := by
  unfold disconnectClient
  extract_lets +onlyGivenNames c w
  split
  rename_i s' o heq
  have := stopClient_good s i
  rw [heq] at this
  exact this

theorem unsubscribeClient_good (s : Server) (i : Nat) : Good s (unsubscribeClient s i) := by
  unfold unsubscribeClient
  extract_lets +onlyGivenNames c s1
  have h1 : Good s s1 := (Good.refl s).set i _ (by cw_rfl)
  split
  · exact h1
  · refine foldl_inv (fun (x : Server) => Good s x) _ _ _ h1 ?_
    intro b a h
    exact h.upd rfl rfl rfl rfl

theorem clearInflights_good (s : Server) (i : Nat) : Good s (clearInflights s i) := by
  unfold clearInflights
  extract_lets +onlyGivenNames c n
  have hc : CW c { c with inflight := [] } := ⟨rfl, fun h => ⟨List.nodup_nil, h.2, h.3⟩⟩
  exact ((Good.refl s).set i _ hc).upd rfl rfl rfl rfl

theorem processPuback_good (s : Server) (i id : Nat) : Good s (processPuback s i id).1 := by
  unfold processPuback
  extract_lets +onlyGivenNames c
  split
  · exact Good.refl s
  · extract_lets +onlyGivenNames c'
    exact ((Good.refl s).set i c' ((CW.flDelete' c id).incSend)).upd rfl rfl rfl rfl

theorem processPubrec_good (s : Server) (i id rc : Nat) : Good s (processPubrec s i id rc).1 := by
  unfold processPubrec
  extract_lets +onlyGivenNames c
  split
  · rw [ackRes_fst]; exact Good.refl s
  · split
    · extract_lets +onlyGivenNames c'
      exact ((Good.refl s).set i c' (CW.flDelete' c id)).upd rfl rfl rfl rfl
    · extract_lets +onlyGivenNames ack c' s1
      have hs1 : Good s s1 := (Good.refl s).set i c' ((CW.decRecv' c).flSet ack)
      split <;> exact hs1

theorem processPubrel_good (s : Server) (i id rc : Nat) : Good s (processPubrel s i id rc).1 := by
  unfold processPubrel
  extract_lets +onlyGivenNames c
  split
  · rw [ackRes_fst]; exact Good.refl s
  · split
    · extract_lets +onlyGivenNames c'
      exact ((Good.refl s).set i c' (CW.flDelete' c id)).upd rfl rfl rfl rfl
    · extract_lets +onlyGivenNames ack c1 s1
      have hc1 : CW c c1 := CW.flSet' c ack
      have hs1 : Good s s1 := (Good.refl s).set i c1 hc1
      split
      · exact hs1
      · extract_lets +onlyGivenNames o c2
        split
        rename_i c3 ok heq
        extract_lets +onlyGivenNames s2
        have hc3 : CW c1 c3 := by
          have := CW.flDelete' c2 id
          rw [heq] at this
          exact ((CW.incRecv' c1).incSend).trans this
        have hs2 : Good s s2 := hs1.set i c3 (CW.get_set hc1 hc3)
        split
        · exact hs2.upd rfl rfl rfl rfl
        · exact hs2

theorem processPubcomp_good (s : Server) (i id : Nat) : Good s (processPubcomp s i id).1 := by
  unfold processPubcomp
  extract_lets +onlyGivenNames c
  split
  rename_i c1 ok heq
  extract_lets +onlyGivenNames s1
  have hc1 : CW (getObj s i) c1 := by
    have := CW.flDelete' c id
    rw [heq] at this
    exact ((CW.incRecv' (getObj s i)).incSend).trans this
  have hs1 : Good s s1 := (Good.refl s).set i c1 hc1
  split
  · exact hs1.upd rfl rfl rfl rfl
  · exact hs1

theorem nextImmediate_good (s : Server) (i : Nat) : Good s (nextImmediate s i).1 := by
  unfold nextImmediate
  extract_lets +onlyGivenNames c
  split
  · split
    · rename_i m _
      extract_lets +onlyGivenNames o
      split
      rename_i c1 ok heq
      extract_lets +onlyGivenNames s1
      have hc1 : CW c c1 := by
        have := CW.flDelete' c m.id
        rw [heq] at this
        exact this
      have hs0 : Good s { s with nextSeed := s.nextSeed / 64 } := (Good.refl s).upd rfl rfl rfl rfl
      have hs1 : Good s s1 := hs0.set i _ hc1.decSend
      split
      · exact hs1.upd rfl rfl rfl rfl
      · exact hs1
    · exact Good.refl s
  · exact Good.refl s

theorem processDisconnect_good (s : Server) (i rc : Nat) (sei : Option Nat) :
    Good s (processDisconnect s i rc sei).1 := by
  unfold processDisconnect
  extract_lets +onlyGivenNames c r
  have hr : ∀ s' c', r = some (s', c') → s' = s ∧ CW c c' := by
    intro s' c' h
    simp only [r] at h
    split at h
    · split at h
      · cases h
      · cases h; exact ⟨rfl, by cw_rfl⟩
    · cases h; exact ⟨rfl, CW.refl _⟩
  generalize r = r' at hr
  split
  · exact Good.refl s
  · rename_i s' c'
    obtain ⟨rfl, hc'⟩ := hr s' c' rfl
    extract_lets +onlyGivenNames s1
    have hs1 : Good s' s1 := (Good.refl s').set i c' hc'
    split
    · exact hs1
    · extract_lets +onlyGivenNames s2
      have hs2 : Good s' s2 := hs1.upd rfl rfl rfl rfl
      split
      rename_i s3 o hst
      have := stopClient_good s2 i
      rw [hst] at this
      exact hs2.trans this

theorem processUnsubscribe_good (s : Server) (i id : Nat) (filters : List Str) :
    Good s (processUnsubscribe s i id filters).1 := by
  unfold processUnsubscribe
  extract_lets +onlyGivenNames c inUse r
  have hr : Good s r.1 := by
    refine foldl_inv (fun (acc : Server × List Nat) => Good s acc.1) _ _ _ (Good.refl s) ?_
    intro acc f h
    split
    rename_i s' rcs
    split
    · exact h
    · extract_lets rr src s1 s2
      show Good s s2
      refine (h.upd (s' := s1) rfl rfl rfl rfl).mod _ _ ?_
      cw_rfl
  generalize r = r' at hr
  split
  rename_i s' rcs
  extract_lets c'
  split <;> exact hr

theorem processSubscribe_good (s : Server) (i id subId : Nat) (filters : List Sub) :
    Good s (processSubscribe s i id subId filters).1 := by
  unfold processSubscribe
  extract_lets +onlyGivenNames c inUse fin r
  have hr : Good s r.1 := by
    refine foldl_inv (fun (acc : Server × List Nat × List Bool) => Good s acc.1) _ _ _ (Good.refl s) ?_
    intro acc sub h
    split
    rename_i s' rcs exs
    extract_lets +onlyGivenNames sub'
    split
    · exact h
    · split
      · exact h
      · split
        · exact h
        · split
          · exact h
          · extract_lets +onlyGivenNames rr src s1 s2
            show Good s s2
            refine (h.upd (s' := s1) rfl rfl rfl rfl).mod _ _ ?_
            cw_rfl
  generalize r = r' at hr
  split
  rename_i s' rcs exs
  extract_lets +onlyGivenNames c'
  split
  · exact hr
  · extract_lets +onlyGivenNames o1 z
    show Good s z.1
    refine foldl_inv (fun (acc : Server × List Out) => Good s acc.1) _ _ _ hr ?_
    intro acc xk h
    extract_lets +onlyGivenNames x
    split
    · exact h
    · extract_lets +onlyGivenNames src sub'
      split
      rename_i s2 o heq
      have := publishRetainedToClient_good acc.1 i sub' x.2.2 xk.2
      rw [heq] at this
      exact h.trans this

theorem sendLWT_good (s : Server) (i : Nat) : Good s (sendLWT s i).1 := by
  unfold sendLWT
  extract_lets +onlyGivenNames c
  split
  · exact Good.refl s
  · extract_lets +onlyGivenNames pk
    split
    · exact (Good.refl s).upd rfl rfl rfl rfl
    · extract_lets +onlyGivenNames s1
      have hs1 : Good s s1 := by
        show Good s (if pk.retain = true then retainMsg s pk else s)
        split
        · exact retainMsg_good s pk
        · exact Good.refl s
      split
      rename_i s2 o heq
      have := publishToSubscribers_good s1 pk
      rw [heq] at this
      have h2 : Good s s2 := hs1.trans this
      refine Good.fst_mk ?_
      refine h2.mod _ _ ?_
      cw_rfl

theorem detachA_good (s : Server) (i : Nat) (withErr : Bool) : Good s (detachA s i withErr).1 := by
  unfold detachA
  split
  · split
    rename_i s2 o2 h2
    split
    rename_i s3 o3 h3
    have a := sendLWT_good s i
    rw [h2] at a
    have b := stopClient_good s2 i
    rw [h3] at b
    exact a.trans b
  · exact (Good.refl s).mod i (fun c => { c with will := {} }) (by cw_rfl)

theorem detachB_good (s : Server) (i : Nat) : Good s (detachB s i) := by
  unfold detachB
  extract_lets +onlyGivenNames c expire s3 s4 s2
  refine Good.upd (s := s2) ?_ rfl rfl rfl rfl
  show Good s (if (expire && !c.takenOver) = true then _ else s)
  split
  · have h3 : Good s s3 := clearInflights_good s i
    have h4 : Good s s4 := h3.trans (unsubscribeClient_good s3 i)
    exact h4.delClient _
  · exact Good.refl s

theorem detach_good (s : Server) (i : Nat) (withErr : Bool) : Good s (detach s i withErr).1 := by
  unfold detach
  split
  rename_i s1 o1 heq
  have hs1 : Good s s1 := by
    have := detachA_good s i withErr
    rw [heq] at this
    exact this
  exact hs1.trans (detachB_good s1 i)


/-- case split on an `if` producing a handler result, without `split` (whose `simp` pass runs out of steps on the
whole `processPublish` body) -/
theorem Good.ite_res {s : Server} {p : Prop} [Decidable p] {a b : HRes}
    (ha : p → Good s a.1) (hb : ¬ p → Good s b.1) : Good s (if p then a else b).1 := by
  by_cases h : p
  · rw [if_pos h]; exact ha h
  · rw [if_neg h]; exact hb h

theorem processPublish_good (s : Server) (i : Nat) (qos : Nat) (dup retain : Bool) (id : Nat) (topic payload : Str)
    (msgExpiry : Nat) (alias : Option Nat) :
    Good s (processPublish s i qos dup retain id topic payload msgExpiry alias).1 := by
  unfold processPublish
  extract_lets +onlyGivenNames c
  -- the three early exits share one shape
  have early : ∀ code, Good s
      (if (qos == 0) = true then ((s, [], none) : HRes)
        else if (c.ver != 5) = true then
          match disconnectClient s i code with
          | (s, o) => (s, o, some code)
        else ackRes s i (if (qos == 2) = true then 5 else 4) id code).1 := by
    intro code
    split
    · exact Good.refl s
    · split
      · split
        rename_i s' o heq
        have := disconnectClient_good s i code
        rw [heq] at this
        exact this
      · rw [ackRes_fst]; exact Good.refl s
  refine Good.ite_res (fun _ => early _) (fun _ => ?_)
  · refine Good.ite_res (fun _ => ?_) (fun _ => ?_)
    · split
      rename_i s' o heq
      have := disconnectClient_good s i 0x93
      rw [heq] at this
      exact this
    · refine Good.ite_res (fun _ => early _) (fun _ => ?_)
      · extract_lets +onlyGivenNames e pk pre
        have hpre : ∀ r, pre = some r → r.1 = s := by
          intro r h
          simp only [pre] at h
          split at h
          · cases h
          · split at h
            · split at h
              · cases h; exact ackRes_fst s i 5 id 0x91
              · cases h
            · cases h
        generalize pre = pre' at hpre
        split
        · rename_i r
          rw [hpre r rfl]
          exact Good.refl s
        · clear hpre
          split
          rename_i s1 c1 heq
          have h1 : Good s s1 ∧ CW (getObj s1 i) c1 := by
            split at heq
            · cases heq
              exact ⟨((Good.refl s).set i _ (CW.flDelete' c id)).upd rfl rfl rfl rfl,
                     CW.get_set (CW.flDelete' c id) (CW.refl _)⟩
            · cases heq
              exact ⟨Good.refl s, CW.refl _⟩
          clear heq
          obtain ⟨hs1, ho1⟩ := h1
          split
          rename_i c2 pk2 heq
          have hc2 : CW c1 c2 := by
            split at heq
            · split at heq
              · split at heq
                · cases heq; exact CW.refl _
                · split at heq
                  · split at heq
                    · cases heq; exact CW.refl _
                    · cases heq; cw_rfl
                  · cases heq; cw_rfl
              · cases heq; exact CW.refl _
            · cases heq; exact CW.refl _
          clear heq
          extract_lets +onlyGivenNames s2
          have hs2 : Good s s2 := hs1.set i c2 (ho1.trans hc2)
          split
          · split
            rename_i s' o heq
            have := disconnectClient_good s2 i 0x82
            rw [heq] at this
            exact hs2.trans this
          extract_lets +onlyGivenNames pk3 mode
          split
          · exact hs2
          · split
            · rw [ackRes_fst]; exact hs2
            · extract_lets +onlyGivenNames pk4 s3
              have hs3 : Good s s3 := by
                show Good s (if pk4.retain = true then retainMsg s2 pk4 else s2)
                split
                · exact hs2.trans (retainMsg_good s2 pk4)
                · exact hs2
              split
              · split
                rename_i s4 o heq
                have := publishToSubscribers_good s3 pk4
                rw [heq] at this
                exact hs3.trans this
              · extract_lets +onlyGivenNames s4 ackT ackRC ack
                have hs4 : Good s s4 := hs3.mod i decRecv (CW.decRecv' _)
                split
                rename_i c5 isNew heq
                have hc5 : CW (getObj s4 i) c5 := by
                  have := CW.flSet' (getObj s4 i) ack
                  rw [heq] at this
                  exact this
                clear heq
                extract_lets +onlyGivenNames s5 src s6
                have hs5 : Good s s5 := hs4.set i c5 hc5
                have hs6 : Good s s6 := by
                  show Good s (if isNew = true then _ else s5)
                  split
                  · exact hs5.upd rfl rfl rfl rfl
                  · exact hs5
                split
                · exact hs6
                · extract_lets +onlyGivenNames o1 s7
                  have hs7 : Good s s7 := by
                    show Good s (if (pk4.qos == 1) = true then _ else s6)
                    split
                    · split
                      rename_i c6 ok heq
                      have hc6 : CW (getObj s6 i) c6 := by
                        have := CW.flDelete' (getObj s6 i) id
                        rw [heq] at this
                        exact this
                      extract_lets +onlyGivenNames s8
                      have hs8 : Good s s8 := hs6.set i _ hc6.incRecv
                      split
                      · exact hs8.upd rfl rfl rfl rfl
                      · exact hs8
                    · exact hs6
                  split
                  rename_i s9 o2 heq
                  have := publishToSubscribers_good s7 pk4
                  rw [heq] at this
                  exact hs7.trans this

/-! ### one inbound packet -/

theorem receivePacket_good (s : Server) (i : Nat) (pk : InPk) : Good s (receivePacket s i pk).1 := by
  unfold receivePacket
  extract_lets +onlyGivenNames c r
  have hr : Good s r.1 := by
    simp only [r]
    split
    · split
      · exact Good.refl s
      · exact processPublish_good ..
    · split
      · exact Good.refl s
      · exact processSubscribe_good ..
    · split
      · exact Good.refl s
      · exact processUnsubscribe_good ..
    · exact processPuback_good ..
    · exact processPubrec_good ..
    · exact processPubrel_good ..
    · exact processPubcomp_good ..
    · split <;> exact Good.refl s
    · exact processDisconnect_good ..
  generalize r = r' at hr
  split
  · rename_i s1 o
    split
    rename_i s2 o2 heq
    have := nextImmediate_good s1 i
    rw [heq] at this
    exact hr.trans this
  · rename_i s1 o code
    split
    · split
      rename_i s2 o2 heq
      have := disconnectClient_good s1 i code
      rw [heq] at this
      exact hr.trans this
    · exact hr

theorem recvOn_good (s : Server) (c : Nat) (pk : InPk) (b : Bool) : Good s (recvOn s c pk b).1 := by
  unfold recvOn
  split
  · exact Good.refl s
  · rename_i i hc
    split
    · exact Good.refl s
    · split
      rename_i s1 o e heq
      have h1 := receivePacket_good s i pk
      rw [heq] at h1
      split
      · split
        rename_i s2 o2 hd
        have := detach_good s1 i true
        rw [hd] at this
        exact h1.trans this
      · split
        · split
          rename_i s2 o2 hd
          have := detach_good s1 i false
          rw [hd] at this
          exact h1.trans this
        · split
          · split
            rename_i s2 o2 e2 heq2
            have h2 := receivePacket_good s1 i .pingreq
            rw [heq2] at h2
            extract_lets +onlyGivenNames o2f
            have h12 : Good s s2 := h1.trans h2
            split
            · split
              rename_i s3 o3 hd
              have := detach_good s2 i true
              rw [hd] at this
              exact h12.trans this
            · exact h12
          · exact h1


/-! ### from `Good` to `WF` -/

/-- the part of `Good` that also survives `Clients.Add` -/
structure Keep (s s' : Server) : Prop where
  len : s'.objs.length = s.objs.length
  connOf : s'.connOf = s.connOf
  pending : s'.pending = s.pending
  ids : ∀ k, (getObj s' k).id = (getObj s k).id

theorem Keep.refl (s : Server) : Keep s s := ⟨rfl, rfl, rfl, fun _ => rfl⟩
theorem Keep.trans {s s1 s2 : Server} (h : Keep s s1) (g : Keep s1 s2) : Keep s s2 :=
  ⟨g.len.trans h.len, g.connOf.trans h.connOf, g.pending.trans h.pending, fun k => (g.ids k).trans (h.ids k)⟩
theorem Good.keep {s s' : Server} (h : Good s s') : Keep s s' := ⟨h.len, h.connOf, h.pending, h.ids⟩

theorem WF.allWF {s : Server} (h : WF s) : AllWF s := (AllWF_iff s).mpr h.objs

theorem WF.of_good {s s' : Server} (h : WF s) (g : Good s s') : WF s' := by
  refine ⟨(AllWF_iff s').mp (g.wf h.allWF), ?_, ?_, ?_, (g.clients.map _).nodup h.clients_nodup, ?_⟩
  · intro id i hm
    have := h.clients_valid id i (g.clients.subset hm)
    rw [g.len, g.ids]
    exact this
  · intro n i hm
    rw [g.connOf] at hm
    rw [g.len]
    exact h.conn_valid n i hm
  · intro p hp
    rw [g.pending] at hp
    rw [g.len, g.ids]
    exact h.pending_valid p hp
  · rw [g.connOf]; exact h.conn_nodup

/-- a change to server fields other than `objs`, `clients`, `connOf`, `pending` -/
theorem WF.upd {s s' : Server} (h : WF s) (ho : s'.objs = s.objs) (hc : s'.clients = s.clients)
    (hn : s'.connOf = s.connOf) (hp : s'.pending = s.pending) : WF s' :=
  h.of_good ((Good.refl s).upd ho hc hn hp)

theorem mem_assocSet {α β} [DecidableEq α] (m : List (α × β)) (k : α) (v : β) (e : α × β)
    (h : e ∈ assocSet m k v) : e ∈ m ∨ e = (k, v) := by
  induction m with
  | nil =>
    unfold assocSet at h
    exact Or.inr (List.mem_singleton.mp h)
  | cons x xs ih =>
    obtain ⟨a, b⟩ := x
    unfold assocSet at h
    split at h
    · rcases List.mem_cons.mp h with h | h
      · exact Or.inr h
      · exact Or.inl (List.mem_cons_of_mem _ h)
    · rcases List.mem_cons.mp h with h | h
      · exact Or.inl (h ▸ List.mem_cons_self)
      · rcases ih h with h | h
        · exact Or.inl (List.mem_cons_of_mem _ h)
        · exact Or.inr h

theorem assocSet_keys_nodup {α β} [DecidableEq α] (m : List (α × β)) (k : α) (v : β)
    (h : (m.map (·.1)).Nodup) : ((assocSet m k v).map (·.1)).Nodup := by
  induction m with
  | nil =>
    unfold assocSet
    exact List.nodup_cons.mpr ⟨List.not_mem_nil, List.nodup_nil⟩
  | cons x xs ih =>
    obtain ⟨a, b⟩ := x
    rw [List.map_cons, List.nodup_cons] at h
    unfold assocSet
    split
    · rename_i hak
      rw [List.map_cons, List.nodup_cons]
      exact ⟨hak ▸ h.1, h.2⟩
    · rename_i hak
      rw [List.map_cons, List.nodup_cons]
      refine ⟨?_, ih h.2⟩
      intro hmem
      obtain ⟨e, he, hea⟩ := List.mem_map.mp hmem
      rcases mem_assocSet xs k v e he with h' | h'
      · exact h.1 (List.mem_map.mpr ⟨e, h', hea⟩)
      · subst h'
        exact hak hea.symm

/-- `Clients.Add` of an existing object under its own id -/
theorem WF.addClient {s : Server} (h : WF s) (cid : Str) (i : Nat) (hi : i < s.objs.length)
    (hid : (getObj s i).id = cid) : WF { s with clients := assocSet s.clients cid i } := by
  refine ⟨h.objs, ?_, h.conn_valid, h.pending_valid, assocSet_keys_nodup _ _ _ h.clients_nodup, h.conn_nodup⟩
  intro id j hm
  rcases mem_assocSet _ _ _ _ hm with hm | hm
  · exact h.clients_valid id j hm
  · cases hm
    exact ⟨hi, hid⟩

/-! ### connecting -/

/-- `admitA` is a `Good` transition followed by `Clients.Add` -/
theorem admitA_spec (s : Server) (i : Nat) (k : Connect) :
    ∃ b, Good s b ∧ (admitA s i k).1 = { b with clients := assocSet b.clients k.id i } := by
  unfold admitA
  extract_lets +onlyGivenNames src s0 exLive
  have hs0 : Good s s0 := (Good.refl s).upd rfl rfl rfl rfl
  split
  rename_i s' o1 present heq
  refine ⟨s', ?_, rfl⟩
  split at heq
  · rename_i e _
    extract_lets +onlyGivenNames ex at heq
    split at heq
    rename_i s1 o hd
    have hs1 : Good s s1 := by
      have := disconnectClient_good s0 e 0x8E
      rw [hd] at this
      exact hs0.trans this
    split at heq
    · extract_lets +onlyGivenNames s2 s3 at heq
      cases heq
      have hs2 : Good s s2 := hs1.trans (unsubscribeClient_good s1 e)
      have hs3 : Good s s3 := hs2.trans (clearInflights_good s2 e)
      exact hs3.mod e _ (by cw_rfl)
    · extract_lets +onlyGivenNames s2 ex2 rmx s2i src2 s3 s4 s5 s6 at heq
      rw [← (Prod.mk.inj heq).1]
      have hs2 : Good s s2 := hs1.mod e _ (by cw_rfl)
      have hs2i : Good s s2i := by
        refine hs2.setG i _ rfl (fun x => ?_)
        exact ⟨(x e).1, Nat.le_refl _, Nat.le_refl _⟩
      have hs3 : Good s s3 := by
        show Good s (if ex2.inflight.length > 0 then _ else s2)
        split
        · exact hs2i.upd rfl rfl rfl rfl
        · exact hs2
      have hs4 : Good s s4 := by
        refine foldl_inv (fun (x : Server) => Good s x) _ _ _ hs3 ?_
        intro b fs h
        extract_lets +onlyGivenNames rr src3 b1
        exact (h.upd (s' := b1) rfl rfl rfl rfl).mod i _ (by cw_rfl)
      have hs5 : Good s s5 := hs4.trans (unsubscribeClient_good s4 e)
      exact hs5.trans (clearInflights_good s5 e)
  · cases heq
    exact hs0

theorem admitA_keep (s : Server) (i : Nat) (k : Connect) : Keep s (admitA s i k).1 := by
  obtain ⟨b, hb, he⟩ := admitA_spec s i k
  rw [he]
  exact ⟨hb.len, hb.connOf, hb.pending, hb.ids⟩

theorem admitA_wf (s : Server) (i : Nat) (k : Connect) (h : WF s) (hi : i < s.objs.length)
    (hid : (getObj s i).id = k.id) : WF (admitA s i k).1 := by
  obtain ⟨b, hb, he⟩ := admitA_spec s i k
  rw [he]
  exact (h.of_good hb).addClient k.id i (by rw [hb.len]; exact hi) (by rw [hb.ids]; exact hid)

theorem admitConnack_good (s : Server) (i conn : Nat) (present : Bool) : Good s (admitConnack s i conn present).1 := by
  unfold admitConnack
  extract_lets +onlyGivenNames cl
  split
  rename_i s' seiOut heq
  show Good s s'
  split at heq
  · cases heq
    exact (Good.refl s).mod i _ (by cw_rfl)
  · cases heq
    exact Good.refl s

theorem admitC_good (s : Server) (i : Nat) (k : Connect) (present : Bool) : Good s (admitC s i k present).1 := by
  unfold admitC
  extract_lets +onlyGivenNames s1
  have hs1 : Good s s1 := (Good.refl s).upd rfl rfl rfl rfl
  split
  · refine foldl_inv (fun (acc : Server × List Out) => Good s acc.1) _ _ _ hs1 ?_
    intro acc m h
    extract_lets +onlyGivenNames m' o s'
    show Good s s'
    show Good s (if (m.type == 4 || m.type == 7) = true then _ else acc.1)
    split
    · split
      rename_i c' ok heq
      extract_lets +onlyGivenNames s''
      have hc' : CW (getObj acc.1 i) c' := by
        have := CW.flDelete' (getObj acc.1 i) m.id
        rw [heq] at this
        exact this
      have h2 : Good s s'' := h.set i c' hc'
      split
      · exact h2.upd rfl rfl rfl rfl
      · exact h2
    · exact h
  · exact hs1

theorem admitClient_wf (s : Server) (i conn : Nat) (k : Connect) (h : WF s) (hi : i < s.objs.length)
    (hid : (getObj s i).id = k.id) : WF (admitClient s i conn k).1 ∧ Keep s (admitClient s i conn k).1 := by
  unfold admitClient
  split
  rename_i s1 o1 present exLive h1
  have w1 : WF s1 := by
    have := admitA_wf s i k h hi hid
    rw [h1] at this; exact this
  have k1 : Keep s s1 := by
    have := admitA_keep s i k
    rw [h1] at this; exact this
  split
  rename_i s2 o2 h2
  have g2 : Good s1 s2 := by
    have := admitConnack_good s1 i conn present
    rw [h2] at this; exact this
  split
  rename_i s3 o4 h3
  have g3 : Good s2 s3 := by
    split at h3
    · rename_i e
      have := detach_good s2 e true
      rw [h3] at this; exact this
    · cases h3; exact Good.refl _
  split
  rename_i s4 o3 h4
  have g4 : Good s3 s4 := by
    have := admitC_good s3 i k present
    rw [h4] at this; exact this
  have g := (g2.trans g3).trans g4
  exact ⟨w1.of_good g, k1.trans g.keep⟩

theorem getObj_append_lt {s s' : Server} {c : Client} (ho : s'.objs = s.objs ++ [c]) (j : Nat)
    (hj : j < s.objs.length) : getObj s' j = getObj s j := by
  simp only [getObj, ho, List.getD_eq_getElem?_getD]
  rw [List.getElem?_append_left hj]

theorem getObj_append_eq {s s' : Server} {c : Client} (ho : s'.objs = s.objs ++ [c]) :
    getObj s' s.objs.length = c := by
  simp only [getObj, ho, List.getD_eq_getElem?_getD]
  rw [List.getElem?_append_right (Nat.le_refl _), Nat.sub_self]
  rfl

/-- a new object and its connection-table entry under a fresh connection number -/
theorem WF.addObj {s : Server} (h : WF s) (c : Client) (conn : Nat) (hc : ObjWF c)
    (hf : conn ∉ s.connOf.map (·.1)) :
    WF { s with objs := s.objs ++ [c], connOf := s.connOf ++ [(conn, s.objs.length)] } := by
  have hlen : (s.objs ++ [c]).length = s.objs.length + 1 := by simp
  refine ⟨?_, ?_, ?_, ?_, h.clients_nodup, ?_⟩
  · intro x hx
    rcases List.mem_append.mp hx with hx | hx
    · exact h.objs x hx
    · rw [List.mem_singleton.mp hx]; exact hc
  · intro id i hm
    have := h.clients_valid id i hm
    refine ⟨by show i < (s.objs ++ [c]).length; omega, ?_⟩
    rw [getObj_append_lt (s := s) rfl i this.1]
    exact this.2
  · intro n i hm
    show i < (s.objs ++ [c]).length
    rcases List.mem_append.mp hm with hm | hm
    · have := h.conn_valid n i hm; omega
    · cases List.mem_singleton.mp hm; omega
  · intro p hp
    have := h.pending_valid p hp
    refine ⟨by show p.obj < (s.objs ++ [c]).length; omega, ?_⟩
    rw [getObj_append_lt (s := s) rfl p.obj this.1]
    exact this.2
  · show ((s.connOf ++ [(conn, s.objs.length)]).map (·.1)).Nodup
    rw [List.map_append, List.nodup_append]
    refine ⟨h.conn_nodup, List.nodup_cons.mpr ⟨List.not_mem_nil, List.nodup_nil⟩, ?_⟩
    intro a ha b hb hab
    rw [List.map_cons, List.map_nil, List.mem_singleton] at hb
    subst hb; subst hab
    exact hf ha

/-- a handler is parked inside `attachClient` -/
theorem WF.addPending {s : Server} (h : WF s) (p : Pending) (hi : p.obj < s.objs.length)
    (hid : (getObj s p.obj).id = p.k.id) : WF { s with pending := s.pending ++ [p] } := by
  refine ⟨h.objs, h.clients_valid, h.conn_valid, ?_, h.clients_nodup, h.conn_nodup⟩
  intro q hq
  rcases List.mem_append.mp hq with hq | hq
  · exact h.pending_valid q hq
  · rw [List.mem_singleton.mp hq]; exact ⟨hi, hid⟩

/-- parked handlers are released -/
theorem WF.filterPending {s : Server} (h : WF s) (f : Pending → Bool) : WF { s with pending := s.pending.filter f } :=
  ⟨h.objs, h.clients_valid, h.conn_valid, fun p hp => h.pending_valid p (List.mem_filter.mp hp).1,
   h.clients_nodup, h.conn_nodup⟩

theorem parseConnect_wf (s : Server) (conn : Nat) (k : Connect) : ObjWF (parseConnect s conn k) :=
  ⟨List.nodup_nil, Nat.le_refl _, Nat.le_refl _⟩

theorem parseConnect_id (s : Server) (conn : Nat) (k : Connect) : (parseConnect s conn k).id = k.id := rfl

theorem connect_wf (s : Server) (conn : Nat) (k : Connect) (h : WF s) (hf : conn ∉ s.connOf.map (·.1)) :
    WF (connect s conn k).1 := by
  unfold connect
  extract_lets +onlyGivenNames c i s1
  have w1 : WF s1 := h.addObj c conn (parseConnect_wf s conn k) hf
  have hi : i < s1.objs.length := by
    show s.objs.length < (s.objs ++ [c]).length
    simp
  have hid : (getObj s1 i).id = k.id := by
    rw [getObj_append_eq (s := s) (s' := s1) (c := c) rfl]
    rfl
  split
  · split
    rename_i s2 o2 h2
    have := stopClient_good s1 i
    rw [h2] at this
    exact w1.of_good this
  · exact (admitClient_wf s1 i conn k w1 hi hid).1

theorem ite_fst_prop {P : Server → Prop} {α} (c : Prop) [Decidable c] (a b : Server × α) (ha : P a.1) (hb : P b.1) :
    P (if c then a else b).1 := by
  split <;> assumption

theorem connectHold_wf (s : Server) (conn : Nat) (k : Connect) (stage : Nat) (h : WF s)
    (hf : conn ∉ s.connOf.map (·.1)) : WF (connectHold s conn k stage).1 := by
  unfold connectHold
  extract_lets +onlyGivenNames c i s1 dec
  have w1 : WF s1 := h.addObj c conn (parseConnect_wf s conn k) hf
  have hi : i < s1.objs.length := by
    show s.objs.length < (s.objs ++ [c]).length
    simp
  have hid : (getObj s1 i).id = k.id := by
    rw [getObj_append_eq (s := s) (s' := s1) (c := c) rfl]
    rfl
  generalize dec = d
  cases d with
  | some code =>
    refine ite_fst_prop (P := WF) _ _ _ ?_ ?_
    · refine WF.addPending w1 _ ?_ ?_
      · exact hi
      · exact hid
    · extract_lets +onlyGivenNames o
      split
      rename_i s2 o2 h2
      have := stopClient_good s1 i
      rw [h2] at this
      exact w1.of_good this
  | none =>
    refine ite_fst_prop (P := WF) _ _ _ ?_ ?_
    · refine WF.addPending w1 _ ?_ ?_
      · exact hi
      · exact hid
    · split
      rename_i s2 o1 present exLive h1
      have w2 : WF s2 := by
        have := admitA_wf s1 i k w1 hi hid
        rw [h1] at this; exact this
      have k2 : Keep s1 s2 := by
        have := admitA_keep s1 i k
        rw [h1] at this; exact this
      split
      rename_i s3 o4 h3
      have g3 : Good s2 s3 := by
        split at h3
        · rename_i e
          have := detach_good s2 e true
          rw [h3] at this; exact this
        · cases h3; exact Good.refl _
      have k3 := k2.trans g3.keep
      refine (w2.of_good g3).addPending _ ?_ ?_
      · show i < s3.objs.length
        rw [k3.len]; exact hi
      · show (getObj s3 i).id = k.id
        rw [k3.ids]; exact hid

theorem connectRelease_wf (s : Server) (p : Pending) (h : WF s) (hi : p.obj < s.objs.length)
    (hid : (getObj s p.obj).id = p.k.id) :
    WF (connectRelease s p).1 ∧ Keep s (connectRelease s p).1 := by
  unfold connectRelease
  split
  · split
    · split
      rename_i s2 o2 h2
      have := stopClient_good s p.obj
      rw [h2] at this
      exact ⟨h.of_good this, this.keep⟩
    · exact admitClient_wf s p.obj p.conn p.k h hi hid
  · split
    · have g : Good s { s with info := { s.info with connected := s.info.connected - 1 } } :=
        (Good.refl s).upd rfl rfl rfl rfl
      exact ⟨h.of_good g, g.keep⟩
    · split
      rename_i s2 o2 h2
      have g2 : Good s s2 := by
        have := admitConnack_good s p.obj p.conn p.present
        rw [h2] at this; exact this
      split
      rename_i s3 o3 h3
      have g3 : Good s2 s3 := by
        have := admitC_good s2 p.obj p.k p.present
        rw [h3] at this; exact this
      have g := g2.trans g3
      exact ⟨h.of_good g, g.keep⟩

/-! ### housekeeping -/

theorem tickClients_good (s : Server) (dt : Int) : Good s (tickClients s dt).1 := by
  unfold tickClients
  refine foldl_inv (fun (acc : Server × List Out) => Good s acc.1) _ _ _ (Good.refl s) ?_
  intro acc e h
  extract_lets +onlyGivenNames c
  split
  · extract_lets +onlyGivenNames s1 s2
    exact ((h.trans (clearInflights_good acc.1 e.2)).trans (unsubscribeClient_good s1 e.2)).delClient _
  · exact h

theorem tickRetained_good (s : Server) (now : Int) : Good s (tickRetained s now) := by
  unfold tickRetained
  extract_lets +onlyGivenNames s1
  refine Good.upd (s := s1) ?_ rfl rfl rfl rfl
  show Good s (tickRetained.tickRetainedLoop s now)
  unfold tickRetained.tickRetainedLoop
  refine foldl_inv (fun (x : Server) => Good s x) _ _ _ (Good.refl s) ?_
  intro b e h
  extract_lets +onlyGivenNames pk expired enforced
  split
  · exact h.upd rfl rfl rfl rfl
  · exact h

theorem tickInflight_good (s : Server) (now : Int) : Good s (tickInflight s now) := by
  unfold tickInflight
  refine foldl_inv (fun (x : Server) => Good s x) _ _ _ (Good.refl s) ?_
  intro b e h
  extract_lets +onlyGivenNames c
  refine foldl_inv (fun (x : Server) => Good s x) _ _ _ h ?_
  intro b2 m h2
  extract_lets +onlyGivenNames expired enforced
  split
  · split
    rename_i c' ok heq
    extract_lets +onlyGivenNames s1
    have hc' : CW (getObj b2 e.2) c' := by
      have := CW.flDelete' (getObj b2 e.2) m.id
      rw [heq] at this
      exact this
    have h3 : Good s s1 := h2.set e.2 c' hc'
    split
    · exact h3.upd rfl rfl rfl rfl
    · exact h3
  · exact h2

theorem tickWills_good (s : Server) (dt : Int) : Good s (tickWills s dt).1 := by
  unfold tickWills
  refine foldl_inv (fun (acc : Server × List Out) => Good s acc.1) _ _ _ (Good.refl s) ?_
  intro acc e h
  split
  · split
    rename_i s1 o h1
    have g1 : Good s s1 := by
      have := publishToSubscribers_good acc.1 e.2
      rw [h1] at this
      exact h.trans this
    split
    rename_i s2 o2 h2
    have g2 : Good s s2 := by
      split at h2
      · rename_i i _
        extract_lets +onlyGivenNames s3 at h2
        rw [← (Prod.mk.inj h2).1]
        have g3 : Good s s3 := by
          show Good s (if e.2.retain = true then retainMsg s1 e.2 else s1)
          split
          · exact g1.trans (retainMsg_good s1 e.2)
          · exact g1
        exact g3.mod i _ (by cw_rfl)
      · cases h2; exact g1
    exact g2.upd rfl rfl rfl rfl
  · exact h

/-! ### `init`, `step`, `run` -/

theorem WF_init (caps : Caps) : WF (init caps) := by
  refine ⟨?_, ?_, ?_, ?_, ?_, ?_⟩
  · intro c hc
    have : c = _ := List.mem_singleton.mp hc
    subst this
    exact ⟨List.nodup_nil, Nat.le_refl _, Nat.le_refl _⟩
  · intro id i hm
    have : (id, i) = (inlineID, 0) := List.mem_singleton.mp hm
    cases this
    exact ⟨Nat.zero_lt_one, rfl⟩
  · intro n i hm; cases hm
  · intro p hp; cases hp
  · exact List.nodup_cons.mpr ⟨List.not_mem_nil, List.nodup_nil⟩
  · exact List.nodup_nil

/-- the PINGREQ barrier after a connection is established -/
theorem barrier_wf {s1 : Server} {o : List Out} (conn : Nat) (b : Bool) (w1 : WF s1) :
    WF (if b = true then
          match recvOn s1 conn InPk.pingreq false with
          | (s, o2) => (s, o ++ o2.filter (fun x => match x with | .wrote _ .pingresp => false | _ => true))
        else (s1, o)).1 := by
  split
  · split
    rename_i s2 o2 h2
    have := recvOn_good s1 conn .pingreq false
    rw [h2] at this
    exact w1.of_good this
  · exact w1

theorem step_connect_wf (s : Server) (conn : Nat) (k : Connect) (h : WF s) (hf : conn ∉ s.connOf.map (·.1)) :
    WF (step s (.connect conn k)).1 := by
  rw [step]
  split
  rename_i s1 o h1
  have w1 : WF s1 := by
    have := connect_wf s conn k h hf
    rw [h1] at this; exact this
  split
  · exact barrier_wf conn _ w1
  · exact w1

theorem step_recvCut_good (s : Server) (conn : Nat) (pk : InPk) : Good s (step s (.recvCut conn pk)).1 := by
  rw [step]
  split
  · exact Good.refl s
  · rename_i i _
    split
    · exact Good.refl s
    · extract_lets +onlyGivenNames s1
      have g1 : Good s s1 := (Good.refl s).mod i _ (by cw_rfl)
      split
      rename_i s2 o h2
      have g2 : Good s s2 := by
        have := recvOn_good s1 conn pk false
        rw [h2] at this
        exact g1.trans this
      split
      rename_i s3 o2 h3
      show Good s s3
      split at h3
      · cases h3; exact g2
      · have := detach_good s2 i true
        rw [h3] at this
        exact g2.trans this

theorem step_drop_good (s : Server) (conn : Nat) : Good s (step s (.drop conn)).1 := by
  rw [step]
  split
  · exact Good.refl s
  · rename_i i _
    split
    · exact Good.refl s
    · extract_lets +onlyGivenNames s1
      have g1 : Good s s1 := (Good.refl s).mod i _ (by cw_rfl)
      split
      rename_i s2 o h2
      have := detach_good s1 i true
      rw [h2] at this
      exact g1.trans this

theorem step_dropHold_good (s : Server) (conn : Nat) : Good s (step s (.dropHold conn)).1 := by
  rw [step]
  split
  · exact Good.refl s
  · rename_i i _
    split
    · exact Good.refl s
    · extract_lets +onlyGivenNames s1
      have g1 : Good s s1 := (Good.refl s).mod i _ (by cw_rfl)
      split
      rename_i s2 o h2
      have := detachA_good s1 i true
      rw [h2] at this
      exact (g1.trans this).upd rfl rfl rfl rfl

theorem step_dropHoldEarly_good (s : Server) (conn : Nat) : Good s (step s (.dropHoldEarly conn)).1 := by
  rw [step]
  split
  · exact Good.refl s
  · rename_i i _
    split
    · exact Good.refl s
    · have g0 : Good s { s with parkedEarly := s.parkedEarly ++ [i] } := (Good.refl s).upd rfl rfl rfl rfl
      exact g0.mod i (fun c => { c with peerGone := true }) (by cw_rfl)

theorem step_release_wf (s : Server) (conn : Nat) (h : WF s) : WF (step s (.release conn)).1 := by
  rw [step]
  split
  · rename_i p hp
    have hmem : p ∈ s.pending := List.mem_of_find?_eq_some hp
    have hv := h.pending_valid p hmem
    have w0 : WF { s with pending := s.pending.filter (·.conn != conn) } := h.filterPending _
    split
    rename_i s1 o h1
    have w1 : WF s1 := by
      have := (connectRelease_wf _ p w0 hv.1 hv.2).1
      rw [h1] at this; exact this
    exact barrier_wf conn _ w1
  · split
    · exact h
    · rename_i i _
      split
      · have g0 : Good s { s with parked := s.parked.filter (· != i) } := (Good.refl s).upd rfl rfl rfl rfl
        exact h.of_good (g0.trans (detachB_good _ i))
      · split
        · split
          rename_i s1 o h1
          have g0 : Good s { s with parkedEarly := s.parkedEarly.filter (· != i) } := (Good.refl s).upd rfl rfl rfl rfl
          have := detach_good { s with parkedEarly := s.parkedEarly.filter (· != i) } i true
          rw [h1] at this
          have g1 : Good s s1 := g0.trans this
          exact h.of_good g1
        · exact h

theorem step_tick_good (s : Server) (kind : String) (t : Int) : Good s (step s (.tick kind t)).1 := by
  rw [step]
  split
  · exact tickClients_good s t
  · split
    · exact tickRetained_good s t
    · split
      · exact tickInflight_good s t
      · split
        · exact tickWills_good s t
        · exact Good.refl s

theorem step_inlinePublish_good (s : Server) (topic payload : Str) (retain : Bool) (qos : Nat) :
    Good s (step s (.inlinePublish topic payload retain qos)).1 := by
  rw [step]
  exact receivePacket_good s 0 _

theorem step_inlineSubscribe_good (s : Server) (id : Nat) (filter : Str) :
    Good s (step s (.inlineSubscribe id filter)).1 := by
  rw [step]
  split
  · exact Good.refl s
  · exact (Good.refl s).upd rfl rfl rfl rfl

theorem step_inlineUnsubscribe_good (s : Server) (id : Nat) (filter : Str) :
    Good s (step s (.inlineUnsubscribe id filter)).1 := by
  rw [step]
  split
  · exact Good.refl s
  · exact (Good.refl s).upd rfl rfl rfl rfl

/-- **the invariant is kept by every op** -/
theorem WF_step (s : Server) (op : Op) (h : WF s) (hfresh : OpFresh s op) : WF (step s op).1 := by
  cases op with
  | connect conn k => exact step_connect_wf s conn k h hfresh
  | recv conn pk =>
    rw [step]
    exact h.of_good (recvOn_good s conn pk true)
  | drop conn => exact h.of_good (step_drop_good s conn)
  | recvCut conn pk => exact h.of_good (step_recvCut_good s conn pk)
  | dropHold conn => exact h.of_good (step_dropHold_good s conn)
  | release conn => exact step_release_wf s conn h
  | dropHoldEarly conn => exact h.of_good (step_dropHoldEarly_good s conn)
  | connectHold conn k stage =>
    rw [step]
    exact connectHold_wf s conn k stage h hfresh
  | tick kind t => exact h.of_good (step_tick_good s kind t)
  | inlinePublish topic payload retain qos => exact h.of_good (step_inlinePublish_good s topic payload retain qos)
  | inlineSubscribe id filter => exact h.of_good (step_inlineSubscribe_good s id filter)
  | inlineUnsubscribe id filter => exact h.of_good (step_inlineUnsubscribe_good s id filter)

theorem WF_run_from (s : Server) (ops : List Op) (h : WF s) (hf : OpsFresh s ops) : WF (run s ops) := by
  induction ops generalizing s with
  | nil => exact h
  | cons op ops ih =>
    show WF (run (step s op).1 ops)
    exact ih _ (WF_step s op h hf.1) hf.2

/-- **the invariant holds after every history** -/
theorem WF_run (caps : Caps) (ops : List Op) (h : OpsFresh (init caps) ops) : WF (run (init caps) ops) :=
  WF_run_from _ ops (WF_init caps) h


/-! ### per-handler corollaries on `WF` (each handler keeps the invariant) -/

theorem publishToClientCore_wf (s : Server) (i : Nat) (sub : Sub) (f : Bool) (pk : Msg) (h : WF s) :
    WF (publishToClientCore s i sub f pk).1 := h.of_good (publishToClientCore_good s i sub f pk)
theorem publishToClient_wf (s : Server) (i : Nat) (sub : Sub) (f : Bool) (pk : Msg) (h : WF s) :
    WF (publishToClient s i sub f pk).1 := h.of_good (publishToClient_good s i sub f pk)
theorem publishToSubscribers_wf (s : Server) (pk : Msg) (h : WF s) : WF (publishToSubscribers s pk).1 :=
  h.of_good (publishToSubscribers_good s pk)
theorem publishRetainedToClient_wf (s : Server) (i : Nat) (sub : Sub) (ex : Bool) (k : Nat) (h : WF s) :
    WF (publishRetainedToClient s i sub ex k).1 := h.of_good (publishRetainedToClient_good s i sub ex k)
theorem retainMsg_wf (s : Server) (pk : Msg) (h : WF s) : WF (retainMsg s pk) := h.of_good (retainMsg_good s pk)
theorem stopClient_wf (s : Server) (i : Nat) (h : WF s) : WF (stopClient s i).1 := h.of_good (stopClient_good s i)
theorem disconnectClient_wf (s : Server) (i code : Nat) (h : WF s) : WF (disconnectClient s i code).1 :=
  h.of_good (disconnectClient_good s i code)
theorem unsubscribeClient_wf (s : Server) (i : Nat) (h : WF s) : WF (unsubscribeClient s i) :=
  h.of_good (unsubscribeClient_good s i)
theorem clearInflights_wf (s : Server) (i : Nat) (h : WF s) : WF (clearInflights s i) :=
  h.of_good (clearInflights_good s i)
theorem sendLWT_wf (s : Server) (i : Nat) (h : WF s) : WF (sendLWT s i).1 := h.of_good (sendLWT_good s i)
theorem processPublish_wf (s : Server) (i : Nat) (qos : Nat) (dup retain : Bool) (id : Nat) (topic payload : Str)
    (msgExpiry : Nat) (alias : Option Nat) (h : WF s) :
    WF (processPublish s i qos dup retain id topic payload msgExpiry alias).1 :=
  h.of_good (processPublish_good s i qos dup retain id topic payload msgExpiry alias)
theorem processPuback_wf (s : Server) (i id : Nat) (h : WF s) : WF (processPuback s i id).1 :=
  h.of_good (processPuback_good s i id)
theorem processPubrec_wf (s : Server) (i id rc : Nat) (h : WF s) : WF (processPubrec s i id rc).1 :=
  h.of_good (processPubrec_good s i id rc)
theorem processPubrel_wf (s : Server) (i id rc : Nat) (h : WF s) : WF (processPubrel s i id rc).1 :=
  h.of_good (processPubrel_good s i id rc)
theorem processPubcomp_wf (s : Server) (i id : Nat) (h : WF s) : WF (processPubcomp s i id).1 :=
  h.of_good (processPubcomp_good s i id)
theorem processSubscribe_wf (s : Server) (i id subId : Nat) (filters : List Sub) (h : WF s) :
    WF (processSubscribe s i id subId filters).1 := h.of_good (processSubscribe_good s i id subId filters)
theorem processUnsubscribe_wf (s : Server) (i id : Nat) (filters : List Str) (h : WF s) :
    WF (processUnsubscribe s i id filters).1 := h.of_good (processUnsubscribe_good s i id filters)
theorem processDisconnect_wf (s : Server) (i rc : Nat) (sei : Option Nat) (h : WF s) :
    WF (processDisconnect s i rc sei).1 := h.of_good (processDisconnect_good s i rc sei)
theorem nextImmediate_wf (s : Server) (i : Nat) (h : WF s) : WF (nextImmediate s i).1 :=
  h.of_good (nextImmediate_good s i)
theorem receivePacket_wf (s : Server) (i : Nat) (pk : InPk) (h : WF s) : WF (receivePacket s i pk).1 :=
  h.of_good (receivePacket_good s i pk)
theorem detachA_wf (s : Server) (i : Nat) (b : Bool) (h : WF s) : WF (detachA s i b).1 := h.of_good (detachA_good s i b)
theorem detachB_wf (s : Server) (i : Nat) (h : WF s) : WF (detachB s i) := h.of_good (detachB_good s i)
theorem detach_wf (s : Server) (i : Nat) (b : Bool) (h : WF s) : WF (detach s i b).1 := h.of_good (detach_good s i b)
theorem recvOn_wf (s : Server) (c : Nat) (pk : InPk) (b : Bool) (h : WF s) : WF (recvOn s c pk b).1 :=
  h.of_good (recvOn_good s c pk b)
theorem admitConnack_wf (s : Server) (i conn : Nat) (p : Bool) (h : WF s) : WF (admitConnack s i conn p).1 :=
  h.of_good (admitConnack_good s i conn p)
theorem admitC_wf (s : Server) (i : Nat) (k : Connect) (p : Bool) (h : WF s) : WF (admitC s i k p).1 :=
  h.of_good (admitC_good s i k p)
theorem tickClients_wf (s : Server) (dt : Int) (h : WF s) : WF (tickClients s dt).1 := h.of_good (tickClients_good s dt)
theorem tickRetained_wf (s : Server) (t : Int) (h : WF s) : WF (tickRetained s t) := h.of_good (tickRetained_good s t)
theorem tickInflight_wf (s : Server) (t : Int) (h : WF s) : WF (tickInflight s t) := h.of_good (tickInflight_good s t)
theorem tickWills_wf (s : Server) (dt : Int) (h : WF s) : WF (tickWills s dt).1 := h.of_good (tickWills_good s dt)
theorem step_wf (s : Server) (op : Op) (h : WF s) (hfresh : OpFresh s op) : WF (step s op).1 := WF_step s op h hfresh

/-! ### a concrete history (non-vacuity of the history-quantified corollaries in `Props/C10`, `Props/C11`)

A subscriber with Receive Maximum 1 (connection 1), a publisher whose CONNECT is parked in the
authentication hook and released (connection 2), three QoS 1 publishes: the first is delivered, the second
is deferred by Receive Maximum 1 and released by the subscriber's PUBACK, the third is deferred again. -/
def demoHistory : List Op :=
  [.connect 1 { ver := 5, id := [115], rm := some 1 },
   .recv 1 (.subscribe 1 0 [{ filter := [116], qos := 1 }]),
   .connectHold 2 { ver := 5, id := [112] } 1,
   .release 2,
   .recv 2 (.publish 1 false false 1 [116] [97] 0 none),
   .recv 2 (.publish 1 false false 2 [116] [98] 0 none),
   .recv 1 (.puback 1 0),
   .recv 2 (.publish 1 false false 3 [116] [99] 0 none)]

example : OpsFresh (init {}) demoHistory := by decide
/-- after the sixth op: id 1 delivered, id 2 deferred (`expiry = -1`) by Receive Maximum 1 -/
example : ((getObj (run (init {}) (demoHistory.take 6)) 1).inflight.map (fun m => (m.id, m.expiry))) =
    [(1, 1086400), (2, -1)] := by decide
/-- a connection number used twice is not fresh -/
example : ¬ OpsFresh (init {}) [.connect 1 { id := [97] }, .connect 1 { id := [98] }] := by decide

end Mochi.Broker
